//go:build verif

package main

import (
	"context"
	"fmt"
	"math"
	"strings"
	"sync"

	"github.com/NethermindEth/juno/db/memory"
	"github.com/NethermindEth/juno/pruner"
	"verif/harness/lib"
)

const hugeBatch = 1 << 30

// probeVariant finds out which prune procedure the tree under test implements by looking at the
// first batch PruneUpto writes with a 1-byte threshold: only hash-keyed point deletes (orig), or
// point deletes together with the range deletes of PruneBlockDataUpto (fixed).
func probeVariant() (fixed bool, note string, err error) {
	ch := newChain(lib.NewRNG(1), false, lib.DefaultGenOptions())
	node, d := lib.NewNode(ch.g.Net, false)
	for i := 0; i < 6; i++ {
		b, err := ch.next(true)
		if err != nil {
			return false, "", err
		}
		if err := lib.StoreOn(node, b); err != nil {
			return false, "", err
		}
	}
	h := newHookDB(d)
	var shapes []writeInfo
	h.arm(nil, func(w writeInfo) { shapes = append(shapes, w) })
	if _, _, err := pruner.PruneUpto(context.Background(), h, 4, 1); err != nil {
		return false, "", fmt.Errorf("PruneUpto on the probe chain: %w", err)
	}
	if len(shapes) == 0 {
		return false, "", fmt.Errorf("PruneUpto wrote nothing on the probe chain")
	}
	fixed = shapes[0].HasRange
	return fixed, fmt.Sprintf("first of %d batches has range deletes: %v", len(shapes), fixed), nil
}

// ---------------------------------------------------------------------------------------------
// shared chains and base images
// ---------------------------------------------------------------------------------------------

type baseImage struct {
	ch     *chain
	db     *memory.Database
	height int
	lines  []string
}

var (
	baseMu sync.Mutex
	bases  = map[string]*baseImage{}
)

// getBase builds (once) a chain of `total` blocks and a node image holding the first `stored`.
func getBase(key string, seed uint64, newState, plain bool, total, stored int) (*baseImage, error) {
	baseMu.Lock()
	defer baseMu.Unlock()
	if b, ok := bases[key]; ok {
		return b, nil
	}
	opt := lib.DefaultGenOptions()
	ch := newChain(lib.NewRNG(seed), newState, opt)
	ch.clean = strings.HasPrefix(key, "clean/")
	node, d := lib.NewNode(ch.g.Net, newState)
	b := &baseImage{ch: ch, db: d, height: stored - 1}
	for i := 0; i < total; i++ {
		bd, err := ch.next(plain)
		if err != nil {
			return nil, fmt.Errorf("generator: %w", err)
		}
		if i < stored {
			if err := lib.StoreOn(node, bd); err != nil {
				return nil, fmt.Errorf("base image: store %d: %w", i, err)
			}
			b.lines = append(b.lines, "store")
		}
	}
	bases[key] = b
	return b, nil
}

// cloneWorld starts a node process on a copy of the base image.
func cloneWorld(e *env, b *baseImage, pcfg prunerCfg, cutoff uint64, name string, spec any) *world {
	w := &world{res: e.res, ch: b.ch, name: name, spec: spec, drv: e.drv, fdrv: e.fdrv, fixed: e.fixed, mig: e.mig, pcfg: pcfg,
		height: b.height, l1: -1, cutoff: cutoff, situation: "steady", quiescent: true}
	w.nodeDB = b.db.Copy()
	w.shadowDB = b.db.Copy()
	w.shadow = lib.NodeOn(w.shadowDB, b.ch.g.Net, b.ch.newState)
	w.ops = append(w.ops, opRec{Op: "base", N: uint64(b.height + 1), Note: "blocks stored before the pruner starts"})
	lines := []string{w.cfgLine()}
	if cutoff > 0 {
		// the model records a block's timestamp when the block is stored
		lines = append(lines, w.tsLine())
		w.tsSent = len(b.ch.g.Bundles)
	}
	lines = append(lines, b.lines...)
	outs, err := w.drv.AskAll(lines)
	if err != nil || len(outs) != len(lines) {
		w.harnessFailed("model driver: %v (%d of %d answers)", err, len(outs), len(lines))
		return w
	}
	w.lines = lines
	w.openNode(true)
	w.clock(w.procCutoff)
	if o := w.ask("crash 1"); o != "ok" {
		w.mismatch("restart", "clone", o, "ok")
	}
	w.sampleTie("clone")
	return w
}

func (w *world) ts(n uint64) uint64 {
	if int(n) < len(w.ch.g.Bundles) {
		return w.ch.g.Bundles[n].Block.Timestamp
	}
	return 0
}

// ---------------------------------------------------------------------------------------------
// scenarios
// ---------------------------------------------------------------------------------------------

func allJobs(f lib.Flags) []job {
	var jobs []job
	jobs = append(jobs, leadJobs(f)...)
	jobs = append(jobs, bloomJobs(f)...) // the long ones first, they overlap with everything else
	jobs = append(jobs, arithJobs(f)...)
	jobs = append(jobs, batchJobs(f)...)
	jobs = append(jobs, minAgeJobs(f)...)
	jobs = append(jobs, reviewJobs(f)...)
	jobs = append(jobs, reorgJobs(f)...)
	jobs = append(jobs, migrationJobs(f)...)
	jobs = append(jobs, restageJobs(f)...)
	jobs = append(jobs, retargetJobs(f)...)
	jobs = append(jobs, pureJobs(f)...)
	jobs = append(jobs, randomJobs(f)...)
	return jobs
}

// --- the 8192-block event-index windows ----------------------------------------------------------------

const bloomW = 8192

func bloomJobs(f lib.Flags) []job {
	var jobs []job
	for _, ns := range []bool{false, true} {
		ns := ns
		name := jobName("bloom-window/new=%v", ns)
		jobs = append(jobs, job{name: name, run: func(e *env) { bloomWindow(e, name, ns) }})
	}
	return jobs
}

// bloomBase: one chain of 2*8192+14 bare blocks (events in a few blocks of every window) and two node
// images taken while storing it: head in window 1 (8200 blocks) and head in window 2 (2*8192+6 blocks).
// The model starts from the closed form `bulk k` (Props.bulk_is_k_stores).
func bloomBase(newState bool) (b1, b2 *baseImage, err error) {
	baseMu.Lock()
	defer baseMu.Unlock()
	k1, k2 := fmt.Sprintf("bloom1/%v", newState), fmt.Sprintf("bloom2/%v", newState)
	if b, ok := bases[k2]; ok {
		return bases[k1], b, nil
	}
	ch := newChain(lib.NewRNG(77), newState, lib.DefaultGenOptions())
	node, d := lib.NewNode(ch.g.Net, newState)
	evBlocks := map[int]bool{60: true, 8150: true, 8191: true, 8192: true, 8193: true, 8199: true, 8230: true, 8243: true,
		8300: true, 12000: true, 16383: true, 16384: true, 16386: true, 16389: true, 16391: true}
	const n1, n2, total = 8200, 2*bloomW + 6, 2*bloomW + 14
	for i := 0; i < total; i++ {
		bd, err := ch.nextBare(evBlocks[i])
		if err != nil {
			return nil, nil, fmt.Errorf("generator: %w", err)
		}
		if i < n2 {
			if err := lib.StoreOn(node, bd); err != nil {
				return nil, nil, fmt.Errorf("base image: store %d: %w", i, err)
			}
		}
		if i == n1-1 {
			b1 = &baseImage{ch: ch, db: d.Copy(), height: n1 - 1, lines: []string{fmt.Sprintf("bulk %d", n1)}}
		}
	}
	b2 = &baseImage{ch: ch, db: d, height: n2 - 1, lines: []string{fmt.Sprintf("bulk %d", n2)}}
	bases[k1], bases[k2] = b1, b2
	return b1, b2, nil
}

// An UNALIGNED floor inside an already persisted window: that window's aggregated filter indexes retained
// blocks and must survive the prune (event queries over the retained blocks read it through the cache
// fallback; reverting the head back across the window boundary reloads it). Floors: block 50 with the head
// in window 1; block 8242 with the head in window 2; then an aligned floor (16384). In between: filtered and
// unfiltered event queries from every retained block of interest vs the twin, revert across every window
// boundary above the floor and re-extend, restart.
func bloomWindow(e *env, name string, newState bool) {
	b1, b2, err := bloomBase(newState)
	if err != nil {
		e.res.Fatalf("%s: base image: %v", name, err)
		return
	}
	type cfg struct {
		base  *baseImage
		l1    uint64
		extra []uint64
	}
	cases := []cfg{
		{b1, 52, []uint64{50, 51, 60, 8150, 8191, 8192, 8193}},
		{b2, bloomW + 52, []uint64{8242, 8243, 8300, 12000, 16383, 16384, 16385, 16386}},
	}
	for _, c := range cases {
		w := cloneWorld(e, c.base, prunerCfg{Retained: 2, L2PerPrune: 1, BatchBytes: hugeBatch}, 0, name,
			map[string]any{"l1": c.l1, "head": c.base.height})
		w.noState = true
		w.extra = map[uint64]bool{}
		for _, x := range c.extra {
			w.extra[x] = true
		}
		// Before the prune the node stores a block, as a syncing node does: that initialises the running event
		// filter of this process (a filter initialised only AFTER the prune would be rebuilt from the floor and
		// re-persist the windows on its way). No query before the prune: the in-memory cache of persisted
		// filters stays cold, so the event queries after it read the persisted windows through the fallback.
		w.store()
		w.writeL1(c.l1)
		w.event("l1", c.l1, 0, noPlan())
		w.observe() // same process: nothing cached yet, the persisted windows are read from disk
		// revert the head back across every window boundary above the floor, then re-extend
		top := w.height
		floorWin := int(c.l1-2) / bloomW
		for w.height >= (floorWin+1)*bloomW-1 && uint64(w.height) > w.fspec+1 {
			crossing := (w.height+1)%bloomW == 0
			if !w.revert() {
				break
			}
			if crossing {
				w.observe()
			}
		}
		w.observe()
		for w.height < top {
			if !w.store() {
				break
			}
		}
		w.observe()
		w.restart("orderly")
		w.situation = "steady"
		w.observe()
		// once more after the restart (running filter rebuilt from the floor)
		for w.height >= (floorWin+1)*bloomW-1 && uint64(w.height) > w.fspec+1 {
			if !w.revert() {
				break
			}
		}
		w.observe()
		for w.height < top+2 && w.height+1 < w.ch.g.Height() {
			if !w.store() {
				break
			}
		}
		w.observe()
		if c.base == b2 {
			// an aligned floor: every window below it goes, none above
			w.writeL1(2*bloomW + 2)
			w.event("l1", 2*bloomW+2, 0, noPlan())
			w.observe()
		}
		w.close()
	}
}

// --- floor arithmetic: every (retained, L1 head, event) over a 14-block chain --------------------

func arithJobs(f lib.Flags) []job {
	retained := []uint64{0, 1, 2, 3, 10, 12, 13, 14, 1 << 63, math.MaxUint64}
	var jobs []job
	for _, ns := range []bool{false, true} {
		for _, r := range retained {
			ns, r := ns, r
			name := jobName("arith/new=%v/retained=%d", ns, r)
			jobs = append(jobs, job{name: name, run: func(e *env) { arith(e, name, ns, r) }})
		}
	}
	return jobs
}

func arith(e *env, name string, newState bool, retained uint64) {
	base, err := getBase(fmt.Sprintf("plain/%v", newState), 11, newState, true, 18, 14)
	if err != nil {
		e.res.Fatalf("%s: base image: %v", name, err)
		return
	}
	head := uint64(base.height)
	l1s := []int64{-1, 0, 2, 9, 11, 12, 13, 14, 20}
	for _, l1 := range l1s {
		for _, l2pp := range []uint64{1, 2} {
			for _, batch := range []int{1, hugeBatch} {
				if l2pp == 2 && batch == 1 {
					continue
				}
				spec := map[string]any{"l1": l1, "l2_heads_per_prune": l2pp, "batch": batch}
				w := cloneWorld(e, base, prunerCfg{Retained: retained, L2PerPrune: l2pp, BatchBytes: batch}, 0, name, spec)
				if l1 >= 0 {
					w.writeL1(uint64(l1))
					w.event("l1", uint64(l1), 0, noPlan())
					w.observe()
				} else {
					// no L1 head recorded: neither path may prune
					w.event("l2", head, w.ts(head), noPlan())
					w.observe()
				}
				// new-head events for old, middle and head blocks (the feed may deliver late)
				for _, n := range []uint64{0, 3, head - 1, head} {
					for i := uint64(0); i < l2pp; i++ {
						w.event("l2", n, w.ts(n), noPlan())
					}
				}
				w.observe()
				// extend by two blocks, the L1 head follows: a resumed prune (start > 0, carve-outs)
				if w.store() && w.store() {
					w.event("l2", uint64(w.height), w.ts(uint64(w.height)), noPlan())
					if l1 >= 0 {
						w.writeL1(uint64(l1 + 2))
						w.event("l1", uint64(l1+2), 0, noPlan())
					}
					w.observe()
					// and can be reverted down to the floor, then extended again
					for uint64(w.height) > w.fspec && w.height > int(head)-1 {
						if !w.revert() {
							break
						}
					}
					w.observe()
					w.store()
					w.observe()
				}
				w.close()
			}
		}
	}
}

// --- interruption at every batch write ------------------------------------------------------------

func batchJobs(f lib.Flags) []job {
	var jobs []job
	seeds := []uint64{f.Seed}
	if f.Thorough() {
		seeds = []uint64{f.Seed, f.Seed + 1000, f.Seed + 2000}
	}
	for _, sd := range seeds {
		for _, ns := range []bool{false, true} {
			for _, batch := range []int{1, 300, hugeBatch} {
				for _, mode := range []string{"fail", "cancel", "store", "fork"} {
					ns, batch, mode, sd := ns, batch, mode, sd
					name := jobName("batches/seed=%d/new=%v/batch=%d/%s", sd, ns, batch, mode)
					jobs = append(jobs, job{name: name, run: func(e *env) { batches(e, name, sd, ns, batch, mode) }})
				}
			}
		}
	}
	return jobs
}

func batches(e *env, name string, seed uint64, newState bool, batch int, mode string) {
	base, err := getBase(fmt.Sprintf("rand/%d/%v", seed, newState), 100+seed, newState, false, 22, 17)
	if err != nil {
		e.res.Fatalf("%s: base image: %v", name, err)
		return
	}
	const retained, l1a = 2, 13 // first prune: keep 11 (header carve-out boundary: headers below 1 go)
	pc := prunerCfg{Retained: retained, L2PerPrune: 1, BatchBytes: batch}
	// how many batches does the uninterrupted prune write?
	w0 := cloneWorld(e, base, pc, 0, name, map[string]any{"mode": "baseline"})
	w0.writeL1(l1a)
	r0 := w0.event("l1", l1a, 0, noPlan())
	w0.observe()
	w0.close()
	if r0.Writes == 0 {
		e.res.Fatalf("%s: the baseline prune wrote no batch: the whole interruption family would be skipped", name)
		return
	}
	run := func(j int) {
		plan := noPlan()
		switch mode {
		case "fail":
			plan.FailAt = j
		case "cancel":
			plan.CancelAt = j
		case "store":
			plan.StoreAt = j
		case "fork":
			plan.ForkAll, plan.Observe = true, true
		}
		w := cloneWorld(e, base, pc, 0, name, map[string]any{"mode": mode, "at_batch": j})
		defer w.close()
		w.writeL1(l1a)
		w.event("l1", l1a, 0, plan)
		w.observe()
		// the next trigger resumes / repeats the prune
		w.event("l1", l1a, 0, noPlan())
		w.observe()
		// life goes on: more blocks, the L1 head advances, a second prune starting above 0
		for w.height+1 < w.ch.g.Height() && w.height < 19 {
			if !w.store() {
				return
			}
		}
		w.writeL1(l1a + 3)
		plan2 := noPlan()
		if mode == "fork" {
			plan2.ForkAll = true
		}
		w.event("l1", l1a+3, 0, plan2)
		w.observe()
		for i := 0; i < 2 && uint64(w.height) > w.fspec; i++ {
			if !w.revert() {
				return
			}
		}
		w.observe()
		w.store()
		w.observe()
		// the pruned database opened without prune mode: unseeded floor, no pruner; it still stores and reverts
		w.restartUnseeded()
		w.observe()
		if w.store() {
			w.observe()
		}
		if uint64(w.height) > w.fspec && w.revert() {
			w.observe()
		}
	}
	if mode == "fork" {
		run(0)
		return
	}
	for j := 0; j < r0.Writes; j++ {
		run(j)
	}
}

// --- the lead of DESIGN §7 L10, literally ---------------------------------------------------------

func leadJobs(f lib.Flags) []job {
	var jobs []job
	for _, ns := range []bool{false, true} {
		ns := ns
		name := jobName("lead-L10/new=%v", ns)
		jobs = append(jobs, job{name: name, run: func(e *env) { leadL10(e, name, ns) }})
		name2 := jobName("lead-interrupt-small/new=%v", ns)
		jobs = append(jobs, job{name: name2, run: func(e *env) { leadSmall(e, name2, ns) }})
	}
	return jobs
}

// The smallest histories that show an interrupted prune: 9 blocks, retained 0, L1 head 6 (prune [0,6)),
// 1-byte batch threshold; (a) the context is cancelled after the 2nd batch, restart; (b) a crash image after
// every batch, each restarted.
func leadSmall(e *env, name string, newState bool) {
	base, err := getBase(fmt.Sprintf("plain9/%v", newState), 13, newState, true, 10, 9)
	if err != nil {
		e.res.Fatalf("%s: base image: %v", name, err)
		return
	}
	for _, mode := range []string{"cancel", "crash"} {
		w := cloneWorld(e, base, prunerCfg{Retained: 0, L2PerPrune: 1, BatchBytes: 1}, 0, name, map[string]any{"mode": mode})
		w.writeL1(6)
		plan := noPlan()
		if mode == "cancel" {
			plan.CancelAt = 1
		} else {
			plan.ForkAll = true
		}
		w.event("l1", 6, 0, plan)
		w.observe()
		w.event("l1", 6, 0, noPlan())
		w.observe()
		w.close()
	}
}

// 30 blocks each rewriting one slot; retained 0, L1 head 20: prune [0,20) with a 1-byte batch threshold;
// the 4th batch commit fails; restart.
func leadL10(e *env, name string, newState bool) {
	base, err := getBase(fmt.Sprintf("plain30/%v", newState), 12, newState, true, 31, 30)
	if err != nil {
		e.res.Fatalf("%s: base image: %v", name, err)
		return
	}
	w := cloneWorld(e, base, prunerCfg{Retained: 0, L2PerPrune: 1, BatchBytes: 1}, 0, name, map[string]any{"fail_at_batch": 3})
	defer w.close()
	w.writeL1(20)
	plan := noPlan()
	plan.FailAt = 3
	w.event("l1", 20, 0, plan)
	w.observe()
	w.restart("after-failed-write")
	w.situation = "after-crash-mid-prune"
	w.observe()
	w.event("l1", 20, 0, noPlan())
	w.observe()
}

// --- min-age ---------------------------------------------------------------------------------------

func minAgeJobs(f lib.Flags) []job {
	var jobs []job
	for _, ns := range []bool{false, true} {
		for _, r := range []uint64{0, 2, 5} {
			ns, r := ns, r
			name := jobName("minage/new=%v/retained=%d", ns, r)
			jobs = append(jobs, job{name: name, run: func(e *env) { minAge(e, name, ns, r) }})
		}
	}
	return jobs
}

func minAge(e *env, name string, newState bool, retained uint64) {
	base, err := getBase(fmt.Sprintf("plain/%v", newState), 11, newState, true, 18, 14)
	if err != nil {
		e.res.Fatalf("%s: base image: %v", name, err)
		return
	}
	head := uint64(base.height)
	g := base.ch.g
	// cut-offs: before the chain, exactly at a block's timestamp, strictly between two blocks, after the chain
	var cutoffs []uint64
	cutoffs = append(cutoffs, g.Bundles[0].Block.Timestamp-5)
	for _, k := range []int{1, 6, 11, 13} {
		cutoffs = append(cutoffs, g.Bundles[k].Block.Timestamp)
		if g.Bundles[k].Block.Timestamp-g.Bundles[k-1].Block.Timestamp > 1 {
			cutoffs = append(cutoffs, g.Bundles[k].Block.Timestamp-1)
		}
	}
	cutoffs = append(cutoffs, g.Bundles[head].Block.Timestamp+1, g.Bundles[17].Block.Timestamp+100)
	for _, cutoff := range cutoffs {
		for _, l1 := range []uint64{6, 12, 20} {
			spec := map[string]any{"cutoff": cutoff, "l1": l1}
			w := cloneWorld(e, base, prunerCfg{Retained: retained, L2PerPrune: 1, BatchBytes: hugeBatch}, cutoff, name, spec)
			w.writeL1(l1)
			w.event("l1", l1, 0, noPlan())
			w.observe()
			// new-head events: one whose block is older than the min-age (deep catch-up: time floor skipped), one younger
			for _, n := range []uint64{4, head} {
				w.event("l2", n, w.ts(n), noPlan())
				w.observe()
			}
			if w.store() && w.store() {
				w.restart("orderly") // re-samples the min-age floor
				w.situation = "steady"
				w.writeL1(l1 + 2)
				w.event("l1", l1+2, 0, noPlan())
				w.event("l2", uint64(w.height), w.ts(uint64(w.height)), noPlan())
				w.observe()
			}
			w.close()
		}
	}
}

// --- random histories ---------------------------------------------------------------------------------

func randomJobs(f lib.Flags) []job {
	n := f.Scale(12, 120)
	var jobs []job
	for i := 0; i < n; i++ {
		i := i
		ns := i%2 == 1
		name := jobName("random/seed=%d/%d/new=%v", f.Seed, i, ns)
		jobs = append(jobs, job{name: name, run: func(e *env) { randomHistory(e, name, f.Seed, uint64(i), ns) }})
	}
	return jobs
}

func randomHistory(e *env, name string, seed, idx uint64, newState bool) {
	r := lib.NewRNG(seed).Fork(idx)
	base, err := getBase(fmt.Sprintf("randhist/%d/%d/%v", seed, idx%4, newState), 500+seed*7+idx%4, newState, false, 40, 3)
	if err != nil {
		e.res.Fatalf("%s: base image: %v", name, err)
		return
	}
	retained := lib.Pick(r, []uint64{0, 0, 1, 2, 3, 5, 8, 50})
	pc := prunerCfg{Retained: retained, L2PerPrune: lib.Pick(r, []uint64{1, 1, 2, 3}), BatchBytes: lib.Pick(r, []int{1, 1, 150, 600, hugeBatch})}
	w := cloneWorld(e, base, pc, 0, name, map[string]any{"idx": idx})
	defer w.close()
	steps := 45
	for s := 0; s < steps && !w.broken; s++ {
		canStore := w.height+1 < w.ch.g.Height()
		switch k := r.Intn(100); {
		case k < 38 && canStore:
			w.store()
			if r.Chance(2, 3) {
				w.event("l2", uint64(w.height), w.ts(uint64(w.height)), w.randomPlan(r))
			}
		case k < 58:
			// L1 head lagging, equal to, or ahead of the local head
			var n uint64
			switch r.Intn(4) {
			case 0:
				n = uint64(w.height + 1 + r.Intn(5))
			case 1:
				n = uint64(w.height)
			default:
				n = uint64(r.Intn(w.height + 1))
			}
			if int64(n) < w.l1 && r.Chance(3, 4) {
				n = uint64(w.l1) // L1 heads rarely move back
			}
			if r.Chance(1, 4) {
				// Blockchain.SetL1Head publishes the event BEFORE it writes the head: the pruner may handle it first
				nn := n
				w.specL1 = &nn
				w.event("l1", n, 0, w.randomPlan(r))
				w.specL1 = nil
				w.writeL1(n)
				w.res.Hit("interleave:l1-event-before-the-head-is-written")
			} else {
				w.writeL1(n)
				w.event("l1", n, 0, w.randomPlan(r))
			}
		case k < 66:
			// a late / repeated new-head event for an older block
			n := uint64(r.Intn(w.height + 1))
			w.event("l2", n, w.ts(n), w.randomPlan(r))
		case k < 76:
			if uint64(w.height) > w.fspec && w.height > 0 {
				w.revert()
			}
		case k < 82:
			w.restart("orderly")
			if w.situation == "after-restart" {
				w.situation = "steady"
			}
		default:
			if canStore {
				w.store()
			}
		}
		if r.Chance(1, 2) || s == steps-1 {
			w.observe()
		}
	}
}

func (w *world) randomPlan(r *lib.RNG) prunePlan {
	p := noPlan()
	switch r.Intn(10) {
	case 0:
		p.FailAt = r.Intn(4)
	case 1:
		p.CancelAt = r.Intn(4)
	case 2:
		p.StoreAt = r.Intn(3)
	case 3:
		p.ForkAll = true
	case 4:
		p.Observe = true
	case 5:
		p.RevertAt = r.Intn(3)
	}
	return p
}
