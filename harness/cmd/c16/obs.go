//go:build verif

package main

import (
	"errors"
	"fmt"
	"reflect"
	"sync/atomic"

	"github.com/NethermindEth/juno/blockchain"
	"github.com/NethermindEth/juno/core"
	"github.com/NethermindEth/juno/core/felt"
	"github.com/NethermindEth/juno/db"
	"github.com/NethermindEth/juno/l1/eth"
	"github.com/NethermindEth/juno/pruner"
	"verif/harness/lib"
)

// nonEmptyEventAnswers counts event queries that returned at least one event (evidence that the
// event comparison is not vacuous).
var nonEmptyEventAnswers, nonEmptyFilteredAnswers atomic.Int64

// clockCases / clockSkipped: worlds whose predictions depend on the wall clock, and how many had to be dropped.
var clockCases, clockSkipped atomic.Int64

// errClass maps an error of the code under test to the small enum the model speaks.
func errClass(err error) string {
	switch {
	case err == nil:
		return "ok"
	case errors.Is(err, pruner.ErrBlockPruned):
		return "pruned"
	case errors.Is(err, db.ErrKeyNotFound):
		return "notfound"
	default:
		return "err:" + err.Error()
	}
}

// blockCtx is what a query about block N needs to be phrased: the block's hash, its transaction
// hashes and the message hashes of its L1-handler transactions (taken from the generator's chain,
// never from the node under test).
type blockCtx struct {
	N        uint64
	Hash     *felt.Felt
	TxHashes []*felt.Felt
	MsgHash  []*eth.Hash
	OnChain  bool   // N <= height of the chain
	Head     uint64 // head of the node under test (upper end of event queries)
	EvAddr   *felt.Felt
}

func ctxOf(b *lib.Bundle, n uint64) blockCtx {
	if b == nil {
		return blockCtx{N: n, Hash: lib.F(0xdead0000 + n)}
	}
	c := blockCtx{N: n, Hash: b.Block.Hash, OnChain: true}
	for _, tx := range b.Block.Transactions {
		c.TxHashes = append(c.TxHashes, tx.Hash())
		if l1, ok := tx.(*core.L1HandlerTransaction); ok {
			h := eth.HashFromBytes(l1.MessageHash())
			c.MsgHash = append(c.MsgHash, &h)
		}
	}
	return c
}

type realQuery struct {
	Name  string // name of the Reader method (evidence / messages)
	Model string // model query it corresponds to
	Run   func(bc *blockchain.Blockchain, raw db.KeyValueReader, c blockCtx) []qcall
}

// qcall is one invocation: a thunk returning (value, error).
type qcall struct {
	Arg string
	Do  func() (any, error)
}

func one(arg string, f func() (any, error)) []qcall { return []qcall{{Arg: arg, Do: f}} }

func perTx(c blockCtx, f func(i int, h *felt.Felt) (any, error)) []qcall {
	var out []qcall
	for i, h := range c.TxHashes {
		i, h := i, h
		out = append(out, qcall{Arg: fmt.Sprintf("tx%d", i), Do: func() (any, error) { return f(i, h) }})
	}
	return out
}

// readerQueries is the Reader API, grouped by the model query that describes which buckets it reads.
func readerQueries() []realQuery {
	type BC = *blockchain.Blockchain
	type R = db.KeyValueReader
	return []realQuery{
		{"BlockHeaderByNumber", "headerByNumber", func(bc BC, _ R, c blockCtx) []qcall {
			return one("", func() (any, error) { return bc.BlockHeaderByNumber(c.N) })
		}},
		{"BlockHeaderHashByNumber", "headerByNumber", func(bc BC, _ R, c blockCtx) []qcall {
			return one("", func() (any, error) { return bc.BlockHeaderHashByNumber(c.N) })
		}},
		{"BlockTransactionCountByNumber", "headerByNumber", func(bc BC, _ R, c blockCtx) []qcall {
			return one("", func() (any, error) { return bc.BlockTransactionCountByNumber(c.N) })
		}},
		{"GlobalStateRootByBlockNumber", "headerByNumber", func(bc BC, _ R, c blockCtx) []qcall {
			return one("", func() (any, error) { return bc.GlobalStateRootByBlockNumber(c.N) })
		}},
		{"BlockByNumber", "blockByNumber", func(bc BC, _ R, c blockCtx) []qcall {
			return one("", func() (any, error) { return bc.BlockByNumber(c.N) })
		}},
		{"BlockNumberByHash", "numberByHash", func(bc BC, _ R, c blockCtx) []qcall {
			return one("", func() (any, error) { return bc.BlockNumberByHash(c.Hash) })
		}},
		{"BlockHeaderByHash", "headerByHash", func(bc BC, _ R, c blockCtx) []qcall {
			return one("", func() (any, error) { return bc.BlockHeaderByHash(c.Hash) })
		}},
		{"BlockByHash", "blockByHash", func(bc BC, _ R, c blockCtx) []qcall {
			return one("", func() (any, error) { return bc.BlockByHash(c.Hash) })
		}},
		{"StateUpdateByNumber", "stateUpdateByNumber", func(bc BC, _ R, c blockCtx) []qcall {
			return one("", func() (any, error) { return bc.StateUpdateByNumber(c.N) })
		}},
		{"StateUpdateByHash", "stateUpdateByHash", func(bc BC, _ R, c blockCtx) []qcall {
			return one("", func() (any, error) { return bc.StateUpdateByHash(c.Hash) })
		}},
		{"BlockCommitmentsByNumber", "commitments", func(bc BC, _ R, c blockCtx) []qcall {
			return one("", func() (any, error) { return bc.BlockCommitmentsByNumber(c.N) })
		}},
		{"TransactionsByBlockNumber", "txsByNumber", func(bc BC, _ R, c blockCtx) []qcall {
			return one("", func() (any, error) { return bc.TransactionsByBlockNumber(c.N) })
		}},
		{"TransactionsAndReceiptsByBlockNumber", "txsByNumber", func(bc BC, _ R, c blockCtx) []qcall {
			return one("", func() (any, error) {
				t, r, err := bc.TransactionsAndReceiptsByBlockNumber(c.N)
				return []any{t, r}, err
			})
		}},
		{"TransactionHashesByBlockNumber", "txsByNumber", func(bc BC, _ R, c blockCtx) []qcall {
			return one("", func() (any, error) { return bc.TransactionHashesByBlockNumber(c.N) })
		}},
		{"TransactionByBlockNumberAndIndex", "txsByNumber", func(bc BC, _ R, c blockCtx) []qcall {
			return perTx(c, func(i int, _ *felt.Felt) (any, error) { return bc.TransactionByBlockNumberAndIndex(c.N, uint64(i)) })
		}},
		{"TransactionExecutionStatusByBlockNumberAndIndex", "txsByNumber", func(bc BC, _ R, c blockCtx) []qcall {
			return perTx(c, func(i int, _ *felt.Felt) (any, error) {
				return bc.TransactionExecutionStatusByBlockNumberAndIndex(c.N, uint64(i))
			})
		}},
		{"TransactionAndReceiptByBlockNumberAndIndex", "txAndReceiptByIndex", func(bc BC, _ R, c blockCtx) []qcall {
			return perTx(c, func(i int, _ *felt.Felt) (any, error) {
				t, r, h, err := bc.TransactionAndReceiptByBlockNumberAndIndex(c.N, uint64(i))
				return []any{t, r, h}, err
			})
		}},
		{"BlockNumberAndIndexByTxHash", "txLookup", func(bc BC, _ R, c blockCtx) []qcall {
			return perTx(c, func(_ int, h *felt.Felt) (any, error) {
				n, i, err := bc.BlockNumberAndIndexByTxHash((*felt.TransactionHash)(h))
				return []uint64{n, i}, err
			})
		}},
		{"TransactionByHash", "txByHash", func(bc BC, _ R, c blockCtx) []qcall {
			return perTx(c, func(_ int, h *felt.Felt) (any, error) { return bc.TransactionByHash(h) })
		}},
		{"Receipt", "receiptByHash", func(bc BC, _ R, c blockCtx) []qcall {
			return perTx(c, func(_ int, h *felt.Felt) (any, error) {
				r, bh, n, err := bc.Receipt(h)
				return []any{r, bh, n}, err
			})
		}},
		{"L1HandlerTxnHash", "l1HandlerMsg", func(bc BC, _ R, c blockCtx) []qcall {
			var out []qcall
			for i, m := range c.MsgHash {
				m := m
				out = append(out, qcall{Arg: fmt.Sprintf("msg%d", i), Do: func() (any, error) { return bc.L1HandlerTxnHash(m) }})
			}
			return out
		}},
		{"pruner.RequireRetained", "requireRetained", func(_ BC, raw R, c blockCtx) []qcall {
			return one("", func() (any, error) { return nil, pruner.RequireRetained(raw, c.N) })
		}},
		{"EventFilter.Events(address)", "eventsFrom", func(bc BC, _ R, c blockCtx) []qcall {
			// events of [N, head] emitted by one address: the bloom filters really select blocks
			if c.EvAddr == nil {
				return nil
			}
			return one(fmt.Sprintf("to%d", c.Head), func() (any, error) {
				ef, err := bc.EventFilter([]felt.Address{felt.Address(*c.EvAddr)}, nil,
					func() (blockchain.PreConfirmedReader, error) { return nil, nil })
				if err != nil {
					return nil, err
				}
				defer ef.Close()
				if err := ef.SetRangeEndBlockByNumber(blockchain.EventFilterFrom, c.N); err != nil {
					return nil, err
				}
				if err := ef.SetRangeEndBlockByNumber(blockchain.EventFilterTo, c.Head); err != nil {
					return nil, err
				}
				evs, tok, err := ef.Events(nil, 1<<20)
				if err == nil && len(evs) > 0 {
					nonEmptyFilteredAnswers.Add(1)
				}
				return []any{evs, tok.String()}, err
			})
		}},
		{"EventFilter.Events", "eventsFrom", func(bc BC, _ R, c blockCtx) []qcall {
			// every event of [N, head], no address / key filter, one chunk
			return one(fmt.Sprintf("to%d", c.Head), func() (any, error) {
				ef, err := bc.EventFilter(nil, nil, func() (blockchain.PreConfirmedReader, error) { return nil, nil })
				if err != nil {
					return nil, err
				}
				defer ef.Close()
				if err := ef.SetRangeEndBlockByNumber(blockchain.EventFilterFrom, c.N); err != nil {
					return nil, err
				}
				if err := ef.SetRangeEndBlockByNumber(blockchain.EventFilterTo, c.Head); err != nil {
					return nil, err
				}
				evs, tok, err := ef.Events(nil, 1<<20)
				if err == nil && len(evs) > 0 {
					nonEmptyEventAnswers.Add(1)
				}
				return []any{evs, tok.String()}, err
			})
		}},
	}
}

// stateKey is one state cell read through a historical state reader.
type stateKey struct {
	Kind string // "storage" | "nonce" | "class" (class hash of a contract) | "classdef" | "casm" | "casm2" (Addr = class hash)
	Addr felt.Felt
	Slot felt.Felt
}

var (
	markerAddr = *lib.F(1)          // system contract 0x1: storage writes need no deployment
	markerSlot = *lib.F(0x4d41524b) // "MARK"
)

func markerValue(n uint64) *felt.Felt { return lib.F(100000 + n) }

func readCell(r core.StateReader, k stateKey) (felt.Felt, string) {
	var v felt.Felt
	var err error
	switch k.Kind {
	case "storage":
		v, err = r.ContractStorage(&k.Addr, &k.Slot)
	case "nonce":
		v, err = r.ContractNonce(&k.Addr)
	case "classdef": // Class(hash): the block the class was declared at
		var d *core.DeclaredClassDefinition
		if d, err = r.Class(&k.Addr); err == nil && d != nil {
			v = *lib.F(d.At)
		}
	case "casm":
		var h felt.CasmClassHash
		h, err = r.CompiledClassHash((*felt.SierraClassHash)(&k.Addr))
		v = felt.Felt(h)
	case "casm2":
		var h felt.CasmClassHash
		h, err = r.CompiledClassHashV2((*felt.SierraClassHash)(&k.Addr))
		v = felt.Felt(h)
	default:
		v, err = r.ContractClassHash(&k.Addr)
	}
	return v, errClass(err)
}

// stateObs opens a state reader on the node and compares every cell with what the twin read the same way.
// class: ok (reader handed out, every cell equals the twin's), notfound/pruned/err (no reader),
// wrong (a cell differs). marker = what the node read for the marker slot (nil if no reader).
func stateObs(open func(bc *blockchain.Blockchain) (core.StateReader, blockchain.StateCloser, error),
	node *blockchain.Blockchain, twin twinStateRes, keys []stateKey,
) (class string, marker *felt.Felt, detail string) {
	// a panic of the code under test is an answer ("panic"), not the end of the harness
	perr, panicked, _ := lib.Try(func() error { class, marker, detail = stateObs1(open, node, twin, keys); return nil })
	if panicked {
		return "panic", nil, perr.Error()
	}
	return class, marker, detail
}

func stateObs1(open func(bc *blockchain.Blockchain) (core.StateReader, blockchain.StateCloser, error),
	node *blockchain.Blockchain, twin twinStateRes, keys []stateKey,
) (class string, marker *felt.Felt, detail string) {
	nr, nclose, nerr := open(node)
	if nerr != nil {
		return errClass(nerr), nil, ""
	}
	defer func() { _ = nclose() }()
	if twin.err != "" {
		return "wrong", nil, "node hands out a state reader where the unpruned twin answers " + twin.err
	}
	class = "ok"
	for i, k := range keys {
		nv, ne := readCell(nr, k)
		tv, te := twin.cells[i].v, twin.cells[i].e
		if k.Kind == "storage" && k.Addr.Equal(&markerAddr) && k.Slot.Equal(&markerSlot) && ne == "ok" {
			m := nv
			marker = &m
		}
		if ne != te || (ne == "ok" && !nv.Equal(&tv)) {
			if class == "ok" {
				detail = fmt.Sprintf("%s %s/%s: node=%s(%s) twin=%s(%s)", k.Kind, k.Addr.String(), k.Slot.String(),
					nv.String(), ne, tv.String(), te)
			}
			class = "wrong"
		}
	}
	return class, marker, detail
}

// runPair evaluates one Reader call on node and twin. class: ok = no error and the value equals the
// twin's; wrong = no error but the value differs (or the twin has no such data); else the error class.
func runPair(nc qcall, twin twinQRes) (class, detail string) {
	var nv any
	var nerr error
	perr, panicked, _ := lib.Try(func() error {
		nv, nerr = nc.Do()
		return nil
	})
	if panicked {
		return "panic", perr.Error()
	}
	if nerr != nil {
		return errClass(nerr), ""
	}
	tv, terr := twin.v, twin.err
	if terr != nil {
		return "wrong", "node answers where the unpruned twin answers " + errClass(terr)
	}
	if !reflect.DeepEqual(nv, tv) {
		return "wrong", fmt.Sprintf("node=%v twin=%v", nv, tv)
	}
	return "ok", ""
}
