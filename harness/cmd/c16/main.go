//go:build verif

// Harness for C16 (pruning never damages retained blocks, the head state, or L1-unconfirmed history).
//
// The REAL pruner service (pruner.New + Run, driven through its two feeds), the real Blockchain and
// both state backends run on chains manufactured by juno itself; an unpruned twin (the generator's
// source node) holds the same chain. Every Reader query and historical state read is compared with
// the twin, with the compiled Lean model (c16drv), and judged by the property's own oracle.
package main

import (
	"encoding/json"
	"fmt"
	"os"
	"runtime"
	"runtime/pprof"
	"strings"
	"sync"

	"verif/harness/lib"
)

type job struct {
	name string
	run  func(e *env)
}

// env is what a worker hands to a scenario: the shared result and its two model instances.
type env struct {
	res   *lib.Result
	drv   *lib.Driver
	fdrv  *lib.Driver
	fixed bool
	mig   migVariant
	f     lib.Flags
}

func main() {
	f := lib.ParseFlags()
	// no single request to the C16 driver takes more than a few seconds: a driver that hangs (neither answers nor
	// exits) is killed after 3 minutes instead of the library's 30, and the run ends as a harness failure
	if os.Getenv("VERIF_DRIVER_TIMEOUT") == "" {
		_ = os.Setenv("VERIF_DRIVER_TIMEOUT", "180")
	}
	if pf := os.Getenv("C16_CPUPROFILE"); pf != "" {
		if fh, err := os.Create(pf); err == nil {
			_ = pprof.StartCPUProfile(fh)
			defer pprof.StopCPUProfile()
		}
	}
	res := lib.NewResult("a case = one full observation (every Reader query + historical state reads on every block " +
		"0..head+1, node vs unpruned twin vs model) of one node state reached by a scenario; key = scenario/backend/" +
		"head/allowed floor/situation/step; non-trivial = the property allows a floor > 0 in that state (something may be pruned)")

	fixed, note, err := probeVariant()
	if err != nil && !strings.Contains(err.Error(), "PruneUpto") {
		res.Fatalf("variant probe: %v", err) // the generator or the plain store failed: nothing of C16 can run
		lib.Finish(f, res)
	}
	if err != nil {
		// PruneUpto cannot even prune a 6-block chain with a 1-byte batch threshold: that is a finding, and the
		// scenarios still run (as the repaired variant) to show what else breaks
		res.Violate(lib.Violation{Sig: "prune-fails-on-probe-chain",
			What:   "pruner.PruneUpto(4, batch threshold 1) on 6 plain blocks (legacy backend): " + err.Error(),
			Replay: map[string]any{"scenario": "probe", "blocks": 6, "prune_upto": 4, "batch_bytes": 1}})
		fixed, note = true, "probe failed: "+err.Error()
	}
	res.Note("prune variant of the code under test: %s", note)
	res.SetExtra("prune_variant", map[bool]string{false: "orig (range deletes after all hash-keyed batches)", true: "fixed (range deletes inside every batch)"}[fixed])

	mig, mnote, err := probeMigration()
	if err != nil {
		res.Fatalf("migration probe: %v", err)
		lib.Finish(f, res)
	}
	res.Note("history-pruner migration variant of the code under test: %s", mnote)
	res.SetExtra("migration_variant", mnote)

	cl, cnote, err := probeStaleEvent()
	if err != nil {
		res.Fatalf("stale-event probe: %v", err)
		lib.Finish(f, res)
	}
	l2Clamps.Store(cl)
	res.Note("new-head event above the current head: %s", cnote)
	res.SetExtra("stale_event_variant", cnote)

	rg, rnote, err := probeHeldReader()
	if err != nil {
		res.Fatalf("held-reader probe: %v", err)
		lib.Finish(f, res)
	}
	readerGuard.Store(rg)
	res.Note("legacy historical reader held across a prune: %s", rnote)
	res.SetExtra("held_reader_variant", rnote)

	sc, snote, err := probeSampleChecked()
	if err != nil {
		res.Fatalf("min-age sample probe: %v", err)
		lib.Finish(f, res)
	}
	sampleChecked.Store(sc)
	res.Note("cached min-age sample after a reorg below it: %s", snote)
	res.SetExtra("min_age_sample_variant", snote)

	var jobs []job
	if f.Replay != "" {
		// seed-dependent scenarios are named after the seed of the run that found them
		if raw, err := os.ReadFile(f.Replay); err == nil {
			var doc struct {
				Seed *uint64 `json:"seed"`
				Tier string  `json:"tier"`
			}
			if json.Unmarshal(raw, &doc) == nil {
				if doc.Seed != nil {
					f.Seed = *doc.Seed
				}
				if doc.Tier == "thorough" || doc.Tier == "quick" {
					f.Tier = doc.Tier
				}
			}
		}
		jobs = replayJobs(f, res)
	} else {
		jobs = allJobs(f)
		// development aid: run only the scenarios whose name contains the substring (never set by ./check)
		if only := os.Getenv("C16_ONLY"); only != "" {
			var sel []job
			for _, j := range jobs {
				if strings.Contains(j.name, only) {
					sel = append(sel, j)
				}
			}
			jobs = sel
			res.Note("C16_ONLY=%s: %d scenarios selected", only, len(sel))
		}
	}

	workers := runtime.GOMAXPROCS(0)
	if workers > 12 {
		workers = 12
	}
	if workers > len(jobs) {
		workers = len(jobs)
	}
	// every worker gets its two model instances BEFORE any work is handed out: a driver that does not start
	// (or does not answer the first line) ends the run as a harness failure, no scenario is skipped silently
	var envs []*env
	for i := 0; i < workers; i++ {
		var ds [2]*lib.Driver
		for k := range ds {
			d, err := lib.StartDriver(f.Driver)
			if err == nil {
				var o string
				if o, err = d.Ask("info"); err == nil && len(strings.Fields(o)) != 7 {
					err = fmt.Errorf("unexpected answer to info: %q", o)
				}
			}
			if err != nil {
				res.Fatalf("model driver %q does not start / answer: %v", f.Driver, err)
				lib.Finish(f, res)
			}
			ds[k] = d
		}
		envs = append(envs, &env{res: res, drv: ds[0], fdrv: ds[1], fixed: fixed, mig: mig, f: f})
	}
	ch := make(chan job)
	var wg sync.WaitGroup
	for i := 0; i < workers; i++ {
		wg.Add(1)
		e := envs[i]
		go func() {
			defer wg.Done()
			defer e.drv.Close()
			defer e.fdrv.Close()
			for j := range ch {
				perr, panicked, stack := lib.Try(func() error { j.run(e); return nil })
				if panicked {
					// a scenario that did not run to its end proves nothing: never let that pass as green
					res.Fatalf("harness panic in %s: %v\n%s", j.name, perr, stack)
				}
			}
		}()
	}
	// the lead scenarios go first, one after the other, so that a finding is reported with their (small)
	// replay whenever they show it
	var rest []job
	for _, j := range jobs {
		if strings.HasPrefix(j.name, "lead-") {
			ch <- j
		} else {
			rest = append(rest, j)
		}
	}
	barrier(ch, workers)
	for _, j := range rest {
		ch <- j
	}
	close(ch)
	wg.Wait()
	pprof.StopCPUProfile()
	// clock-dependent cases that had to be dropped: a few under load are fine, most of them is not a check
	if sk, tot := clockSkipped.Load(), clockCases.Load(); sk*4 > tot && sk > 2 {
		res.Fatalf("%d of %d min-age cases were dropped because the wall clock crossed a block timestamp", sk, tot)
	}
	res.HitN("event-queries-with-events", int(nonEmptyEventAnswers.Load()))
	res.HitN("filtered-event-queries-with-events", int(nonEmptyFilteredAnswers.Load()))
	lib.Finish(f, res)
}

// replayJobs re-runs the scenario named in a replay file written by an earlier run.
func replayJobs(f lib.Flags, res *lib.Result) []job {
	raw, err := os.ReadFile(f.Replay)
	if err != nil {
		res.Fatalf("replay: %v", err)
		return nil
	}
	var doc map[string]any
	if err := json.Unmarshal(raw, &doc); err != nil {
		res.Fatalf("replay: %v", err)
		return nil
	}
	// the check driver wraps the harness' replay object; accept both shapes
	rp := doc
	for _, k := range []string{"replay", "Replay"} {
		if inner, ok := rp[k].(map[string]any); ok {
			rp = inner
		}
	}
	name, _ := rp["scenario"].(string)
	var out []job
	for _, j := range allJobs(f) {
		if j.name == name {
			out = append(out, j)
		}
	}
	if len(out) == 0 {
		res.Fatalf("replay: no scenario named %q (seed-dependent scenarios need the same --seed)", name)
	}
	return out
}

// barrier returns once every worker is idle: each takes one job that waits for all the others.
func barrier(ch chan job, workers int) {
	var wg sync.WaitGroup
	wg.Add(workers)
	for i := 0; i < workers; i++ {
		ch <- job{name: "barrier", run: func(*env) { wg.Done(); wg.Wait() }}
	}
	wg.Wait()
}

func jobName(format string, a ...any) string { return fmt.Sprintf(format, a...) }
