//go:build verif

package main

import (
	"encoding/binary"
	"errors"
	"fmt"
	"math"
	"strings"
	"time"

	"github.com/NethermindEth/juno/core"
	"github.com/NethermindEth/juno/db"
	"github.com/NethermindEth/juno/pruner"
	"verif/harness/lib"
)

// The straight-line integer code of the pruner that is exported, compared with the model directly and
// exhaustively over small spaces plus the boundaries of the big ones:
//   - pruner.PruneBlockDataUpto: the bounds of its five range deletes (header carve-out, bloom windows),
//   - pruner.FindOldestBlockAtOrAfter: every (lower, upper, cut-off) over a 14-block chain.

type rangeRecorder struct{ ranges [][2][]byte }

func (r *rangeRecorder) DeleteRange(start, end []byte) error {
	r.ranges = append(r.ranges, [2][]byte{append([]byte{}, start...), append([]byte{}, end...)})
	return nil
}

func cborUint(b []byte) (uint64, bool) {
	if len(b) == 0 {
		return 0, false
	}
	switch {
	case b[0] < 24 && len(b) == 1:
		return uint64(b[0]), true
	case b[0] == 0x18 && len(b) == 2:
		return uint64(b[1]), true
	case b[0] == 0x19 && len(b) == 3:
		return uint64(binary.BigEndian.Uint16(b[1:])), true
	case b[0] == 0x1a && len(b) == 5:
		return uint64(binary.BigEndian.Uint32(b[1:])), true
	case b[0] == 0x1b && len(b) == 9:
		return binary.BigEndian.Uint64(b[1:]), true
	}
	return 0, false
}

func pureJobs(f lib.Flags) []job {
	return []job{{name: "pure-functions", run: pureFunctions}}
}

func pureFunctions(e *env) {
	ask := func(line string) string {
		o, err := e.drv.Ask(line)
		if err != nil {
			e.res.Fatalf("pure-functions: model driver: %v", err)
			return "driver-error"
		}
		return o
	}
	// --- range bounds of PruneBlockDataUpto
	var es []uint64
	for x := uint64(0); x <= 40; x++ {
		es = append(es, x)
	}
	for _, c := range []uint64{8192, 16384, 24576, 1 << 32} {
		for d := uint64(0); d <= 4; d++ {
			es = append(es, c-2+d)
		}
	}
	es = append(es, math.MaxUint64-8192, math.MaxUint64-1, math.MaxUint64)
	for _, x := range es {
		rec := &rangeRecorder{}
		if err := pruner.PruneBlockDataUpto(rec, x); err != nil {
			e.res.Violate(lib.Violation{Sig: "prune-block-data-upto-fails", What: fmt.Sprintf("PruneBlockDataUpto(%d): %v", x, err),
				Replay: map[string]any{"scenario": "pure-functions", "range_end": x}})
			continue
		}
		hdrEnd, aggFrom := "missing", "-"
		numEnds := map[db.Bucket]uint64{}
		for _, rg := range rec.ranges {
			end := rg[1]
			if db.Bucket(end[0]) == db.BlockTransactions {
				// this bucket's keys are CBOR unsigned integers (shortest form, which sorts like the numbers)
				if v, ok := cborUint(end[1:]); ok {
					numEnds[db.BlockTransactions] = v
					if s0, ok0 := cborUint(rg[0][1:]); !ok0 || s0 != 0 {
						e.res.Mismatch(lib.Mismatch{Sig: "range-delete-start", Input: x, Model: "0", Impl: fmt.Sprintf("%x", rg[0])})
					}
					continue
				}
			}
			if len(end) < 9 {
				e.res.Mismatch(lib.Mismatch{Sig: "range-delete-key-shape", Input: x, Model: "tag + 8-byte bound", Impl: fmt.Sprintf("%x .. %x", rg[0], rg[1])})
				continue
			}
			switch db.Bucket(end[0]) {
			case db.BlockHeadersByNumber:
				hdrEnd = fmt.Sprint(binary.BigEndian.Uint64(end[1:9]))
			case db.AggregatedBloomFilters:
				aggFrom = fmt.Sprint(binary.BigEndian.Uint64(end[1:9]))
			default:
				numEnds[db.Bucket(end[0])] = binary.BigEndian.Uint64(end[1:9])
			}
			if binary.BigEndian.Uint64(append(append([]byte{}, rg[0]...), make([]byte, 9)...)[1:9]) != 0 {
				e.res.Mismatch(lib.Mismatch{Sig: "range-delete-start", Input: x, Model: "0", Impl: fmt.Sprintf("%x", rg[0])})
			}
		}
		e.res.Compared(2 + len(numEnds))
		if m := ask(fmt.Sprintf("hdrend %d", x)); m != "driver-error" && m != hdrEnd {
			e.res.Mismatch(lib.Mismatch{Sig: "header-carve-out-bound", Input: x, Model: m, Impl: hdrEnd})
		}
		if m := ask(fmt.Sprintf("aggend %d", x)); m != "driver-error" && m != aggFrom {
			e.res.Mismatch(lib.Mismatch{Sig: "bloom-window-bound", Input: x, Model: m, Impl: aggFrom})
		}
		for _, b := range []db.Bucket{db.BlockCommitments, db.StateUpdatesByBlockNumber, db.BlockTransactions} {
			if got, ok := numEnds[b]; !ok || got != x {
				e.res.Mismatch(lib.Mismatch{Sig: "number-keyed-range-end", Input: map[string]any{"range_end": x, "bucket": b.String()},
					Model: fmt.Sprint(x), Impl: fmt.Sprint(got, ok)})
			}
		}
		e.res.Hit("pure:prune-block-data-upto")
	}
	// --- FindOldestBlockAtOrAfter, exhaustively on the 14 stored blocks of the plain base chain
	base, err := getBase("plain/false", 11, false, true, 18, 14)
	if err != nil {
		e.res.Fatalf("pure-functions: base image: %v", err)
		return
	}
	var ts []uint64
	for i := 0; i <= base.height; i++ {
		ts = append(ts, base.ch.g.Bundles[i].Block.Timestamp)
	}
	cutSet := map[uint64]bool{0: true, ts[0] - 1: true, ts[len(ts)-1] + 1: true, 1 << 40: true}
	for _, t := range ts {
		cutSet[t], cutSet[t-1], cutSet[t+1] = true, true, true
	}
	n := uint64(len(ts))
	for lower := uint64(0); lower <= n; lower++ {
		for upper := uint64(0); upper < n; upper++ {
			for cut := range cutSet {
				got, err := pruner.FindOldestBlockAtOrAfter(base.db, lower, upper, time.Unix(int64(cut), 0))
				impl := fmt.Sprint(got)
				if errors.Is(err, pruner.ErrNoBlockInWindow) {
					impl = "-"
				} else if err != nil {
					impl = "err:" + err.Error()
				}
				var sb strings.Builder
				fmt.Fprintf(&sb, "find %d %d %d", lower, upper, cut)
				for i := lower; i <= upper && lower <= upper; i++ {
					fmt.Fprintf(&sb, " %d", ts[i])
				}
				line := sb.String()
				if lower > upper+1 {
					// the driver's window description needs lower <= upper+1; the answer is "no block" by the first guard
					line = fmt.Sprintf("find %d %d %d", upper+1, upper, cut)
				}
				m := ask(line)
				e.res.Compared(1)
				if m != "driver-error" && m != impl {
					e.res.Mismatch(lib.Mismatch{Sig: "find-oldest-block-at-or-after", Input: line, Model: m, Impl: impl})
				}
				// the specification, independently: the lowest block of the window at/after the cut-off
				want := "-"
				for i := lower; i <= upper && lower <= upper; i++ {
					if ts[i] >= cut {
						want = fmt.Sprint(i)
						break
					}
				}
				if impl != want {
					e.res.Violate(lib.Violation{Sig: "min-age-search-wrong-block",
						What:   fmt.Sprintf("FindOldestBlockAtOrAfter(lower %d, upper %d, cutoff %d) = %s, lowest block at/after the cut-off is %s (timestamps %v)", lower, upper, cut, impl, want, ts),
						Replay: map[string]any{"scenario": "pure-functions", "lower": lower, "upper": upper, "cutoff": cut}})
				}
			}
		}
	}
	e.res.HitN("pure:find-oldest-cases", int(n+1)*int(n)*len(cutSet))
	_ = core.BlockHashLag
}
