//go:build verif

package main

import (
	"bytes"
	"sync"
	"sync/atomic"

	"github.com/NethermindEth/juno/db"
	"github.com/NethermindEth/juno/db/memory"
)

// hookDB is the store handed to the pruner (and only to the pruner): the node itself reads and
// writes the wrapped memory database directly. It lets the harness
//   - see when an event handler of the pruner has started (onNewBlock reads the L1-head key first,
//     onNewL1Head the chain-height key), which is how events are sequenced without sleeping;
//   - count the loop iterations of pruneHashKeyedUpto (one state-update read per block);
//   - intercept every batch write of a prune: inject a commit failure, cancel the context, take a
//     crash image, run other operations between two batches.
type hookDB struct {
	*memory.Database
	l1Reads     atomic.Int64
	heightReads atomic.Int64
	suReads     atomic.Int64
	// onSURead is called with the running count at every state-update read (one per block a prune / migration
	// worker starts on): lets the harness interrupt INSIDE a phase, not only at batch writes
	onSURead atomic.Pointer[func(int64)]
	// busy > 0 while a hook of the harness runs inside a batch write (observations, forks): waiting for
	// the pruner must not count that time as a hang of the pruner
	busy atomic.Int64

	mu sync.Mutex
	// beforeWrite is called with the description of the batch about to be written; a non-nil error is
	// returned by Write instead of applying the batch (commit failure).
	beforeWrite func(w writeInfo) error
	// afterWrite is called after the batch has been applied.
	afterWrite func(w writeInfo)
	nWrites    int
	suAtLast   int64
}

// writeInfo describes one batch write of the pruner.
type writeInfo struct {
	Seq      int  // 0-based index of the write since the hooks were (re)armed
	Blocks   int  // loop iterations (state-update reads) since the previous write
	HasRange bool // the batch contains range deletes (PruneBlockDataUpto)
	Deletes  int  // point deletes in the batch
}

var (
	l1HeadKey      = db.L1Height.Key()
	chainHeightKey = db.ChainHeight.Key()
	suPrefix       = db.StateUpdatesByBlockNumber.Key()
)

func newHookDB(inner *memory.Database) *hookDB { return &hookDB{Database: inner} }

func (h *hookDB) Get(key []byte, cb func([]byte) error) error {
	switch {
	case bytes.Equal(key, l1HeadKey):
		h.l1Reads.Add(1)
	case bytes.Equal(key, chainHeightKey):
		h.heightReads.Add(1)
	case bytes.HasPrefix(key, suPrefix) && len(key) == len(suPrefix)+8:
		n := h.suReads.Add(1)
		if cb := h.onSURead.Load(); cb != nil {
			(*cb)(n)
		}
	}
	return h.Database.Get(key, cb)
}

// arm installs the hooks for the next prune and resets the write counter.
func (h *hookDB) arm(before func(writeInfo) error, after func(writeInfo)) {
	h.mu.Lock()
	h.beforeWrite, h.afterWrite = before, after
	h.nWrites = 0
	h.suAtLast = h.suReads.Load()
	h.mu.Unlock()
}

func (h *hookDB) NewBatch() db.Batch { return &hookBatch{Batch: h.Database.NewBatch(), h: h} }

func (h *hookDB) NewBatchWithSize(n int) db.Batch {
	return &hookBatch{Batch: h.Database.NewBatchWithSize(n), h: h}
}

type hookBatch struct {
	db.Batch
	h       *hookDB
	ranges  int
	deletes int
}

func (b *hookBatch) Delete(key []byte) error {
	b.deletes++
	return b.Batch.Delete(key)
}

func (b *hookBatch) DeleteRange(start, end []byte) error {
	b.ranges++
	return b.Batch.DeleteRange(start, end)
}

func (b *hookBatch) Write() error {
	h := b.h
	h.mu.Lock()
	su := h.suReads.Load()
	info := writeInfo{Seq: h.nWrites, Blocks: int(su - h.suAtLast), HasRange: b.ranges > 0, Deletes: b.deletes}
	h.nWrites++
	h.suAtLast = su
	before, after := h.beforeWrite, h.afterWrite
	h.mu.Unlock()
	if before != nil {
		h.busy.Add(1)
		err := before(info)
		h.busy.Add(-1)
		if err != nil {
			_ = b.Batch.Close()
			return err
		}
	}
	if err := b.Batch.Write(); err != nil {
		return err
	}
	if after != nil {
		h.busy.Add(1)
		after(info)
		h.busy.Add(-1)
	}
	return nil
}
