//go:build verif

package main

import (
	"bytes"
	"sync"
	"sync/atomic"
	"time"

	"github.com/NethermindEth/juno/db"
	"github.com/NethermindEth/juno/db/memory"
)

// hookDB is the store handed to the pruner (and only to the pruner): the node itself reads and
// writes the wrapped memory database directly. It lets the harness
//   - see when an event handler of the pruner has started (onNewBlock reads the L1-head key first,
//     onNewL1Head the chain-height key), which is how events are sequenced without sleeping;
//   - count the loop iterations of pruneHashKeyedUpto (one state-update read per block);
//   - intercept every batch write of a prune: inject a commit failure, cancel the context, take a
//     crash image, run other operations between two batches.
type hookDB struct {
	*memory.Database
	l1Reads     atomic.Int64
	heightReads atomic.Int64
	suReads     atomic.Int64
	// onSURead is called with the running count at every state-update read (one per block a prune / migration
	// worker starts on): lets the harness interrupt INSIDE a phase, not only at batch writes
	onSURead atomic.Pointer[func(int64)]
	// busy > 0 while a hook of the harness runs inside a batch write (observations, forks): waiting for
	// the pruner must not count that time as a hang of the pruner
	busy atomic.Int64

	mu sync.Mutex
	// beforeWrite is called with the description of the batch about to be written; a non-nil error is
	// returned by Write instead of applying the batch (commit failure).
	beforeWrite func(w writeInfo) error
	// afterWrite is called after the batch has been applied.
	afterWrite func(w writeInfo)
	nWrites    int
	suAtLast   int64

	// Tick gate (worlds with a fast min-age sample ticker, minage-reorg): the ticker's sampleHeight reads the chain
	// height and then block headers; the harness' own Store / RevertHead must not land between those reads (the
	// search would run into a header that has just been reverted: an error nobody injected). The pruner's
	// goroutine is "in a read sequence" from a chain-height read until its next chain-height / L1-head read;
	// while the harness holds the gate closed, that next read waits.
	gmu    sync.Mutex
	gquiet bool
	inRead bool
}

// gate is passed by every chain-height / L1-head read of the pruner.
func (h *hookDB) gate(isHeight bool) {
	h.gmu.Lock()
	h.inRead = false
	for h.gquiet {
		h.gmu.Unlock()
		time.Sleep(20 * time.Microsecond)
		h.gmu.Lock()
	}
	h.inRead = isHeight
	h.gmu.Unlock()
}

// quietBegin closes the gate and waits until the pruner's goroutine is outside a read sequence (it is after at
// most one tick interval; a pruner that has exited never comes back: bounded wait). No-op inside a batch-write
// hook (the harness then runs ON the pruner's goroutine, in the middle of a prune: nothing else can run).
func (h *hookDB) quietBegin() bool {
	if h.busy.Load() > 0 {
		return false
	}
	h.gmu.Lock()
	h.gquiet = true
	for deadline := time.Now().Add(10 * time.Second); h.inRead && time.Now().Before(deadline); {
		h.gmu.Unlock()
		time.Sleep(20 * time.Microsecond)
		h.gmu.Lock()
	}
	h.gmu.Unlock()
	return true
}

func (h *hookDB) quietEnd() {
	h.gmu.Lock()
	h.gquiet = false
	h.gmu.Unlock()
}

// writeInfo describes one batch write of the pruner.
type writeInfo struct {
	Seq      int  // 0-based index of the write since the hooks were (re)armed
	Blocks   int  // loop iterations (state-update reads) since the previous write
	HasRange bool // the batch contains range deletes (PruneBlockDataUpto)
	Deletes  int  // point deletes in the batch
}

var (
	l1HeadKey      = db.L1Height.Key()
	chainHeightKey = db.ChainHeight.Key()
	suPrefix       = db.StateUpdatesByBlockNumber.Key()
)

func newHookDB(inner *memory.Database) *hookDB { return &hookDB{Database: inner} }

func (h *hookDB) Get(key []byte, cb func([]byte) error) error {
	switch {
	case bytes.Equal(key, l1HeadKey):
		h.gate(false)
		h.l1Reads.Add(1)
	case bytes.Equal(key, chainHeightKey):
		h.gate(true)
		h.heightReads.Add(1)
	case bytes.HasPrefix(key, suPrefix) && len(key) == len(suPrefix)+8:
		n := h.suReads.Add(1)
		if cb := h.onSURead.Load(); cb != nil {
			(*cb)(n)
		}
	}
	return h.Database.Get(key, cb)
}

// arm installs the hooks for the next prune and resets the write counter.
func (h *hookDB) arm(before func(writeInfo) error, after func(writeInfo)) {
	h.mu.Lock()
	h.beforeWrite, h.afterWrite = before, after
	h.nWrites = 0
	h.suAtLast = h.suReads.Load()
	h.mu.Unlock()
}

func (h *hookDB) NewBatch() db.Batch { return &hookBatch{Batch: h.Database.NewBatch(), h: h} }

func (h *hookDB) NewBatchWithSize(n int) db.Batch {
	return &hookBatch{Batch: h.Database.NewBatchWithSize(n), h: h}
}

type hookBatch struct {
	db.Batch
	h       *hookDB
	ranges  int
	deletes int
}

func (b *hookBatch) Delete(key []byte) error {
	b.deletes++
	return b.Batch.Delete(key)
}

func (b *hookBatch) DeleteRange(start, end []byte) error {
	b.ranges++
	return b.Batch.DeleteRange(start, end)
}

func (b *hookBatch) Write() error {
	h := b.h
	h.mu.Lock()
	su := h.suReads.Load()
	info := writeInfo{Seq: h.nWrites, Blocks: int(su - h.suAtLast), HasRange: b.ranges > 0, Deletes: b.deletes}
	h.nWrites++
	h.suAtLast = su
	before, after := h.beforeWrite, h.afterWrite
	h.mu.Unlock()
	if before != nil {
		h.busy.Add(1)
		err := before(info)
		h.busy.Add(-1)
		if err != nil {
			_ = b.Batch.Close()
			return err
		}
	}
	if err := b.Batch.Write(); err != nil {
		return err
	}
	if after != nil {
		h.busy.Add(1)
		after(info)
		h.busy.Add(-1)
	}
	return nil
}
