//go:build verif

package main

// Round 7 (integrator): the history-pruner migration interrupted at EVERY batch write — in particular inside its
// restore phase, after the live history was wiped and before the keeper window is restored — and then resumed by a
// node started with ANOTHER retention (a smaller --retained-blocks gives a higher floor than the cut-off pinned in
// the resume token). Whatever cut-off the resumed run ends up with, the property demands that every block the
// database still reports as retained (pruner.OldestRetainedBlock, what RequireRetained and the RetentionFloor
// consult) has its legacy history entries: a block that is reported retained and has lost them answers historical
// state queries with wrong data instead of "pruned".

import (
	"context"
	"encoding/binary"
	"fmt"
	"sync"

	"github.com/NethermindEth/juno/core"
	"github.com/NethermindEth/juno/db/memory"
	"github.com/NethermindEth/juno/migration/historyprunner"
	"github.com/NethermindEth/juno/pruner"
	"github.com/NethermindEth/juno/utils/log"
	"verif/harness/lib"
)

func retargetJobs(f lib.Flags) []job {
	name := jobName("migration-retarget/seed=%d", f.Seed)
	return []job{{name: name, run: func(e *env) { migrationRetarget(e, name) }}}
}

// migrateCancelAtWrite: one start (Before + Migrate) whose context is cancelled right after batch write number k.
func migrateCancelAtWrite(d *memory.Database, retained uint64, state []byte, k int) (next []byte, writes int, err error) {
	hdb := newHookDB(d)
	ctx, cancel := context.WithCancel(context.Background())
	defer cancel()
	var mu sync.Mutex
	hdb.arm(nil, func(writeInfo) {
		mu.Lock()
		i := writes
		writes++
		mu.Unlock()
		if i == k {
			cancel()
		}
	})
	m := historyprunner.New(retained, 0)
	if err := m.Before(state); err != nil {
		return nil, 0, fmt.Errorf("before: %w", err)
	}
	next, err = m.Migrate(ctx, hdb, nil, log.NewNopZapLogger())
	hdb.arm(nil, nil)
	return next, writes, err
}

func migrationRetarget(e *env, name string) {
	base, err := getBase("plain60/false", 29, false, true, 60, 60)
	if err != nil {
		e.res.Fatalf("%s: base image: %v", name, err)
		return
	}
	const l1 = 52
	head := uint64(base.height)
	fresh := func() *memory.Database {
		d := base.db.Copy()
		_ = core.WriteL1Head(d, &core.L1Head{BlockNumber: l1, BlockHash: lib.F(l1), StateRoot: lib.F(l1)})
		return d
	}
	inRestore, inStager := 0, 0
	for _, rr := range [][2]uint64{{42, 2}, {42, 20}, {12, 2}} { // (retention of the first start, of the resuming node)
		r1, r2 := rr[0], rr[1]
		for k := 0; k < 400; k++ {
			d := fresh()
			token, _, err := migrateCancelAtWrite(d, r1, nil, k)
			if err != nil {
				e.res.Violate(lib.Violation{Sig: "migration-fails-other", What: fmt.Sprintf("first start (retained %d) cancelled after batch write %d: %v", r1, k, err),
					Replay: map[string]any{"scenario": name, "retained": r1, "cancel_at_write": k}})
				break
			}
			if token == nil {
				break // write k does not exist: the start ran to the end
			}
			if len(token) != 24 {
				e.res.Fatalf("%s: resume token of %d bytes", name, len(token))
				return
			}
			s, rp, keep := binary.BigEndian.Uint64(token[0:8]), binary.BigEndian.Uint64(token[8:16]), binary.BigEndian.Uint64(token[16:24])
			if rp != 0 {
				inRestore++
				e.res.Hit("retarget:token-in-the-restore-phase")
			} else {
				inStager++
				e.res.Hit("retarget:token-in-the-stager-phase")
			}
			if err := migrateToEnd(d, r2, token); err != nil {
				e.res.Violate(lib.Violation{Sig: "migration-fails-other", What: fmt.Sprintf("resumed with retained %d (token %d,%d,%d): %v", r2, s, rp, keep, err),
					Replay: map[string]any{"scenario": name, "retained": r1, "resumed_with": r2, "cancel_at_write": k}})
				continue
			}
			lo, err := pruner.OldestRetainedBlock(d)
			if err != nil {
				e.res.Fatalf("%s: OldestRetainedBlock after the migration: %v", name, err)
				return
			}
			e.res.Compared(1)
			e.res.Case(fmt.Sprintf("%s/%d/%d/%d", name, r1, r2, k), true)
			want := historyOf(base.ch.g.SrcDB, lo, head)
			got := historyOf(d, lo, head)
			if sameEntries(got, want) {
				e.res.Hit("retarget:retained-blocks-keep-their-history")
				continue
			}
			e.res.Violate(lib.Violation{Sig: "migration-resumed-with-other-retention-damages-retained-blocks",
				What: fmt.Sprintf("legacy backend, 60 blocks, L1 head %d: the migration started with --retained-blocks %d is cancelled after batch write %d (token %d,%d,%d), the node "+
					"is restarted with --retained-blocks %d and the migration runs to the end; the database reports block %d as the oldest retained one, but the history of [%d, %d] is damaged: %s",
					l1, r1, k, s, rp, keep, r2, lo, lo, head, diffEntries(got, want)),
				Replay: map[string]any{"scenario": name, "retained": r1, "resumed_with": r2, "cancel_at_write": k, "token": []uint64{s, rp, keep}}})
			break
		}
	}
	if inRestore == 0 {
		e.res.Fatalf("%s: no start was interrupted inside the restore phase (%d inside the stager): the scenario shows nothing", name, inStager)
	}
}
