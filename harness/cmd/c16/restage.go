//go:build verif

package main

// Round 5: the history-pruner migration's resume token across interrupted starts, with the runner's
// bookkeeping made explicit (the runner persists the token a RETURNING Migrate hands it; a run whose result never
// reaches the disk leaves the previous token in place).
//
//   (1) a start is cancelled inside the stager: token (s, 0, k) with k < s (k = cut-off);
//   (2) a start completes (stage, history wipe, restore, scratch wipe) but its result is not recorded (the
//       process dies between the last batch and the runner's commit): token (s, 0, k) stays;
//   (3) the next start finds the token above the cut-off and an EMPTY scratch space and — correctly, 00e70b8 —
//       stages again from k; it is killed after some of its stager batches;
//   (4) the next start finds the same token and a scratch space that is NOT empty, trusts the token, stages
//       [s, head] only, wipes the live history, and restores what the scratch space holds.
// The property: after (4) every legacy history entry of the retained blocks [k, head] is back.

import (
	"bytes"
	"context"
	"encoding/binary"
	"fmt"
	"sort"
	"strings"
	"sync"

	"github.com/NethermindEth/juno/core"
	"github.com/NethermindEth/juno/db"
	"github.com/NethermindEth/juno/db/memory"
	"github.com/NethermindEth/juno/migration/historyprunner"
	"github.com/NethermindEth/juno/utils/log"
	"verif/harness/lib"
)

func restageJobs(f lib.Flags) []job {
	name := jobName("migration-restage/seed=%d", f.Seed)
	return []job{{name: name, run: func(e *env) { migrationRestage(e, name, f.Seed) }}}
}

// migrateOnce is ONE start of the migration with the token `state`: Before + Migrate. cancelAtRead > 0 cancels
// the context at that state-update read; after is called after every batch write.
func migrateOnce(d *memory.Database, retained uint64, state []byte, cancelAtRead int, after func(seq int)) (next []byte, writes int, err error) {
	hdb := newHookDB(d)
	ctx, cancel := context.WithCancel(context.Background())
	defer cancel()
	if cancelAtRead > 0 {
		k := int64(cancelAtRead)
		cb := func(n int64) {
			if n == k {
				cancel()
			}
		}
		hdb.onSURead.Store(&cb)
	}
	var mu sync.Mutex
	hdb.arm(nil, func(writeInfo) {
		mu.Lock()
		k := writes
		writes++
		mu.Unlock()
		if after != nil {
			after(k)
		}
	})
	m := historyprunner.New(retained, 0)
	if err := m.Before(state); err != nil {
		return nil, 0, fmt.Errorf("before: %w", err)
	}
	next, err = m.Migrate(ctx, hdb, nil, log.NewNopZapLogger())
	hdb.arm(nil, nil)
	return next, writes, err
}

// migrateToEnd repeats starts (each with the token the previous one returned) until the migration reports done.
func migrateToEnd(d *memory.Database, retained uint64, state []byte) error {
	for i := 0; i < 40; i++ {
		next, _, err := migrateOnce(d, retained, state, 0, nil)
		if err != nil {
			return err
		}
		if next == nil {
			return nil
		}
		state = next
	}
	return fmt.Errorf("migration did not finish after 40 starts")
}

// historyOf: the legacy history entries logged at blocks [lo, hi], as "bucket|key" -> value.
func historyOf(d *memory.Database, lo, hi uint64) map[string][]byte {
	out := map[string][]byte{}
	for _, b := range historyBuckets {
		for k, v := range bucketKeys(d, b.Key()) {
			kb := []byte(k)
			if len(kb) < 9 {
				continue
			}
			if blk := binary.BigEndian.Uint64(kb[len(kb)-8:]); blk >= lo && blk <= hi {
				out[k] = v
			}
		}
	}
	return out
}

func migrationRestage(e *env, name string, seed uint64) {
	// 60 one-slot blocks: the keeper window [10, 59] is wider than the migration's worker pool (GOMAXPROCS), so a
	// cancellation at an early read leaves the source well inside the window
	base, err := getBase("plain60/false", 29, false, true, 60, 60)
	if err != nil {
		e.res.Fatalf("%s: base image: %v", name, err)
		return
	}
	const retained, l1 = 2, 12
	const cut = l1 - retained // 10
	head := uint64(base.height)
	want := historyOf(base.ch.g.SrcDB, cut, head)
	if len(want) == 0 {
		e.res.Fatalf("%s: the base chain has no legacy history entry in the retained blocks", name)
		return
	}
	fresh := func() *memory.Database {
		d := base.db.Copy()
		_ = core.WriteL1Head(d, &core.L1Head{BlockNumber: l1, BlockHash: lib.F(l1), StateRoot: lib.F(l1)})
		return d
	}
	usable, failed := 0, 0
	for _, cancelAt := range []int{8, 20, 14, 26, 3, 11, 17, 23, 5, 32, 2, 29} {
		if usable >= 2 {
			break
		}
		d := fresh()
		// (1) cancelled inside the stager
		token, _, err := migrateOnce(d, retained, nil, cancelAt, nil)
		if err != nil {
			failed++
			e.res.Violate(lib.Violation{Sig: "migration-fails-other", What: "first start, cancelled inside the stager: " + err.Error(),
				Replay: map[string]any{"scenario": name, "cancel_at_read": cancelAt}})
			continue
		}
		if len(token) != 24 {
			e.res.Hit("restage:first-start-not-interrupted")
			continue
		}
		s, rp, k := binary.BigEndian.Uint64(token[0:8]), binary.BigEndian.Uint64(token[8:16]), binary.BigEndian.Uint64(token[16:24])
		if rp != 0 || k != cut || s <= k || s > head {
			e.res.Hit("restage:token-not-inside-the-stager-range")
			continue
		}
		usable++
		e.res.Hit("restage:token-inside-the-stager-range")
		// (2) a start that completes; its result is never recorded
		if next, _, err := migrateOnce(d, retained, token, 0, nil); err != nil || next != nil {
			e.res.Violate(lib.Violation{Sig: "migration-fails-other", What: fmt.Sprintf("second start (token %d,0,%d): next=%x err=%v", s, k, next, err),
				Replay: map[string]any{"scenario": name, "cancel_at_read": cancelAt}})
			continue
		}
		// the completed migration itself must have kept every entry
		e.res.Compared(1)
		if got := historyOf(d, cut, head); !sameEntries(got, want) {
			e.res.Violate(lib.Violation{Sig: "migration-loses-history-after-cancel-and-resume",
				What:   fmt.Sprintf("cancelled inside the stager (token %d,0,%d) and resumed to the end: %s", s, k, diffEntries(got, want)),
				Replay: map[string]any{"scenario": name, "cancel_at_read": cancelAt}})
			continue
		}
		// (3) the stale token again: staged again from the cut-off; crash image after every batch write
		var imgs []*memory.Database
		var imu sync.Mutex
		if _, _, err := migrateOnce(d, retained, token, 0, func(int) {
			img := d.Copy()
			imu.Lock()
			imgs = append(imgs, img)
			imu.Unlock()
		}); err != nil {
			e.res.Violate(lib.Violation{Sig: "migration-fails-other", What: "third start (stale token, empty scratch space): " + err.Error(),
				Replay: map[string]any{"scenario": name, "cancel_at_read": cancelAt}})
			continue
		}
		// (3') the same start cancelled early instead of killed, its token never recorded (the process dies between
		// Migrate's return and the runner's commit): deterministic "some of the stager's blocks"
		for _, at := range []int{1, 3} {
			d3 := d.Copy()
			if next, _, err := migrateOnce(d3, retained, token, at, nil); err == nil && len(next) == 24 {
				if r := binary.BigEndian.Uint64(next[0:8]); binary.BigEndian.Uint64(next[8:16]) == 0 && r < s {
					imu.Lock()
					imgs = append(imgs, d3)
					imu.Unlock()
					e.res.Hit("restage:third-start-cancelled-early-token-lost")
				}
			}
		}
		// which variant is this? the proposed fix leaves a marker key {scratch tag, 0xff} while it stages again
		markerSeen := false
		for _, img := range imgs {
			for k := range bucketKeys(img, db.Temporary.Key()) {
				if len(k) == 2 && k[1] == 0xff {
					markerSeen = true
				}
			}
		}
		// (4) on every image taken while the stager of (3) was at work: the stale token once more, to the end
		for i, img := range imgs {
			live := len(historyOf(img, 0, head))
			stagedBlocks := map[uint64]bool{}
			staged := 0
			for k := range bucketKeys(img, db.Temporary.Key()) {
				kb := []byte(k)
				if len(kb) == 2 && kb[1] == 0xff {
					continue // the restaging marker of the proposed fix
				}
				staged++
				if len(kb) >= 9 {
					stagedBlocks[binary.BigEndian.Uint64(kb[len(kb)-8:])] = true
				}
			}
			if live == 0 || staged == 0 {
				continue // (3) had not staged anything yet, or was already past its history wipe
			}
			e.res.Hit("restage:image-with-a-partly-filled-scratch-space")
			if err := migrateToEnd(img, retained, token); err != nil {
				e.res.Violate(lib.Violation{Sig: "migration-rerun-fails-after-crash-" + migFailureCause("err:"+err.Error()),
					What:   fmt.Sprintf("kill -9 after batch write %d of the re-staging start; the next start (token %d,0,%d) fails: %v", i, s, k, err),
					Replay: map[string]any{"scenario": name, "cancel_at_read": cancelAt, "image": i}})
				continue
			}
			e.res.Compared(1)
			e.res.Case(fmt.Sprintf("%s/%d/%d", name, cancelAt, i), true)
			got := historyOf(img, cut, head)
			// --- the small-step model (ModelMigStep.lean) on the same four starts
			modelTie(e, name, want, got, stagedBlocks, markerSeen, cut, head, s, i, cancelAt)
			if sameEntries(got, want) {
				e.res.Hit("restage:history-complete-after-interrupted-restage")
				continue
			}
			e.res.Hit("finding:migration-loses-history-after-interrupted-restage")
			e.res.Violate(lib.Violation{Sig: "migration-loses-history-after-interrupted-restage",
				What: fmt.Sprintf("legacy backend, 60 blocks, L1 head %d, retained %d (cut-off %d): start 1 cancelled inside the stager (runner records the token (%d,0,%d)); start 2 completes but its result is never recorded; "+
					"start 3 finds the token above the cut-off and an empty scratch space, stages again from %d and is killed after batch write %d (scratch space: %d entries); start 4 finds the same token and a non-empty scratch space, "+
					"trusts the token, stages [%d, %d] only, wipes the live history and restores: the migration ends 'applied' and %s", l1, retained, cut, s, k, k, i, staged, s, head, diffEntries(got, want)),
				Replay: map[string]any{"scenario": name, "cancel_at_read": cancelAt, "image": i, "token": []uint64{s, 0, k}}})
			break
		}
	}
	if usable == 0 && failed == 0 {
		e.res.Fatalf("%s: no first start returned a token inside the stager range: the scenario shows nothing", name)
	}
}

// modelTie runs the four starts on the small-step model and compares, block by block, whether the history
// entries are in the live buckets at the end.
func modelTie(e *env, name string, want, got map[string][]byte, stagedBlocks map[uint64]bool, marker bool,
	cut, head, s uint64, image, cancelAt int,
) {
	blockOf := func(k string) uint64 { kb := []byte(k); return binary.BigEndian.Uint64(kb[len(kb)-8:]) }
	orig := map[uint64]int{}
	for k := range want {
		orig[blockOf(k)]++
	}
	have := map[uint64]int{}
	for k := range got {
		if _, ok := want[k]; ok {
			have[blockOf(k)]++
		}
	}
	var sb strings.Builder
	fmt.Fprintf(&sb, "migstep %d %d %s ", cut, head, b01(marker))
	for n := uint64(0); n <= head; n++ {
		if orig[n] > 0 {
			sb.WriteByte('1')
		} else {
			sb.WriteByte('0')
		}
	}
	all := func(prefix string, lo, hi uint64) {
		for n := lo; n <= hi; n++ {
			fmt.Fprintf(&sb, " %s%d", prefix, n)
		}
	}
	sb.WriteString(" start") // start 1: [cut, s) staged, cancelled
	all("s", cut, s-1)
	fmt.Fprintf(&sb, " cs%d", s)
	sb.WriteString(" start") // start 2: completes, never recorded
	all("s", cut, head)
	sb.WriteString(" sd")
	all("r", cut, head)
	sb.WriteString(" rd kill")
	sb.WriteString(" start") // start 3: killed with the image's blocks staged
	var xs []uint64
	for b := range stagedBlocks {
		xs = append(xs, b)
	}
	sort.Slice(xs, func(i, j int) bool { return xs[i] < xs[j] })
	for _, b := range xs {
		fmt.Fprintf(&sb, " s%d", b)
	}
	sb.WriteString(" kill")
	sb.WriteString(" start") // start 4: to the end, recorded
	all("s", cut, head)
	sb.WriteString(" sd")
	all("r", cut, head)
	sb.WriteString(" rd rec")
	line := sb.String()
	out, err := e.drv.Ask(line)
	if err != nil || out == "bad-op" {
		e.res.Fatalf("%s: model driver: %v %q (line %q)", name, err, out, line)
		return
	}
	f := strings.Fields(out)
	if len(f) != 5 || len(f[1]) != int(head)+1 {
		e.res.Fatalf("%s: model driver: malformed answer %q", name, out)
		return
	}
	e.res.Compared(int(head-cut) + 2)
	var implBits, modelBits strings.Builder
	for n := cut; n <= head; n++ {
		if orig[n] == 0 {
			continue
		}
		switch {
		case have[n] == orig[n]:
			implBits.WriteByte('1')
		case have[n] == 0:
			implBits.WriteByte('0')
		default:
			implBits.WriteByte('p') // partly there: not block-atomic
		}
		modelBits.WriteByte(f[1][n])
	}
	if f[0] != "1" || implBits.String() != modelBits.String() {
		e.res.Mismatch(lib.Mismatch{Sig: "migration-step-model", Input: map[string]any{"scenario": name, "cancel_at_read": cancelAt, "image": image, "line": line},
			Model: out, Impl: "done=1 live(blocks with history, from the cut-off)=" + implBits.String()})
	}
	e.res.Hit("restage:model-tie:marker=" + b01(marker))
}

func sameEntries(got, want map[string][]byte) bool {
	if len(got) != len(want) {
		return false
	}
	for k, v := range want {
		if g, ok := got[k]; !ok || !bytes.Equal(g, v) {
			return false
		}
	}
	return true
}

func diffEntries(got, want map[string][]byte) string {
	blocks := map[uint64]int{}
	for k := range want {
		if _, ok := got[k]; !ok {
			kb := []byte(k)
			blocks[binary.BigEndian.Uint64(kb[len(kb)-8:])]++
		}
	}
	var bs []string
	var ks []uint64
	for b := range blocks {
		ks = append(ks, b)
	}
	sort.Slice(ks, func(i, j int) bool { return ks[i] < ks[j] })
	for _, b := range ks {
		bs = append(bs, fmt.Sprintf("%d (%d)", b, blocks[b]))
	}
	extra := 0
	for k := range got {
		if _, ok := want[k]; !ok {
			extra++
		}
	}
	return fmt.Sprintf("%d of %d history entries of the retained blocks are gone — blocks %s; %d unexpected entries", len(want)-len(got)+extra, len(want), strings.Join(bs, ", "), extra)
}
