//go:build verif

package main

// Round 5: the minimum-age floor through a REORG.
//
// The pruner caches "the lowest block that is younger than the minimum age" (latestSampledHeight) and refreshes
// it on a ticker (sampleHeight: binary search over [cached sample, chain height]; a cached sample above the
// chain height makes the search window empty -> the sample drops to the chain height). Every chain of the
// earlier scenarios is ONE chain: a block number has one timestamp for ever. Here the head is reverted BELOW
// the cached sample and the chain is re-extended with blocks of another fork that carry FRESH timestamps
// (younger than the minimum age), then the L1 head (or the catch-up path) raises the block-count floor.
//
//   - minage-reorg:          a tick fires while the head is below the sample (the sample follows the chain down),
//                            the fork arrives, a tick re-samples, the floor is raised: none of the young blocks
//                            of the fork may be pruned.
//   - minage-reorg-no-tick:  the same history WITHOUT a tick between the revert and the re-extension (the ticker
//                            runs every 15 minutes in production; here: never): the cached sample still
//                            vouches for the block numbers of the fork that was reverted.

import (
	"fmt"
	"strings"
	"sync/atomic"
	"time"

	"github.com/NethermindEth/juno/core"
	"github.com/NethermindEth/juno/pruner"
	"verif/harness/lib"
)

// sampleChecked: the code under test validates the cached min-age sample against the database before it uses
// it for a prune (detected, see probeSampleChecked; proposed-fixes/C16-stale-min-age-sample-after-reorg.diff).
// The model follows (Cfg.sampleChecked).
var sampleChecked atomic.Bool

// probeSampleChecked: the history of the finding in small. 8 blocks older than the minimum age, the pruner
// starts (cached sample = head 7), the head is reverted to 3, another fork 4'..9' with young blocks is stored,
// L1 head 7, retained 0, no tick: the code in /repo prunes up to the stale sample (oldest retained 7), the
// repaired code re-seeds and stops at the first young block (oldest retained 4).
func probeSampleChecked() (checked bool, note string, err error) {
	ch := newChain(lib.NewRNG(5), false, lib.DefaultGenOptions())
	node, d := lib.NewNode(ch.g.Net, false)
	for i := 0; i < 8; i++ {
		b, err := ch.next(true)
		if err != nil {
			return false, "", err
		}
		if err := lib.StoreOn(node, b); err != nil {
			return false, "", err
		}
	}
	cutoff := ch.g.Bundles[7].Block.Timestamp + 1000
	floor := &pruner.RetentionFloor{}
	if err := floor.Seed(d); err != nil {
		return false, "", err
	}
	p, err := startPruner(d, floor, prunerCfg{Retained: 0, L2PerPrune: 1, BatchBytes: hugeBatch,
		MinAge: time.Since(time.Unix(int64(cutoff), 0))})
	if err != nil {
		return false, "", err
	}
	defer p.stop()
	for i := 0; i < 4; i++ {
		if err := node.RevertHead(); err != nil {
			return false, "", err
		}
		if err := ch.g.Revert(); err != nil {
			return false, "", err
		}
	}
	ch.noopBlocks = ch.noopBlocks[:4]
	head := ch.g.Head()
	saved := head.Block.Timestamp
	for i := 0; i < 6; i++ {
		if i == 0 {
			head.Block.Timestamp = cutoff + 100000
		}
		b, err := ch.next(true)
		if i == 0 {
			head.Block.Timestamp = saved
		}
		if err != nil {
			return false, "", err
		}
		if err := lib.StoreOn(node, b); err != nil {
			return false, "", err
		}
	}
	if err := core.WriteL1Head(d, &core.L1Head{BlockNumber: 7, BlockHash: lib.F(7), StateRoot: lib.F(7)}); err != nil {
		return false, "", err
	}
	if _, err := p.sendL1(7); err != nil {
		return false, "the probe event was not handled (" + err.Error() + "): taken as 'used as it is'", nil
	}
	oldest, err := pruner.OldestRetainedBlock(d)
	if err != nil {
		return false, "the probe history leaves no retained block (" + err.Error() + "): taken as 'used as it is'", nil
	}
	switch oldest {
	case 4:
		return true, "stale cached sample 7 after a reorg to 3: re-seeded before use (oldest retained 4)", nil
	case 7:
		return false, "stale cached sample 7 after a reorg to 3: used as it is (oldest retained 7, young blocks 4..6 pruned)", nil
	}
	// neither: the code under test prunes differently altogether; the scenarios will say how (the model runs as the
	// variant in /repo)
	return false, fmt.Sprintf("stale cached sample 7 after a reorg to 3: oldest retained block %d (neither 4 nor 7): taken as 'used as it is'", oldest), nil
}

func reorgJobs(f lib.Flags) []job {
	var jobs []job
	for _, ns := range []bool{false, true} {
		for _, path := range []string{"l1", "l2"} {
			for _, batch := range []int{1, hugeBatch} {
				ns, path, batch := ns, path, batch
				name := jobName("minage-reorg/new=%v/%s/batch=%d", ns, path, batch)
				jobs = append(jobs, job{name: name, run: func(e *env) { minAgeReorg(e, name, ns, path, batch, true) }})
			}
		}
		ns := ns
		name := jobName("minage-reorg-no-tick/new=%v", ns)
		jobs = append(jobs, job{name: name, run: func(e *env) { minAgeReorg(e, name, ns, "l1", hugeBatch, false) }})
		n2 := jobName("filter-snapshot/new=%v", ns)
		jobs = append(jobs, job{name: n2, run: func(e *env) { filterSnapshot(e, n2, ns) }})
	}
	return jobs
}

// filterSnapshot: the running event filter resumed from the snapshot an orderly shutdown persisted
// (pruner.InitializeRunningEventFilter). 15 blocks, orderly restart (snapshot: next block 15; the new process is
// "caught up"), 15 more blocks, L1 head 28, retained 0: the prune moves the floor to 28 — more than BlockHashLag
// above the snapshot's next block, so the headers the snapshot would continue from are gone — then the process
// is KILLED (no new snapshot) and started again: "same-window gap": the stale snapshot is resumed and filled from
// max(next, floor) = 28. Event queries from the retained blocks, store, revert must keep working.
func filterSnapshot(e *env, name string, newState bool) {
	base, err := getBase(fmt.Sprintf("plain34/%v", newState), 19, newState, true, 34, 14)
	if err != nil {
		e.res.Fatalf("%s: base image: %v", name, err)
		return
	}
	w := cloneWorld(e, base, prunerCfg{Retained: 0, L2PerPrune: 1, BatchBytes: hugeBatch}, 0, name, nil)
	defer w.close()
	if !w.store() {
		return
	}
	w.observe()
	w.restart("orderly")
	w.observe()
	for w.height < 29 {
		if !w.store() {
			return
		}
	}
	w.writeL1(28)
	w.event("l1", 28, 0, noPlan())
	w.observe()
	w.restart("kill")
	w.res.Hit("running-filter:stale-snapshot-below-the-floor-resumed")
	w.observe()
	if w.store() {
		w.observe()
	}
	if w.revert() {
		w.observe()
	}
	w.restart("orderly")
	w.observe()
}

// forkAbove switches the chain the world follows to another fork above block k (the node's head is at or
// below k): the generator and the unpruned twin drop their blocks above k and grow n new ones; the first of
// them carries a timestamp in [firstTs, firstTs+29] (the generator adds 1..30 s per block). The chain must be
// private to the world (not a shared base image).
func (w *world) forkAbove(k, n int, firstTs uint64) bool {
	if w.broken {
		return false
	}
	g := w.ch.g
	if w.height > k || k >= g.Height() {
		w.harnessFailed("forkAbove(%d): node head %d, chain height %d", k, w.height, g.Height())
		return false
	}
	for g.Height() > k+1 {
		if err := g.Revert(); err != nil {
			w.harnessFailed("forkAbove(%d): generator: %v", k, err)
			return false
		}
	}
	w.ch.noopBlocks = w.ch.noopBlocks[:k+1]
	// the twin's answers about the blocks above k are those of the old fork
	w.ch.cacheMu.Lock()
	w.ch.twinState, w.ch.twinQ, w.ch.twinLUs = map[string]twinStateRes{}, map[string]twinQRes{}, map[string]luRes{}
	w.ch.histKeys = nil
	w.ch.cacheMu.Unlock()
	head := g.Head()
	saved := head.Block.Timestamp
	for i := 0; i < n; i++ {
		if i == 0 {
			head.Block.Timestamp = firstTs - 1
		}
		_, err := w.ch.next(true)
		if i == 0 {
			head.Block.Timestamp = saved
		}
		if err != nil {
			w.harnessFailed("forkAbove(%d): generator: %v", k, err)
			return false
		}
	}
	w.tsSent = -1 // the model is told the new timestamps with the next clock line
	w.rec("fork", uint64(k), fmt.Sprintf("the network switches to another fork above block %d: %d new blocks, timestamps from %d", k, n, g.Bundles[k+1].Block.Timestamp))
	w.res.Hit("op:fork")
	return true
}

// syncTick waits for a complete tick of the sample ticker that started after every earlier operation of the
// harness, and lets the model take the same step. Ticks are idempotent while nothing else happens (same
// database, same cut-off second), so the many ticks between two operations of the harness are one `tick`.
func (w *world) syncTick(why string) bool {
	if w.broken || w.proc == nil {
		return false
	}
	w.rec("tick", 0, why)
	c0 := w.cutoffNow()
	if !w.proc.awaitFullTick() {
		w.violate("pruner-hangs-"+w.situation, "the sample ticker (interval 2 ms) did not fire: "+why)
		w.broken = true
		return false
	}
	w.clock(c0)
	if o := w.ask("tick"); o != "ok" {
		w.mismatch("tick", why, o, "ok")
	}
	w.procSample = w.sampleAt(c0)
	if w.sampleAt(w.cutoffNow()) != w.procSample {
		w.broken = true
		clockSkipped.Add(1)
		w.res.Hit("skipped:clock-crossed-a-block-timestamp")
		return false
	}
	w.sampleTie("tick:" + why)
	w.res.Hit("op:tick")
	return !w.broken
}

// minAgeReorg: 21 old blocks (the cut-off lies 1000 s after the last one: sample = head 20), a first prune of
// old blocks, the head reverted to 10 (below the sample), [tick], a fork of 16 blocks 11'..26' whose timestamps
// lie far after the cut-off (all younger than the minimum age), [tick], then the block-count floor is raised to
// 22 - retained (L1 head 22 below the head: L1 path) or 25 - retained (L1 head 30 ahead of the head, new-head
// event of block 25: catch-up path, time floor applied because the event's block is young). The property: the
// floor stays at 11, the first young block.
func minAgeReorg(e *env, name string, newState bool, path string, batch int, ticks bool) {
	const retained = 2
	ch := newChain(lib.NewRNG(41), newState, lib.DefaultGenOptions())
	for i := 0; i < 21; i++ {
		if _, err := ch.next(true); err != nil {
			e.res.Fatalf("%s: chain: %v", name, err)
			return
		}
	}
	cutoff := ch.g.Bundles[20].Block.Timestamp + 1000
	pc := prunerCfg{Retained: retained, L2PerPrune: 1, BatchBytes: batch}
	if ticks {
		pc.Tick = 2 * time.Millisecond
	}
	w := newWorld(e.res, ch, e.drv, e.fdrv, e.fixed, e.mig, pc, cutoff, name,
		map[string]any{"path": path, "batch": batch, "ticks": ticks, "cutoff": cutoff})
	defer w.close()
	w.gated = ticks
	for i := 0; i < 21; i++ {
		if !w.store() {
			return
		}
	}
	if ticks {
		if !w.syncTick("21 blocks, all older than the minimum age: the sample is the head") {
			return
		}
	} else {
		w.restart("orderly") // seedFloor samples: no block in the window, the sample is the head
		w.situation = "steady"
	}
	if w.broken {
		return
	}
	if w.procSample != 20 {
		w.harnessFailed("the scenario expects the sample 20 before the reorg, the scan says %d", w.procSample)
		return
	}
	// a first prune, of old blocks only
	w.writeL1(8)
	w.event("l1", 8, 0, noPlan())
	w.observe()
	// the reorg: head 20 -> 10, below the cached sample
	for w.height > 10 {
		if !w.revert() {
			return
		}
	}
	if ticks && !w.syncTick("head reverted to 10, below the cached sample 20") {
		return
	}
	if !w.forkAbove(10, 16, cutoff+100000) {
		return
	}
	for w.height < 25 {
		if !w.store() {
			return
		}
	}
	if ticks && !w.syncTick("fork stored up to 25: blocks 11.. are younger than the minimum age") {
		return
	}
	if !ticks {
		w.clock(w.cutoffNow()) // the model learns the timestamps of the fork
	}
	w.res.Hit("min-age:reorg-below-the-sample:" + map[bool]string{true: "with-tick", false: "no-tick"}[ticks])
	// the block-count floor is raised above the young blocks
	if path == "l1" {
		w.writeL1(22)
		w.event("l1", 22, 0, noPlan())
	} else {
		w.writeL1(30)
		w.event("l2", 25, w.ts(25), noPlan())
	}
	if !ticks {
		w.noTickJudge(cutoff)
		return
	}
	w.observe()
	if oldest, err := pruner.OldestRetainedBlock(w.nodeDB); err == nil && oldest == 11 {
		w.res.Hit("min-age:reorg:floor-stops-at-first-young-block")
	}
	// the other trigger as well, a restart (re-seeded sample), and the chain still reverts down to the floor
	if path == "l1" {
		w.writeL1(30)
		w.event("l2", 25, w.ts(25), noPlan())
	} else {
		w.writeL1(22)
		w.event("l1", 22, 0, noPlan())
	}
	w.observe()
	w.gated = false
	w.restart("orderly")
	w.gated = ticks
	w.situation = "steady"
	w.observe()
	for i := 0; i < 3 && uint64(w.height) > w.fspec+1; i++ {
		if !w.revert() {
			return
		}
	}
	w.observe()
	w.store()
	w.observe()
}

// noTickJudge: after the history without a tick between the revert and the re-extension. Either the node kept
// every young block (then the ordinary observation judges the rest), or it shows the one documented defect:
// the stale sample (20) was taken for the min-age floor and blocks of the new fork that are younger than the
// minimum age are gone. Anything else is judged by the ordinary observation.
func (w *world) noTickJudge(cutoff uint64) {
	if w.broken {
		return
	}
	oldest, oerr := pruner.OldestRetainedBlock(w.nodeDB)
	cut := w.cutoffNow()
	var young []string
	for n := uint64(0); oerr == nil && n < oldest && int(n) <= w.height; n++ {
		if w.ts(n) >= cut {
			young = append(young, fmt.Sprint(n))
		}
	}
	if oerr == nil && len(young) > 0 && oldest <= 20 && oldest > 11 {
		w.res.Hit("finding:min-age-floor-above-young-block-after-reorg")
		w.res.Violate(lib.Violation{Sig: "min-age-floor-above-young-block-after-reorg-below-cached-sample", Replay: w.replay(),
			What: fmt.Sprintf("min-age on (cut-off now - minAge = %d): 21 blocks older than the cut-off (cached sample latestSampledHeight = 20), head reverted to 10, "+
				"another fork 11..25 stored whose blocks are all YOUNGER than the minimum age (timestamps from %d), no tick of the sample ticker in between "+
				"(15 min in production); L1 head 22, retained %d: applyTimeFloor takes min(stale sample 20, 20) and blocks %s of the new fork — younger than the minimum age — are pruned "+
				"(oldest retained block %d; the floor the property allows is 11, the first young block). sampleHeight only ever searches upwards from the cached sample; nothing lowers it when the chain is reverted below it",
				cut, w.ts(11), w.pcfg.Retained, strings.Join(young, ","), oldest)})
		w.broken = true
		return
	}
	w.res.Hit("min-age:reorg-no-tick:young-blocks-kept")
	w.observe()
}
