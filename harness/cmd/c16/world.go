//go:build verif

package main

import (
	"sync/atomic"
	"errors"
	"fmt"
	"sort"
	"strings"
	"sync"
	"time"

	"github.com/NethermindEth/juno/blockchain"
	"github.com/NethermindEth/juno/core"
	"github.com/NethermindEth/juno/core/felt"
	"github.com/NethermindEth/juno/db/memory"
	"github.com/NethermindEth/juno/l1/eth"
	"github.com/NethermindEth/juno/pruner"
	"verif/harness/lib"
)

// chain is the generated chain shared (read-only after construction) by a scenario and its crash forks.
// The generator's source node is the unpruned twin.
type chain struct {
	g        *lib.ChainGen
	newState bool
	verIdx   int
	keys     []stateKey
	keyset   map[string]bool

	clean      bool   // drop storage entries that do not change the slot
	noopBlocks []bool // per block: its diff names a storage slot it does not change
	directed   int    // blocks with a same-address nonce update + class replacement
	l1Mid      int    // blocks with an L1-handler transaction that is not the last of its block
	// evAddr: an address that emitted at least one event on this chain (filtered event queries)
	evAddr *felt.Felt

	// answers of the unpruned twin never change once the chain is generated: cache them
	cacheMu   sync.Mutex
	twinState map[string]twinStateRes
	twinLUs   map[string]luRes
	twinQ     map[string]twinQRes
	// legacy history keys of the twin by block (storetie.go), valid for a chain of histKeysAt blocks
	histKeys   map[uint64][][]byte
	histKeysAt int
}

type cellRes struct {
	v felt.Felt
	e string
}

type twinStateRes struct {
	err   string // "" = reader handed out
	cells []cellRes
}

type twinQRes struct {
	v   any
	err error
}

// twinStateAt reads (once) every cell of c.keys through the twin's state reader opened by `open`.
func (c *chain) twinStateAt(id string, open func(bc *blockchain.Blockchain) (core.StateReader, blockchain.StateCloser, error)) twinStateRes {
	c.cacheMu.Lock()
	if r, ok := c.twinState[id]; ok {
		c.cacheMu.Unlock()
		return r
	}
	c.cacheMu.Unlock()
	var res twinStateRes
	tr, tclose, terr := open(c.g.Src)
	if terr != nil {
		res.err = errClass(terr)
	} else {
		for _, k := range c.keys {
			v, e := readCell(tr, k)
			res.cells = append(res.cells, cellRes{v, e})
		}
		_ = tclose()
	}
	c.cacheMu.Lock()
	c.twinState[id] = res
	c.cacheMu.Unlock()
	return res
}

func (c *chain) twinQuery(id string, call qcall) twinQRes {
	c.cacheMu.Lock()
	if r, ok := c.twinQ[id]; ok {
		c.cacheMu.Unlock()
		return r
	}
	c.cacheMu.Unlock()
	v, err := call.Do()
	r := twinQRes{v, err}
	c.cacheMu.Lock()
	c.twinQ[id] = r
	c.cacheMu.Unlock()
	return r
}

func newChain(r *lib.RNG, newState bool, opt lib.GenOptions) *chain {
	c := &chain{g: lib.NewChainGen(r, newState, opt), newState: newState, keyset: map[string]bool{},
		twinState: map[string]twinStateRes{}, twinQ: map[string]twinQRes{}}
	c.addKey(stateKey{Kind: "storage", Addr: markerAddr, Slot: markerSlot})
	return c
}

// addKeyFirst: keys of directed blocks are always observed (the cap applies to the generated rest).
func (c *chain) addKeyFirst(k stateKey) {
	id := k.Kind + k.Addr.String() + k.Slot.String()
	if c.keyset[id] || len(c.keys) >= 22 {
		return
	}
	c.keyset[id] = true
	c.keys = append(c.keys, k)
}

// addKeyOnce: the first key of its kind, outside the cap.
func (c *chain) addKeyOnce(k stateKey) {
	if c.keyset["kind:"+k.Kind] {
		return
	}
	c.keyset["kind:"+k.Kind] = true
	c.keys = append(c.keys, k)
}

func (c *chain) addKey(k stateKey) {
	id := k.Kind + k.Addr.String() + k.Slot.String()
	if c.keyset[id] || len(c.keys) >= 12 {
		return
	}
	c.keyset[id] = true
	c.keys = append(c.keys, k)
}

// next manufactures the next block: a generated diff (or an empty one for plain chains) plus the
// marker write — a slot of the system contract 0x1 that EVERY block rewrites with a value naming the
// block, so a historical read that is answered from the wrong block is always visible.
func (c *chain) next(plain bool) (*lib.Bundle, error) {
	g := c.g
	num := uint64(g.Height())
	vs := g.Opt.Versions
	if g.R.Chance(1, 5) && c.verIdx+1 < len(vs) {
		c.verIdx++
	}
	version := vs[c.verIdx]
	var diff *core.StateDiff
	var classes map[felt.Felt]core.ClassDefinition
	if plain {
		diff = &core.StateDiff{
			StorageDiffs: map[felt.Felt]map[felt.Felt]*felt.Felt{}, Nonces: map[felt.Felt]*felt.Felt{},
			DeployedContracts: map[felt.Felt]*felt.Felt{}, DeclaredV0Classes: []*felt.Felt{},
			DeclaredV1Classes: map[felt.Felt]*felt.Felt{}, ReplacedClasses: map[felt.Felt]*felt.Felt{},
			MigratedClasses: map[felt.SierraClassHash]felt.CasmClassHash{},
		}
		classes = map[felt.Felt]core.ClassDefinition{}
	} else {
		diff, classes = g.GenDiff(g.HeadState(), num, version)
	}
	if !plain {
		// a storage entry that writes zero to an EMPTY slot leaves no history entry on the legacy backend (a
		// non-zero value rewritten does: the trie returns the old leaf); count the blocks that have one, or
		// drop them (clean)
		prev := g.HeadState()
		noop := false
		for a, kv := range diff.StorageDiffs {
			for k, v := range kv {
				var cur felt.Felt
				if pc, ok := prev.Contracts[a]; ok {
					cur = pc.Storage[k]
				}
				if cur.IsZero() && v.IsZero() {
					if c.clean {
						delete(kv, k)
					} else {
						noop = true
					}
				}
			}
			if len(kv) == 0 {
				delete(diff.StorageDiffs, a)
			}
		}
		c.noopBlocks = append(c.noopBlocks, noop)
	} else {
		c.noopBlocks = append(c.noopBlocks, false)
	}
	if !plain && num%3 == 2 {
		// directed: ONE contract (deployed in an earlier block) gets a nonce update AND a class replacement in
		// this block — two history entries of different kinds under the same address and block number
		prev := g.HeadState()
		var cands []felt.Felt
		for a := range prev.Deployed {
			if _, now := diff.DeployedContracts[a]; !now {
				cands = append(cands, a)
			}
		}
		sort.Slice(cands, func(i, j int) bool { return cands[i].Cmp(&cands[j]) < 0 })
		if len(cands) > 0 {
			a := cands[int(num/3)%len(cands)]
			cur := prev.Contracts[a].Nonce
			diff.Nonces[a] = new(felt.Felt).Add(&cur, lib.F(1))
			ch := g.ClassHash(int(num) % 4)
			if ch.Equal(&prev.Contracts[a].Class) {
				ch = g.ClassHash((int(num) + 1) % 4)
			}
			diff.ReplacedClasses[a] = &ch
			c.directed++
			c.addKeyFirst(stateKey{Kind: "nonce", Addr: a})
			c.addKeyFirst(stateKey{Kind: "class", Addr: a})
		}
	}
	if diff.StorageDiffs[markerAddr] == nil {
		diff.StorageDiffs[markerAddr] = map[felt.Felt]*felt.Felt{}
	}
	diff.StorageDiffs[markerAddr][markerSlot] = markerValue(num)
	if num == onceBlock {
		diff.StorageDiffs[markerAddr][onceSlot] = lib.F(77) // written by this block only (lastupd.go)
	}
	for a, kv := range diff.StorageDiffs {
		for k := range kv {
			c.addKey(stateKey{Kind: "storage", Addr: a, Slot: k})
		}
	}
	for a := range diff.Nonces {
		c.addKey(stateKey{Kind: "nonce", Addr: a})
	}
	for a := range diff.ReplacedClasses {
		c.addKey(stateKey{Kind: "class", Addr: a})
	}
	for a := range diff.DeployedContracts {
		c.addKey(stateKey{Kind: "class", Addr: a})
	}
	// class definitions and compiled class hashes through the same readers (at most one class of each kind)
	for _, h := range diff.DeclaredV0Classes {
		c.addKeyOnce(stateKey{Kind: "classdef", Addr: *h})
	}
	for h := range diff.DeclaredV1Classes {
		c.addKeyOnce(stateKey{Kind: "classdef", Addr: h})
		c.addKeyOnce(stateKey{Kind: "casm", Addr: h})
		// (CompiledClassHashV2 is answered from the HEAD state by both history readers, by design: not a function of
		// the block, so a node and a longer twin differ without any pruning — not compared)
	}
	spec := &lib.BlockSpec{Version: version, Diff: diff, Classes: classes}
	if !plain && num%4 == 1 {
		// directed: an L1-handler transaction that is NOT the last of its block, followed by ordinary transactions
		// and a second L1 handler (the reverse-lookup buckets are rebuilt per transaction by the history-pruner
		// migration's restorer: an index that drifts after an L1 handler shows only on the transactions behind it)
		var l1s, others []core.Transaction
		for tries := 0; tries < 400 && (len(l1s) < 2 || len(others) < 2); tries++ {
			tx := g.GenTx(version)
			if _, ok := tx.(*core.L1HandlerTransaction); ok {
				if len(l1s) < 2 {
					l1s = append(l1s, tx)
				}
			} else if len(others) < 2 {
				others = append(others, tx)
			}
		}
		if len(l1s) == 2 && len(others) == 2 {
			for _, tx := range []core.Transaction{l1s[0], others[0], l1s[1], others[1]} {
				spec.Txs = append(spec.Txs, tx)
				spec.Rcs = append(spec.Rcs, g.GenReceipt(tx))
			}
			c.l1Mid++
		}
	}
	b, err := g.Next(spec)
	if err == nil && c.evAddr == nil {
		for _, rc := range b.Block.Receipts {
			if len(rc.Events) > 0 {
				a := *rc.Events[0].From
				c.evAddr = &a
				break
			}
		}
	}
	return b, err
}

// nextBare manufactures an empty block (no state diff, no transactions) — or, with events=true, a block
// whose only content is one or two transactions with at least one event. Long chains of such blocks are
// cheap on both state backends (nothing is written to the state or its history).
func (c *chain) nextBare(events bool) (*lib.Bundle, error) {
	g := c.g
	version := g.Opt.Versions[0]
	diff := &core.StateDiff{
		StorageDiffs: map[felt.Felt]map[felt.Felt]*felt.Felt{}, Nonces: map[felt.Felt]*felt.Felt{},
		DeployedContracts: map[felt.Felt]*felt.Felt{}, DeclaredV0Classes: []*felt.Felt{},
		DeclaredV1Classes: map[felt.Felt]*felt.Felt{}, ReplacedClasses: map[felt.Felt]*felt.Felt{},
		MigratedClasses: map[felt.SierraClassHash]felt.CasmClassHash{},
	}
	spec := &lib.BlockSpec{Version: version, Diff: diff, Classes: map[felt.Felt]core.ClassDefinition{}, NoTxs: true}
	if events {
		spec.NoTxs = false
		for len(spec.Txs) == 0 {
			tx := g.GenTx(version)
			rc := g.GenReceipt(tx)
			if len(rc.Events) == 0 {
				continue
			}
			if c.evAddr == nil {
				a := *rc.Events[0].From
				c.evAddr = &a
			}
			spec.Txs = append(spec.Txs, tx)
			spec.Rcs = append(spec.Rcs, rc)
		}
	}
	return g.Next(spec)
}

// opRec is one step of a scenario as it goes into a replay file.
type opRec struct {
	Op   string `json:"op"`
	N    uint64 `json:"n,omitempty"`
	Arg  string `json:"arg,omitempty"`
	Note string `json:"note,omitempty"`
}

// world is one node under test (database + Blockchain + RetentionFloor + running pruner service),
// the model instance that shadows it, and the bookkeeping of the property oracle.
type world struct {
	res  *lib.Result
	ch   *chain
	name string // scenario name, part of replays only
	spec any    // scenario parameters for the replay file

	nodeDB *memory.Database
	node   *blockchain.Blockchain
	// shadow: unpruned node with the same Store/RevertHead history (head-state oracle)
	shadowDB *memory.Database
	shadow   *blockchain.Blockchain
	floor    *pruner.RetentionFloor
	pcfg     prunerCfg
	proc     *prunerProc
	height   int // -1 = empty; node's chain height as the harness drove it

	drv   *lib.Driver
	fdrv  *lib.Driver // second model instance, for crash forks
	fixed bool        // prune variant the code under test implements (detected, see probeVariant)
	mig   migVariant  // migration variant the code under test implements (detected, see probeMigration)
	lines []string    // state-changing model lines since cfg
	ops   []opRec

	// oracle bookkeeping
	l1        int64  // recorded L1 head (-1 none)
	specL1    *uint64 // the L1 head an L1 event in flight carries (it IS L1-confirmed, written right after); nil = none
	fspec     uint64 // highest floor the property allows so far
	cutoff    uint64 // min-age cutoff (unix seconds) the scenario was built around; 0 = min-age off
	situation string // steady | mid-prune | after-cancel | after-failed-write | after-crash-mid-prune | after-restart
	quiescent bool
	isFork    bool
	migrated  bool // the history-pruner migration has rewritten this database: findings carry it in their sig
	// min-age: the pruner compares block timestamps with wall-clock now-minAge; the harness recomputes that
	// cut-off from the same clock whenever it predicts a decision, and drops the case if the clock moved
	// across a block timestamp in between (never observed on an idle machine; seen once under heavy load)
	minAgeDur  time.Duration
	procSample uint64
	migCut     uint64 // the cut-off the harness' last migMinAgeFloor scan used
	procCutoff uint64 // the cut-off the harness read right before the process (and its seedFloor) started
	tsSent     int    // number of block timestamps the model has been told
	noState    bool            // long bare chains: no historical state observations (covered by the other scenarios)
	extra      map[uint64]bool // blocks always inside the observation window
	lastLow    uint64          // lowest durable floor seen at the previous observation (observation window)
	// dirtyUpTo: blocks below it may have been half-pruned by a prune that was interrupted by a crash or a
	// write error (its target was at most the allowed floor of that moment); only a prune that completes at or
	// above it sweeps them. 0 = nothing pending.
	dirtyUpTo uint64
	broken    bool // the scenario left the property's domain or the harness lost sync: stop comparing
	held      []*heldR // historical readers opened earlier and kept (review.go)
	// gated: the world runs a fast sample ticker; the harness' own Store / RevertHead close the tick gate of the
	// pruner's store wrapper (hookdb.go) so that no sampleHeight runs across them (reorg.go)
	gated bool
	luQ       []luItem // ContractStorageLastUpdatedBlock answers of the current observation (lastupd.go)
}

func (w *world) legacy() bool { return !w.ch.newState }

func b01(b bool) string {
	if b {
		return "1"
	}
	return "0"
}

func (w *world) rec(op string, n uint64, arg string) {
	w.ops = append(w.ops, opRec{Op: op, N: n, Arg: arg})
}

func (w *world) replay() any {
	return map[string]any{"scenario": w.name, "spec": w.spec, "new_state": w.ch.newState,
		"retained": w.pcfg.Retained, "l2_heads_per_prune": w.pcfg.L2PerPrune, "batch_bytes": w.pcfg.BatchBytes,
		"min_age_cutoff_unix": w.cutoff, "fork": w.isFork, "ops": append([]opRec{}, w.ops...)}
}

// ask sends one state-changing line to the model and remembers it (crash forks replay the prefix).
func (w *world) ask(line string) string {
	w.lines = append(w.lines, line)
	if w.broken {
		return "world-stopped"
	}
	out, err := w.drv.Ask(line)
	if err == nil && out == "bad-op" {
		err = fmt.Errorf("the driver does not understand the line")
	}
	if err != nil {
		w.harnessFailed("model driver: %v (line %q)", err, line)
		return "driver-error"
	}
	return out
}

func (w *world) mismatch(sig string, input any, model, impl string) {
	if model == "world-stopped" || model == "driver-error" {
		return // the model side is gone (reported as a harness failure): there is nothing to compare
	}
	w.res.Mismatch(lib.Mismatch{Sig: sig, Input: map[string]any{"at": input, "replay": w.replay()}, Model: model, Impl: impl})
}

// harnessFailed: the machinery (model driver, shadow node, memory database) let the harness down. Never green
// (CONVENTIONS §8); the world stops, nothing it would have produced is trusted.
func (w *world) harnessFailed(format string, a ...any) {
	w.res.Fatalf("%s: "+format, append([]any{w.name}, a...)...)
	w.broken = true
}

func (w *world) violate(sig, what string) {
	// attribute a finding to its cause: whatever shows up on a database the migration has rewritten carries
	// that fact, also when a later (correct) prune has brought the situation back to "steady"
	if w.migrated && !strings.Contains(sig, "migration") {
		sig += "-on-migrated-db"
	}
	w.res.Violate(lib.Violation{Sig: sig, What: what, Replay: w.replay()})
}

// newWorld opens an empty node on a fresh database and the model in the same configuration.
func newWorld(res *lib.Result, ch *chain, drv, fdrv *lib.Driver, fixed bool, mig migVariant, pcfg prunerCfg, cutoff uint64, name string, spec any) *world {
	w := &world{res: res, ch: ch, name: name, spec: spec, drv: drv, fdrv: fdrv, fixed: fixed, mig: mig, pcfg: pcfg,
		height: -1, l1: -1, cutoff: cutoff, situation: "steady", quiescent: true}
	w.nodeDB = memory.New()
	w.shadowDB = memory.New()
	w.shadow = lib.NodeOn(w.shadowDB, ch.g.Net, ch.newState)
	w.openNode(true)
	w.lines = nil
	out := w.ask(w.cfgLine())
	if out != "ok" {
		w.harnessFailed("model driver rejects the configuration line: %s", out)
	}
	// a brand-new process on an empty database with a seeded floor
	w.res.Compared(1)
	if o := w.ask("crash 1"); o != "ok" {
		w.mismatch("restart", "initial", o, "ok")
	}
	return w
}

func (w *world) cfgLine() string {
	return fmt.Sprintf("cfg %d %d %s %s %s %s %s %s %s %s", w.pcfg.Retained, w.pcfg.L2PerPrune, b01(w.cutoff > 0), b01(w.legacy()),
		b01(w.fixed), b01(w.mig.SkipsMissing), b01(w.mig.ZeroNoop), b01(l2Clamps.Load()), b01(readerGuard.Load()), b01(sampleChecked.Load()))
}

// l2Clamps: the code under test ignores a new-head event for a block above the current head (detected, see
// probeStaleEvent; in /repo since 868e51a — if the clamp is lost the model follows and the stale-event scenario reports
// head-block-pruned-after-stale-event / shared-floor-above-head-after-stale-event, which are no known findings any more).
var l2Clamps atomic.Bool

// readerGuard: the legacy historical reader of the code under test repeats its retention check after every
// read (detected, see probeHeldReader; proposed-fixes/C16-legacy-reader-held-across-prune.diff).
var readerGuard atomic.Bool

// clock tells the model the block timestamps of the chain (when it has grown) and the pruner's cut-off
// (now - minAge) at this moment. The model derives everything else itself: the seeded / ticked sample, the
// deep-catch-up decision of onNewBlock, the migration's min-age floor.
func (w *world) clock(cut uint64) {
	if w.cutoff == 0 {
		return
	}
	w.syncTs()
	if o := w.ask(fmt.Sprintf("clock %d", cut)); o != "ok" && !w.broken {
		w.harnessFailed("model driver rejects clock %d: %s", cut, o)
	}
}

// tsLine: the header timestamps of the chain the world follows, as the model is told them.
func (w *world) tsLine() string {
	var sb strings.Builder
	sb.WriteString("ts")
	for _, b := range w.ch.g.Bundles {
		fmt.Fprintf(&sb, " %d", b.Block.Timestamp)
	}
	return sb.String()
}

// syncTs tells the model the timestamps of the chain whenever it has grown or has been reorganised (the model
// records a block's timestamp when the block is stored: before every store, not only before clock lines).
func (w *world) syncTs() {
	if w.cutoff == 0 || w.broken {
		return
	}
	if n := len(w.ch.g.Bundles); n != w.tsSent {
		if o := w.ask(w.tsLine()); o != "ok" && !w.broken {
			w.harnessFailed("model driver rejects the timestamps: %s", o)
		}
		w.tsSent = n
	}
}

// sampleTie: after a process start the model's seeded sample (binary search of the model over the model's
// headers) must be what the harness' own linear scan over the real database finds.
func (w *world) sampleTie(at string) {
	if w.cutoff == 0 || w.broken {
		return
	}
	info, err := w.drv.Ask("info")
	f := strings.Fields(info)
	if err != nil || len(f) != 7 {
		w.harnessFailed("model driver: info: %v %q", err, info)
		return
	}
	w.res.Compared(1)
	if want := fmt.Sprint(w.sampleNow()); f[4] != want {
		w.mismatch("min-age-sample", map[string]any{"at": at, "cutoff": w.procCutoff}, f[4], want)
	}
}

// openNode is a process start: new Blockchain on the database with a RetentionFloor seeded from it
// (node.Run does the same), pruning-aware event-filter initialiser, new pruner service.
func (w *world) openNode(seed bool) {
	w.floor = &pruner.RetentionFloor{}
	if seed {
		if err := w.floor.Seed(w.nodeDB); err != nil {
			w.violate("floor-seed-fails-"+w.situation, "RetentionFloor.Seed: "+err.Error())
		}
	}
	w.node = lib.NodeOn(w.nodeDB, w.ch.g.Net, w.ch.newState, blockchain.WithRetentionFloor(w.floor),
		blockchain.WithRunningEventFilterInitializer(pruner.InitializeRunningEventFilter))
	w.startProc()
}

func (w *world) startProc() {
	if w.proc != nil {
		w.proc.stop()
	}
	pc := w.pcfg
	var s0 uint64
	if w.cutoff > 0 {
		// min-age such that now-minAge falls on the scenario's cutoff; the chain's timestamps are years old
		// (fixed for the life of the world: the cut-off only advances, also across restarts)
		if w.minAgeDur == 0 {
			w.minAgeDur = time.Since(time.Unix(int64(w.cutoff), 0))
		}
		pc.MinAge = w.minAgeDur
		clockCases.Add(1)
		w.procCutoff = w.cutoffNow()
		s0 = w.sampleAt(w.procCutoff)
	}
	p, err := startPruner(w.nodeDB, w.floor, pc)
	if w.cutoff > 0 {
		// Run has seeded its sample somewhere between the two readings of the clock
		if s1 := w.sampleAt(w.cutoffNow()); s1 != s0 {
			w.broken = true
			clockSkipped.Add(1)
			w.res.Hit("skipped:clock-crossed-a-block-timestamp")
		}
		w.procSample = s0
	}
	if err != nil {
		w.violate("pruner-start-hangs-"+w.situation, err.Error())
		w.broken = true
		return
	}
	w.proc = p
	for _, e := range p.take() {
		if e.Kind == "error" {
			w.violate("pruner-start-error-"+w.situation, e.Err)
		}
	}
}

func (w *world) close() {
	if w.proc != nil {
		w.proc.stop()
		w.proc = nil
	}
}

// sampleNow is what seedFloor/sampleHeight compute at a process start: the lowest block at or above
// the oldest retained one whose timestamp is >= cutoff (chain height if there is none).
func (w *world) sampleNow() uint64 { return w.procSample }

// cutoffNow is the pruner's min-age cut-off at this moment (now - minAge, in unix seconds).
func (w *world) cutoffNow() uint64 {
	if w.minAgeDur == 0 {
		return w.cutoff
	}
	return uint64(time.Now().Add(-w.minAgeDur).Unix())
}

func (w *world) sampleAt(cutoff uint64) uint64 {
	if w.cutoff == 0 || w.height < 0 {
		return 0
	}
	oldest, err := pruner.OldestRetainedBlock(w.nodeDB)
	if err != nil {
		return 0
	}
	for n := oldest; n <= uint64(w.height); n++ {
		if w.ch.g.Bundles[n].Block.Timestamp >= cutoff {
			return n
		}
	}
	return uint64(w.height)
}

// minAgeBlock: lowest block of the chain that is younger than the min-age (height+1 if none).
func (w *world) minAgeBlock() uint64 {
	cutoff := w.cutoffNow() // the cut-off only advances: evaluated now, the cap is never stricter than the pruner's
	for n := 0; n <= w.height; n++ {
		if w.ch.g.Bundles[n].Block.Timestamp >= cutoff {
			return uint64(n)
		}
	}
	return uint64(w.height + 1)
}

// bumpSpecFloor is evaluated whenever the pruner (or the migration) is asked to act — when an event is delivered,
// with the L1 head and the local head of THAT moment (a head that has been reverted since the event was
// published does not count) — and is a running maximum: a floor reached under a higher head stays.
// bumpSpecFloor: the property allows the floor to be as high as min(L1 head, local head) - retained,
// capped by the oldest block younger than the min-age; it never has to come down again.
func (w *world) bumpSpecFloor() {
	l1 := w.l1
	if w.specL1 != nil && int64(*w.specL1) > l1 {
		l1 = int64(*w.specL1)
	}
	if l1 < 0 || w.height < 0 {
		return
	}
	pivot := uint64(l1)
	if uint64(w.height) < pivot {
		pivot = uint64(w.height)
	}
	if pivot < w.pcfg.Retained {
		return
	}
	allowed := pivot - w.pcfg.Retained
	if w.cutoff > 0 {
		if m := w.minAgeBlock(); m < allowed {
			allowed = m
		}
	}
	if allowed > w.fspec {
		w.fspec = allowed
	}
}

// ---------------------------------------------------------------------------------------------
// operations
// ---------------------------------------------------------------------------------------------

// store stores block height+1 of the chain on the node (the chain must already contain it).
func (w *world) store() bool {
	if w.broken || w.node == nil {
		return false
	}
	n := w.height + 1
	b := w.ch.g.Bundles[n]
	w.rec("store", uint64(n), "")
	var err error
	closed := w.quietBegin()
	perr, panicked, _ := lib.Try(func() error { err = lib.StoreOn(w.node, b); return nil })
	w.quietEnd(closed)
	if serr := lib.StoreOn(w.shadow, b); serr != nil {
		w.harnessFailed("shadow node: store %d: %v", n, serr)
	}
	impl := "ok"
	if panicked {
		impl = "panic"
		err = perr
	} else if err != nil {
		impl = "err"
	}
	w.syncTs()
	m := w.ask("store")
	w.res.Compared(1)
	if m != impl {
		w.mismatch("store", n, m, impl+fmt.Sprint(" ", err))
	}
	if err != nil {
		if w.height < 0 || uint64(w.height) >= w.fspec {
			w.violate("store-fails-"+w.situation, fmt.Sprintf("Store of block %d on a node whose head %d is at or above the floor: %v", n, w.height, err))
		}
		w.broken = true
		return false
	}
	w.height = n
	w.res.Hit("op:store")
	return true
}

// revert reverts the node's head. The caller keeps the head at or above the floor.
func (w *world) revert() bool {
	if w.broken || w.node == nil {
		return false
	}
	w.rec("revert", uint64(w.height), "")
	var err error
	closed := w.quietBegin()
	perr, panicked, _ := lib.Try(func() error { err = w.node.RevertHead(); return nil })
	w.quietEnd(closed)
	if serr := w.shadow.RevertHead(); serr != nil {
		w.harnessFailed("shadow node: revert %d: %v", w.height, serr)
	}
	impl := "ok"
	if panicked {
		impl = "panic"
		err = perr
	} else if err != nil {
		impl = "err"
	}
	m := w.ask("revert")
	w.res.Compared(1)
	if m != impl {
		w.mismatch("revert", w.height, m, impl+fmt.Sprint(" ", err))
	}
	if err != nil {
		if uint64(w.height) >= w.fspec {
			w.violate("revert-fails-"+w.situation, fmt.Sprintf("RevertHead of block %d (floor allowed by the property: %d): %v", w.height, w.fspec, err))
		}
		w.broken = true
		return false
	}
	w.height--
	w.res.Hit("op:revert")
	return true
}

func (w *world) writeL1(n uint64) {
	if w.broken || w.node == nil {
		return
	}
	w.rec("writeL1", n, "")
	if err := core.WriteL1Head(w.nodeDB, &core.L1Head{BlockNumber: n, BlockHash: lib.F(n), StateRoot: lib.F(n)}); err != nil {
		w.harnessFailed("WriteL1Head on the memory database: %v", err)
	}
	if o := w.ask(fmt.Sprintf("writel1 %d", n)); o != "ok" {
		w.mismatch("writel1", n, o, "ok")
	}
	w.l1 = int64(n)
	w.res.Hit("op:writeL1")
}

func (w *world) quietBegin() bool {
	if !w.gated || w.proc == nil {
		return false
	}
	return w.proc.hdb.quietBegin()
}

func (w *world) quietEnd(closed bool) {
	if closed && w.proc != nil {
		w.proc.hdb.quietEnd()
	}
}

// restart: the process ends (after a cancelled context, a kill, or an orderly stop between prunes)
// and a new one starts on the same database.
func (w *world) restart(why string) {
	if w.broken || w.node == nil {
		return
	}
	w.rec("restart", 0, why)
	if w.proc != nil {
		w.proc.stop()
		w.proc = nil
	}
	if why == "orderly" || why == "after-cancel" {
		// an orderly shutdown persists the running event filter (node.Run: WriteRunningEventFilter); the next
		// process resumes from that snapshot (pruner.InitializeRunningEventFilter: caught up / same-window gap,
		// clamped to the retention floor) instead of rebuilding. A kill does not.
		var err error
		perr, panicked, _ := lib.Try(func() error { err = w.node.WriteRunningEventFilter(); return nil })
		if panicked {
			err = perr
		}
		if err != nil {
			w.violate("running-filter-snapshot-write-fails-"+w.situation, fmt.Sprintf("WriteRunningEventFilter at shutdown (head %d): %v", w.height, err))
		} else {
			w.res.Hit("restart:running-filter-snapshot-persisted")
		}
	}
	w.openNode(true)
	w.clock(w.procCutoff)
	if o := w.ask("crash 1"); o != "ok" {
		w.mismatch("restart", why, o, "ok")
	}
	if w.situation == "after-failed-write" {
		// a new process on a database that an interrupted prune left behind
		w.situation = "after-crash-mid-prune"
	}
	w.sampleTie("restart:" + why)
	w.quiescent = true
	w.res.Hit("op:restart:" + why)
}

// restartUnseeded: the node is started WITHOUT prune mode on the (pruned) database: Blockchain with the default,
// unseeded RetentionFloor (readers probe header + hash->number mapping instead of the shared floor), no pruner
// service. The model takes `crash 0`. Events are not delivered in such a process (w.proc is nil).
func (w *world) restartUnseeded() {
	if w.broken || w.node == nil {
		return
	}
	w.rec("restart", 0, "without prune mode: unseeded retention floor, no pruner")
	if w.proc != nil {
		w.proc.stop()
		w.proc = nil
	}
	w.floor = &pruner.RetentionFloor{}
	w.node = lib.NodeOn(w.nodeDB, w.ch.g.Net, w.ch.newState, blockchain.WithRetentionFloor(w.floor),
		blockchain.WithRunningEventFilterInitializer(pruner.InitializeRunningEventFilter))
	w.clock(w.cutoffNow())
	if o := w.ask("crash 0"); o != "ok" {
		w.mismatch("restart", "unseeded", o, "ok")
	}
	if w.situation == "after-failed-write" {
		w.situation = "after-crash-mid-prune"
	}
	w.quiescent = true
	w.res.Hit("op:restart:unseeded-floor")
}

// prunePlan says what the harness does at the batch writes of the prune an event triggers.
type prunePlan struct {
	FailAt   int  // write index whose commit fails (-1 = none)
	CancelAt int  // context cancelled right after this write (-1 = none)
	ForkAll  bool // crash image after EVERY write, each continued in a fork
	StoreAt  int  // store the next chain block on the node right after this write (-1 = none)
	RevertAt int  // revert the head and store it again right after this write (-1 = none)
	Observe  bool // full observation after every write (in-process reads during a prune)
}

func noPlan() prunePlan { return prunePlan{FailAt: -1, CancelAt: -1, StoreAt: -1, RevertAt: -1} }

func (p prunePlan) String() string {
	return fmt.Sprintf("fail=%d cancel=%d fork=%v store=%d revert=%d observe=%v", p.FailAt, p.CancelAt, p.ForkAll, p.StoreAt, p.RevertAt, p.Observe)
}

type eventResult struct {
	Writes    int
	Outcome   string // noop | done <pruned> <oldest> | err
	Cancelled bool
	Failed    bool
}

// event delivers an L1-head ("l1") or new-head ("l2") event to the real pruner and steps the model
// through the same prune, batch write by batch write.
func (w *world) event(kind string, n, ts uint64, plan prunePlan) eventResult {
	var res eventResult
	if w.broken || w.proc == nil {
		return res
	}
	w.rec("event-"+kind, n, plan.String())
	w.res.Hit("op:event-" + kind)
	w.bumpSpecFloor()
	stale := kind == "l2" && int64(n) > int64(w.height) && w.l1 >= 0 && uint64(w.l1) > n && n >= w.pcfg.Retained
	var line string
	var within0 bool
	if kind == "l1" {
		line = fmt.Sprintf("evl1 %d", n)
	} else {
		c0 := w.cutoffNow()
		within0 = w.cutoff > 0 && ts >= c0
		w.clock(c0)
		line = fmt.Sprintf("evl2 %d", n)
	}
	w.hitEventBranch(kind, n, within0)
	mStart := w.ask(line)
	prevSituation := w.situation
	inPrune := strings.HasPrefix(mStart, "started")
	if inPrune {
		w.quiescent = false
	}
	modelFinal := mStart
	before := func(wi writeInfo) error {
		if wi.Seq == plan.FailAt {
			res.Failed = true
			modelFinal = w.ask("fail")
			w.situation = "after-failed-write"
			w.dirtyUpTo = max(w.dirtyUpTo, w.fspec)
			w.res.Hit("interrupt:commit-failure")
			return fmt.Errorf("injected commit failure at batch %d", wi.Seq)
		}
		return nil
	}
	after := func(wi writeInfo) {
		res.Writes++
		w.quiescent = false // the implementation is inside a prune, whatever the model thinks
		w.res.Hit("prune:batch-write")
		var o string
		if wi.HasRange && !w.fixed {
			o = w.ask("finish")
			modelFinal = o
		} else {
			o = w.ask(fmt.Sprintf("flush %d", wi.Blocks))
			if o != "ok" {
				w.mismatch("prune-batch-shape", map[string]any{"write": wi, "event": line}, o, "ok")
			}
		}
		w.res.Compared(1)
		if plan.Observe {
			if prevSituation == "steady" {
				w.situation = "mid-prune"
			}
			w.observe()
			w.situation = prevSituation
		}
		if plan.ForkAll && !w.isFork {
			w.fork(kind, n, ts, wi.Seq)
		}
		if wi.Seq == plan.StoreAt && w.height+1 < w.ch.g.Height() {
			w.store()
			w.res.Hit("interleave:store-between-batches")
		}
		if wi.Seq == plan.RevertAt && w.height > 0 && uint64(w.height) > w.fspec {
			// a reorg while the pruner is busy: the head (above the floor) is reverted and stored again
			if w.revert() {
				w.res.Hit("interleave:revert-between-batches")
				w.store()
			}
		}
		if wi.Seq == plan.CancelAt {
			res.Cancelled = true
			w.proc.cancel()
			w.res.Hit("interrupt:context-cancelled")
		}
	}
	w.proc.hdb.arm(before, after)
	var evs []prEvent
	var err error
	if kind == "l1" {
		evs, err = w.proc.sendL1(n)
	} else {
		evs, err = w.proc.sendL2(n, ts)
	}
	w.proc.hdb.arm(nil, nil)
	if kind == "l2" && w.cutoff > 0 && within0 != (ts >= w.cutoffNow()) {
		// the clock crossed this block's timestamp while the event was in flight: the prediction is void
		w.broken = true
		clockSkipped.Add(1)
		w.res.Hit("skipped:clock-crossed-a-block-timestamp")
		return res
	}
	if err != nil {
		w.violate("pruner-hangs-"+w.situation, fmt.Sprintf("event %s: %v", line, err))
		w.broken = true
		return res
	}
	impl := "noop"
	for _, e := range evs {
		if e.Kind == "prune" {
			impl = fmt.Sprintf("done %d %d", e.Count, e.Oldest)
		} else {
			impl = "err"
			if !res.Failed && !stale {
				// an error nobody injected: the pruner could not do its work
				w.violate("prune-error-"+w.situation, fmt.Sprintf("event %s: %s", line, e.Err))
			}
		}
	}
	if strings.HasPrefix(impl, "done") && w.fixed && inPrune && !res.Failed {
		modelFinal = w.ask("finish")
	}
	if strings.HasPrefix(modelFinal, "started") && stale && impl == "err" {
		// a new-head event for a block that is not on the chain (any more): the prune runs into the missing
		// block — the model's next loop iteration fails on the same read
		// (the rest of the range in one go: whatever the batch threshold, the loop stops at the first missing block)
		rest := 1
		if info, err := w.drv.Ask("info"); err == nil {
			if f := strings.Fields(info); len(f) == 7 {
				var js, je, jc, jf int
				if _, err := fmt.Sscanf(f[5], "run:%d:%d:%d:%d", &js, &je, &jc, &jf); err == nil && je > jc {
					rest = je - jc
				}
			}
		}
		modelFinal = w.ask(fmt.Sprintf("flush %d", rest)) // "err": the failing read ends the prune call
		w.res.Hit("stale-event:prune-ran-into-missing-block")
	}
	if strings.HasPrefix(modelFinal, "started") {
		// the model is still inside the prune but the implementation is not
		modelFinal = "in-prune:" + w.ask("fail")
	}
	w.res.Compared(1)
	if modelFinal != impl {
		w.mismatch("event-outcome", map[string]any{"event": line, "writes": res.Writes}, modelFinal, impl)
	}
	res.Outcome = impl
	w.quiescent = true
	switch {
	case res.Failed:
		w.situation = "after-failed-write"
	case res.Cancelled:
		if w.dirtyUpTo == 0 {
			w.situation = "after-cancel"
		}
	case strings.HasPrefix(impl, "done") && res.Writes > 0:
		// a completed prune sweeps what an interrupted one left behind — if it reaches that far
		var cnt, oldestKept uint64
		fmt.Sscanf(impl, "done %d %d", &cnt, &oldestKept)
		if oldestKept >= w.dirtyUpTo {
			w.situation, w.dirtyUpTo = "steady", 0
		}
	}
	w.res.Hit("event-outcome:" + strings.Fields(impl)[0])
	if res.Cancelled {
		// Run has returned; the node shuts down and comes back
		w.restart("after-cancel")
		if w.dirtyUpTo == 0 {
			w.situation = "after-cancel"
		}
	}
	return res
}

// hitEventBranch records which guard / branch of onNewL1Head / onNewBlock the event is aimed at (from the
// harness' own bookkeeping; evidence that every branch of the floor arithmetic is exercised).
func (w *world) hitEventBranch(kind string, n uint64, within bool) {
	r := w.pcfg.Retained
	switch {
	case kind == "l1" && w.height < 0:
		w.res.Hit("branch:l1:no-chain-height")
	case kind == "l1" && n >= uint64(w.height):
		w.res.Hit("branch:l1:guard-l1-not-below-head")
	case kind == "l1" && n < r:
		w.res.Hit("branch:l1:guard-retained-exceeds-l1")
	case kind == "l1" && n == r:
		w.res.Hit("branch:l1:floor-zero")
	case kind == "l1":
		w.res.Hit("branch:l1:prune")
	case w.l1 < 0:
		w.res.Hit("branch:l2:no-l1-head")
	case uint64(w.l1) <= n:
		w.res.Hit("branch:l2:guard-block-not-below-l1")
	case n < r:
		w.res.Hit("branch:l2:guard-retained-exceeds-block")
	default:
		if w.pcfg.L2PerPrune > 1 {
			w.res.Hit("branch:l2:coalescing")
		}
		switch {
		case w.cutoff == 0:
			w.res.Hit("branch:l2:prune-no-min-age")
		case within:
			w.res.Hit("branch:l2:prune-time-floor-applied")
		default:
			w.res.Hit("branch:l2:prune-time-floor-skipped-deep-catch-up")
		}
	}
	if w.cutoff > 0 && kind == "l1" && n < uint64(max(w.height, 0)) && n >= r {
		if s := w.procSample; s < n-r {
			w.res.Hit("branch:min-age-floor-binding")
		} else {
			w.res.Hit("branch:min-age-floor-not-binding")
		}
	}
	if r == 0 {
		w.res.Hit("cfg:retained-0")
	} else if w.height >= 0 && r > uint64(w.height) {
		w.res.Hit("cfg:retained-larger-than-chain")
	}
}

// fork continues from a crash image taken right after batch write `seq` of the prune in progress:
// a new process on the image (new Blockchain, re-seeded RetentionFloor, new pruner), observed, the
// prune resumed by the same event, the head reverted and stored again.
func (w *world) fork(kind string, n, ts uint64, seq int) {
	f := &world{res: w.res, ch: w.ch, name: w.name, spec: w.spec, drv: w.fdrv, fixed: w.fixed, mig: w.mig, pcfg: w.pcfg,
		height: w.height, l1: w.l1, fspec: w.fspec, cutoff: w.cutoff, minAgeDur: w.minAgeDur, isFork: true,
		situation: "after-crash-mid-prune", quiescent: true, dirtyUpTo: max(w.dirtyUpTo, w.fspec), lastLow: w.lastLow,
		noState: w.noState, extra: w.extra}
	f.ops = append(append([]opRec{}, w.ops...), opRec{Op: "crash-image", N: uint64(seq), Note: "kill -9 right after this batch write of the prune above; continue on the image"})
	f.nodeDB = w.nodeDB.Copy()
	f.shadowDB = w.shadowDB.Copy()
	f.shadow = lib.NodeOn(f.shadowDB, w.ch.g.Net, w.ch.newState)
	// bring the second model instance to the same point
	outs, err := f.drv.AskAll(w.lines)
	if err != nil || len(outs) != len(w.lines) {
		w.harnessFailed("fork: second model driver: %v (%d of %d answers)", err, len(outs), len(w.lines))
		return
	}
	f.lines = append([]string{}, w.lines...)
	f.tsSent = w.tsSent
	f.openNode(true)
	defer f.close()
	f.clock(f.procCutoff)
	if o := f.ask("crash 1"); o != "ok" {
		f.mismatch("restart", "fork", o, "ok")
	}
	f.sampleTie("fork")
	w.res.Hit("interrupt:crash-image")
	f.observe()
	if f.broken {
		return
	}
	// resume
	f.event(kind, n, ts, noPlan())
	f.observe()
	// the chain can still be reverted down to the floor and extended again
	if f.height > 0 && uint64(f.height) > f.fspec {
		if f.revert() {
			f.observe()
			if f.store() {
				f.observe()
			}
		}
	}
	// and the database opened without prune mode (unseeded floor: header + hash->number probe)
	f.restartUnseeded()
	f.observe()
}

// ---------------------------------------------------------------------------------------------
// observation: every query on every block, node vs twin vs model vs property
// ---------------------------------------------------------------------------------------------

var families = map[string]string{
	"headerByNumber": "block-by-number", "blockByNumber": "block-by-number", "stateUpdateByNumber": "block-by-number",
	"commitments": "block-by-number", "txsByNumber": "block-by-number", "txAndReceiptByIndex": "block-by-number",
	"numberByHash": "block-by-hash", "headerByHash": "block-by-hash", "blockByHash": "block-by-hash",
	"stateUpdateByHash": "block-by-hash", "txLookup": "tx-by-hash", "txByHash": "tx-by-hash", "receiptByHash": "tx-by-hash",
	"l1HandlerMsg": "l1-msg-by-hash", "requireRetained": "retention-probe", "eventsFrom": "events", "stateAtNumber": "state-by-number",
	"stateAtHash": "state-by-hash",
}

// blockHashLag = core.BlockHashLag: how far back get_block_hash may look.
const blockHashLag = 10

type obsItem struct {
	model string // model query
	real  string // Reader method
	n     uint64
	arg   string
	class string
	det   string
	mark  *felt.Felt
}

func (w *world) observe() {
	if w.broken {
		return
	}
	twin := w.ch.g.Src
	twinDB := w.ch.g.SrcDB
	var items []obsItem
	var seenBlocks []int
	hi := w.height + 1
	// Observation window: every block for short chains; for longer ones the blocks around every floor that
	// moved or may move (previous / current durable floor, allowed floor), plus genesis, head and head+1.
	oldestNow, oerr := pruner.OldestRetainedBlock(w.nodeDB)
	if oerr != nil {
		oldestNow = 0
	}
	lowMark := min(w.lastLow, oldestNow, w.fspec)
	if w.noState {
		lowMark = min(oldestNow, w.fspec) // long bare chains: only around the floors, not the whole pruned prefix
	}
	highMark := max(oldestNow, w.fspec)
	w.lastLow = oldestNow
	inWindow := func(n int) bool {
		if w.height < 18 || n == 0 || n >= w.height-1 || w.extra[uint64(n)] {
			return true
		}
		return uint64(n)+blockHashLag+2 >= lowMark && uint64(n) <= highMark+2
	}
	for n := 0; n <= hi; n++ {
		if !inWindow(n) {
			continue
		}
		var b *lib.Bundle
		if n <= w.height {
			b = w.ch.g.Bundles[n]
			seenBlocks = append(seenBlocks, n)
		}
		c := ctxOf(b, uint64(n))
		c.Head = uint64(w.height)
		c.EvAddr = w.ch.evAddr
		for _, rq := range readerQueries() {
			// the calls close over the Blockchain they are built for: build them per side
			nodeCalls := rq.Run(w.node, w.nodeDB, c)
			twinCalls := rq.Run(twin, twinDB, c)
			for i := range nodeCalls {
				nc, tc := nodeCalls[i], twinCalls[i]
				class, det := runPair(nc, w.ch.twinQuery(fmt.Sprintf("%s/%d/%v/%s", rq.Name, n, c.OnChain, tc.Arg), tc))
				items = append(items, obsItem{model: rq.Model, real: rq.Name, n: uint64(n), arg: nc.Arg, class: class, det: det})
			}
		}
		if b != nil {
			w.txSelfObs(b, uint64(n))
		}
		if w.noState {
			continue
		}
		nn := uint64(n)
		byNum := func(bc *blockchain.Blockchain) (core.StateReader, blockchain.StateCloser, error) {
			return bc.StateAtBlockNumber(nn)
		}
		class, mark, det := stateObs(byNum, w.node, w.ch.twinStateAt(fmt.Sprintf("num/%d/%v", n, c.OnChain), byNum), w.ch.keys)
		items = append(items, obsItem{model: "stateAtNumber", real: "StateAtBlockNumber", n: nn, class: class, det: det, mark: mark})
		byHash := func(bc *blockchain.Blockchain) (core.StateReader, blockchain.StateCloser, error) {
			return bc.StateAtBlockHash(c.Hash)
		}
		class, mark, det = stateObs(byHash, w.node, w.ch.twinStateAt(fmt.Sprintf("hash/%d/%v", n, c.OnChain), byHash), w.ch.keys)
		items = append(items, obsItem{model: "stateAtHash", real: "StateAtBlockHash", n: nn, class: class, det: det, mark: mark})
		if n <= w.height {
			w.lastUpdObs("num", nn, byNum, w.ch.twinLU(fmt.Sprintf("num/%d", n), byNum))
			w.lastUpdObs("hash", nn, byHash, w.ch.twinLU(fmt.Sprintf("hash/%d", n), byHash))
		}
	}
	// head state: the pruner never touches it. Compared with the shadow: a never-pruned node that went
	// through the same Store / RevertHead history (so a defect of RevertHead itself is not blamed on pruning).
	headClass, headDet := "notfound", ""
	if w.noState {
		headClass = "skipped"
	} else if w.height >= 0 {
		headOf := func(bc *blockchain.Blockchain) (core.StateReader, blockchain.StateCloser, error) {
			return bc.HeadState()
		}
		var sh twinStateRes
		if sr, scl, serr := headOf(w.shadow); serr != nil {
			sh.err = errClass(serr)
		} else {
			for _, k := range w.ch.keys {
				v, e := readCell(sr, k)
				sh.cells = append(sh.cells, cellRes{v, e})
			}
			_ = scl()
		}
		headClass, _, headDet = stateObs(headOf, w.node, sh, w.ch.keys)
		w.lastUpdObs("head", uint64(w.height), headOf, readLU(headOf, w.shadow))
	}

	w.flushLU()

	// --- model correspondence
	lines := make([]string, 0, len(items)+1)
	for _, it := range items {
		lines = append(lines, fmt.Sprintf("q %s %d", it.model, it.n))
	}
	lines = append(lines, "head")
	outs, err := w.drv.AskAll(lines)
	if err != nil || len(outs) != len(lines) {
		w.harnessFailed("model driver: %v (%d of %d answers)", err, len(outs), len(lines))
		return
	}
	w.res.Compared(len(lines))
	for i, it := range items {
		m := outs[i]
		impl := it.class
		ok := m == impl
		if strings.HasPrefix(m, "stale ") {
			// the model names the block whose state is served instead; the marker slot must carry that block's value
			var sb uint64
			fmt.Sscanf(m, "stale %d", &sb)
			ok = impl == "wrong" && it.mark != nil && it.mark.Equal(markerValue(sb))
			if sb == it.n {
				// history incomplete above, but the first entry survives: the marker itself reads right
				ok = it.mark != nil && it.mark.Equal(markerValue(sb))
			}
			if it.mark != nil {
				impl = impl + " marker=" + it.mark.String()
			}
		}
		if !ok {
			w.mismatch("answer-"+it.model, map[string]any{"query": it.real, "block": it.n, "arg": it.arg,
				"situation": w.situation, "height": w.height, "detail": it.det}, m, impl)
		}
	}
	if !w.noState && outs[len(items)] != headClass {
		w.mismatch("answer-headState", map[string]any{"height": w.height, "detail": headDet}, outs[len(items)], headClass)
	}

	// --- persisted aggregated bloom windows: which exist on disk, model vs implementation vs property
	w.bloomWindows()
	w.floorsTie()
	w.storeTie(seenBlocks)
	w.heldObs()

	// --- property oracle on the real answers
	w.oracle(items, headClass, headDet)
	w.res.Case(fmt.Sprintf("%s/%v/%d/%d/%s/%d", w.name, w.ch.newState, w.height, w.fspec, w.situation, len(w.ops)), w.fspec > 0)
	w.res.Hit("observe:" + w.situation)
}

// txSelfObs: every transaction of a block the node still has resolves BY HASH to ITSELF — block number, index
// inside the block, content — and every L1-handler transaction's message hash to that transaction. Judged
// against the generator's block, not against the twin's answer: the reverse-lookup buckets are rebuilt by the
// history-pruner migration (restorer) and trimmed by the pruner; an entry that survives must point at its own
// transaction. (Entries that are missing are judged by the retained-* / reported-floor-* clauses.)
func (w *world) txSelfObs(b *lib.Bundle, n uint64) {
	for i, tx := range b.Block.Transactions {
		h := tx.Hash()
		var bn, idx uint64
		var got core.Transaction
		var e1, e2 error
		perr, panicked, _ := lib.Try(func() error {
			bn, idx, e1 = w.node.BlockNumberAndIndexByTxHash((*felt.TransactionHash)(h))
			got, e2 = w.node.TransactionByHash(h)
			return nil
		})
		if panicked {
			w.violate("tx-by-hash-panic-"+w.situation, fmt.Sprintf("transaction %d of block %d by hash: %v", i, n, perr))
			continue
		}
		w.res.Hit("oracle:tx-resolves-to-itself")
		switch {
		case e1 == nil && (bn != n || idx != uint64(i)):
			w.violate("tx-lookup-resolves-to-other-tx-"+w.situation, fmt.Sprintf(
				"BlockNumberAndIndexByTxHash(hash of transaction %d of block %d) = (block %d, index %d): the lookup entry of a retained transaction points at ANOTHER transaction [block %d has %d transactions, head %d]",
				i, n, bn, idx, n, len(b.Block.Transactions), w.height))
		case e2 == nil && (got == nil || !got.Hash().Equal(h)):
			w.violate("tx-lookup-resolves-to-other-tx-"+w.situation, fmt.Sprintf(
				"TransactionByHash(hash of transaction %d of block %d) returns a transaction with another hash [block %d has %d transactions, head %d]",
				i, n, n, len(b.Block.Transactions), w.height))
		}
		if l1, ok := tx.(*core.L1HandlerTransaction); ok {
			mh := eth.HashFromBytes(l1.MessageHash())
			if th, e3 := w.node.L1HandlerTxnHash(&mh); e3 == nil && !th.Equal(h) {
				w.violate("l1-msg-lookup-resolves-to-other-tx-"+w.situation, fmt.Sprintf(
					"L1HandlerTxnHash(message hash of L1-handler transaction %d of block %d) names another transaction", i, n))
			}
		}
	}
}

func (w *world) oracle(items []obsItem, headClass, headDet string) {
	sit := w.situation
	if headClass != "ok" && headClass != "skipped" && w.height >= 0 {
		w.violate("head-state-"+classWord(headClass)+"-"+sit, fmt.Sprintf("head state (block %d) answers %s %s", w.height, headClass, headDet))
	}
	// the floor the node itself reports (BlockPrunedError.OldestRetained)
	oldest, oerr := pruner.OldestRetainedBlock(w.nodeDB)
	haveOldest := oerr == nil
	if haveOldest && oldest > w.fspec {
		w.violate("floor-above-bound-"+sit, fmt.Sprintf(
			"oldest retained block %d is above min(L1 head %d, local head %d) - retained %d (min-age cap applied): highest floor the property allows is %d",
			oldest, w.l1, w.height, w.pcfg.Retained, w.fspec))
	}
	// the min-age clause, directly: no block whose timestamp is at or after now - minAge has been pruned (the
	// cut-off only advances: a block that is young NOW was young when it was deleted)
	if w.cutoff > 0 && haveOldest {
		cut := w.cutoffNow()
		for n := uint64(0); n < oldest && int(n) <= w.height; n++ {
			if ts := w.ts(n); ts >= cut {
				w.violate("min-age-young-block-pruned-"+sit, fmt.Sprintf(
					"block %d (timestamp %d) is younger than the minimum age (now - minAge = %d) and has been pruned: oldest retained block %d [head %d, L1 head %d, retained %d]",
					n, ts, cut, oldest, w.height, w.l1, w.pcfg.Retained))
				break
			}
		}
		w.res.Hit("oracle:min-age-no-young-block-pruned")
	}
	if !haveOldest && w.height >= 0 {
		w.violate("no-retained-block-"+sit, fmt.Sprintf("OldestRetainedBlock: %v with head %d", oerr, w.height))
	}
	// lowest block whose state the shared RetentionFloor lets through (= RetentionFloor.floor() when seeded)
	stateFloor := uint64(0)
	for n := uint64(0); int(n) <= w.height; n++ {
		if pruner.RequireStateRetainedByBlockNumber(w.nodeDB, w.floor, n) == nil {
			stateFloor = n
			break
		}
	}
	for _, it := range items {
		fam := families[it.model]
		cw := classWord(it.class)
		where := fmt.Sprintf("%s(%d%s) answers %s %s [head %d, L1 head %d, retained %d, oldest retained %d, allowed floor %d]",
			it.real, it.n, argSuffix(it.arg), it.class, it.det, w.height, w.l1, w.pcfg.Retained, oldest, w.fspec)
		isState := it.model == "stateAtNumber" || it.model == "stateAtHash"
		switch {
		case int(it.n) > w.height:
			// beyond the head: not found like on the twin
			if it.class != "notfound" && it.class != "pruned" && !(it.model == "eventsFrom" && it.class == "ok") {
				w.violate("beyond-head-"+fam+"-"+cw+"-"+sit, where)
			}
			continue
		case it.class == "wrong" || it.class == "panic" || strings.HasPrefix(it.class, "err:"):
			// never acceptable, at any height: a wrong answer instead of "pruned"
			w.violate(fam+"-"+cw+"-"+sit, where)
			continue
		}
		// (4) the BlockHashLag window: the headers of the 10 blocks below the durable floor survive (executing a
		//     retained block may call get_block_hash(n-10)) — in every situation, also mid-prune and after a crash
		if it.model == "headerByNumber" && haveOldest && it.n < oldest && it.n+blockHashLag >= oldest && it.class != "ok" {
			w.violate("lag-window-header-"+cw+"-"+sit, where+fmt.Sprintf(" [oldest retained block %d: the header is inside the BlockHashLag window]", oldest))
			continue
		}
		if it.model == "headerByNumber" && haveOldest && it.n < oldest && it.n+blockHashLag >= oldest {
			w.res.Hit("lag-window:header-present")
		}
		// (2) at or above the highest floor the property allows: complete and equal to the twin;
		//     historical state from one block below it
		lim := w.fspec
		if isState && lim > 0 {
			lim--
		}
		if it.n >= lim && it.class != "ok" {
			w.violate("retained-"+fam+"-"+cw+"-"+sit, where)
			continue
		}
		// (3) outside a prune: at or above the floor the node itself reports — OldestRetainedBlock for block
		//     data (it is what BlockPrunedError tells the user), and for historical state additionally the
		//     shared RetentionFloor the readers consult (raised before a prune deletes anything)
		// (8) below the floor the node itself reports, every query that reads an entry the pruner deletes with the
		//     block says not found / pruned — never data, not even right data (header: lag window; hash→number and
		//     the state readers: from one block lower). Repaired procedure: also mid-prune and on crash images.
		if (w.quiescent || w.fixed) && haveOldest && it.class == "ok" && it.model != "headerByNumber" {
			oneLower := it.model == "numberByHash" || it.model == "headerByHash" || isState
			if (!oneLower && it.n < oldest) || (oneLower && it.n+1 < oldest) {
				w.violate("below-floor-answers-"+fam+"-"+sit, where+fmt.Sprintf(" [oldest retained block %d]", oldest))
				continue
			}
		}
		if (w.quiescent || w.fixed) && haveOldest {
			lim = oldest
			if isState {
				if lim > 0 {
					lim--
				}
				if stateFloor > lim {
					lim = stateFloor
				}
			}
			if it.n >= lim && it.class != "ok" {
				if it.n < oldest {
					w.violate("floor-minus-1-"+fam+"-"+cw+"-"+sit, where)
				} else {
					w.violate("reported-floor-"+fam+"-"+cw+"-"+sit, where)
				}
				continue
			}
			// below the reported floor the probe must say pruned
			if it.model == "requireRetained" && it.n < oldest && it.class != "pruned" {
				w.violate("below-floor-not-reported-pruned-"+sit, where)
			}
		}
	}
}

// floorsTie compares the two floors the node exposes with the model's: OldestRetainedBlock (durable) and the
// shared RetentionFloor as RequireStateRetainedByBlockNumber applies it; and BlockPrunedError.OldestRetained.
func (w *world) floorsTie() {
	info, err := w.drv.Ask("info")
	if err != nil {
		w.harnessFailed("model driver: %v", err)
		return
	}
	f := strings.Fields(info) // height l1 floorState pending sampled job oldest
	if len(f) != 7 {
		w.harnessFailed("model driver: malformed answer to info: %q", info)
		return
	}
	w.res.Compared(2)
	implOldest := "-"
	oldest, oerr := pruner.OldestRetainedBlock(w.nodeDB)
	if oerr == nil {
		implOldest = fmt.Sprint(oldest)
	}
	if f[6] != implOldest {
		w.mismatch("oldest-retained", map[string]any{"height": w.height, "situation": w.situation}, f[6], implOldest)
	}
	// lowest block number the shared floor lets through = floorState-1 (seeded)
	if w.height >= 0 && f[2] != "0" {
		var fs uint64
		fmt.Sscan(f[2], &fs)
		implFloor := uint64(w.height) + 1
		for n := uint64(0); int(n) <= w.height; n++ {
			if pruner.RequireStateRetainedByBlockNumber(w.nodeDB, w.floor, n) == nil {
				implFloor = n
				break
			}
		}
		if want := min(fs-1, uint64(w.height)+1); implFloor != want {
			w.mismatch("shared-floor", map[string]any{"height": w.height, "situation": w.situation}, fmt.Sprint(want), fmt.Sprint(implFloor))
		}
	}
	// the error a user sees below the floor names the floor
	if oerr == nil && oldest > 0 {
		var pe *pruner.BlockPrunedError
		if e := pruner.RequireRetained(w.nodeDB, oldest-1); errors.As(e, &pe) {
			if pe.OldestRetained != oldest || pe.BlockNumber != oldest-1 {
				w.violate("pruned-error-names-wrong-floor-"+w.situation, fmt.Sprintf(
					"RequireRetained(%d) = BlockPrunedError{BlockNumber: %d, OldestRetained: %d}, oldest retained block is %d",
					oldest-1, pe.BlockNumber, pe.OldestRetained, oldest))
			}
		}
	}
}

// bloomWindows compares the persisted aggregated bloom filters with the model and checks that every
// complete window that still indexes a retained block is on disk (the cache fallback of event queries and
// RunningEventFilter.onReorg read it from there).
func (w *world) bloomWindows() {
	if w.height < 0 {
		return
	}
	const W = core.NumBlocksPerFilter
	oldest, oerr := pruner.OldestRetainedBlock(w.nodeDB)
	for win := uint64(0); win <= uint64(w.height)/W+1; win++ {
		_, err := core.GetAggregatedBloomFilter(w.nodeDB, win*W, win*W+W-1)
		impl := "0"
		if err == nil {
			impl = "1"
		}
		m, derr := w.drv.Ask(fmt.Sprintf("agg %d", win))
		if derr != nil {
			w.harnessFailed("model driver: %v", derr)
			return
		}
		w.res.Compared(1)
		if m != impl {
			w.mismatch("bloom-window-persisted", map[string]any{"window": win, "height": w.height, "situation": w.situation}, m, impl)
		}
		complete := (win+1)*W <= uint64(w.height)+1
		if !complete || impl == "1" {
			continue
		}
		what := fmt.Sprintf("the persisted aggregated bloom filter of window %d (blocks %d..%d) is gone although the window is complete and indexes retained blocks [head %d, oldest retained %d, allowed floor %d]",
			win, win*W, win*W+W-1, w.height, oldest, w.fspec)
		if (win+1)*W > w.fspec {
			w.violate("retained-bloom-window-missing-"+w.situation, what)
		} else if w.quiescent && oerr == nil && (win+1)*W > oldest {
			w.violate("reported-floor-bloom-window-missing-"+w.situation, what)
		}
	}
}

func classWord(c string) string {
	if strings.HasPrefix(c, "err:") {
		return "error"
	}
	return c
}

func argSuffix(a string) string {
	if a == "" {
		return ""
	}
	return "," + a
}

func sortedKeys(m map[string]int) []string {
	out := make([]string, 0, len(m))
	for k := range m {
		out = append(out, k)
	}
	sort.Strings(out)
	return out
}
