//go:build verif

package main

import (
	"fmt"

	"github.com/NethermindEth/juno/blockchain"
	"github.com/NethermindEth/juno/core"
	"github.com/NethermindEth/juno/core/felt"
	"github.com/NethermindEth/juno/pruner"
	"verif/harness/lib"
)

// core.StateReader.ContractStorageLastUpdatedBlock (served by starknet_getStorageAt with
// INCLUDE_LAST_UPDATE_BLOCK) is the one state getter that reads history AT OR BELOW the reader's block. Two
// slots with a known write history are observed through the head reader and the historical readers:
//   - the marker slot (written by every block: last write at block b is b),
//   - the once slot (written by block 1 only).

var onceSlot = *lib.F(0x4f4e4345) // "ONCE"

const onceBlock = 1

type luKey struct {
	name string
	slot felt.Felt
}

var luKeys = []luKey{{"marker", markerSlot}, {"once", onceSlot}}

// lastWrite: the block of the slot's last write at or below b (ok=false: never written up to b).
func (k luKey) lastWrite(b uint64) (uint64, bool) {
	if k.name == "marker" {
		return b, true
	}
	return onceBlock, b >= onceBlock
}

type luRes struct {
	err  string // "" = reader handed out
	vals []uint64
	errs []string
}

type readerOpen func(bc *blockchain.Blockchain) (core.StateReader, blockchain.StateCloser, error)

func readLU(open readerOpen, bc *blockchain.Blockchain) (res luRes) {
	perr, panicked, _ := lib.Try(func() error {
		r, cl, err := open(bc)
		if err != nil {
			res.err = errClass(err)
			return nil
		}
		defer func() { _ = cl() }()
		addr := felt.Address(markerAddr)
		for _, k := range luKeys {
			slot := k.slot
			v, e := r.ContractStorageLastUpdatedBlock(&addr, &slot)
			res.vals = append(res.vals, v)
			res.errs = append(res.errs, errClass(e))
		}
		return nil
	})
	if panicked {
		res.err = "panic: " + perr.Error()
	}
	return res
}

func (c *chain) twinLU(id string, open readerOpen) luRes {
	c.cacheMu.Lock()
	if r, ok := c.twinLUs[id]; ok {
		c.cacheMu.Unlock()
		return r
	}
	c.cacheMu.Unlock()
	r := readLU(open, c.g.Src)
	c.cacheMu.Lock()
	if c.twinLUs == nil {
		c.twinLUs = map[string]luRes{}
	}
	c.twinLUs[id] = r
	c.cacheMu.Unlock()
	return r
}

// luItem is one ContractStorageLastUpdatedBlock answer of the node, waiting for the model's answer.
type luItem struct {
	how      string
	b, lw    uint64
	name     string
	class    string
	nodeV    uint64
	nodeE    string
	twinV    uint64
	oldest   uint64
	oldestOK bool
}

// lastUpdObs reads the node's answers and queues them; flushLU compares them with the twin's (head: the
// shadow's) and with the model in one round trip, and applies the oracle: a reader that is handed out answers
// the block of the slot's last write — also when that write lies below the floor.
func (w *world) lastUpdObs(how string, b uint64, open readerOpen, twin luRes) {
	node := readLU(open, w.node)
	if node.err != "" || twin.err != "" {
		return // no reader: judged by the state observation of the same block
	}
	oldest, oerr := pruner.OldestRetainedBlock(w.nodeDB)
	for i, k := range luKeys {
		lw, written := k.lastWrite(b)
		if !written {
			continue
		}
		class := "ok"
		switch {
		case node.errs[i] != twin.errs[i]:
			class = node.errs[i]
		case node.errs[i] == "ok" && node.vals[i] != twin.vals[i]:
			class = "lost"
		}
		w.luQ = append(w.luQ, luItem{how: how, b: b, lw: lw, name: k.name, class: class, nodeV: node.vals[i], nodeE: node.errs[i],
			twinV: twin.vals[i], oldest: oldest, oldestOK: oerr == nil})
	}
}

func (w *world) flushLU() {
	q := w.luQ
	w.luQ = nil
	if len(q) == 0 || w.broken {
		return
	}
	lines := make([]string, len(q))
	for i, it := range q {
		lines[i] = fmt.Sprintf("lu %s %d %d", it.how, it.lw, it.b)
	}
	outs, err := w.drv.AskAll(lines)
	if err != nil || len(outs) != len(lines) {
		w.harnessFailed("model driver: %v (%d of %d answers)", err, len(outs), len(lines))
		return
	}
	w.res.Compared(len(q))
	for i, it := range q {
		m, class, how := outs[i], it.class, it.how
		// a write in block 0 whose entry is gone reads as "0 = never written": the lost answer coincides with the right one
		coincides := m == "lost" && it.lw == 0 && class == "ok"
		if m != class && !coincides {
			w.mismatch("answer-lastUpdatedBlock-"+how, map[string]any{"slot": it.name, "block": it.b, "last_write": it.lw,
				"situation": w.situation, "height": w.height}, m, fmt.Sprintf("%s (node %d, twin %d)", class, it.nodeV, it.twinV))
		}
		if class == "ok" {
			continue
		}
		what := fmt.Sprintf("ContractStorageLastUpdatedBlock(0x1, %s slot) through the %s reader of block %d answers %d (%s); the slot was last written by block %d and the unpruned twin answers %d [head %d, oldest retained %d, %s backend]",
			it.name, how, it.b, it.nodeV, it.nodeE, it.lw, it.twinV, w.height, it.oldest, map[bool]string{true: "legacy", false: "new"}[w.legacy()])
		// the documented cause, and nothing else: legacy backend, the write is below the durable floor (its
		// history entry is what the pruner / the migration deletes), an OLDER block (or 0 = never) is reported
		if class == "lost" && w.legacy() && it.oldestOK && it.lw < it.oldest && it.nodeV < it.twinV {
			w.res.Hit("finding:last-update-block-lost-below-floor")
			w.res.Violate(lib.Violation{Sig: "storage-last-update-block-lost-below-floor-" + how, What: what, Replay: w.replay()})
			continue
		}
		w.violate("last-update-block-"+how+"-"+classWord(class)+"-"+w.situation, what)
	}
}
