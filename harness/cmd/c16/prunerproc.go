//go:build verif

package main

import (
	"context"
	"fmt"
	"math"
	"runtime"
	"sync"
	"time"

	"github.com/NethermindEth/juno/core"
	"github.com/NethermindEth/juno/db/memory"
	"github.com/NethermindEth/juno/feed"
	"github.com/NethermindEth/juno/pruner"
	"github.com/NethermindEth/juno/utils/log"
)

// prEvent is what the pruner reported through its listener for one handled event.
type prEvent struct {
	Kind   string // "prune" | "error"
	Oldest uint64
	Count  uint64
	Err    string
}

// prunerProc runs the REAL pruner service (pruner.New + Run) on a hookDB and drives it through its
// two feeds. The handlers are unexported, so events are the only way in; sequencing uses the reads
// the handlers perform first (see hookDB), never sleeps or quiet windows.
type prunerProc struct {
	hdb    *hookDB
	floor  *pruner.RetentionFloor
	l1Feed *feed.Feed[*core.L1Head]
	l2Feed *feed.Feed[*core.Block]
	l1Sub  *feed.Subscription[*core.L1Head]
	cancel context.CancelFunc
	done   chan error
	exited bool
	ticker bool // the sample ticker is fast (prunerCfg.Tick > 0): chain-height reads are not only event handlers

	mu     sync.Mutex
	events []prEvent
}

type prunerCfg struct {
	Retained   uint64
	L2PerPrune uint64
	MinAge     time.Duration
	BatchBytes int
	Tick       time.Duration // interval of the min-age sample ticker (0 = 24 h: the sample is refreshed only by restarting)
}

const waitLimit = 20 * time.Second

func (p *prunerProc) waitFor(cond func() bool) bool {
	deadline := time.Now().Add(waitLimit)
	for i := 0; ; i++ {
		if cond() {
			return true
		}
		if i < 200 {
			runtime.Gosched()
		} else {
			time.Sleep(20 * time.Microsecond)
			if p.hdb.busy.Load() > 0 {
				deadline = time.Now().Add(waitLimit) // the harness itself is working inside a batch-write hook
			} else if i%512 == 0 && time.Now().After(deadline) {
				return false
			}
		}
	}
}

func startPruner(inner *memory.Database, floor *pruner.RetentionFloor, c prunerCfg) (*prunerProc, error) {
	p := &prunerProc{hdb: newHookDB(inner), floor: floor, l1Feed: feed.New[*core.L1Head](),
		l2Feed: feed.New[*core.Block](), done: make(chan error, 1)}
	opts := []pruner.Option{
		pruner.WithListener(&pruner.SelectiveListener{
			OnPruneCb: func(oldest, count uint64, _ time.Duration) {
				p.mu.Lock()
				p.events = append(p.events, prEvent{Kind: "prune", Oldest: oldest, Count: count})
				p.mu.Unlock()
			},
			OnPruneErrorCb: func(err error) {
				p.mu.Lock()
				p.events = append(p.events, prEvent{Kind: "error", Err: err.Error()})
				p.mu.Unlock()
			},
		}),
		pruner.WithTargetBatchByteSize(c.BatchBytes),
		pruner.WithL2HeadsPerPrune(c.L2PerPrune),
		pruner.WithMinAge(c.MinAge),
	}
	if c.Tick > 0 {
		opts = append(opts, pruner.WithFloorTickInterval(c.Tick))
	} else {
		opts = append(opts, pruner.WithFloorTickInterval(24*time.Hour)) // the sample is refreshed only by restarting (seedFloor)
	}
	p.l1Sub = p.l1Feed.Subscribe()
	p.ticker = c.Tick > 0 && c.MinAge > 0
	pr := pruner.New(p.hdb, floor, c.Retained, p.l2Feed.Subscribe(), p.l1Sub, log.NewNopZapLogger(), opts...)
	ctx, cancel := context.WithCancel(context.Background())
	p.cancel = cancel
	go func() { p.done <- pr.Run(ctx) }()
	// Run seeds the min-age floor before entering its loop; the sentinel is handled only after that.
	if !p.sentinel() {
		return nil, fmt.Errorf("pruner did not take the first event within %v", waitLimit)
	}
	return p, nil
}

// sentinel sends an L2-head event that the guards of onNewBlock drop without any effect
// (block number MaxUint64 is never below the L1 head) and waits until its handler has started:
// the dispatch loop is sequential, so every earlier event has been handled completely by then.
func (p *prunerProc) sentinel() bool {
	c := p.hdb.l1Reads.Load()
	p.l2Feed.Send(&core.Block{Header: &core.Header{Number: math.MaxUint64}})
	return p.waitFor(func() bool { return p.hdb.l1Reads.Load() > c })
}

func (p *prunerProc) take() []prEvent {
	p.mu.Lock()
	ev := p.events
	p.events = nil
	p.mu.Unlock()
	return ev
}

// sendL1 delivers an L1-head event and returns what the pruner reported while handling it.
func (p *prunerProc) sendL1(n uint64) ([]prEvent, error) {
	c := p.hdb.heightReads.Load()
	p.l1Feed.Send(&core.L1Head{BlockNumber: n})
	if p.ticker {
		// with a fast sample ticker a chain-height read may be a tick: the event has been taken when the
		// subscription's one-slot buffer is empty again (the dispatch loop is sequential: the sentinel of settle is
		// handled after the handler of this event has returned)
		if !p.waitFor(func() bool { return len(p.l1Sub.Recv()) == 0 || p.isDone() }) {
			return nil, fmt.Errorf("L1 event %d not taken within %v", n, waitLimit)
		}
		return p.settle()
	}
	if !p.waitFor(func() bool { return p.hdb.heightReads.Load() > c || p.isDone() }) {
		return nil, fmt.Errorf("L1 event %d not taken within %v", n, waitLimit)
	}
	return p.settle()
}

// sendL2 delivers a new-head event for block n with the given header timestamp.
func (p *prunerProc) sendL2(n, ts uint64) ([]prEvent, error) {
	c := p.hdb.l1Reads.Load()
	p.l2Feed.Send(&core.Block{Header: &core.Header{Number: n, Timestamp: ts}})
	if !p.waitFor(func() bool { return p.hdb.l1Reads.Load() > c || p.isDone() }) {
		return nil, fmt.Errorf("L2 event %d not taken within %v", n, waitLimit)
	}
	return p.settle()
}

func (p *prunerProc) isDone() bool {
	if p.exited {
		return true
	}
	select {
	case <-p.done:
		p.exited = true
		return true
	default:
		return false
	}
}

// settle waits until the handler of the event just taken has returned: either the next (sentinel)
// event is taken, or Run has exited because a hook cancelled the context.
func (p *prunerProc) settle() ([]prEvent, error) {
	c := p.hdb.l1Reads.Load()
	p.l2Feed.Send(&core.Block{Header: &core.Header{Number: math.MaxUint64}})
	if !p.waitFor(func() bool { return p.hdb.l1Reads.Load() > c || p.isDone() }) {
		return nil, fmt.Errorf("pruner handler did not return within %v", waitLimit)
	}
	return p.take(), nil
}

func (p *prunerProc) stop() {
	p.cancel()
	if !p.exited {
		select {
		case <-p.done:
		case <-time.After(waitLimit):
		}
		p.exited = true
	}
}

// awaitFullTick returns once a tick of the sample ticker that STARTED after the call has run to its end: the
// second chain-height read after the call belongs to a later tick (no event is in flight), and the dispatch loop is
// sequential.
func (p *prunerProc) awaitFullTick() bool {
	c := p.hdb.heightReads.Load()
	return p.waitFor(func() bool { return p.hdb.heightReads.Load() >= c+2 || p.isDone() }) && !p.isDone()
}

// awaitTick returns once a tick of the sample ticker has started after the call (sampleHeight reads the chain
// height first); the dispatch loop is sequential, so the tick is complete before the next event is handled.
func (p *prunerProc) awaitTick() bool {
	c := p.hdb.heightReads.Load()
	return p.waitFor(func() bool { return p.hdb.heightReads.Load() > c || p.isDone() })
}
