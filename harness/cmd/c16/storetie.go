//go:build verif

package main

// Round 5: the STORE-LEVEL tie. After every observation the presence of every entry family of every observed
// block in the node's database is compared with the model's `Db.has` (driver op `has <n>`), whatever the queries
// read: block header by number, hash->number mapping, commitments, state update, block transactions,
// transaction-hash lookups, L1-message lookups, legacy state-history entries logged at the block.

import (
	"bytes"
	"encoding/binary"
	"fmt"
	"strings"

	"github.com/NethermindEth/juno/core"
	"github.com/NethermindEth/juno/core/felt"
	"github.com/NethermindEth/juno/db"
)

// histAt: per block number, the keys of the legacy history entries the (unpruned) twin logged at that block.
func (c *chain) histAt() map[uint64][][]byte {
	c.cacheMu.Lock()
	defer c.cacheMu.Unlock()
	if c.histKeys != nil && c.histKeysAt == len(c.g.Bundles) {
		return c.histKeys
	}
	out := map[uint64][][]byte{}
	for _, b := range historyBuckets {
		for k := range bucketKeys(c.g.SrcDB, b.Key()) {
			kb := []byte(k)
			if len(kb) >= 9 {
				n := binary.BigEndian.Uint64(kb[len(kb)-8:])
				out[n] = append(out[n], kb)
			}
		}
	}
	c.histKeys, c.histKeysAt = out, len(c.g.Bundles)
	return out
}

// presence: '1' all of the family's entries of the block are there, '0' none, 'p' some, '-' the block has none
// to begin with (no transaction / no L1 handler / no history entry: nothing to compare).
func presence(have, total int) byte {
	switch {
	case total == 0:
		return '-'
	case have == total:
		return '1'
	case have == 0:
		return '0'
	}
	return 'p'
}

func (w *world) storeTie(blocks []int) {
	if w.broken || len(blocks) == 0 {
		return
	}
	hist := map[uint64][][]byte{}
	if w.legacy() {
		hist = w.ch.histAt()
	}
	has := func(err error) int {
		if err == nil {
			return 1
		}
		return 0
	}
	lines := make([]string, 0, len(blocks))
	impls := make([]string, 0, len(blocks))
	for _, n := range blocks {
		b := w.ch.g.Bundles[n]
		nn := uint64(n)
		var row [8]byte
		_, e := core.GetBlockHeaderHashByNumber(w.nodeDB, nn)
		row[0] = presence(has(e), 1)
		_, e = core.GetBlockHeaderNumberByHash(w.nodeDB, b.Block.Hash)
		row[1] = presence(has(e), 1)
		_, e = core.GetBlockCommitmentByBlockNum(w.nodeDB, nn)
		row[2] = presence(has(e), 1)
		_, e = core.GetStateUpdateByBlockNum(w.nodeDB, nn)
		row[3] = presence(has(e), 1)
		okTxs, _ := core.BlockTransactionsBucket.Has(w.nodeDB, nn)
		if okTxs {
			row[4] = '1'
		} else {
			row[4] = '0'
		}
		txl, l1t, l1h := 0, 0, 0
		for _, tx := range b.Block.Transactions {
			if ok, _ := core.TransactionBlockNumbersAndIndicesByHashBucket.Has(w.nodeDB, (*felt.TransactionHash)(tx.Hash())); ok {
				txl++
			}
			if l1, ok := tx.(*core.L1HandlerTransaction); ok {
				l1t++
				if _, err := core.GetL1HandlerTxnHashByMsgHash(w.nodeDB, l1.MessageHash()); err == nil {
					l1h++
				}
			}
		}
		row[5] = presence(txl, len(b.Block.Transactions))
		row[6] = presence(l1h, l1t)
		hh := 0
		for _, k := range hist[nn] {
			if err := w.nodeDB.Get(k, func([]byte) error { return nil }); err == nil {
				hh++
			}
		}
		row[7] = presence(hh, len(hist[nn]))
		lines = append(lines, fmt.Sprintf("has %d", n))
		impls = append(impls, string(row[:]))
	}
	outs, err := w.drv.AskAll(lines)
	if err != nil || len(outs) != len(lines) {
		w.harnessFailed("model driver: %v (%d of %d answers)", err, len(outs), len(lines))
		return
	}
	w.res.Compared(8 * len(lines))
	fams := []string{"hdr", "h2n", "comm", "su", "txs", "txl", "l1m", "hist"}
	for i, m := range outs {
		if len(m) != 8 {
			w.harnessFailed("model driver: malformed answer to %q: %q", lines[i], m)
			return
		}
		var bad []string
		for j := 0; j < 8; j++ {
			if impls[i][j] == '-' {
				continue
			}
			if impls[i][j] != m[j] {
				bad = append(bad, fmt.Sprintf("%s model=%c impl=%c", fams[j], m[j], impls[i][j]))
			}
		}
		if len(bad) > 0 {
			w.mismatch("store-level-presence", map[string]any{"block": blocks[i], "height": w.height, "situation": w.situation,
				"families": strings.Join(bad, "; ")}, m, impls[i])
		}
	}
	w.res.Hit("tie:store-level-presence")
}

var _ = bytes.Equal
var _ db.Bucket
