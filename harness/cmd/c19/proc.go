//go:build verif

package main

import (
	"bufio"
	"bytes"
	"context"
	"crypto/sha1"
	"crypto/sha256"
	"encoding/json"
	"errors"
	"fmt"
	"os"
	"os/exec"
	"reflect"
	"runtime"
	"runtime/debug"
	"sort"
	"strconv"
	"strings"
	"sync"
	"time"
	"unsafe"

	"github.com/NethermindEth/juno/consensus/propeller"
	"github.com/NethermindEth/juno/consensus/propeller/merkle"
	"github.com/NethermindEth/juno/consensus/propeller/reedsolomon"
	"github.com/libp2p/go-libp2p/core/peer"
	"verif/harness/lib"
)

// The real Processor (processor.go) spawns its own goroutines: a panic there cannot be recovered
// by the caller and takes the process down. Every processor scenario therefore runs in a CHILD
// process (this binary with --c19-child <scenario file>); the parent reads the child's step log,
// detects crashes / hangs, evaluates the oracle and replays the same steps on the Lean model.

type pcfgFlags struct {
	WireGuard        bool `json:"wire_guard"`
	NoPoison         bool `json:"no_poison"`
	LocalFromPresent bool `json:"local_from_present"`
	KeyGuard         bool `json:"key_guard"`
	// not a model flag: can the Processor be driven at all (events channel and logger wired)?
	ProcWired bool `json:"processor_wired"`
}

func (c pcfgFlags) String() string {
	return b01(c.WireGuard) + b01(c.NoPoison) + b01(c.LocalFromPresent) + b01(c.KeyGuard)
}

func (c pcfgFlags) describe() string {
	return fmt.Sprintf("wireGuard=%v processorWired=%v noPoison=%v localFromPresent=%v keyGuard=%v", c.WireGuard, c.ProcWired, c.NoPoison, c.LocalFromPresent, c.KeyGuard)
}

type procStepT struct {
	Unit    int    `json:"unit"`    // index of the publisher's unit this step is made from
	Corrupt string `json:"corrupt"` // "" = as is
	Sender  string `json:"sender"`  // "legit" | "other" | "outsider" | "publisher" | "local"
	// M: which message of the publisher (0 = the scenario's message; m > 0: the same bytes published
	// with nonce+m — another message key)
	M int `json:"m,omitempty"`
	// Variant (Corrupt "garbage"): makes the message key of the garbage unit distinct; Pub >= 0 names
	// the committee member with that index (skipping the local peer) as publisher
	Variant int `json:"variant,omitempty"`
	Pub0    int `json:"pub0,omitempty"` // 0: the scenario's publisher; i > 0: the (i-1)-th other member
	// Corrupt "expire": no unit; wait until the subprocessor of message M has timed out
}

type procScenario struct {
	N         int         `json:"n"`
	Local     int         `json:"local"`
	Pub       int         `json:"publisher"`
	Msg       string      `json:"msg"`
	Nonce     string      `json:"nonce"`
	Steps     []procStepT `json:"steps"`
	TimeoutMs int         `json:"timeout_ms"`
	// Keyless: the committee has one more member whose peer id does not embed a public key (what
	// an RSA or ECDSA key gives); local / publisher index the other (keyed) members
	Keyless bool `json:"keyless,omitempty"`
	// Once: every unit is handed over exactly once, as the engine does (no retry when the
	// processor answers "processor channel full")
	Once bool `json:"once,omitempty"`
	// Burst (with Once): the units are handed over back to back, with no pause in between — what the
	// engine's loop does when the units of a message arrive together
	Burst bool `json:"burst,omitempty"`
	// task bounds to set on the Processor (0 = leave the real 1000 / 250)
	MaxWorkers      int `json:"max_workers,omitempty"`
	MaxPerPublisher int `json:"max_per_publisher,omitempty"`
	// StaleMessageTimeout in ms (0 = 60 s)
	StaleMs int `json:"stale_ms,omitempty"`
	// ModelOnly: several messages / time-outs are in play; the single-message oracle is skipped (the
	// counter oracle and the model comparison apply)
	ModelOnly bool `json:"model_only,omitempty"`
	// Resend (with ModelOnly): the publisher sends the SAME content again under a fresh nonce after the
	// first message has finished; oracle: the local unit of every message that got k honest units is
	// broadcast (a finished message must not shadow a new one)
	Resend bool `json:"resend,omitempty"`
	// Patient: the child waits up to 20 s (instead of 1 s) for the counters the model expects. Set by
	// the parent when it runs a scenario again after a counter mismatch: on a machine under heavy
	// load the goroutines that release a slot can take longer than a second to be scheduled
	Patient bool `json:"patient,omitempty"`
	// Expect: the model's task counters after each step (tasks, publisherTasks[publisher of the
	// step's unit]); the child waits (briefly) until the real counters get there, then reports them
	Expect [][2]uint64 `json:"expect,omitempty"`
	// Conc > 0 (conc.go): that many messages of different publishers are in flight at once, each created
	// and handed over by a goroutine of its own; Steps is ignored. ConcLib > 0: the child runs the
	// library-level concurrent family instead (Conc goroutines, ConcLib rounds; the race twin)
	Conc    int `json:"conc,omitempty"`
	ConcLib int `json:"conc_lib,omitempty"`
	// Hold > 0 (hold.go): the hand-over made deterministic. Processor.Run is NOT started and the events are
	// NOT read until every step has been handed over. The first Hold steps are handed over one at a time
	// (each is received by the subprocessor before the next); step Hold-1 is chosen so that dealing with it
	// BLOCKS the subprocessor (the local unit: broadcastUnit's send; an invalid unit: the report to Run).
	// The remaining steps are handed over exactly once each, back to back: what ProcessMessage answers and
	// how many units wait in the channel after each is then determined by the channel alone. Then Run is
	// started, the events are read, and the subprocessor works through its channel.
	Hold int `json:"hold,omitempty"`
	// Doomed (with Hold): step Hold-1 ENDS the subprocessor (an invalid first unit); with Run held back the
	// ended subprocessor stays registered, what is handed over then goes into its channel and is lost when Run
	// forgets it. In the model: the units are offered before the `consume` that ends the subprocessor
	Doomed bool `json:"doomed,omitempty"`
}

type procEvent struct {
	Unit string `json:"unit"` // canonical rendering of the broadcast unit
	To   int    `json:"to"`   // number of peers it is to be sent to
	// the recipients, sorted, as one hexList token (the order in the event is a random shuffle)
	Peers string `json:"peers,omitempty"`
}

type procLine struct {
	Step   int         `json:"step"`           // -1: final barrier
	Res    string      `json:"res,omitempty"`  // "nil" | "err:route" | "err:other:<text>" | "stuck"
	Events []procEvent `json:"events"`         // events observed since the previous line
	Note   string      `json:"note,omitempty"` // "run-panic: …"
	// task counters after the step (read under the Processor's own mutex), when they could be read
	Tasks  *uint64 `json:"tasks,omitempty"`
	PTasks *uint64 `json:"ptasks,omitempty"`
	// final line: counters and number of live subprocessors once they have settled
	Live *int `json:"live,omitempty"`
	// monotonic time (ms since the child started) just before the step's hand-over and after the step
	// was dealt with; used ONLY to decide whether an observation is conclusive (see timeoutOracle)
	T0 int64 `json:"t0,omitempty"`
	T1 int64 `json:"t1,omitempty"`
	// the store after the step, once settled: the step's message key is in the finalized cache; number
	// of live subprocessors (both read from the real Processor)
	Fin   *bool `json:"fin,omitempty"`
	LiveN *int  `json:"live_n,omitempty"`
	// Hold mode: units waiting in the subprocessors' channels before / after the step's hand-over, and the
	// capacity of the step's channel (reflection; -1: not readable)
	Q0  *int `json:"q0,omitempty"`
	Q1  *int `json:"q1,omitempty"`
	Cap *int `json:"cap,omitempty"`
	// evidence collected by the child (never inferred from the scenario)
	Ev *procEvidence `json:"evidence,omitempty"`
}

// procEvidence: facts the child observed about HOW it failed.
type procEvidence struct {
	LoggerNil            bool   `json:"logger_nil"`              // Processor.logger is nil (reflection)
	RunPanicInRun        bool   `json:"run_panic_in_run"`        // the recovered panic's stack has (*Processor).Run as the panicking frame's caller chain
	RunPanicNilDeref     bool   `json:"run_panic_nil_deref"`     // … and it is a nil dereference
	NilChanSendBroadcast bool   `json:"nil_chan_send_broadcast"` // a goroutine is blocked in broadcastUnit on "chan send (nil chan)"
	BlockedSendToRun     bool   `json:"blocked_send_to_run"`     // a subprocessor is blocked sending to the (dead) Run loop
	HonestKeyFinalized   bool   `json:"honest_key_finalized"`    // the publisher's message key is in Processor.finalized (reflection)
	Dump                 string `json:"dump,omitempty"`
}

// world of a scenario: deterministic from (n, local, publisher, msg, nonce)
type procWorld struct {
	ms        []member
	local     member
	pub       member
	outsider  member
	cid       propeller.CommitteeID
	nonce     uint64
	msg       []byte
	sched     *propeller.Scheduler
	procSched *propeller.Scheduler
	units     []propeller.Unit
	k, c      int
	localIdx  int
	keyless   peer.ID
	variants  map[int][]propeller.Unit
	outUnits  []propeller.Unit
}

// outsiderUnits: the scenario's message published by the outsider (its own key, nonce + 7777).
func (w *procWorld) outsiderUnits() []propeller.Unit {
	if w.outUnits == nil {
		us, err := propeller.CreatePropellerUnits(w.outsider.priv, &w.cid, propeller.Nonce(w.nonce+7777), w.msg, w.k, w.c)
		if err != nil {
			panic(err)
		}
		w.outUnits = us
	}
	return w.outUnits
}

// unitsOf: the units of message m of the publisher (m = 0: the scenario's message).
func (w *procWorld) unitsOf(m int) []propeller.Unit {
	if m == 0 {
		return w.units
	}
	if us, ok := w.variants[m]; ok {
		return us
	}
	us, err := propeller.CreatePropellerUnits(w.pub.priv, &w.cid, propeller.Nonce(w.nonce+uint64(m)), w.msg, w.k, w.c)
	if err != nil {
		panic(err)
	}
	if w.variants == nil {
		w.variants = map[int][]propeller.Unit{}
	}
	w.variants[m] = us
	return us
}

func newProcWorld(sc *procScenario) (*procWorld, error) {
	w := &procWorld{ms: makeCommittee(sc.N, uint64(200+sc.N)), outsider: makeMember(999961)}
	if sc.Keyless {
		keyed := makeCommittee(sc.N-1, uint64(200+sc.N))
		w.keyless = keylessID(uint64(sc.N))
		w.local, w.pub = keyed[sc.Local], keyed[sc.Pub]
		w.ms = append(keyed, member{id: w.keyless})
		sort.Slice(w.ms, func(i, j int) bool { return w.ms[i].id < w.ms[j].id })
	} else {
		w.local, w.pub = w.ms[sc.Local], w.ms[sc.Pub]
	}
	copy(w.cid[:], "verif-c19-processor-committee-id")
	w.nonce = nonceOf(sc.Nonce)
	w.msg, _ = unhx(sc.Msg)
	s, err := propeller.NewScheduler(w.local.id, peerCommittee(w.ms))
	if err != nil {
		return nil, err
	}
	w.sched = s
	// the Scheduler handed to the code under test is a value of its own: the harness' look-ups (who is
	// the designated sender of a unit?) must not run between two look-ups of the code under test — a
	// scheduler that remembers its last answer would be reset by them
	if w.procSched, err = propeller.NewScheduler(w.local.id, peerCommittee(w.ms)); err != nil {
		return nil, err
	}
	w.k, w.c = s.NumDataShards(), s.NumCodingShards()
	w.units, err = propeller.CreatePropellerUnits(w.pub.priv, &w.cid, propeller.Nonce(w.nonce), w.msg, w.k, w.c)
	if err != nil {
		return nil, err
	}
	li, err := s.ShardIndexForPublisher(w.pub.id)
	if err != nil {
		return nil, err
	}
	w.localIdx = int(li)
	return w, nil
}

// stepUnit builds the unit and the sender of one step (deterministic: no randomness).
func (w *procWorld) stepUnit(st procStepT) (*propeller.Unit, peer.ID) {
	total := w.k + w.c
	u := cloneUnit(&w.unitsOf(st.M)[st.Unit%total])
	sender, _ := legitSender(w.sched, w.local.id, w.pub.id, int(u.ShardIndex))
	switch st.Corrupt {
	case "":
	case "garbage":
		// a FIRST unit of a message key nobody has seen (distinct per Variant), whose shard does not
		// match its proof: correctly rejected; what it costs the receiver is the question
		u.Nonce += propeller.Nonce(1_000_000 + st.Variant)
		u.ShardData[0][0] ^= 0x5a
		if st.Pub0 > 0 {
			var others []member
			for _, m := range w.ms {
				if m.id != w.local.id && m.id != w.keyless {
					others = append(others, m)
				}
			}
			u.Publisher = others[(st.Pub0-1)%len(others)].id
		}
	case "shard-flip":
		u.ShardData[0][0] ^= 1
	case "shard-tail-flip": // the LAST byte of the shard (a hash that drops the tail of a long leaf would not see it)
		u.ShardData[0][len(u.ShardData[0])-1] ^= 0x40
	case "proof-flip":
		if len(u.MerkleProof.Siblings) > 0 {
			u.MerkleProof.Siblings[0][3] ^= 0x10
		} else {
			u.MerkleProof.Siblings = append(u.MerkleProof.Siblings, merkle.Hash{1})
		}
	case "sig-flip":
		u.Signature[5] ^= 0x04
	case "index-oob":
		u.ShardIndex = propeller.ShardIndex(total)
	case "index-next": // claims the next index with this shard and proof
		u.ShardIndex = propeller.ShardIndex((int(u.ShardIndex) + 1) % total)
		sender, _ = legitSender(w.sched, w.local.id, w.pub.id, int(u.ShardIndex))
	case "shards-none":
		u.ShardData = propeller.ShardData{}
	case "committee-flip":
		u.CommitteeID[0] ^= 1
	case "nonce-plus1":
		u.Nonce++
	case "root-flip":
		u.MessageRoot[0] ^= 1
	case "publisher-other":
		for _, m := range w.ms {
			if m.id != w.pub.id && m.id != w.local.id && m.id != w.keyless {
				u.Publisher = m.id
				break
			}
		}
	case "publisher-keyless":
		u.Publisher = w.keyless
	case "publisher-local": // names the receiver itself as publisher
		u.Publisher = w.local.id
	case "outsider-message":
		// a unit of a message that a peer OUTSIDE the committee published and signed itself (everything
		// about it is consistent: shards, proof, root, signature under the outsider's key), handed over by
		// a committee member
		us := w.outsiderUnits()
		u = cloneUnit(&us[st.Unit%total])
		for _, m := range w.ms {
			if m.id != w.local.id && m.id != w.keyless {
				sender = m.id
				break
			}
		}
	}
	switch st.Sender {
	case "other":
		for _, m := range w.ms {
			if m.id != sender && m.id != w.local.id && m.id != w.pub.id && m.id != w.keyless {
				sender = m.id
				break
			}
		}
	case "outsider":
		sender = w.outsider.id
	case "publisher":
		sender = w.pub.id
	case "local":
		sender = w.local.id
	}
	return u, sender
}

// routeClasses: the texts of the refusals of createSubprocessor -> the model's Refusal classes.
var routeClasses = [][2]string{
	{"same as the publisher", "self-published"},
	{"not found in the peer list", "publisher-unknown"},
	{"no usable public key", "no-key"},
	{"tasks per publisher exceeded", "publisher-tasks"},
	{"max tasks that the processor can handle", "max-tasks"},
}

// keylessID: a syntactically valid peer id that does not embed a public key — the SHA-256
// multihash form libp2p uses for keys longer than 42 bytes (RSA, ECDSA).
func keylessID(salt uint64) peer.ID {
	h := sha256.Sum256([]byte(fmt.Sprintf("verif-c19-keyless-peer-%d", salt)))
	return peer.ID(append([]byte{0x12, 0x20}, h[:]...))
}

func renderUnit(u *propeller.Unit) string {
	shards := make([][]byte, len(u.ShardData))
	for i, s := range u.ShardData {
		shards[i] = s
	}
	return strings.Join([]string{strconv.FormatUint(uint64(u.ShardIndex), 10), hexList(shards),
		hashesHex(toHashes(u.MerkleProof.Siblings)), hx(u.MessageRoot[:]), hx(u.Signature),
		strconv.FormatUint(uint64(u.Nonce), 10), hx(u.CommitteeID[:]), hx([]byte(u.Publisher))}, ":")
}

// ---------------------------------------------------------------------------------------------
// child

// procChild runs one scenario on the real Processor and prints one JSON line per step.
func procChild(path string) {
	raw, err := os.ReadFile(path)
	if err != nil {
		fmt.Fprintln(os.Stderr, "child:", err)
		os.Exit(3)
	}
	var sc procScenario
	if err := json.Unmarshal(raw, &sc); err != nil {
		fmt.Fprintln(os.Stderr, "child:", err)
		os.Exit(3)
	}
	w, err := newProcWorld(&sc)
	if err != nil {
		fmt.Fprintln(os.Stderr, "child:", err)
		os.Exit(3)
	}
	if sc.Conc > 0 {
		procConcChild(&sc, w)
		return
	}
	out := bufio.NewWriter(os.Stdout)
	emit := func(l procLine) {
		if l.Events == nil {
			l.Events = []procEvent{}
		}
		b, _ := json.Marshal(l)
		out.Write(b)
		out.WriteByte('\n')
		out.Flush()
	}
	cfg := propeller.DefaultConfig()
	cfg.StaleMessageTimeout = 60 * time.Second
	if sc.StaleMs > 0 {
		cfg.StaleMessageTimeout = time.Duration(sc.StaleMs) * time.Millisecond
	}
	p, events := propeller.NewProcessor(w.local.id, &cfg)
	probe, perr := newTaskProbe(p)
	if perr == nil && (sc.MaxWorkers > 0 || sc.MaxPerPublisher > 0) {
		perr = probe.setBounds(uint64(sc.MaxWorkers), uint64(sc.MaxPerPublisher))
	}
	if perr != nil {
		// the harness relies on the layout of Processor's task accounting: a failure of the machinery
		fmt.Fprintln(os.Stderr, "child: task probe:", perr)
		os.Exit(3)
	}
	ctx, cancel := context.WithCancel(context.Background())
	defer cancel()
	ev := &procEvidence{LoggerNil: fieldIsNil(p, "logger")}
	runNote := make(chan string, 1)
	startRun := func() {
		go func() {
			defer func() {
				if r := recover(); r != nil {
					st := string(debug.Stack())
					// the frame that panicked is the first propeller frame below runtime.gopanic
					ev.RunPanicInRun = firstPropellerFrame(st) == "(*Processor).Run"
					ev.RunPanicNilDeref = strings.Contains(fmt.Sprint(r), "nil pointer dereference")
					runNote <- fmt.Sprintf("run-panic: %v", r)
				}
			}()
			p.Run(ctx)
		}()
	}
	if sc.Hold == 0 {
		startRun()
	}
	timeout := time.Duration(sc.TimeoutMs) * time.Millisecond
	if timeout == 0 {
		timeout = 3 * time.Second
	}
	var pending []procEvent
	drain := func() {
		for {
			select {
			case e := <-events:
				pending = append(pending, describeEvent(e))
			default:
				return
			}
		}
	}
	note := func() string {
		select {
		case s := <-runNote:
			return s
		default:
			return ""
		}
	}
	// hand delivers one unit. Normal mode: retries while the subprocessor is busy ("processor
	// channel full"), draining the events channel meanwhile (the only consumer, so nothing is lost or
	// reordered). Once mode: a single call, as the engine makes it.
	hand := func(u *propeller.Unit, sender peer.ID) string {
		deadline := time.Now().Add(timeout)
		attempts := 0
		for {
			drain()
			attempts++
			err := p.ProcessMessage(ctx, u, sender, w.procSched)
			if err == nil {
				return "nil"
			}
			msg := err.Error()
			switch {
			case strings.Contains(msg, "processor channel full"):
				if sc.Once {
					return "full"
				}
				// (wall clock AND a number of attempts: on an oversubscribed machine the whole child
				// can be descheduled for most of the time-out)
				if time.Now().After(deadline) && attempts >= 2000 {
					return "stuck"
				}
				time.Sleep(300 * time.Microsecond)
			case strings.Contains(msg, "couldn't get processor channel"):
				// the reason (createSubprocessor's five refusals); an unrecognised text is "other"
				for _, c := range routeClasses {
					if strings.Contains(msg, c[0]) {
						return "err:route:" + c[1]
					}
				}
				return "err:route:other"
			default:
				return "err:other:" + msg
			}
		}
	}
	stuckEvidence := func() *procEvidence {
		buf := make([]byte, 1<<20)
		dump := string(buf[:runtime.Stack(buf, true)])
		for _, g := range strings.Split(dump, "\n\n") {
			if strings.Contains(g, "chan send (nil chan)") && strings.Contains(g, ").broadcastUnit(") {
				ev.NilChanSendBroadcast = true
			}
			if strings.Contains(g, "[chan send") && !strings.Contains(g, "nil chan") &&
				(strings.Contains(g, ").beforeMessageBuiltStage(") || strings.Contains(g, ").beforeMessageReceivedStage(") ||
					strings.Contains(g, "createSubprocessor.func1(")) && !strings.Contains(g, ").broadcastUnit(") {
				ev.BlockedSendToRun = true
			}
		}
		return ev
	}
	// await: the counters the model expects after step i (when the parent sent them) are reached as
	// soon as Run has handled what the step caused; wait for that — briefly, and only until the first
	// time it does not happen — then report what is there
	gaveUp := false
	// received: a Processor whose subprocessors have BUFFERED channels returns from ProcessMessage before
	// the unit is looked at; wait until every queue is empty (a subprocessor works through its queue in
	// order, so an empty queue means everything before the last unit has been dealt with)
	received := func(patience time.Duration) {
		deadline := time.Now().Add(patience)
		for n := 0; probe.queued() > 0; n++ {
			if time.Now().After(deadline) && n >= 200 {
				return
			}
			drain()
			time.Sleep(100 * time.Microsecond)
		}
	}
	await := func(i int, pub peer.ID, patience time.Duration) (uint64, uint64) {
		received(patience)
		tk, pt, _ := probe.read(pub)
		if i >= len(sc.Expect) || gaveUp {
			return tk, pt
		}
		want := sc.Expect[i]
		deadline := time.Now().Add(patience)
		for n := 0; tk != want[0] || pt != want[1]; n++ {
			if time.Now().After(deadline) && n >= 200 {
				gaveUp = true
				break
			}
			drain()
			time.Sleep(200 * time.Microsecond)
			tk, pt, _ = probe.read(pub)
		}
		return tk, pt
	}
	// settle: Run releases the slot (decreaseTask) BEFORE it caches the key and forgets the subprocessor
	// (both under subMu): once the number of live subprocessors equals `tasks` nothing is in between.
	// Then the store is read: key finalized? how many subprocessors?
	settle := func(u *propeller.Unit, tk, pt *uint64, patience time.Duration) (*bool, *int) {
		// (also without expectations — the probes: a unit handed over while a subprocessor that has
		// ended is still registered would go to that subprocessor, with a buffered channel silently)
		_, _, live := probe.read(u.Publisher)
		deadline := time.Now().Add(patience)
		for n := 0; live >= 0 && uint64(live) != *tk && !gaveUp; n++ {
			if time.Now().After(deadline) && n >= 200 {
				gaveUp = true
				break
			}
			drain()
			time.Sleep(200 * time.Microsecond)
			*tk, *pt, live = probe.read(u.Publisher)
		}
		if live < 0 || len(sc.Expect) == 0 {
			return nil, nil
		}
		fin := keyFinalized(p, u)
		return &fin, &live
	}
	prev := -2
	childStart := time.Now()
	ms := func() int64 { return int64(time.Since(childStart)/time.Millisecond) + 1 }
	loopSteps := sc.Steps
	if sc.Hold > 0 {
		// (see procScenario.Hold) nothing reads the events, Run does not run: a subprocessor that has to
		// tell anybody anything blocks, and the hand-over is decided by its channel alone
		loopSteps = nil
		once := func(u *propeller.Unit, sender peer.ID) string {
			err := p.ProcessMessage(ctx, u, sender, w.procSched)
			if err == nil {
				return "nil"
			}
			msg := err.Error()
			switch {
			case strings.Contains(msg, "processor channel full"):
				return "full"
			case strings.Contains(msg, "couldn't get processor channel"):
				for _, c := range routeClasses {
					if strings.Contains(msg, c[0]) {
						return "err:route:" + c[1]
					}
				}
				return "err:route:other"
			}
			return "err:other:" + msg
		}
		for i, st := range sc.Steps {
			u, sender := w.stepUnit(st)
			q0 := probe.queued()
			res := once(u, sender)
			if i < sc.Hold {
				// the subprocessor is free (or about to block on THIS unit): wait until it has received it
				deadline := time.Now().Add(20 * time.Second)
				for n := 0; probe.queued() > 0; n++ {
					if time.Now().After(deadline) && n >= 2000 {
						emit(procLine{Step: i, Res: "stuck-hold"})
						os.Exit(0)
					}
					time.Sleep(100 * time.Microsecond)
				}
			}
			q1 := probe.queued()
			cp := probe.chanCap(u)
			tk, pt, live := probe.read(u.Publisher)
			emit(procLine{Step: i, Res: res, Q0: &q0, Q1: &q1, Cap: &cp, Tasks: &tk, PTasks: &pt, LiveN: &live})
			prev = i
		}
		startRun()
	}
	for i, st := range loopSteps {
		t0 := ms()
		if st.Corrupt == "expire" {
			// no unit: the subprocessor of message st.M runs into its time-out
			tk, pt := await(i, w.pub.id, 4*cfg.StaleMessageTimeout+2*time.Second)
			if len(sc.Expect) == 0 {
				time.Sleep(2 * cfg.StaleMessageTimeout)
				tk, pt, _ = probe.read(w.pub.id)
			}
			if prev != -2 {
				emit(procLine{Step: prev, Res: "events-of-previous", Events: pending, Note: note()})
			}
			pending = nil
			fin, liveN := settle(&w.unitsOf(st.M)[0], &tk, &pt, 2*time.Second)
			emit(procLine{Step: i, Res: "nil", Tasks: &tk, PTasks: &pt, T0: t0, T1: ms(), Fin: fin, LiveN: liveN})
			prev = i
			continue
		}
		u, sender := w.stepUnit(st)
		res := hand(u, sender)
		t1 := ms() // ProcessMessage has looked at the finalized cache and the subprocessor map by now
		// events drained while handing step i over belong to the steps before it
		if prev != -2 {
			emit(procLine{Step: prev, Res: "events-of-previous", Events: pending, Note: note()})
		}
		pending = nil
		if sc.Once || res == "stuck" {
			emit(procLine{Step: i, Res: res, T0: t0, T1: t1})
		} else {
			patience := time.Second
			if sc.Patient {
				patience = 20 * time.Second
			}
			tk, pt := await(i, u.Publisher, patience)
			fin, liveN := settle(u, &tk, &pt, patience)
			emit(procLine{Step: i, Res: res, Tasks: &tk, PTasks: &pt, T0: t0, T1: t1, Fin: fin, LiveN: liveN})
		}
		prev = i
		if sc.Once && !sc.Burst {
			time.Sleep(3 * time.Millisecond) // let the subprocessor work; nothing is retried
		}
		if res == "stuck" {
			emit(procLine{Step: -1, Res: "stuck", Note: note(), Ev: stuckEvidence()})
			os.Exit(0)
		}
	}
	if sc.Once {
		time.Sleep(20 * time.Millisecond)
		drain()
		emit(procLine{Step: prev, Res: "events-of-previous", Events: pending, Note: note()})
		emit(procLine{Step: -1, Res: "once-done", Note: note(), Ev: ev})
		os.Exit(0)
	}
	// barrier: an out-of-range unit of the same message; once it is taken (or ignored because the
	// key is finalized) everything before it has been processed
	bu := cloneUnit(&w.units[0])
	bu.ShardIndex = propeller.ShardIndex(w.k + w.c + 7)
	res := hand(bu, w.outsider.id)
	received(10 * time.Second)
	time.Sleep(2 * time.Millisecond)
	drain()
	emit(procLine{Step: prev, Res: "events-of-previous", Events: pending, Note: note()})
	if res == "stuck" {
		emit(procLine{Step: -1, Res: res, Note: note(), Ev: stuckEvidence()})
	} else {
		ev.HonestKeyFinalized = keyFinalized(p, &w.units[0])
		// settle: every ended subprocessor has been handled by Run when `tasks` equals the number of
		// live subprocessors (they differ only between decreaseTask and the deletion); a leak or a
		// double release never gets there
		tk, _, live := probe.read(w.pub.id)
		for n := 0; n < 1000 && live >= 0 && tk != uint64(live); n++ {
			drain()
			time.Sleep(400 * time.Microsecond)
			tk, _, live = probe.read(w.pub.id)
		}
		if live < 0 {
			emit(procLine{Step: -1, Res: res, Note: note(), Ev: ev})
		} else {
			sum := probe.sumPublisherTasks()
			emit(procLine{Step: -1, Res: res, Note: note(), Ev: ev, Tasks: &tk, PTasks: &sum, Live: &live})
		}
	}
	os.Exit(0)
}

// taskProbe reads (and, for small-bound scenarios, sets) the unexported task accounting of the
// Processor: tasks, publisherTasks, concurrentTasksBounds, under the Processor's own mutexes.
type taskProbe struct {
	mu, subMu     *sync.Mutex
	tasks, ptasks reflect.Value
	subs, bounds  reflect.Value
}

func newTaskProbe(p *propeller.Processor) (t *taskProbe, err error) {
	defer func() {
		if r := recover(); r != nil {
			err = fmt.Errorf("%v", r)
		}
	}()
	v := reflect.ValueOf(p).Elem()
	field := func(name string) (reflect.Value, error) {
		f := v.FieldByName(name)
		if !f.IsValid() {
			return f, fmt.Errorf("Processor has no field %q", name)
		}
		return reflect.NewAt(f.Type(), unsafe.Pointer(f.UnsafeAddr())).Elem(), nil
	}
	t = &taskProbe{}
	mu, err := field("mu")
	if err != nil {
		return nil, err
	}
	m, ok := mu.Addr().Interface().(*sync.Mutex)
	if !ok {
		return nil, fmt.Errorf("Processor.mu is a %s", mu.Type())
	}
	t.mu = m
	if sm, e := field("subMu"); e == nil { // (absent before 5db92d3)
		if m, ok := sm.Addr().Interface().(*sync.Mutex); ok {
			t.subMu = m
		}
	}
	if t.tasks, err = field("tasks"); err != nil {
		return nil, err
	}
	if t.ptasks, err = field("publisherTasks"); err != nil {
		return nil, err
	}
	if t.subs, err = field("subProcessors"); err != nil {
		return nil, err
	}
	if t.bounds, err = field("concurrentTasksBounds"); err != nil {
		return nil, err
	}
	if t.tasks.Kind() != reflect.Uint64 || t.ptasks.Kind() != reflect.Map || t.subs.Kind() != reflect.Map || t.bounds.Kind() != reflect.Struct {
		return nil, fmt.Errorf("unexpected types of the task accounting fields")
	}
	return t, nil
}

func (t *taskProbe) read(pub peer.ID) (tasks, ptasks uint64, live int) {
	t.mu.Lock()
	tasks = t.tasks.Uint()
	if e := t.ptasks.MapIndex(reflect.ValueOf(pub)); e.IsValid() {
		ptasks = e.Uint()
	}
	t.mu.Unlock()
	if t.subMu == nil {
		// (before 5db92d3 nothing guards the map: not read at all, the harness must not race with it)
		return tasks, ptasks, -1
	}
	t.subMu.Lock()
	defer t.subMu.Unlock()
	return tasks, ptasks, t.subs.Len()
}

// queued: the number of units waiting in the channels of the live subprocessors (0 for unbuffered
// channels: a unit is handed over only when its subprocessor receives it). -1 if it cannot be read.
func (t *taskProbe) queued() (n int) {
	if t.subMu == nil {
		return -1
	}
	defer func() {
		if recover() != nil {
			n = -1
		}
	}()
	t.subMu.Lock()
	defer t.subMu.Unlock()
	it := t.subs.MapRange()
	for it.Next() {
		if it.Value().Kind() == reflect.Chan {
			n += it.Value().Len()
		}
	}
	return n
}

// chanCap: the capacity of the unit channel of the subprocessor of this unit's message key, -1 if there is
// none or it cannot be read.
func (t *taskProbe) chanCap(u *propeller.Unit) (c int) {
	c = -1
	if t.subMu == nil {
		return
	}
	defer func() {
		if recover() != nil {
			c = -1
		}
	}()
	t.subMu.Lock()
	defer t.subMu.Unlock()
	it := t.subs.MapRange()
	for it.Next() {
		k := it.Key()
		if it.Value().Kind() == reflect.Chan &&
			reflect.DeepEqual(k.FieldByName("CommitteeID").Interface(), u.CommitteeID) &&
			reflect.DeepEqual(k.FieldByName("Publisher").Interface(), u.Publisher) &&
			reflect.DeepEqual(k.FieldByName("Root").Interface(), u.MessageRoot) &&
			reflect.DeepEqual(k.FieldByName("Nonce").Interface(), u.Nonce) {
			return it.Value().Cap()
		}
	}
	return
}

func (t *taskProbe) sumPublisherTasks() (sum uint64) {
	t.mu.Lock()
	defer t.mu.Unlock()
	it := t.ptasks.MapRange()
	for it.Next() {
		sum += it.Value().Uint()
	}
	return sum
}

func (t *taskProbe) setBounds(maxW, maxPP uint64) (err error) {
	defer func() {
		if r := recover(); r != nil {
			err = fmt.Errorf("%v", r)
		}
	}()
	set := func(name string, x uint64) error {
		f := t.bounds.FieldByName(name)
		if !f.IsValid() || f.Kind() != reflect.Uint64 {
			return fmt.Errorf("concurrentTasksBounds has no uint64 field %q", name)
		}
		reflect.NewAt(f.Type(), unsafe.Pointer(f.UnsafeAddr())).Elem().SetUint(x)
		return nil
	}
	t.mu.Lock()
	defer t.mu.Unlock()
	if maxW > 0 {
		if err := set("maxWorkers", maxW); err != nil {
			return err
		}
	}
	if maxPP > 0 {
		if err := set("maxWorkersPerPublisher", maxPP); err != nil {
			return err
		}
	}
	return nil
}

// keyFinalized: is extractKey(u) in p.finalized? (reflection over unexported fields; read-only)
func keyFinalized(p *propeller.Processor, u *propeller.Unit) (found bool) {
	defer func() {
		if recover() != nil {
			found = false
		}
	}()
	f := reflect.ValueOf(p).Elem().FieldByName("finalized")
	f = reflect.NewAt(f.Type(), unsafe.Pointer(f.UnsafeAddr())).Elem()
	m := f.MethodByName("Get")
	key := reflect.New(m.Type().In(0).Elem())
	key.Elem().FieldByName("CommitteeID").Set(reflect.ValueOf(u.CommitteeID))
	key.Elem().FieldByName("Publisher").Set(reflect.ValueOf(u.Publisher))
	key.Elem().FieldByName("Root").Set(reflect.ValueOf(u.MessageRoot))
	key.Elem().FieldByName("Nonce").Set(reflect.ValueOf(u.Nonce))
	return m.Call([]reflect.Value{key})[0].Bool()
}

// fieldIsNil: is the named (unexported) field of *p nil? Read-only reflection.
func fieldIsNil(p any, name string) bool {
	v := reflect.ValueOf(p)
	if v.Kind() != reflect.Pointer || v.IsNil() {
		return false
	}
	f := v.Elem().FieldByName(name)
	if !f.IsValid() {
		return false
	}
	switch f.Kind() {
	case reflect.Interface, reflect.Pointer, reflect.Chan, reflect.Map, reflect.Slice, reflect.Func:
		return f.IsNil()
	}
	return false
}

// firstPropellerFrame: the function of the first consensus/propeller frame of a stack trace (the
// frame in which the panic was raised), without the package path.
func firstPropellerFrame(stack string) string {
	for _, l := range strings.Split(stack, "\n") {
		const pfx = "github.com/NethermindEth/juno/consensus/propeller."
		if !strings.HasPrefix(l, pfx) {
			continue
		}
		fn := strings.TrimPrefix(l, pfx)
		if strings.HasPrefix(fn, "(") { // method: "(*Processor).Run(0x…"
			if k := strings.Index(fn, ")."); k > 0 {
				if m := strings.IndexByte(fn[k+2:], '('); m > 0 {
					return fn[:k+2+m]
				}
			}
			return fn
		}
		if m := strings.IndexByte(fn, '('); m > 0 {
			return fn[:m]
		}
		return fn
	}
	return ""
}

// describeEvent renders an Event of the processor. The event types are unexported; their content
// is read with fmt (%+v of the unit would be unstable), so only broadcastUnit is decoded: through
// the fields every Event value prints in a fixed order.
func describeEvent(ev propeller.Event) procEvent {
	// *broadcastUnit{unit *Unit; peers []peer.ID}
	s := fmt.Sprintf("%T", ev)
	if !strings.HasSuffix(s, "broadcastUnit") {
		return procEvent{Unit: "event:" + s}
	}
	u, n, peers := extractBroadcastPeers(ev)
	if u == nil {
		return procEvent{Unit: "event:undecodable-broadcastUnit"}
	}
	sort.Strings(peers)
	pl := make([][]byte, len(peers))
	for i, q := range peers {
		pl[i] = []byte(q)
	}
	return procEvent{Unit: renderUnit(u), To: n, Peers: hexList(pl)}
}

// ---------------------------------------------------------------------------------------------
// parent

type procRun struct {
	stdout  string
	lines   []procLine
	crashed bool
	stderr  string
	timeout bool
	// machinery: the child could not be run at all (not an observation of the code under test)
	machinery string
}

// first failure to run a child at all, for the callers that do not look at single runs (probes)
var (
	childMachineryMu  sync.Mutex
	childMachineryErr string
)

func noteMachinery(msg string) {
	childMachineryMu.Lock()
	if childMachineryErr == "" {
		childMachineryErr = msg
	}
	childMachineryMu.Unlock()
}

// childBin: the binary that runs the scenarios (this binary).
var childBin = os.Args[0]

// runProcChild runs the scenario in a child process. The 60 s limit is a safety net only (a hang of the
// code under test is noticed by the child itself within seconds and reported as "stuck"): when it expires,
// the machine was most likely too busy to run the child at all (seen with a load average of 380 on 16
// cores: no line of output in 60 s), so the scenario is run once more with five times the patience before
// anything is concluded from it.
func runProcChild(sc *procScenario) procRun {
	pr := runProcChildT(sc, 60*time.Second)
	if pr.timeout && pr.machinery == "" {
		pr = runProcChildT(sc, 300*time.Second)
	}
	return pr
}

func runProcChildT(sc *procScenario, limit time.Duration) procRun {
	var pr procRun
	f, err := os.CreateTemp("", "c19-proc-*.json")
	if err != nil {
		pr.stderr = err.Error()
		pr.crashed = true
		pr.machinery = "temp file: " + err.Error()
		noteMachinery(pr.machinery)
		return pr
	}
	defer os.Remove(f.Name())
	b, _ := json.Marshal(sc)
	f.Write(b)
	f.Close()
	ctx, cancel := context.WithTimeout(context.Background(), limit)
	defer cancel()
	cmd := exec.CommandContext(ctx, childBin, "--c19-child", f.Name())
	var so, se bytes.Buffer
	cmd.Stdout, cmd.Stderr = &so, &se
	err = cmd.Run()
	if ctx.Err() != nil {
		pr.timeout = true
	}
	if err != nil {
		pr.crashed = true
		var ee *exec.ExitError
		if !errors.As(err, &ee) {
			// the child did not run at all (binary missing, fork failed, temp file): a failure of the
			// harness machinery, never evidence about the code under test
			pr.machinery = fmt.Sprintf("cannot run %s: %v", childBin, err)
			noteMachinery(pr.machinery)
		}
	}
	pr.stderr = se.String()
	pr.stdout = so.String()
	if strings.HasPrefix(pr.stderr, "child:") && pr.machinery == "" {
		pr.machinery = strings.TrimSpace(pr.stderr)
		noteMachinery(pr.machinery)
	}
	for _, l := range strings.Split(so.String(), "\n") {
		if strings.TrimSpace(l) == "" {
			continue
		}
		var pl procLine
		if json.Unmarshal([]byte(l), &pl) == nil {
			pr.lines = append(pr.lines, pl)
		}
	}
	return pr
}

// stepObs: what was observed for step i.
type stepObs struct {
	res    string
	events []procEvent
	seen   bool
	// task counters after the step
	tasks, ptasks uint64
	hasTasks      bool
	t0, t1        int64
	fin           bool
	liveN         int
	hasStore      bool
}

// slimScenario: the scenario without the (long) expectation list, for reports.
func slimScenario(sc *procScenario) *procScenario {
	c := *sc
	c.Expect = nil
	return &c
}

func collect(pr procRun, n int) (obs []stepObs, final string, notes []string) {
	obs, final, notes, _ = collectEv(pr, n)
	return
}

func collectEv(pr procRun, n int) (obs []stepObs, final string, notes []string, ev procEvidence) {
	obs = make([]stepObs, n)
	for _, l := range pr.lines {
		if l.Note != "" {
			notes = append(notes, l.Note)
		}
		if l.Ev != nil {
			ev = *l.Ev
		}
		if l.Step == -1 {
			final = l.Res
			continue
		}
		if l.Step < 0 || l.Step >= n {
			continue
		}
		if l.Res == "events-of-previous" {
			obs[l.Step].events = append(obs[l.Step].events, l.Events...)
		} else {
			obs[l.Step].res = l.Res
			obs[l.Step].seen = true
			obs[l.Step].t0, obs[l.Step].t1 = l.T0, l.T1
			if l.Fin != nil && l.LiveN != nil {
				obs[l.Step].fin, obs[l.Step].liveN, obs[l.Step].hasStore = *l.Fin, *l.LiveN, true
			}
			if l.Tasks != nil && l.PTasks != nil {
				obs[l.Step].tasks, obs[l.Step].ptasks, obs[l.Step].hasTasks = *l.Tasks, *l.PTasks, true
			}
		}
	}
	return
}

func stepsString(steps []procStepT) string {
	p := make([]string, len(steps))
	for i, s := range steps {
		p[i] = fmt.Sprintf("%d%s/%s", s.Unit, map[bool]string{true: "!" + s.Corrupt, false: ""}[s.Corrupt != ""], s.Sender)
		if s.M != 0 {
			p[i] += fmt.Sprintf("@m%d", s.M)
		}
		if s.Corrupt == "garbage" {
			p[i] = fmt.Sprintf("garbage#%d", s.Variant)
			if s.Pub0 > 0 {
				p[i] += fmt.Sprintf("→p%d", s.Pub0)
			}
		}
	}
	return strings.Join(p, " ")
}

// procCase runs one scenario in a child, evaluates the oracle and compares with the model.
func procCase(h *hctx, sc *procScenario) { procCaseWith(h, sc, nil) }

// runProcChildren runs the scenarios in child processes, a few at a time.
func runProcChildren(scs []*procScenario) []procRun {
	out := make([]procRun, len(scs))
	sem := make(chan struct{}, 6)
	var wg sync.WaitGroup
	for i := range scs {
		wg.Add(1)
		sem <- struct{}{}
		go func(i int) {
			defer wg.Done()
			defer func() { <-sem }()
			out[i] = runProcChild(scs[i])
		}(i)
	}
	wg.Wait()
	return out
}

func procCaseWith(h *hctx, sc *procScenario, pre *procRun) {
	h.guard("processor-harness", map[string]any{"kind": "processor", "scenario": sc}, func() { procCase0(h, sc, pre) })
}

// prepareTrace: the model's trace of the scenario (computed BEFORE the child runs: its task counters
// are what the child waits for after each step). nil when there is no model to compare with.
func prepareTrace(h *hctx, sc *procScenario, w *procWorld) []traceStep {
	if !h.pcfg.ProcWired || h.driverBroken || sc.Once {
		return nil
	}
	if t, ok := h.traces[sc]; ok {
		return t
	}
	t := procModelTrace(h, sc, w)
	if h.traces == nil {
		h.traces = map[*procScenario][]traceStep{}
	}
	h.traces[sc] = t
	sc.Expect = nil
	for _, x := range t {
		sc.Expect = append(sc.Expect, [2]uint64{x.tasks, x.ptasks})
	}
	return t
}

func procCase0(h *hctx, sc *procScenario, pre *procRun) {
	rp := map[string]any{"kind": "processor", "scenario": slimScenario(sc)}
	w, err := newProcWorld(sc)
	if err != nil {
		h.res.Fatalf("procCase: %v", err)
		return
	}
	total := w.k + w.c
	if w.localIdx < 0 || w.localIdx >= total {
		h.violate("scheduler-local-shard-index-out-of-range", fmt.Sprintf("n=%d local=%d publisher=%d: ShardIndexForPublisher = %d with %d shards", sc.N, sc.Local, sc.Pub, w.localIdx, total), rp)
		return
	}
	h.res.Case(fmt.Sprintf("proc/%d/%d/%d/%s", sc.N, sc.Local, sc.Pub, stepsString(sc.Steps)), true)
	trace := prepareTrace(h, sc, w)
	defer delete(h.traces, sc)
	var pr procRun
	if pre != nil {
		pr = *pre
	} else {
		pr = runProcChild(sc)
	}
	if pr.machinery != "" {
		h.res.Fatalf("processor child: %s", pr.machinery)
		return
	}
	for try := 0; try < 3 && pr.crashed && strings.Contains(pr.stderr, "concurrent map"); try++ {
		// Processor.subProcessors is read by ProcessMessage and written by Run (finalize) without a
		// lock; the Go runtime sometimes notices and kills the process. A genuine defect, but not
		// reproducible on demand: reported under its own (listed) sig whenever it is seen, and the
		// scenario is run again for the rest of the evaluation.
		h.res.Hit("proc:concurrent-map-access-detected-by-runtime")
		h.violate("processor-subprocessors-map-concurrent-access",
			fmt.Sprintf("fatal error: concurrent map access in the real Processor (ProcessMessage reads p.subProcessors while Run's finalize deletes from it): %s", clip(firstPanicLines(pr.stderr))), rp)
		pr = runProcChild(sc)
	}
	obs, final, notes, ev := collectEv(pr, len(sc.Steps))
	desc := fmt.Sprintf("n=%d local=%d publisher=%d (k=%d, p=%d, local shard %d), steps [%s]", sc.N, sc.Local, sc.Pub, w.k, w.c, w.localIdx, stepsString(sc.Steps))
	if len(pr.lines) == 0 && !pr.crashed {
		h.res.Fatalf("processor child produced no output: %s", clip(pr.stderr))
		return
	}

	// --- what an honest observer expects -------------------------------------------------------
	// honest(i): step i hands over the publisher's own unit from its designated sender
	// (by the RESOLVED sender: in a committee of 2 "other" finds nobody else and stays the designated
	// sender; "publisher" is the designated sender of the local shard)
	isHonest := func(st procStepT) bool {
		if st.Corrupt != "" || st.M != 0 {
			return false
		}
		u, snd := w.stepUnit(st)
		ls, ok := legitSender(w.sched, w.local.id, w.pub.id, int(u.ShardIndex))
		return ok && snd == ls
	}
	seenIdx := map[int]bool{}
	distinct := 0
	builtAt := -1
	localDirectAt := -1
	firstBadOfKeyBeforeAnyHonest := false
	anyHonest := false
	keylessStep := -1
	for i, st := range sc.Steps {
		if st.Corrupt == "publisher-keyless" && keylessStep < 0 {
			keylessStep = i
		}
		if isHonest(st) {
			idx := st.Unit % total
			if !seenIdx[idx] {
				seenIdx[idx] = true
				if builtAt < 0 {
					distinct++
					if idx == w.localIdx && localDirectAt < 0 {
						localDirectAt = i
					}
					if distinct == w.k {
						builtAt = i
					}
				}
			}
			anyHonest = true
		} else if !anyHonest && keepsKey(st.Corrupt) {
			firstBadOfKeyBeforeAnyHonest = true
		}
	}
	honestLocal := renderUnit(&w.units[w.localIdx])

	// --- oracle on the observation: every sig from EVIDENCE of what happened -------------------
	lastSeen := -1
	for i := range obs {
		if obs[i].seen {
			lastSeen = i
		}
	}
	var bcasts []procEvent
	for i := range obs {
		bcasts = append(bcasts, obs[i].events...)
	}
	runPanicked := false
	for _, n := range notes {
		if strings.HasPrefix(n, "run-panic") {
			runPanicked = true
			h.res.Hit("proc:run-panic")
			sig := "processor-run-panics"
			if ev.LoggerNil && ev.RunPanicInRun && ev.RunPanicNilDeref {
				// Processor.logger is nil (read from the struct) and the nil dereference was raised in
				// the frame of (*Processor).Run itself, whose only dereferences are the logger calls
				sig = "processor-run-panics-logger-not-set"
			}
			h.violate(sig, fmt.Sprintf("Processor.Run panics (%s; logger nil: %v) as soon as a subprocessor reports an invalid unit or finishes: %s", n, ev.LoggerNil, desc), rp)
		}
	}
	switch {
	case pr.crashed && !pr.timeout:
		h.res.Hit("proc:child-crashed")
		cause := "processor-goroutine-panics"
		switch {
		case strings.Contains(pr.stderr, "nil pointer dereference") && firstPropellerFrame(pr.stderr) == "(*subprocessor).beforeMessageBuiltStage" && !h.pcfg.LocalFromPresent:
			// nil dereference raised in beforeMessageBuiltStage itself: `unit := unitsReceived[0]`
			cause = "processor-panics-filling-local-unit-when-shard0-not-received"
		case strings.Contains(pr.stderr, "NewValidator") && strings.Contains(pr.stderr, "not embedded"):
			// panic(err) of NewValidator: ExtractPublicKey failed for the publisher of a new message key
			cause = "receiver-panics-on-publisher-without-embedded-key"
		}
		h.violate(cause, fmt.Sprintf("the process dies while the processor handles %s\n%s", desc, clip(firstPanicLines(pr.stderr))), rp)
	case final == "stuck" || pr.timeout:
		h.res.Hit("proc:stuck")
		cause := "processor-stuck"
		switch {
		case ev.NilChanSendBroadcast && len(bcasts) == 0:
			// a goroutine sits in broadcastUnit on "chan send (nil chan)" and no event was ever received
			cause = "processor-blocks-forever-on-first-broadcast-events-channel-not-set"
		case runPanicked && ev.BlockedSendToRun:
			// the subprocessor waits for the Run loop that has just died: same cause as the run panic
			cause = ""
		}
		if cause != "" {
			h.violate(cause, fmt.Sprintf("ProcessMessage keeps answering 'processor channel full' after step %d: %s", lastSeen-1, desc), rp)
		}
	case sc.Once:
		// evaluated by the caller (delivery statistics)
	case sc.ModelOnly:
		h.res.Hit("proc:completed-several-messages")
		timeoutOracle(h, sc, w, obs, bcasts, desc, rp)
		if sc.Resend {
			// per message: distinct honest units handed over, from their designated senders
			perMsg := map[int]map[int]bool{}
			var order []int
			for _, st := range sc.Steps {
				if st.Corrupt != "" || st.Sender != "legit" {
					continue
				}
				if perMsg[st.M] == nil {
					perMsg[st.M] = map[int]bool{}
					order = append(order, st.M)
				}
				perMsg[st.M][st.Unit%total] = true
			}
			for _, m := range order {
				if len(perMsg[m]) < w.k {
					continue
				}
				h.res.Hit("proc:resend-message-with-threshold")
				want := renderUnit(&w.unitsOf(m)[w.localIdx])
				count := 0
				for _, e := range bcasts {
					if e.Unit == want {
						count++
					}
				}
				switch {
				case count == 0 && !runPanicked:
					h.violate("processor-ignores-a-message-with-the-content-of-a-finished-one",
						fmt.Sprintf("message %d of the scenario (the same content as message 0, nonce + %d, its own signature) got %d distinct honest units (threshold %d) "+
							"but its local unit was never broadcast: %s", m, m, len(perMsg[m]), w.k, desc), rp)
				case count > 1:
					h.violate("processor-broadcasts-local-unit-twice", fmt.Sprintf("message %d: %d broadcasts of its local unit: %s", m, count, desc), rp)
				}
			}
		}
	default:
		h.res.Hit("proc:completed")
		// every broadcast is the publisher's unit for the local index, and there is at most one
		// the recipients: the model's list (broadcastUnit's loop over Peers()), and — oracle — exactly
		// the committee without the publisher and the local peer, each once
		wantPeers := ""
		{
			var others [][]byte
			for _, m := range w.ms {
				if m.id != w.pub.id && m.id != w.local.id {
					others = append(others, []byte(m.id))
				}
			}
			sort.Slice(others, func(i, j int) bool { return bytes.Compare(others[i], others[j]) < 0 })
			wantPeers = hexList(others)
		}
		if len(bcasts) > 0 {
			if ans := h.ask("bpeers " + hx([]byte(w.local.id)) + " " + hexList(idList(w.ms)) + " " + hx([]byte(w.pub.id))); ans != "" {
				modelPeers := ans
				if strings.HasPrefix(ans, "ok ") {
					if l, err := parseHexList(ans[3:]); err == nil {
						sort.Slice(l, func(i, j int) bool { return bytes.Compare(l[i], l[j]) < 0 })
						modelPeers = "ok " + hexList(l)
					}
				}
				h.compare("processor-broadcast-peers", rp, modelPeers, "ok "+bcasts[0].Peers)
			}
		}
		for _, e := range bcasts {
			if e.Peers != wantPeers {
				h.violate("processor-broadcast-recipients-wrong", fmt.Sprintf("%s: the local unit is to be sent to %s; the committee without publisher and local peer is %s", desc, clip(e.Peers), clip(wantPeers)), rp)
			}
			if e.To != sc.N-2 {
				h.violate("processor-broadcast-recipient-count", fmt.Sprintf("%s: local unit broadcast to %d peers, committee without publisher and local peer has %d", desc, e.To, sc.N-2), rp)
			}
			if e.Unit != honestLocal {
				h.violate("processor-broadcasts-a-unit-that-is-not-the-publishers", fmt.Sprintf("%s: broadcast %s", desc, clip(e.Unit)), rp)
			}
		}
		if len(bcasts) > 1 {
			// decided in procModel, which knows whether a subprocessor had ended before
			h.res.Hit("proc:more-than-one-broadcast")
		}
		if builtAt >= 0 && len(bcasts) == 0 && !runPanicked {
			sig := "processor-never-broadcasts-local-unit-although-threshold-reached"
			if firstBadOfKeyBeforeAnyHonest && ev.HonestKeyFinalized {
				// the first unit of the key was forged AND the key now sits in the finalized cache
				sig = "processor-drops-message-after-invalid-first-unit"
			}
			h.violate(sig, fmt.Sprintf("%d distinct honest units were handed over (threshold %d) but the local unit was never broadcast (key finalized: %v): %s", distinct, w.k, ev.HonestKeyFinalized, desc), rp)
		}
		if builtAt < 0 && len(bcasts) > 0 && localDirectAt < 0 {
			h.violate("processor-builds-below-threshold", desc, rp)
		}
	}
	// a unit of a message published by a peer outside the committee must be REFUSED by ProcessMessage
	// (nil would mean: a subprocessor exists for it, or its key was finalized — either needs an earlier
	// acceptance)
	for i, st := range sc.Steps {
		if st.Corrupt == "outsider-message" && i < len(obs) && obs[i].seen {
			h.res.Hit("proc:outsider-message-unit:" + firstWord(strings.Replace(obs[i].res, ":", " ", 2)))
			if obs[i].res == "nil" {
				h.violate("processor-accepts-unit-of-publisher-outside-committee",
					fmt.Sprintf("step %d hands over a unit of a message published and signed by a peer that is NOT a committee member; ProcessMessage took it (answered nil): %s", i, desc), rp)
			}
		}
	}
	// the task counters, once everything has settled: `tasks` = Σ publisherTasks = number of live
	// subprocessors (read from the real Processor; no model involved)
	for _, l := range pr.lines {
		if l.Step == -1 && l.Live != nil && l.Tasks != nil && l.PTasks != nil && !pr.crashed && final != "stuck" {
			h.res.Hit("proc:task-counters-read")
			if *l.Tasks != uint64(*l.Live) || *l.PTasks != *l.Tasks {
				h.violate("processor-task-counters-do-not-match-live-subprocessors",
					fmt.Sprintf("after %s: tasks=%d, sum of publisherTasks=%d, live subprocessors=%d — a path that ends a subprocessor does not release exactly what createSubprocessor took (a leaked slot per rejected first unit lets %d garbage units naming a publisher shut out that publisher, %d shut out everybody; a double release wraps the unsigned counter and disables the bounds)",
						desc, *l.Tasks, *l.PTasks, *l.Live, 250, 1000), rp)
			}
		}
	}
	if keylessStep >= 0 {
		h.res.Hit("proc:keyless-publisher")
	}
	if firstBadOfKeyBeforeAnyHonest {
		h.res.Hit("proc:bad-first-unit")
	}
	if builtAt >= 0 && !seenBefore(sc.Steps, total, builtAt, 0, isHonest) {
		h.res.Hit("proc:built-without-shard0")
	}
	if builtAt >= 0 && (localDirectAt < 0 || localDirectAt > builtAt) {
		h.res.Hit("proc:built-without-local-shard")
	}

	// --- correspondence with the model ---------------------------------------------------------
	if !h.pcfg.ProcWired || h.driverBroken || sc.Once {
		return
	}
	procModel(h, sc, w, obs, pr, rp, trace)
}

// timeoutOracle: a subprocessor that ran into its time-out FINISHES its message: the key is remembered
// (finalized cache, for StaleMessageTimeout) and later units of the message are ignored — in particular
// the local unit, already broadcast before the time-out, is not broadcast a second time. The cache
// entry lives from the time-out (≥ creation + T) for T: a unit handed over and dealt with less than 2T
// after the subprocessor's creation began is certainly inside that window. Time is measured ONLY to
// decide whether the observation is conclusive (a child that was starved skips the oracle).
func timeoutOracle(h *hctx, sc *procScenario, w *procWorld, obs []stepObs, bcasts []procEvent, desc string, rp map[string]any) {
	if sc.StaleMs <= 0 {
		return
	}
	firstStep, expiredAt := map[int]int{}, map[int]int{}
	for i, st := range sc.Steps {
		if st.Corrupt == "" {
			if _, ok := firstStep[st.M]; !ok {
				firstStep[st.M] = i
			}
		}
		if st.Corrupt == "expire" {
			if _, ok := firstStep[st.M]; ok {
				if _, done := expiredAt[st.M]; !done {
					expiredAt[st.M] = i
				}
			}
		}
	}
	for m, e := range expiredAt {
		f := firstStep[m]
		late, conclusive := 0, true
		for j := e + 1; j < len(sc.Steps); j++ {
			st := sc.Steps[j]
			if st.M != m || st.Corrupt != "" {
				continue
			}
			late++
			if j >= len(obs) || !obs[j].seen || obs[f].t0 == 0 || obs[j].t1 == 0 || obs[j].t1-obs[f].t0 >= int64(2*sc.StaleMs)*9/10 {
				conclusive = false
			}
		}
		if late == 0 {
			continue
		}
		if !conclusive {
			h.res.Hit("proc:timeout-oracle-skipped(child too slow to be conclusive)")
			continue
		}
		h.res.Hit("proc:timeout-oracle-applied")
		want := renderUnit(&w.unitsOf(m)[w.localIdx])
		count := 0
		for _, ev := range bcasts {
			if ev.Unit == want {
				count++
			}
		}
		if count > 1 {
			h.violate("processor-forgets-a-timed-out-message",
				fmt.Sprintf("message %d: its subprocessor ran into the time-out (%d ms) after broadcasting the local unit; the message's units handed over right afterwards (within the life of the finalized-cache entry) started the message again: %d broadcasts of its local unit: %s",
					m, sc.StaleMs, count, desc), rp)
		}
	}
}

func keepsKey(corrupt string) bool {
	switch corrupt {
	case "committee-flip", "nonce-plus1", "root-flip", "publisher-other", "outsider-message", "publisher-local":
		return false
	}
	return true
}

// seenBefore: was the honest unit with index idx handed over at or before step upTo?
func seenBefore(steps []procStepT, total, upTo, idx int, isHonest func(procStepT) bool) bool {
	for i := 0; i <= upTo && i < len(steps); i++ {
		if isHonest(steps[i]) && steps[i].Unit%total == idx {
			return true
		}
	}
	return false
}

func firstPanicLines(s string) string {
	lines := strings.Split(s, "\n")
	var out []string
	for _, l := range lines {
		if strings.HasPrefix(l, "panic:") || strings.HasPrefix(l, "[signal") || strings.Contains(l, "propeller.(") {
			out = append(out, strings.TrimSpace(l))
		}
		if len(out) >= 6 {
			break
		}
	}
	return strings.Join(out, " | ")
}

// traceStep: what the model says about one step.
type traceStep struct {
	ans           string // outcome: handled … | ignored | noroute | panic | expired | none
	tasks, ptasks uint64 // the task counters after the step
	fin           bool   // the step's key is in the finalized cache after the step
	live          int    // live subprocessors after the step
}

// keyTerms: committee, publisher, root term, nonce of message m of the publisher, as driver tokens.
func (w *procWorld) keyTokens(h *hctx, m int) string {
	u := &w.unitsOf(m)[0]
	return fmt.Sprintf("%s %s %s %d", hx(u.CommitteeID[:]), hx([]byte(u.Publisher)), h.tt.termOf(hash(u.MessageRoot)), uint64(u.Nonce))
}

// procModelTrace runs the steps on the Lean model (the codec's answers come from the real library)
// and returns the model's outcome and task counters per step. nil: no trace (driver failure,
// reported).
func procModelTrace(h *hctx, sc *procScenario, w *procWorld) []traceStep {
	// make the hashes of the messages in play known as terms
	seenM := map[int]bool{}
	for _, st := range append([]procStepT{{}}, sc.Steps...) {
		if seenM[st.M] {
			continue
		}
		seenM[st.M] = true
		us := w.unitsOf(st.M)
		leaves := make([][]byte, len(us))
		for i := range us {
			leaves[i] = leafBytes(h, &us[i])
		}
		modelMerkle(h, leaves)
	}
	preset := "preset " + h.cfg.String() + " " + h.pcfg.String() + " " + hx([]byte(w.local.id)) + " " + hexList(idList(w.ms))
	if sc.MaxWorkers > 0 || sc.MaxPerPublisher > 0 {
		mw, mp := sc.MaxWorkers, sc.MaxPerPublisher
		if mw == 0 {
			mw = 1000
		}
		if mp == 0 {
			mp = 250
		}
		preset += fmt.Sprintf(" %d %d", mw, mp)
	}
	if a := h.ask(preset); a != "ok" {
		h.res.Mismatch(lib.Mismatch{Sig: "processor-preset", Model: a, Impl: "ok"})
		return nil
	}
	split := func(ans string) (traceStep, bool) {
		parts := strings.Split(ans, " | ")
		if len(parts) != 2 {
			return traceStep{}, false
		}
		var t traceStep
		t.ans = parts[0]
		fin := 0
		if _, err := fmt.Sscanf(parts[1], "%d %d %d %d", &t.tasks, &t.ptasks, &fin, &t.live); err != nil {
			return traceStep{}, false
		}
		t.fin = fin == 1
		return t, true
	}
	trace := make([]traceStep, 0, len(sc.Steps))
	for _, st := range sc.Steps {
		var ans string
		if st.Corrupt == "expire" {
			ans = h.ask("pexpire " + w.keyTokens(h, st.M))
		} else {
			u, sender := w.stepUnit(st)
			sigok, hasKey := false, false
			if pk, err := u.Publisher.ExtractPublicKey(); err == nil {
				hasKey = true
				if len(u.Signature) > 0 {
					good, e := pk.Verify(signPayload(hash(u.MessageRoot), u.CommitteeID, uint64(u.Nonce)), u.Signature)
					sigok = good && e == nil
				}
			}
			shards := make([][]byte, len(u.ShardData))
			for j, x := range u.ShardData {
				shards[j] = x
			}
			ans = h.ask(fmt.Sprintf("pstep %s %s %s %s %s %s %d %s %d %s", b01(sigok)+b01(hasKey), hx(u.CommitteeID[:]), hx([]byte(u.Publisher)),
				h.tt.termOf(hash(u.MessageRoot)), h.tt.termList(toHashes(u.MerkleProof.Siblings)), hx(u.Signature),
				uint32(u.ShardIndex), hexList(shards), uint64(u.Nonce), hx([]byte(sender))))
			if strings.HasPrefix(ans, "need-rs ") {
				var in [][]byte
				for _, t := range strings.Split(strings.TrimPrefix(ans, "need-rs "), ",") {
					if t == "~" {
						in = append(in, nil)
					} else {
						b, _ := unhx(t)
						in = append(in, b)
					}
				}
				rs := "none"
				var out [][]byte
				if err, _, _ := lib.Try(func() error {
					var e error
					out, e = reedsolomon.RecoverData(in, w.k, w.c)
					return e
				}); err == nil && out != nil {
					rs = hexList(out)
				}
				ans = h.ask("prs " + rs)
			}
		}
		t, ok := split(ans)
		if !ok {
			h.res.Fatalf("driver answered %q to a processor step", ans)
			return nil
		}
		trace = append(trace, t)
	}
	return trace
}

// procModel compares the child's observations with the model's trace, step by step.
func procModel(h *hctx, sc *procScenario, w *procWorld, obs []stepObs, pr procRun, rp map[string]any, trace []traceStep) {
	if len(trace) != len(sc.Steps) {
		return
	}
	var modelEvents []string
	afterEnd := false
	endStep := len(sc.Steps)
	for i := range sc.Steps {
		ans := trace[i].ans
		// implementation side of step i: what ProcessMessage answered (events are compared at the
		// end: a unit of another message key does not wait for this key's subprocessor, so events
		// cannot be attributed to steps reliably)
		impl := obs[i].res
		if strings.HasPrefix(obs[i].res, "err:route") {
			impl = "noroute" + strings.TrimPrefix(obs[i].res, "err:route")
			h.res.Hit("proc:refused" + strings.TrimPrefix(obs[i].res, "err:route"))
		}
		mod := ans
		f := strings.Fields(ans)
		switch {
		case ans == "ignored" || ans == "expired" || ans == "none":
			mod = "nil"
		case strings.HasPrefix(ans, "noroute"):
			mod = ans
			if strings.Contains(ans, "+") { // two reasons hold at once: either may be named
				for _, part := range strings.Split(strings.TrimPrefix(ans, "noroute:"), "+") {
					if impl == "noroute:"+part {
						mod = impl
					}
				}
			}
			if impl == "noroute:other" || impl == "noroute" {
				// the refusal's text is not one of the five known: only refused / not refused is compared
				errOtherHits.Add(1)
				mod = impl
			}
		case len(f) == 4 && f[0] == "handled":
			mod = "nil"
			if f[1] != "-" {
				for _, us := range strings.Split(f[1], "+") {
					modelEvents = append(modelEvents, evalModelUnit(h, us))
				}
			}
			if f[3] != "none" && !afterEnd {
				endStep = i
			}
			if f[3] != "none" {
				// the subprocessor ended: Run forgets it and (unless it was a discarded first-invalid
				// one) caches the key; what a unit arriving in between does was a race before 5db92d3,
				// so later divergence is counted and re-run, not compared at once
				afterEnd = true
			}
		case ans == "panic":
			// the panic is in the subprocessor's goroutine: the child dies at some point after it
			// handed the unit over
			h.res.Compared(1)
			if !pr.crashed {
				h.res.Mismatch(lib.Mismatch{Sig: "processor-step", Input: map[string]any{"scenario": sc, "step": i}, Model: "panic", Impl: "no crash"})
			}
			return
		}
		if !obs[i].seen {
			if pr.crashed && !afterEnd {
				h.res.Compared(1)
				h.res.Mismatch(lib.Mismatch{Sig: "processor-step", Input: map[string]any{"scenario": sc, "step": i}, Model: clip(mod), Impl: "child crashed: " + clip(firstPanicLines(pr.stderr))})
			}
			return
		}
		h.res.Compared(1)
		if mod != impl {
			if afterEnd && mod == "nil" && impl == "nil" {
				continue
			}
			h.res.Mismatch(lib.Mismatch{Sig: "processor-step", Input: map[string]any{"scenario": sc, "step": i}, Model: clip(mod), Impl: clip(impl)})
			return
		}
		// the task counters after the step (the child waited for the model's values, briefly)
		if obs[i].hasTasks {
			h.res.Compared(1)
			storeDiffers := obs[i].hasStore && (obs[i].fin != trace[i].fin || obs[i].liveN != trace[i].live)
			if obs[i].hasStore {
				h.res.Compared(1)
				h.res.Hit("proc:store-state-compared")
			}
			if obs[i].tasks != trace[i].tasks || obs[i].ptasks != trace[i].ptasks || storeDiffers {
				if !sc.Patient && h.patientReruns < 4 {
					// not reported yet: the same scenario once more with a patient child; a real difference
					// shows again (and is reported by that run), a scheduling delay does not. At most four
					// such re-runs per harness run: on a tree that really leaks slots every scenario differs
					h.patientReruns++
					h.res.Hit("proc:counter-mismatch-rerun-with-patient-child")
					sc2 := *sc
					sc2.Patient = true
					sc2.Expect = nil
					procCase0(h, &sc2, nil)
					return
				}
				h.res.Mismatch(lib.Mismatch{Sig: "processor-task-counters", Input: map[string]any{"scenario": slimScenario(sc), "step": i},
					Model: fmt.Sprintf("tasks=%d publisherTasks=%d keyFinalized=%v live=%d", trace[i].tasks, trace[i].ptasks, trace[i].fin, trace[i].live),
					Impl:  fmt.Sprintf("tasks=%d publisherTasks=%d keyFinalized=%v live=%d (store read: %v)", obs[i].tasks, obs[i].ptasks, obs[i].fin, obs[i].liveN, obs[i].hasStore)})
				return
			}
		}
	}
	if pr.crashed {
		if afterEnd {
			h.res.Hit("proc:divergence-after-finalization")
			h.postFinalization = append(h.postFinalization, sc)
		} else {
			h.res.Compared(1)
			h.res.Mismatch(lib.Mismatch{Sig: "processor-step", Input: map[string]any{"scenario": sc}, Model: "no panic", Impl: "child crashed: " + clip(firstPanicLines(pr.stderr))})
		}
		return
	}
	var implEvents []string
	for i := range obs {
		for _, e := range obs[i].events {
			implEvents = append(implEvents, e.Unit)
		}
	}
	h.res.Compared(1)
	if sc.ModelOnly {
		// several messages: their subprocessors broadcast independently, only the set is determined
		sort.Strings(modelEvents)
		sort.Strings(implEvents)
	}
	if strings.Join(modelEvents, "+") != strings.Join(implEvents, "+") {
		honestLocal := renderUnit(&w.units[w.localIdx])
		extraOnlyLocal := len(implEvents) > len(modelEvents) && strings.HasPrefix(strings.Join(implEvents, "+"), strings.Join(modelEvents, "+"))
		for _, e := range implEvents {
			if e != honestLocal {
				extraOnlyLocal = false
			}
		}
		// events are drained no earlier than they happen: an extra broadcast attributed to a step up
		// to the one that ended the subprocessor cannot be a post-finalization effect
		extraBeforeEnd := false
		seen := 0
		for i := range obs {
			for range obs[i].events {
				seen++
				if seen > len(modelEvents) && i <= endStep {
					extraBeforeEnd = true
				}
			}
		}
		switch {
		case afterEnd && extraOnlyLocal && !extraBeforeEnd:
			// a unit of a finished message slipped through the unlocked window of Processor.finalize and
			// started a second subprocessor (see above): tolerated when rare
			h.res.Hit("proc:divergence-after-finalization")
			h.postFinalization = append(h.postFinalization, sc)
		case extraOnlyLocal:
			h.violate("processor-broadcasts-local-unit-twice", fmt.Sprintf("n=%d local=%d publisher=%d steps [%s]: %d broadcasts of the local unit, the model allows %d",
				sc.N, sc.Local, sc.Pub, stepsString(sc.Steps), len(implEvents), len(modelEvents)), rp)
		default:
			h.res.Mismatch(lib.Mismatch{Sig: "processor-broadcasts", Input: map[string]any{"scenario": sc},
				Model: clip(strings.Join(modelEvents, "+")), Impl: clip(strings.Join(implEvents, "+"))})
		}
	}
}

func leafBytes(h *hctx, u *propeller.Unit) []byte {
	if h.cfg.ShardingLeafProto {
		return u.ShardData.MarshalProto()
	}
	return u.ShardData[0]
}

// evalModelUnit turns the model's rendering idx:shards:proof:root:sig:nonce:committee:publisher
// (proof and root as terms) into the harness' rendering (hashes as hex).
func evalModelUnit(h *hctx, s string) string {
	p := strings.Split(s, ":")
	if len(p) != 8 {
		return "unparsable:" + s
	}
	pr, err := h.tt.evalTermList(p[2])
	if err != nil {
		return "unevaluable:" + s
	}
	rt, err := h.tt.evalTerm(p[3])
	if err != nil {
		return "unevaluable:" + s
	}
	p[2] = hashesHex(pr)
	p[3] = hx(rt[:])
	return strings.Join(p, ":")
}

// ---------------------------------------------------------------------------------------------
// scenarios

func honestSteps(idx []int) []procStepT {
	out := make([]procStepT, len(idx))
	for i, x := range idx {
		out[i] = procStepT{Unit: x, Sender: "legit"}
	}
	return out
}

func secProcessor(h *hctx, r *lib.RNG) {
	if !(h.cfg.ShardingLeafProto == h.cfg.ValidatorLeafProto && h.cfg.NonceSet) {
		h.res.Fatalf("processor section cannot run: CreatePropellerUnits and UnitValidator disagree in this tree, no unit can be accepted")
		return
	}
	mk := func(n, local, pub int, msgLen int, steps []procStepT) *procScenario {
		return &procScenario{N: n, Local: local, Pub: pub, Msg: hx(genMsg(lib.NewRNG(uint64(n*100+msgLen)), msgLen)),
			Nonce: "1758700000000000000", Steps: steps, TimeoutMs: h.f.Scale(1500, 3000)}
	}
	if !h.pcfg.ProcWired {
		// The Processor of this tree does not have its logger / events channel set (repaired in
		// c052836): it cannot get past its first broadcast or its first invalid unit. Two scenarios
		// show the two ways it fails (violations with these inputs); nothing else can be driven.
		procCase(h, mk(4, 0, 1, 20, honestSteps([]int{0, 1, 2})))                                                                // local shard first: blocks on the nil events channel
		procCase(h, mk(4, 0, 1, 20, []procStepT{{Unit: 1, Corrupt: "shard-flip", Sender: "legit"}, {Unit: 1, Sender: "legit"}})) // invalid unit: Run logs through a nil logger
		h.violate("processor-not-wired", "the Processor of this tree cannot be driven: "+h.pcfg.describe(), map[string]any{"kind": "processor", "scenario": mk(4, 0, 1, 20, honestSteps([]int{0, 1, 2}))})
		return
	}
	bad := []string{"shard-flip", "proof-flip", "sig-flip", "index-oob", "index-next", "shards-none", "committee-flip", "nonce-plus1", "root-flip", "publisher-other", "publisher-local"}
	var scs []*procScenario
	add := func(sc *procScenario) { scs = append(scs, sc) }
	// exhaustive for the smallest committees: every order of the honest units, with one forged unit
	// (three kinds that keep the message key) at every position
	for _, n := range []int{3, 4} {
		total := n - 1
		for _, lp := range [][2]int{{0, 1}, {1, 0}, {n - 1, 1}} {
			for _, perm := range permutations(total) {
				add(mk(n, lp[0], lp[1], 11, honestSteps(perm)))
				for pos := 0; pos <= total; pos++ {
					for _, b := range []string{"shard-flip", "sig-flip", "index-oob"} {
						steps := honestSteps(perm)
						forged := procStepT{Unit: perm[pos%total], Corrupt: b, Sender: "legit"}
						steps = append(steps[:pos:pos], append([]procStepT{forged}, steps[pos:]...)...)
						add(mk(n, lp[0], lp[1], 11, steps))
					}
				}
			}
		}
	}
	ns := []int{2, 5, 7}
	if h.f.Thorough() {
		ns = append(ns, 10, 13)
	}
	for _, n := range ns {
		pairs := [][2]int{{0, 1}, {1, 0}, {n - 1, 0}}
		if n > 2 {
			pairs = append(pairs, [2]int{1, n - 1}, [2]int{r.Intn(n - 1), n - 1})
		}
		for _, lp := range pairs {
			local, pub := lp[0], lp[1]
			if local == pub {
				continue
			}
			total := n - 1
			all := make([]int, total)
			for i := range all {
				all[i] = i
			}
			add(mk(n, local, pub, 33, honestSteps(append(append([]int{}, all...), all...))))
			sh := append([]int{}, all...)
			lib.Shuffle(r, sh)
			add(mk(n, local, pub, 5, honestSteps(sh)))
			rev := make([]int, total)
			for i := range rev {
				rev[i] = total - 1 - i
			}
			add(mk(n, local, pub, 128, honestSteps(rev)))
			for _, b := range bad {
				steps := append([]procStepT{{Unit: r.Intn(total), Corrupt: b, Sender: "legit"}}, honestSteps(sh)...)
				add(mk(n, local, pub, 20, steps))
			}
			add(mk(n, local, pub, 20, append([]procStepT{{Unit: 0, Sender: lib.Pick(r, []string{"other", "outsider", "local"})}}, honestSteps(sh)...)))
			for t := 0; t < h.f.Scale(3, 12); t++ {
				var steps []procStepT
				for len(steps) < total+4 {
					switch r.Intn(5) {
					case 0:
						steps = append(steps, procStepT{Unit: r.Intn(total), Corrupt: lib.Pick(r, bad), Sender: "legit"})
					case 1:
						steps = append(steps, procStepT{Unit: r.Intn(total), Sender: lib.Pick(r, []string{"other", "outsider", "publisher", "local"})})
					default:
						steps = append(steps, procStepT{Unit: r.Intn(total), Sender: "legit"})
					}
				}
				add(mk(n, local, pub, r.Intn(60), steps))
			}
		}
	}
	// LIVENESS (theorem processor_builds_from_k_honest_units): exactly k distinct honest units, any
	// k of them in any order, nothing else — the local unit must be broadcast
	lns := []int{3, 4, 5, 7, 8}
	if h.f.Thorough() {
		lns = append(lns, 10, 13, 16)
	}
	for _, n := range lns {
		total := n - 1
		for _, lp := range [][2]int{{0, 1}, {n - 1, 0}, {1, n - 1}} {
			w0, err := newProcWorld(mk(n, lp[0], lp[1], 8, nil))
			if err != nil {
				continue
			}
			for t := 0; t < h.f.Scale(3, 8); t++ {
				all := make([]int, total)
				for i := range all {
					all[i] = i
				}
				lib.Shuffle(r, all)
				add(mk(n, lp[0], lp[1], 1+r.Intn(70), honestSteps(all[:w0.k])))
			}
		}
	}
	// units of ANOTHER message key (same publisher, root and signature; other nonce / committee id)
	// after an honest unit: the validator's cached-signature shortcut makes them acceptable to the
	// honest message's validator, so it is only the routing by message key (extractKey) that keeps
	// them out. k = 2 (committees of 7 and more): (A) honest a, forged b — nothing may be built;
	// (B) honest a, forged LOCAL index, honest … — the unit broadcast must be the publisher's.
	for _, n := range []int{7, 8} {
		total := n - 1
		for _, lp := range [][2]int{{0, 1}, {n - 1, 2}} {
			w0, err := newProcWorld(mk(n, lp[0], lp[1], 8, nil))
			if err != nil || w0.localIdx < 0 || w0.localIdx >= total {
				continue
			}
			li := w0.localIdx
			var others []int
			for i := 0; i < total; i++ {
				if i != li {
					others = append(others, i)
				}
			}
			lib.Shuffle(r, others)
			for _, b := range []string{"nonce-plus1", "committee-flip"} {
				add(mk(n, lp[0], lp[1], 23, []procStepT{{Unit: others[0], Sender: "legit"}, {Unit: others[1], Corrupt: b, Sender: "legit"}}))
				add(mk(n, lp[0], lp[1], 23, append([]procStepT{{Unit: others[0], Sender: "legit"}, {Unit: li, Corrupt: b, Sender: "legit"}}, honestSteps(others[1:])...)))
			}
		}
	}
	// TASK ACCOUNTING (theorems processor_task_counters, rejected_units_release_their_slots): long
	// prefixes of correctly REJECTED first units — distinct message keys, so each one creates a
	// subprocessor that is discarded at once — must cost nothing: afterwards an honest message is
	// built. One more than the per-publisher bound naming the honest publisher, then one more than the
	// global bound naming everybody in turn. Small bounds (set by reflection) at several sizes; the
	// real 250 / 1000 once.
	garbage := func(from, count, pubs int) []procStepT {
		st := make([]procStepT, count)
		for i := range st {
			st[i] = procStepT{Unit: i, Corrupt: "garbage", Sender: "legit", Variant: from + i}
			if pubs > 0 {
				st[i].Pub0 = 1 + i%pubs
			}
		}
		return st
	}
	allIdx := func(total int) []int {
		a := make([]int, total)
		for i := range a {
			a[i] = i
		}
		return a
	}
	for _, bd := range [][3]int{{7, 5, 3}, {5, 4, 2}, {8, 9, 4}} {
		n, mw, mp := bd[0], bd[1], bd[2]
		steps := append(garbage(0, mp+2, 0), garbage(100, mw+2, n-1)...)
		steps = append(steps, honestSteps(allIdx(n-1))...)
		sc := mk(n, 0, 1, 31, steps)
		sc.MaxWorkers, sc.MaxPerPublisher = mw, mp
		add(sc)
		// the bound itself: mp unfinished messages of the publisher are live (one unit each, k >= 2
		// for n >= 7), the next message is refused; a finished one frees its slot
		if n >= 7 {
			var st []procStepT
			for m := 1; m <= mp+1; m++ {
				st = append(st, procStepT{Unit: (m + 1) % (n - 1), Sender: "legit", M: m})
			}
			for _, i := range allIdx(n - 1) { // message 1 completes
				st = append(st, procStepT{Unit: i, Sender: "legit", M: 1})
			}
			st = append(st, procStepT{Unit: 2, Sender: "legit", M: mp + 1}, procStepT{Unit: 3, Sender: "legit", M: mp + 2})
			sc := mk(n, 0, 1, 31, st)
			sc.MaxWorkers, sc.MaxPerPublisher, sc.ModelOnly = mw+3, mp, true
			add(sc)
		}
	}
	// the GLOBAL bound reached while the publisher's is not (refusal `max-tasks`), and both reached at
	// once (the publisher's bound is checked first: `publisher-tasks`); a finished message frees the slot
	for _, bd := range [][2]int{{2, 5}, {2, 2}, {3, 3}} {
		n := 7
		var st []procStepT
		for m := 1; m <= bd[0]+1; m++ { // one unit each: k = 2, the subprocessors stay alive
			st = append(st, procStepT{Unit: (m + 1) % (n - 1), Sender: "legit", M: m})
		}
		for _, i := range allIdx(n - 1) { // message 1 completes
			st = append(st, procStepT{Unit: i, Sender: "legit", M: 1})
		}
		st = append(st, procStepT{Unit: 2, Sender: "legit", M: bd[0] + 1}, procStepT{Unit: 3, Sender: "legit", M: bd[0] + 2})
		sc := mk(n, 0, 1, 31, st)
		sc.MaxWorkers, sc.MaxPerPublisher, sc.ModelOnly = bd[0], bd[1], true
		add(sc)
	}
	{
		steps := append(garbage(0, 251, 0), garbage(1000, 1001, 6)...)
		steps = append(steps, honestSteps(allIdx(6))...)
		add(mk(7, 0, 1, 31, steps)) // the real bounds
	}
	// a subprocessor that runs into its time-out releases its slot once (and the key is finalized)
	for _, n := range []int{7, 8} {
		// (one live subprocessor at a time, and none left when the scenario ends: no second time-out
		// can fall between a step and the reading of the counters)
		st := []procStepT{{Unit: 1, Sender: "legit"}, {Corrupt: "expire"}, {Unit: 2, Sender: "legit"},
			{Unit: 2, Sender: "legit", M: 1}, {Corrupt: "expire", M: 1}, {Unit: 3, Sender: "legit", M: 1}}
		sc := mk(n, 0, 1, 31, st)
		sc.StaleMs, sc.ModelOnly = 800, true
		add(sc)
	}
	// the LOCAL unit (broadcast at once), the time-out, the local unit again: a timed-out
	// message is finished — nothing of it is processed (or broadcast) a second time
	for _, nl := range [][2]int{{7, 0}, {8, 7}} {
		w0, err := newProcWorld(mk(nl[0], nl[1], (nl[1]+1)%nl[0], 31, nil))
		if err != nil {
			continue
		}
		li := w0.localIdx
		// (one unit after the time-out: the oracle needs it handed over while the cache entry certainly lives)
		st := []procStepT{{Unit: li, Sender: "legit"}, {Corrupt: "expire"}, {Unit: li, Sender: "legit"}}
		sc := mk(nl[0], nl[1], (nl[1]+1)%nl[0], 31, st)
		sc.StaleMs, sc.ModelOnly = 800, true
		add(sc)
	}
	// message lengths that put the shard (and so the Merkle leaf) around 256 / 512 / 1024 bytes: the
	// processor's own path (validate -> construct -> fill the local unit) at the sizes of sizes.go
	for _, nl := range [][2]int{{3, 243}, {4, 250}, {4, 1019}, {7, 495}, {7, 1015}} {
		n, total := nl[0], nl[0]-1
		k := max(1, (n-1)/3)
		idx := make([]int, 0, k)
		for j := 0; j < k; j++ { // exactly k units, not the local one: the local unit must be rebuilt
			idx = append(idx, total-1-j)
		}
		add(mk(n, 0, 1, nl[1], honestSteps(idx)))
		steps := append([]procStepT{{Unit: total - 1, Corrupt: "shard-tail-flip", Sender: "legit"}}, honestSteps(allIdx(total))...)
		add(mk(n, 1, 0, nl[1]+2, steps))
		// the altered unit arrives when the threshold is one short: it must not complete it
		steps = append(honestSteps(idx[:k-1]), procStepT{Unit: 0, Corrupt: "shard-tail-flip", Sender: "legit"})
		steps = append(steps, honestSteps([]int{0})...)
		add(mk(n, total, 0, nl[1]+4, steps))
	}
	// the same content published again under a fresh nonce (the message key differs in the nonce
	// only: same root), after the first message has finished and sits in the finalized cache — and
	// interleaved with it
	for _, n := range []int{4, 5, 7, 8} {
		total := n - 1
		k := max(1, (n-1)/3)
		var st []procStepT
		for _, i := range allIdx(total) { // message 0 completes (every unit: the receive threshold is reached)
			st = append(st, procStepT{Unit: i, Sender: "legit"})
		}
		for j := 0; j < k; j++ { // message 1: exactly k units, none of them the local one when possible
			st = append(st, procStepT{Unit: (1 + j) % total, Sender: "legit", M: 1})
		}
		sc := mk(n, 0, 1, 31, st)
		sc.ModelOnly, sc.Resend = true, true
		add(sc)
		var st2 []procStepT
		for _, i := range allIdx(total) { // interleaved: unit i of message 0, then of message 2
			st2 = append(st2, procStepT{Unit: i, Sender: "legit"}, procStepT{Unit: total - 1 - i, Sender: "legit", M: 2})
		}
		sc2 := mk(n, 1, 0, 29, st2)
		sc2.ModelOnly, sc2.Resend = true, true
		add(sc2)
	}
	// a committee with a member whose peer id embeds no public key: a unit that NAMES it as
	// publisher (nothing else about the unit matters) at various positions
	for _, n := range []int{4, 5, 8} {
		total := n - 1
		all := make([]int, total)
		for i := range all {
			all[i] = i
		}
		for pos := 0; pos <= 2; pos++ {
			steps := honestSteps(all)
			forged := procStepT{Unit: pos % total, Corrupt: "publisher-keyless", Sender: lib.Pick(r, []string{"legit", "outsider"})}
			steps = append(steps[:pos:pos], append([]procStepT{forged}, steps[pos:]...)...)
			sc := mk(n, 0, 1, 17, steps)
			sc.Keyless = true
			add(sc)
		}
		sc := mk(n, 1, 0, 9, honestSteps(all)) // the keyless member is just present
		sc.Keyless = true
		add(sc)
	}
	// a peer OUTSIDE the committee publishes its own (consistently signed) message: every unit of it is
	// refused, however often it tries and whatever is handed over in between (a look-up that remembers
	// its last answer would refuse the first and take the second)
	for _, n := range []int{3, 4, 5, 7, 8} {
		total := n - 1
		for _, lp := range [][2]int{{0, 1}, {n - 1, 0}} {
			om := func(i int) procStepT { return procStepT{Unit: i % total, Corrupt: "outsider-message", Sender: "legit"} }
			add(mk(n, lp[0], lp[1], 13, []procStepT{om(0), om(1), om(0), om(2)}))
			add(mk(n, lp[0], lp[1], 13, append([]procStepT{om(0), om(0)}, honestSteps(allIdx(total))...)))
			add(mk(n, lp[0], lp[1], 13, append(append([]procStepT{{Unit: 0, Sender: "legit"}, om(1), om(2)}, honestSteps(allIdx(total))...), om(0), om(1))))
		}
	}
	// the model first: its task counters per step are what each child waits for
	for _, sc := range scs {
		h.guard("processor-harness", map[string]any{"kind": "processor", "scenario": slimScenario(sc)}, func() {
			if w, err := newProcWorld(sc); err == nil {
				prepareTrace(h, sc, w)
			}
		})
	}
	runs := runProcChildren(scs)
	for i := range scs {
		procCaseWith(h, scs[i], &runs[i])
	}
	// A divergence that shows only after a subprocessor ended can be the unlocked window of
	// Processor.finalize (delete, then cache: a unit arriving in between starts a second subprocessor
	// for a finished message) — a race — or a deterministic defect. Run the scenario again, twice:
	// a race does not repeat itself three times in a row.
	pend := h.postFinalization
	h.postFinalization = nil
	for _, sc := range pend {
		repeats := 0
		for t := 0; t < 2; t++ {
			before := len(h.postFinalization)
			procCase(h, sc)
			if len(h.postFinalization) > before {
				repeats++
			}
		}
		h.postFinalization = nil
		if repeats == 2 {
			h.violate("processor-accepts-units-of-a-finished-message",
				fmt.Sprintf("units handed over after their message was finished start a new subprocessor, in three runs out of three: n=%d local=%d publisher=%d steps [%s]",
					sc.N, sc.Local, sc.Pub, stepsString(sc.Steps)), map[string]any{"kind": "processor", "scenario": sc})
		} else {
			h.res.Hit("proc:finalization-race-observed-not-repeatable")
		}
	}
	procDeliverOnce(h, mk)
	procBurst(h, mk)
	procHold(h, mk, r)
	if h.f.Thorough() {
		raceFamily(h, mk)
	}
}

// procDeliverOnce: the engine hands every unit over exactly once (engine.go processUnit): how
// many units does ProcessMessage take? The first unit of a new message key is sent on an
// unbuffered channel, without blocking, right after the goroutine that will receive from it was
// started — it is dropped unless that goroutine is already waiting.
func procDeliverOnce(h *hctx, mk func(n, local, pub, msgLen int, steps []procStepT) *procScenario) {
	var scs []*procScenario
	for i := 0; i < 12; i++ {
		n := []int{4, 5, 7}[i%3]
		sc := mk(n, i%2, 1-i%2, 10+i, honestSteps([]int{i % (n - 1)}))
		sc.Once = true
		scs = append(scs, sc)
	}
	evalOnce(h, scs)
}

// procBurst: the units of ONE message arrive together — the N-1 honest units are handed over exactly once
// each, back to back, as the engine's loop does with the units it has queued (propeller.go pushes every
// unit of a received batch into the engine's command channel; engine.go processUnit calls ProcessMessage
// once per unit and only logs an error). ProcessMessage hands a unit to the message's subprocessor with
// a NON-blocking send on an UNBUFFERED channel: every unit that arrives while the subprocessor validates
// the previous one (a signature verification and a Merkle path) is dropped. Committees with k >= 2: the
// message is built only if k units get through. 12 fresh processors; like the deliver-once family the
// outcome has two stable regimes (dropped practically always / never), so the oracle is a count.
func procBurst(h *hctx, mk func(n, local, pub, msgLen int, steps []procStepT) *procScenario) {
	var scs []*procScenario
	for i := 0; i < 12; i++ {
		n := []int{7, 8, 10}[i%3]
		idx := make([]int, n-1)
		for j := range idx {
			idx[j] = (j + i) % (n - 1)
		}
		sc := mk(n, i%2, 1-i%2, 20+i, honestSteps(idx))
		sc.Once, sc.Burst = true, true
		scs = append(scs, sc)
	}
	evalBurst(h, scs)
}

func evalBurst(h *hctx, scs []*procScenario) {
	runs := runProcChildren(scs)
	secondDropped, secondTaken, built, seen, lossy, lost, offered := 0, 0, 0, 0, 0, 0, 0
	var example *procScenario
	exampleText := ""
	for i, pr := range runs {
		if pr.machinery != "" {
			h.res.Fatalf("processor child: %s", pr.machinery)
			return
		}
		sc := scs[i]
		obs, _, _ := collect(pr, len(sc.Steps))
		h.res.Case(fmt.Sprintf("proc-burst/%d", i), true)
		if pr.crashed || len(obs) < 2 || !obs[0].seen || !obs[1].seen {
			continue
		}
		seen++
		taken := 0
		var rs []string
		nb := 0
		for _, o := range obs {
			if o.res == "nil" {
				taken++
			}
			rs = append(rs, o.res)
			nb += len(o.events)
		}
		k := max(1, (sc.N-1)/3)
		if taken >= k {
			built++
		}
		dropped := 0
		for _, x := range rs {
			if x == "full" {
				dropped++
			}
		}
		offered += len(rs)
		lost += dropped
		if dropped > 0 {
			lossy++
		}
		switch obs[1].res {
		case "full":
			secondDropped++
		case "nil":
			secondTaken++
		}
		if dropped > 0 {
			if example == nil || taken < k {
				example = sc
				exampleText = fmt.Sprintf("n=%d (k=%d): ProcessMessage answered [%s] to the %d honest units of one message handed over once each, back to back: %d taken (threshold %d)",
					sc.N, k, strings.Join(rs, " "), len(obs), taken, k)
			}
		}
	}
	h.res.HitN("proc-burst:units-offered", offered)
	h.res.HitN("proc-burst:units-dropped-channel-full", lost)
	h.res.HitN("proc-burst:second-unit-dropped", secondDropped)
	h.res.HitN("proc-burst:second-unit-taken", secondTaken)
	h.res.HitN("proc-burst:message-got-k-units", built)
	if seen < 8 {
		h.res.Fatalf("burst scenarios: only %d of %d produced results", seen, len(scs))
		return
	}
	// (with room for the units of a message in the subprocessor's channel nothing is ever dropped here: 0)
	if 2*lossy >= seen {
		h.violate("processor-drops-units-handed-over-while-the-subprocessor-is-busy",
			fmt.Sprintf("in %d of %d fresh processors honest units of a message, handed over once each right after one another (as the engine does), were refused with 'dropping shard, processor channel full' (%d of %d units; the second unit in %d cases); only %d of %d messages got their k units. %s",
				lossy, seen, lost, offered, secondDropped, built, seen, exampleText),
			map[string]any{"kind": "processor", "scenario": example})
	}
}

// raceFamily (thorough tier): the same Processor under Go's race detector. A second child binary is
// built with -race; scenarios in which subprocessors end while further units are handed over make
// ProcessMessage (the caller's goroutine) and Run (finalize / discard) touch the same state. Any
// report of the detector that has a consensus/propeller frame is a violation (the regression of
// 5db92d3, the unguarded subProcessors map, shows only here or as a rare runtime crash).
func raceFamily(h *hctx, mk func(n, local, pub, msgLen int, steps []procStepT) *procScenario) {
	bin, err := buildRaceChild()
	if err != nil {
		h.res.Fatalf("race child: %v", err)
		return
	}
	var scs []*procScenario
	for _, n := range []int{4, 5, 7} {
		total := n - 1
		all := make([]int, total)
		for i := range all {
			all[i] = i
		}
		for m := 0; m < 4; m++ {
			// every unit twice, of three messages in turn: subprocessors finish and are finalized while
			// units of the same and of other messages keep arriving
			var st []procStepT
			for _, i := range append(append([]int{}, all...), all...) {
				for mm := 0; mm < 3; mm++ {
					st = append(st, procStepT{Unit: i, Sender: "legit", M: mm})
				}
			}
			st = append(st, procStepT{Unit: 0, Corrupt: "garbage", Sender: "legit", Variant: m})
			sc := mk(n, m%2, 1-m%2, 20+m, st)
			sc.ModelOnly = true
			scs = append(scs, sc)
		}
	}
	raceEval(h, scs, bin)
}

// raceEval runs the scenarios on the -race child and reports what the detector says.
func raceEval(h *hctx, scs []*procScenario, bin string) {
	plain := childBin
	childBin = bin
	os.Setenv("GORACE", "halt_on_error=1 exitcode=66")
	runs := runProcChildren(scs)
	os.Unsetenv("GORACE")
	childBin = plain
	for i, pr := range runs {
		h.res.Case(fmt.Sprintf("proc-race/%d", i), true)
		if pr.machinery != "" {
			h.res.Fatalf("race child: %s", pr.machinery)
			return
		}
		if strings.Contains(pr.stderr, "WARNING: DATA RACE") {
			h.res.Hit("proc-race:data-race")
			var frames []string
			for _, l := range strings.Split(pr.stderr, "\n") {
				l = strings.TrimSpace(l)
				if strings.HasPrefix(l, "Write at") || strings.HasPrefix(l, "Read at") || strings.HasPrefix(l, "Previous ") ||
					strings.Contains(l, "consensus/propeller.") || strings.Contains(l, "consensus/propeller/") {
					frames = append(frames, l)
				}
				if len(frames) >= 12 {
					break
				}
			}
			inPropeller := strings.Contains(strings.Join(frames, " "), "consensus/propeller.")
			if inPropeller {
				h.violate("processor-data-race", fmt.Sprintf("Go's race detector on the real Processor (n=%d, units of three messages, each twice): %s",
					scs[i].N, clip(strings.Join(frames, " | "))), map[string]any{"kind": "processor", "scenario": slimScenario(scs[i]), "race": true})
			} else {
				h.res.Fatalf("race child: a data race outside consensus/propeller (in the harness?): %s", clip(pr.stderr))
			}
			continue
		}
		if pr.crashed {
			h.violate("processor-goroutine-panics", fmt.Sprintf("the process dies under the race detector (n=%d): %s", scs[i].N, clip(firstPanicLines(pr.stderr))),
				map[string]any{"kind": "processor", "scenario": slimScenario(scs[i]), "race": true})
			continue
		}
		h.res.Hit("proc-race:clean")
	}
}

// buildRaceChild builds this harness once more with -race (same module setup as the main binary).
func buildRaceChild() (string, error) {
	verif, err := os.Getwd()
	if err != nil {
		return "", err
	}
	repo := os.Getenv("VERIF_REPO")
	tag := ""
	args := []string{"build", "-race"}
	if repo != "" && repo != "/repo" {
		tag = "-" + fmt.Sprintf("%x", sha1.Sum([]byte(repo)))[:8]
		args = append(args, "-modfile="+verif+"/.build/go"+tag+".mod")
	}
	bin := verif + "/.build/vh-c19-race" + tag
	args = append(args, "-tags", "verif", "-o", bin, "./cmd/c19")
	b := exec.Command("go", args...)
	b.Dir = verif + "/harness"
	if out, err := b.CombinedOutput(); err != nil {
		return "", fmt.Errorf("go %s: %v\n%s", strings.Join(args, " "), err, clip(string(out)))
	}
	return bin, nil
}

// evalOnce: the scenarios (Once mode: every unit handed over exactly once) on fresh processors;
// how often is the FIRST unit of the new message key dropped?
func evalOnce(h *hctx, scs []*procScenario) {
	runs := runProcChildren(scs)
	firstDropped, firstTaken := 0, 0
	var example *procScenario
	for i, pr := range runs {
		if pr.machinery != "" {
			h.res.Fatalf("processor child: %s", pr.machinery)
			return
		}
		obs, _, _ := collect(pr, len(scs[i].Steps))
		h.res.Case(fmt.Sprintf("proc-once/%d", i), true)
		if pr.crashed || len(obs) == 0 || !obs[0].seen {
			continue // (a crash here is the nil-dereference finding, reported by the scenarios above)
		}
		switch obs[0].res {
		case "full":
			firstDropped++
			if example == nil {
				example = scs[i]
			}
		case "nil":
			firstTaken++
		}
	}
	h.res.HitN("proc-once:first-unit-of-new-key-dropped", firstDropped)
	h.res.HitN("proc-once:first-unit-of-new-key-taken", firstTaken)
	if firstDropped+firstTaken < 8 {
		h.res.Fatalf("deliver-once scenarios: only %d of %d produced a first-step result", firstDropped+firstTaken, len(scs))
		return
	}
	// the race has two stable regimes: (almost) always lost, as in the code under review, or never
	// lost (a blocking or buffered hand-over). Anything at or above a half is the defect.
	if 2*firstDropped >= firstDropped+firstTaken {
		h.violate("processor-drops-first-unit-of-a-new-message",
			fmt.Sprintf("ProcessMessage answered 'dropping shard, processor channel full' to the FIRST unit of a new message key in %d of %d fresh processors (each unit handed over once, as the engine does)", firstDropped, firstDropped+firstTaken),
			map[string]any{"kind": "processor", "scenario": example})
	}
}

func permutations(n int) [][]int {
	if n == 0 {
		return [][]int{{}}
	}
	var out [][]int
	for _, p := range permutations(n - 1) {
		for pos := 0; pos <= len(p); pos++ {
			q := append(append(append([]int{}, p[:pos]...), n-1), p[pos:]...)
			out = append(out, q)
		}
	}
	return out
}

// probeProcessor: can the Processor be driven (events channel and logger set, c052836), and which
// of the repairs 5ab3121 / d8826cb / 76dcbab does it carry? The model is driven with the probed flags
// and the scenarios report a missing repair as a violation with the failing input.
func probeProcessor(h *hctx) {
	if !(h.cfg.ShardingLeafProto == h.cfg.ValidatorLeafProto && h.cfg.NonceSet) {
		return
	}
	mk := func(n, local, pub int, steps []procStepT) *procScenario {
		return &procScenario{N: n, Local: local, Pub: pub, Msg: "70726f6265", Nonce: "5", Steps: steps, TimeoutMs: 1500}
	}
	wiredProbe := func() bool {
		// the local shard first makes the subprocessor broadcast; an invalid unit makes Run log
		sc := mk(4, 0, 1, []procStepT{{Unit: 0, Sender: "legit"}, {Unit: 1, Corrupt: "shard-flip", Sender: "legit"}, {Unit: 1, Sender: "legit"}})
		pr := runProcChild(sc)
		_, final, notes, ev := collectEv(pr, len(sc.Steps))
		// a scenario without steps only constructs the Processor and reports its fields
		pr0 := runProcChild(mk(4, 0, 1, nil))
		_, _, _, ev0 := collectEv(pr0, 0)
		if ev0.LoggerNil || ev.LoggerNil || ev.NilChanSendBroadcast {
			// EVIDENCE of the two unset fields (read from the struct / the goroutine dump)
			return false
		}
		if pr.crashed || final == "stuck" || final == "" || len(notes) > 0 {
			// the fields are set, something else is wrong with this tree's Processor: the scenarios
			// below run and say what
			h.res.Hit("proc:probe-scenario-failed-on-a-wired-processor")
		}
		return true
	}
	h.pcfg.ProcWired = wiredProbe()
	if !h.pcfg.ProcWired {
		return // secProcessor reports it with failing inputs
	}
	// noPoison: a bad first unit — is the message's key in the finalized cache once its subprocessor is
	// gone? (EVIDENCE read from the Processor after everything has settled; not inferred from what a
	// following unit does: when that unit is handed over — before or after Run has forgotten the
	// subprocessor — is a matter of scheduling)
	sc := mk(4, 0, 1, []procStepT{{Unit: 1, Corrupt: "shard-flip", Sender: "legit"}})
	pr := runProcChild(sc)
	_, finalP, _, evP := collectEv(pr, len(sc.Steps))
	h.pcfg.NoPoison = !pr.crashed && finalP != "stuck" && finalP != "" && !evP.HonestKeyFinalized
	// localFromPresent: build from a unit that is neither shard 0 nor the local shard
	sc = mk(4, 1, 0, []procStepT{{Unit: 2, Sender: "legit"}})
	pr = runProcChild(sc)
	h.pcfg.LocalFromPresent = !pr.crashed
	// keyGuard: a unit naming a publisher without embedded key
	sc = mk(4, 0, 1, []procStepT{{Unit: 0, Corrupt: "publisher-keyless", Sender: "legit"}})
	sc.Keyless = true
	pr = runProcChild(sc)
	h.pcfg.KeyGuard = !pr.crashed
	if childMachineryErr != "" {
		h.res.Fatalf("processor probes: %s", childMachineryErr)
	}
}
