//go:build verif

package main

import (
	"bytes"
	"encoding/binary"
	"fmt"
	"strconv"
	"strings"

	"github.com/NethermindEth/juno/consensus/propeller"
	"verif/harness/lib"
)

var unpadErrs = [][2]string{{"invalid varint", "varint"}, {"exceeds available data", "length"}}

// unpadImpl runs the real UnpadMessage and renders the outcome like the driver does.
func unpadImpl(b []byte) (string, []byte) {
	var out []byte
	err, panicked, _ := lib.Try(func() error {
		var e error
		out, e = propeller.UnpadMessage(append([]byte{}, b...))
		return e
	})
	if panicked {
		return "panic:" + err.Error(), nil
	}
	if err != nil {
		return classify(err, unpadErrs), nil
	}
	return "ok " + hx(out), out
}

func unpadCase(h *hctx, b []byte) {
	impl, _ := unpadImpl(b)
	h.res.Case("unpad/"+hx(b), len(b) > 0)
	h.res.Hit("unpad:" + outcomeTag(impl))
	if strings.HasPrefix(impl, "panic:") {
		sig := "unpad-panics-other"
		if strings.Contains(impl, "slice bounds out of range") {
			sig = "unpad-panics-on-length-overflow"
		}
		h.violate(sig, fmt.Sprintf("UnpadMessage(%x) panics: %s", clipB(b), impl[6:]),
			map[string]any{"kind": "unpad", "padded": hx(b)})
		impl = "panic"
	}
	h.check("unpad", hx(clipB(b)), "unpad "+b01(h.cfg.UnpadGuard)+" "+hx(b), impl, true)
}

// outcomeTag: "ok", "err:<class>" or "panic".
func outcomeTag(impl string) string {
	switch {
	case strings.HasPrefix(impl, "ok"):
		return "ok"
	case strings.HasPrefix(impl, "panic"):
		return "panic"
	}
	return firstWord(impl)
}

func clipB(b []byte) []byte {
	if len(b) > 48 {
		return b[:48]
	}
	return b
}

func padCase(h *hctx, msg []byte, k int) {
	var padded []byte
	err, panicked, _ := lib.Try(func() error { padded = propeller.PadMessage(append([]byte{}, msg...), k); return nil })
	key := fmt.Sprintf("pad/%d/%d/%x", k, len(msg), clipB(msg))
	h.res.Case(key, len(msg) > 0)
	rp := map[string]any{"kind": "pad", "msg": hx(msg), "k": k}
	if panicked {
		h.violate("pad-panics", fmt.Sprintf("PadMessage(len %d, k=%d) panics: %v", len(msg), k, err), rp)
		return
	}
	h.check("pad", map[string]any{"k": k, "len": len(msg)}, "pad "+strconv.Itoa(k)+" "+hx(msg), "ok "+hx(padded), false)
	// oracle
	if len(padded)%(2*k) != 0 {
		h.violate("pad-length-not-multiple-of-2k", fmt.Sprintf("len(PadMessage(len %d, k=%d)) = %d", len(msg), k, len(padded)), rp)
	}
	if len(padded) >= 2*k+binary.MaxVarintLen64+len(msg) {
		h.violate("pad-longer-than-needed", fmt.Sprintf("len(PadMessage(len %d, k=%d)) = %d", len(msg), k, len(padded)), rp)
	}
	impl, out := unpadImpl(padded)
	switch {
	case strings.HasPrefix(impl, "panic"):
		h.violate("unpad-panics-on-padded-message", fmt.Sprintf("UnpadMessage(PadMessage(len %d, k=%d)): %s", len(msg), k, impl), rp)
	case strings.HasPrefix(impl, "err"):
		h.violate("unpad-rejects-padded-message", fmt.Sprintf("UnpadMessage(PadMessage(len %d, k=%d)): %s", len(msg), k, impl), rp)
	case !bytes.Equal(out, msg):
		h.violate("unpad-pad-roundtrip-differs", fmt.Sprintf("UnpadMessage(PadMessage(m, %d)) != m for len(m) = %d", k, len(msg)), rp)
	}
	vl := binary.PutUvarint(make([]byte, 10), uint64(len(msg)))
	h.res.Hit(fmt.Sprintf("pad:varint-len=%d", vl))
	if (vl+len(msg))%(2*k) == 0 {
		h.res.Hit("pad:no-padding-needed")
	}
}

func genMsg(r *lib.RNG, n int) []byte {
	b := make([]byte, n)
	switch r.Intn(5) {
	case 0: // zeros (a message of zeros is indistinguishable from padding except by its length)
	case 1:
		for i := range b {
			b[i] = 0xff
		}
	case 2: // random with a zero tail
		copy(b, r.Bytes(n))
		for i := n - n/3; i < n; i++ {
			b[i] = 0
		}
	default:
		copy(b, r.Bytes(n))
	}
	return b
}

func secPadding(h *hctx, r *lib.RNG) {
	// 1. Uvarint / PutUvarint against Go's encoding/binary.
	fixed := [][]byte{
		{}, {0}, {1}, {0x7f}, {0x80}, {0x80, 0x01}, {0xff, 0x7f}, {0x80, 0x00}, {0x80, 0x80, 0x00},
		bytes.Repeat([]byte{0xff}, 9), append(bytes.Repeat([]byte{0xff}, 9), 0x01), append(bytes.Repeat([]byte{0xff}, 9), 0x02),
		append(bytes.Repeat([]byte{0xff}, 9), 0x7f), append(bytes.Repeat([]byte{0x80}, 9), 0x00), append(bytes.Repeat([]byte{0x80}, 9), 0x01),
		bytes.Repeat([]byte{0xff}, 10), bytes.Repeat([]byte{0x80}, 11), append(bytes.Repeat([]byte{0x80}, 10), 0x01),
		append(bytes.Repeat([]byte{0xff}, 9), 0x01, 0x00, 0x00), append(bytes.Repeat([]byte{0xff}, 9), 0x01, 1, 2, 3, 4, 5, 6, 7, 8, 9, 10, 11),
		append(bytes.Repeat([]byte{0xfe}, 9), 0x01, 0, 0, 0, 0, 0, 0, 0, 0), {0x05, 1, 2, 3, 4, 5}, {0x05, 1, 2, 3, 4}, {0x00, 9, 9},
	}
	alphabet := []byte{0x00, 0x01, 0x02, 0x7f, 0x80, 0x81, 0xfe, 0xff}
	n := h.f.Scale(3000, 60000)
	inputs := append([][]byte{}, fixed...)
	for i := 0; i < n; i++ {
		l := r.Intn(15)
		b := make([]byte, l)
		for j := range b {
			if r.Chance(1, 6) {
				b[j] = byte(r.Uint64())
			} else {
				b[j] = lib.Pick(r, alphabet)
			}
		}
		if r.Chance(1, 3) { // long continuation prefix: reaches bytes 9 and 10
			p := bytes.Repeat([]byte{lib.Pick(r, []byte{0x80, 0xff, 0x81})}, r.Range(7, 10))
			b = append(p, b...)
		}
		inputs = append(inputs, b)
	}
	for _, b := range inputs {
		v, nn := binary.Uvarint(b)
		h.check("uvarint", hx(b), "uvarint "+hx(b), fmt.Sprintf("%x %d", v, nn), false)
		switch {
		case nn > 0:
			h.res.Hit(fmt.Sprintf("uvarint:ok-len=%d", nn))
		case nn == 0:
			h.res.Hit("uvarint:short")
		default:
			h.res.Hit("uvarint:overflow")
		}
		unpadCase(h, b)
	}
	for _, v := range []uint64{0, 1, 127, 128, 16383, 16384, 1<<21 - 1, 1 << 21, 1<<63 - 1, 1 << 63, 1<<64 - 1} {
		buf := make([]byte, 10)
		l := binary.PutUvarint(buf, v)
		h.check("putuvarint", v, fmt.Sprintf("putuvarint %x", v), hx(buf[:l]), false)
	}
	for i := 0; i < h.f.Scale(300, 5000); i++ {
		v := r.Uint64() >> uint(r.Intn(64))
		buf := make([]byte, 10)
		l := binary.PutUvarint(buf, v)
		h.check("putuvarint", v, fmt.Sprintf("putuvarint %x", v), hx(buf[:l]), false)
	}

	// 2. PadMessage / UnpadMessage round trip at the boundaries.
	ks := []int{1, 2, 3, 4, 5, 7, 10, 33}
	if h.f.Thorough() {
		ks = append(ks, 6, 8, 9, 16, 64, 85, 128)
	}
	for _, k := range ks {
		lens := map[int]bool{}
		for _, base := range []int{0, 2 * k, 4 * k, 128, 16384} {
			for d := -3; d <= 2; d++ {
				if base+d >= 0 {
					lens[base+d] = true
				}
			}
		}
		// lengths at which varint+msg is just below / at / above a multiple of 2k
		for _, m := range []int{1, 2, 3} {
			for d := -2; d <= 1; d++ {
				if l := m*2*k - 1 + d; l >= 0 {
					lens[l] = true
				}
			}
		}
		for _, l := range []int{126, 127, 128, 129, 16382, 16383, 16384, 16385} {
			lens[l] = true
		}
		if h.f.Thorough() {
			for _, l := range []int{1<<21 - 2, 1<<21 - 1, 1 << 21, 1<<21 + 1} {
				lens[l] = true
			}
		}
		for l := range lens {
			padCase(h, genMsg(r, l), k)
		}
	}
	for i := 0; i < h.f.Scale(300, 5000); i++ {
		k := r.Range(1, 12)
		padCase(h, genMsg(r, r.Intn(6*k+3)), k)
	}

	// 3. UnpadMessage on damaged padded messages.
	for i := 0; i < h.f.Scale(600, 10000); i++ {
		k := r.Range(1, 6)
		p := propeller.PadMessage(genMsg(r, lib.Pick(r, []int{0, 1, 5, 126, 127, 128, 200})), k)
		switch r.Intn(5) {
		case 0:
			p = p[:r.Intn(len(p)+1)]
		case 1:
			p[0] = lib.Pick(r, alphabet)
		case 2:
			p = append(bytes.Repeat([]byte{0xff}, r.Range(1, 10)), p...)
		case 3:
			j := r.Intn(len(p))
			p[j] ^= 1 << uint(r.Intn(8))
		case 4:
			p = append([]byte{lib.Pick(r, alphabet), lib.Pick(r, alphabet)}, p...)
		}
		unpadCase(h, p)
	}
}
