//go:build verif

package main

import (
	"fmt"
	"time"

	"github.com/NethermindEth/juno/consensus/propeller/timecache"
	"verif/harness/lib"
)

// The processor's finalized cache (timecache.TimeCache) is a set in the model: checked here to
// behave as one while nothing expires (also beyond its initial size), and to forget after expiry.
func secTimecache(h *hctx, r *lib.RNG) {
	rp := map[string]any{"kind": "timecache"}
	h.res.Case("timecache", true)
	err, panicked, _ := lib.Try(func() error {
		tc := timecache.New[int](4, time.Hour)
		in := map[int]bool{}
		for i := 0; i < 200; i++ {
			k := r.Intn(300)
			if !in[k] { // Add of a present key is documented as undefined: the processor never does it
				tc.Add(&k)
				in[k] = true
			}
			q := r.Intn(300)
			if tc.Get(&q) != in[q] {
				return fmt.Errorf("after %d adds Get(%d) = %v, want %v", i+1, q, !in[q], in[q])
			}
		}
		for k := 0; k < 300; k++ {
			if tc.Get(&k) != in[k] {
				return fmt.Errorf("final Get(%d) = %v, want %v", k, !in[k], in[k])
			}
		}
		return nil
	})
	if panicked || err != nil {
		h.violate("timecache-not-a-set-before-expiry", fmt.Sprintf("panic=%v %v", panicked, err), rp)
	}
	h.res.Hit("timecache:set-semantics")
	// expiry, with wide margins (50 ms vs 400 ms)
	tc := timecache.New[int](4, 50*time.Millisecond)
	k := 7
	tc.Add(&k)
	before := tc.Get(&k)
	time.Sleep(400 * time.Millisecond)
	after := tc.Get(&k)
	if !before || after {
		h.violate("timecache-expiry", fmt.Sprintf("Get right after Add = %v, Get 400 ms after a 50 ms expiry = %v", before, after), rp)
	}
	h.res.Hit("timecache:expiry")
}
