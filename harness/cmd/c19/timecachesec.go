//go:build verif

package main

import (
	"fmt"
	"reflect"
	"time"
	"unsafe"

	"github.com/NethermindEth/juno/consensus/propeller/timecache"
	"verif/harness/lib"
)

// The processor's finalized cache (timecache.TimeCache): a map plus a ring buffer that wraps around
// and grows. The model (ModelCache.lean) transcribes it with the clock as a parameter and proves it
// is a set with a time to live; here the real cache is run against the model and against the
// specification "Get = some Add of the key has not expired".
//
// The clock: the real code reads time.Now(). The harness keeps a LOGICAL clock and, before every
// operation, rewrites every stored expiry (in the map and in the ring, by reflection) to "one hour
// from now" or "one hour ago" according to whether the entry's logical expiry is after the logical
// time of the operation — every comparison the code makes (`now.Before(expiry)`, `expiry.After(now)`)
// then has the outcome the logical clock dictates, with an hour of margin on either side: nothing
// depends on how fast the run is.

type tcProbe struct {
	values     reflect.Value // map[uint64]time.Time
	timestamps reflect.Value // []timedValue[uint64]
	start, end reflect.Value
	size       reflect.Value
}

func newTCProbe(tc *timecache.TimeCache[uint64]) (p *tcProbe, err error) {
	defer func() {
		if r := recover(); r != nil {
			err = fmt.Errorf("%v", r)
		}
	}()
	v := reflect.ValueOf(tc).Elem()
	field := func(name string) reflect.Value {
		f := v.FieldByName(name)
		if !f.IsValid() {
			panic("TimeCache has no field " + name)
		}
		return reflect.NewAt(f.Type(), unsafe.Pointer(f.UnsafeAddr())).Elem()
	}
	p = &tcProbe{values: field("values"), timestamps: field("timestamps"), start: field("start"), end: field("end"), size: field("size")}
	if p.values.Kind() != reflect.Map || p.timestamps.Kind() != reflect.Slice {
		return nil, fmt.Errorf("unexpected layout of TimeCache")
	}
	return p, nil
}

// retime: every stored expiry becomes now±1h according to the logical clock.
func (p *tcProbe) retime(expiry map[uint64]int, now int) (err error) {
	defer func() {
		if r := recover(); r != nil {
			err = fmt.Errorf("%v", r)
		}
	}()
	base := time.Now()
	realOf := func(key uint64) (time.Time, bool) {
		e, ok := expiry[key]
		if !ok {
			return time.Time{}, false
		}
		if e > now {
			return base.Add(time.Hour), true
		}
		return base.Add(-time.Hour), true
	}
	it := p.values.MapRange()
	var keys []reflect.Value
	for it.Next() {
		keys = append(keys, it.Key())
	}
	for _, k := range keys {
		if rt, ok := realOf(k.Uint()); ok {
			p.values.SetMapIndex(k, reflect.ValueOf(rt))
		}
	}
	for i := 0; i < p.timestamps.Len(); i++ {
		el := p.timestamps.Index(i)
		fv, fe := el.FieldByName("value"), el.FieldByName("expiry")
		if rt, ok := realOf(fv.Uint()); ok {
			reflect.NewAt(fe.Type(), unsafe.Pointer(fe.UnsafeAddr())).Elem().Set(reflect.ValueOf(rt))
		}
	}
	return nil
}

func (p *tcProbe) state() string {
	return fmt.Sprintf("%d %d %d %d", p.start.Int(), p.end.Int(), p.size.Int(), p.values.Len())
}

type tcOp struct {
	Get bool   `json:"get,omitempty"`
	T   int    `json:"t"`
	K   uint64 `json:"k"`
}

// tcRun: one run of the real cache against model and specification.
func tcRun(h *hctx, size, ttl int, ops []tcOp, what string) {
	rp := map[string]any{"kind": "timecache-run", "size": size, "ttl": ttl, "ops": ops, "what": what}
	h.res.Case(fmt.Sprintf("timecache/%s/%d/%d/%d", what, size, ttl, len(ops)), true)
	tc := timecache.New[uint64](size, time.Hour)
	probe, err := newTCProbe(tc)
	if err != nil {
		h.res.Fatalf("timecache probe: %v", err)
		return
	}
	h.check("timecache-new", rp, fmt.Sprintf("tcnew %d %d", size, ttl), "ok", false)
	expiry := map[uint64]int{} // logical expiry of the latest Add of each key
	lastT := -1
	for i, op := range ops {
		// (entries added since the last retime carry "now + 1 h": right as long as the logical clock
		// has not moved — every logical ttl is positive)
		if op.T != lastT {
			if err := probe.retime(expiry, op.T); err != nil {
				h.res.Fatalf("timecache probe: %v", err)
				return
			}
			lastT = op.T
		}
		k := op.K
		if op.Get {
			var got bool
			perr, panicked, _ := lib.Try(func() error { got = tc.Get(&k); return nil })
			if panicked {
				h.violate("timecache-panics", fmt.Sprintf("TimeCache.Get panics at operation %d of a run (%s, size %d): %v", i, what, size, perr), rp)
				return
			}
			e, known := expiry[k]
			want := known && e > op.T
			switch {
			case !known:
				h.res.Hit("timecache:get-unknown")
			case want:
				h.res.Hit("timecache:get-live")
			default:
				h.res.Hit("timecache:get-expired")
			}
			if got != want {
				sig := "timecache-forgets-a-live-key"
				if got {
					sig = "timecache-returns-an-expired-or-unknown-key"
				}
				h.violate(sig, fmt.Sprintf("operation %d of a run (%s, New(%d), ttl %d): Get(%d) at time %d = %v; the key was added with expiry %d (known: %v) — "+
					"the processor's finalized cache is not the set the property's 'built once / broadcast once' rests on", i, what, size, ttl, k, op.T, got, e, known), rp)
				return
			}
			h.check("timecache-get", map[string]any{"what": what, "size": size, "op": i}, fmt.Sprintf("tcget %d %d", op.T, k), fmt.Sprintf("%v %s", got, probe.state()), false)
			continue
		}
		before := probe.size.Int()
		wrappedBefore := probe.start.Int() > probe.end.Int()
		perr, panicked, _ := lib.Try(func() error { tc.Add(&k); return nil })
		if panicked {
			h.violate("timecache-panics", fmt.Sprintf("TimeCache.Add panics at operation %d of a run (%s, size %d): %v", i, what, size, perr), rp)
			return
		}
		expiry[k] = op.T + ttl
		if probe.size.Int() != before {
			h.res.Hit("timecache:regrowth")
			if before > 1024 {
				h.res.Hit("timecache:regrowth-by-20%")
			}
		}
		if wrappedBefore {
			h.res.Hit("timecache:add-while-wrapped")
		}
		st := probe.state()
		h.later(fmt.Sprintf("tcadd %d %d", op.T, k), func(ans string) {
			f := splitFields(ans)
			if len(f) != 5 {
				h.res.Fatalf("driver answered %.60q to tcadd", ans)
				return
			}
			switch f[4] {
			case "c":
				h.res.Hit("timecache:model-regrowth-contiguous-branch")
			case "w":
				h.res.Hit("timecache:model-regrowth-wrapped-branch")
			}
			h.compare("timecache-add", map[string]any{"what": what, "size": size, "op": i}, f[0]+" "+f[1]+" "+f[2]+" "+f[3], st)
		})
	}
}

// genTCOps: a well-formed run (the clock does not go backwards; a key is added only when it is not
// live). `burst`: probability (in %) that the clock stands still between two operations.
func genTCOps(r *lib.RNG, n, ttl, burst int) []tcOp {
	var ops []tcOp
	now := 0
	expiry := map[uint64]int{}
	var known []uint64
	next := uint64(1)
	for len(ops) < n {
		switch {
		case r.Intn(100) < burst:
		case r.Chance(1, 12):
			now += ttl + r.Intn(3) // everything expires
		default:
			now += r.Intn(max(1, ttl/3) + 1)
		}
		if r.Chance(2, 5) && len(known) > 0 {
			k := lib.Pick(r, known)
			if r.Chance(1, 8) {
				k = next + 1000 // never added
			}
			ops = append(ops, tcOp{Get: true, T: now, K: k})
			continue
		}
		k := next
		if r.Chance(1, 4) && len(known) > 0 { // add an expired key again
			c := lib.Pick(r, known)
			if expiry[c] <= now {
				k = c
			}
		}
		if k == next {
			next++
			known = append(known, k)
		}
		expiry[k] = now + ttl
		ops = append(ops, tcOp{T: now, K: k})
	}
	return ops
}

func secTimecache(h *hctx, r *lib.RNG) {
	// small initial sizes: the ring wraps and grows all the time
	for _, size := range []int{1, 2, 3, 4, 5, 8} {
		for _, ttl := range []int{1, 3, 10, 40} {
			for rep := 0; rep < h.f.Scale(2, 12); rep++ {
				tcRun(h, size, ttl, genTCOps(r, h.f.Scale(120, 400), ttl, lib.Pick(r, []int{0, 30, 70, 90})), "random")
			}
		}
	}
	// no expiry at all: pure growth (the contiguous branch of regrowth)
	tcRun(h, 1, 1_000_000, genTCOps(r, 300, 1_000_000, 50), "no-expiry")
	// the processor's cache (2048): fill, expire the older half, keep adding until the ring has
	// wrapped and must grow while wrapped, past the 1024-slot threshold of the 20 % growth
	for _, size := range []int{1022, 1023, 1024, 1025, 2048} {
		var ops []tcOp
		k := uint64(1)
		half := size / 2
		for i := 0; i < half; i++ { // older half at time 0
			ops = append(ops, tcOp{T: 0, K: k})
			k++
		}
		for i := 0; i < size-half-1; i++ { // younger half at time 5: the ring is one short of full
			ops = append(ops, tcOp{T: 5, K: k})
			k++
		}
		ops = append(ops, tcOp{Get: true, T: 9, K: 1}, tcOp{Get: true, T: 10, K: 1}, tcOp{Get: true, T: 10, K: uint64(half + 1)})
		for i := 0; i < half+40; i++ { // time 10 (ttl 10): the older half has expired; the ring wraps, fills up, grows
			ops = append(ops, tcOp{T: 10, K: k})
			k++
		}
		for _, q := range []uint64{1, uint64(half), uint64(half + 1), uint64(size - 1), uint64(size), k - 1, k} {
			ops = append(ops, tcOp{Get: true, T: 12, K: q})
		}
		ops = append(ops, tcOp{Get: true, T: 15, K: uint64(half + 1)}, tcOp{Get: true, T: 19, K: k - 1}, tcOp{Get: true, T: 20, K: k - 1})
		tcRun(h, size, 10, ops, "fill-expire-half-wrap-grow")
	}
}

func tcReplay(h *hctx, rp map[string]any) {
	var ops []tcOp
	if l, ok := rp["ops"].([]any); ok {
		for _, x := range l {
			m, _ := x.(map[string]any)
			g, _ := m["get"].(bool)
			ops = append(ops, tcOp{Get: g, T: num(m["t"]), K: uint64(num(m["k"]))})
		}
	}
	tcRun(h, num(rp["size"]), num(rp["ttl"]), ops, str(rp["what"]))
}
