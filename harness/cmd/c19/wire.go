//go:build verif

package main

import (
	"bytes"
	"fmt"
	"strconv"
	"strings"

	"github.com/NethermindEth/juno/consensus/propeller"
	pb "github.com/NethermindEth/juno/consensus/propeller/proto"
	"github.com/starknet-io/starknet-p2p-specs/p2p/proto/common"
	"google.golang.org/protobuf/proto"
	"verif/harness/lib"
)

// Wire form of a unit (unit.go UnitFromProto / ToProto): what a remote peer can make the node parse.

var wireErrs = [][2]string{
	{"no shards", "no-shards"},
	{"shards of different length", "shard-len"},
	{"merkle root", "root-len"},
}

func unitOutcome(u *propeller.Unit) string {
	shards := make([][]byte, len(u.ShardData))
	for i, s := range u.ShardData {
		shards[i] = s
	}
	sibs := make([][]byte, len(u.MerkleProof.Siblings))
	for i := range u.MerkleProof.Siblings {
		sibs[i] = u.MerkleProof.Siblings[i][:]
	}
	return strings.Join([]string{"ok", hx(u.CommitteeID[:]), hx([]byte(u.Publisher)), hx(u.MessageRoot[:]), hexList(sibs),
		hx(u.Signature), strconv.FormatUint(uint64(u.ShardIndex), 10), hexList(shards), strconv.FormatUint(uint64(u.Nonce), 10)}, " ")
}

func fromProtoImpl(pu *pb.PropellerUnit) string {
	var u propeller.Unit
	err, panicked, _ := lib.Try(func() error {
		var e error
		u, e = propeller.UnitFromProto(pu)
		return e
	})
	if panicked {
		return "panic:" + err.Error()
	}
	if err != nil {
		return classify(err, wireErrs)
	}
	return unitOutcome(&u)
}

func wireCase(h *hctx, pu *pb.PropellerUnit, what string) {
	raw, merr := proto.Marshal(pu)
	rp := map[string]any{"kind": "wire", "proto": hx(raw), "what": what}
	h.res.Case("wire/"+what+"/"+hx(clipB(raw)), true)
	impl := fromProtoImpl(pu)
	// the same unit after a trip over the wire (what receiveUnits parses)
	if merr == nil {
		var pu2 pb.PropellerUnit
		if proto.Unmarshal(raw, &pu2) == nil {
			if impl2 := fromProtoImpl(&pu2); outcomeTag(impl2) != outcomeTag(impl) {
				h.res.Hit("wire:in-memory-vs-wire-differ")
				impl = impl2 // the wire form is the one a peer can send
				pu = &pu2
			}
		}
	}
	h.res.Hit("wire:" + what + ":" + outcomeTag(impl))
	nShards := len(pu.GetShards().GetShards())
	rootLen := len(pu.GetMerkleRoot().GetElements())
	if strings.HasPrefix(impl, "panic:") {
		sig := "unit-from-proto-panics-other"
		switch {
		case nShards == 0:
			sig = "unit-from-proto-panics-on-unit-without-shards"
		case rootLen < 32:
			sig = "unit-from-proto-panics-on-short-merkle-root"
		}
		h.violate(sig, fmt.Sprintf("UnitFromProto (%s; %d shards, %d root bytes) panics: %s", what, nShards, rootLen, impl[6:]), rp)
		impl = "panic"
	}
	shards := make([][]byte, nShards)
	for i, s := range pu.GetShards().GetShards() {
		shards[i] = s.GetData()
	}
	sibs := make([][]byte, len(pu.GetMerkleProof().GetSiblings()))
	for i, s := range pu.GetMerkleProof().GetSiblings() {
		sibs[i] = s.GetElements()
	}
	line := fmt.Sprintf("fromproto %s %s %d %s %s %s %s %s %d", b01(h.pcfg.WireGuard), hexList(shards), pu.GetIndex(),
		hx(pu.GetMerkleRoot().GetElements()), hexList(sibs), hx(pu.GetPublisher().GetId()), hx(pu.GetSignature()),
		hx(pu.GetCommitteeId().GetElements()), pu.GetNonce())
	h.check("unit-from-proto", rp, line, impl, true)
}

func h256(b []byte) *common.Hash256 { return &common.Hash256{Elements: b} }

func secWire(h *hctx, r *lib.RNG) {
	pub := makeMember(77)
	for _, kp := range [][2]int{{1, 0}, {1, 2}, {2, 4}, {3, 6}} {
		var cid propeller.CommitteeID
		copy(cid[:], r.Bytes(32))
		nonce := lib.Pick(r, []uint64{0, 7, 1758700000000000000, 1 << 63, 1<<64 - 1})
		units, err := propeller.CreatePropellerUnits(pub.priv, &cid, propeller.Nonce(nonce), genMsg(r, r.Range(0, 40)), kp[0], kp[1])
		if err != nil {
			continue
		}
		for i := range units {
			u := &units[i]
			// round trip of an honest unit
			var back propeller.Unit
			err, panicked, _ := lib.Try(func() error {
				var e error
				back, e = propeller.UnitFromProto(u.ToProto())
				return e
			})
			want := *cloneUnit(u)
			want.Nonce = u.Nonce
			if panicked || err != nil || unitOutcome(&back) != unitOutcome(&want) {
				h.violate("unit-proto-roundtrip-differs", fmt.Sprintf("UnitFromProto(ToProto(unit %d of k=%d,p=%d)): panic=%v err=%v", i, kp[0], kp[1], panicked, err),
					map[string]any{"kind": "wire", "proto": hx(mustMarshal(u.ToProto())), "what": "honest"})
			}
			wireCase(h, u.ToProto(), "honest")
			if i > 1 {
				continue
			}
			mut := func(what string, f func(p *pb.PropellerUnit)) {
				p := u.ToProto()
				f(p)
				wireCase(h, p, what)
			}
			sh := u.ShardData[0]
			mut("shards-nil", func(p *pb.PropellerUnit) { p.Shards = nil })
			mut("shards-empty", func(p *pb.PropellerUnit) { p.Shards = &pb.ShardsOfPeer{} })
			mut("shard-data-empty", func(p *pb.PropellerUnit) { p.Shards.Shards[0].Data = nil })
			mut("two-shards-equal", func(p *pb.PropellerUnit) { p.Shards.Shards = append(p.Shards.Shards, &pb.Shard{Data: sh}) })
			mut("two-shards-last-differs", func(p *pb.PropellerUnit) { p.Shards.Shards = append(p.Shards.Shards, &pb.Shard{Data: sh[:1]}) })
			mut("three-shards-middle-differs", func(p *pb.PropellerUnit) {
				p.Shards.Shards = append(p.Shards.Shards, &pb.Shard{Data: sh[:1]}, &pb.Shard{Data: sh})
			})
			mut("three-shards-last-differs", func(p *pb.PropellerUnit) {
				p.Shards.Shards = append(p.Shards.Shards, &pb.Shard{Data: sh}, &pb.Shard{Data: sh[:1]})
			})
			mut("first-shard-empty-second-not", func(p *pb.PropellerUnit) {
				p.Shards.Shards = []*pb.Shard{{}, {Data: sh}, {Data: sh}}
			})
			mut("root-nil", func(p *pb.PropellerUnit) { p.MerkleRoot = nil })
			for _, l := range []int{0, 1, 31, 33, 64} {
				l := l
				mut("root-len-"+strconv.Itoa(l), func(p *pb.PropellerUnit) {
					p.MerkleRoot = h256(append(append([]byte{}, p.MerkleRoot.Elements...), bytes.Repeat([]byte{9}, 32)...)[:l])
				})
			}
			mut("proof-nil", func(p *pb.PropellerUnit) { p.MerkleProof = nil })
			if len(u.MerkleProof.Siblings) > 0 { // (a tree that returns empty proofs is reported elsewhere)
				mut("sibling-short", func(p *pb.PropellerUnit) {
					p.MerkleProof.Siblings[0] = h256(p.MerkleProof.Siblings[0].Elements[:5])
				})
				mut("sibling-long", func(p *pb.PropellerUnit) {
					p.MerkleProof.Siblings[0] = h256(append(append([]byte{}, p.MerkleProof.Siblings[0].Elements...), 1, 2, 3))
				})
				mut("sibling-empty", func(p *pb.PropellerUnit) { p.MerkleProof.Siblings[0] = &common.Hash256{} })
			} else {
				h.res.Hit("wire:honest-unit-without-siblings")
			}
			mut("publisher-nil", func(p *pb.PropellerUnit) { p.Publisher = nil })
			mut("committee-nil", func(p *pb.PropellerUnit) { p.CommitteeId = nil })
			mut("committee-short", func(p *pb.PropellerUnit) { p.CommitteeId = h256(p.CommitteeId.Elements[:7]) })
			mut("committee-long", func(p *pb.PropellerUnit) {
				p.CommitteeId = h256(append(append([]byte{}, p.CommitteeId.Elements...), 0xaa))
			})
			mut("signature-nil", func(p *pb.PropellerUnit) { p.Signature = nil })
			mut("index-2^32+i", func(p *pb.PropellerUnit) { p.Index += 1 << 32 })
			mut("index-max", func(p *pb.PropellerUnit) { p.Index = 1<<64 - 1 })
			mut("nonce-max", func(p *pb.PropellerUnit) { p.Nonce = 1<<64 - 1 })
			// two defects at once: the order of the checks decides which error is reported
			mut("no-shards+short-root", func(p *pb.PropellerUnit) { p.Shards = nil; p.MerkleRoot = h256([]byte{1, 2}) })
			mut("unequal-shards+short-root", func(p *pb.PropellerUnit) {
				p.Shards.Shards = []*pb.Shard{{Data: []byte{1, 2}}, {Data: []byte{3}}, {Data: []byte{4, 5}}}
				p.MerkleRoot = h256([]byte{0, 0x11})
			})
			mut("unequal-shards+long-root", func(p *pb.PropellerUnit) {
				p.Shards.Shards = []*pb.Shard{{Data: []byte{1, 2}}, {Data: []byte{3}}, {Data: []byte{4, 5}}}
				p.MerkleRoot = h256(append(append([]byte{}, p.MerkleRoot.Elements...), 7))
			})
			mut("everything-nil", func(p *pb.PropellerUnit) { *p = pb.PropellerUnit{} })
			mut("only-shards", func(p *pb.PropellerUnit) {
				*p = pb.PropellerUnit{Shards: &pb.ShardsOfPeer{Shards: []*pb.Shard{{Data: sh}}}}
			})
		}
	}
}

func mustMarshal(p *pb.PropellerUnit) []byte {
	b, _ := proto.Marshal(p)
	return b
}

// probeWire: does UnitFromProto survive an empty unit?
func probeWire() bool {
	_, panicked, _ := lib.Try(func() error {
		_, e := propeller.UnitFromProto(&pb.PropellerUnit{})
		return e
	})
	if panicked {
		return false
	}
	_, panicked, _ = lib.Try(func() error {
		_, e := propeller.UnitFromProto(&pb.PropellerUnit{Shards: &pb.ShardsOfPeer{Shards: []*pb.Shard{{Data: []byte{1}}}}})
		return e
	})
	return !panicked
}
