//go:build verif

package main

import (
	"crypto/ed25519"
	"encoding/binary"
	"sort"

	"github.com/NethermindEth/juno/consensus/propeller"
	"github.com/libp2p/go-libp2p/core/crypto"
	"github.com/libp2p/go-libp2p/core/peer"
)

// member is one committee member with a deterministic Ed25519 identity.
type member struct {
	priv crypto.PrivKey
	pub  crypto.PubKey
	id   peer.ID
}

func makeMember(seed uint64) member {
	var s [32]byte
	binary.LittleEndian.PutUint64(s[:], seed)
	copy(s[8:], "verif-c19-member")
	k := ed25519.NewKeyFromSeed(s[:])
	priv, err := crypto.UnmarshalEd25519PrivateKey(k)
	if err != nil {
		panic(err)
	}
	id, err := peer.IDFromPrivateKey(priv)
	if err != nil {
		panic(err)
	}
	return member{priv: priv, pub: priv.GetPublic(), id: id}
}

// makeCommittee returns n members sorted by peer id (the scheduler's order).
func makeCommittee(n int, salt uint64) []member {
	ms := make([]member, n)
	for i := range ms {
		ms[i] = makeMember(salt*1000 + uint64(i))
	}
	sort.Slice(ms, func(i, j int) bool { return ms[i].id < ms[j].id })
	return ms
}

func peerCommittee(ms []member) []propeller.PeerCommittee {
	out := make([]propeller.PeerCommittee, len(ms))
	for i, m := range ms {
		out[i] = propeller.PeerCommittee{ID: m.id, Stake: 1}
	}
	return out
}

func idList(ms []member) [][]byte {
	out := make([][]byte, len(ms))
	for i, m := range ms {
		out[i] = []byte(m.id)
	}
	return out
}

// signPayload is the byte string the publisher signs (signing.go buildSignPayload); used to tie
// the model's payload triple to the real signature: Ed25519 is deterministic, so signing this
// string must give exactly Unit.Signature.
func signPayload(root hash, committee propeller.CommitteeID, nonce uint64) []byte {
	b := []byte("<propeller>")
	b = append(b, root[:]...)
	b = append(b, committee[:]...)
	var n [8]byte
	binary.BigEndian.PutUint64(n[:], nonce)
	b = append(b, n[:]...)
	return append(b, "<propeller/>"...)
}

func cloneUnit(u *propeller.Unit) *propeller.Unit {
	c := *u
	c.Signature = append(propeller.Signature{}, u.Signature...)
	c.ShardData = make(propeller.ShardData, len(u.ShardData))
	for i, s := range u.ShardData {
		c.ShardData[i] = append(propeller.Shard{}, s...)
	}
	c.MerkleProof.Siblings = append(c.MerkleProof.Siblings[:0:0], u.MerkleProof.Siblings...)
	return &c
}
