//go:build verif

package main

// lookups.go (round 5) — the scheduler's look-ups and the Merkle depth arithmetic, as the code performs
// them, against their transcriptions in ModelR5.lean:
//
//   * slices.BinarySearchFunc(peers, id, cmp.Compare) — the stdlib function publisherIndex and NewScheduler
//     call — vs the model's `binSearch` (position AND found flag) for members and for non-members whose
//     insertion position is first / in the middle / one past the end;
//   * PeerForShardIndex / ShardIndexForPublisher / ValidateShardOrigin on ONE Scheduler value, REPEATED and
//     interleaved (member, outsider, outsider; outsider, outsider, member; …): the answers are those of a
//     pure function of the peer list (model: `peerForShardGo` / `shardIndexForGo`); oracle: a peer outside
//     the committee is refused EVERY time, a member gets the same answer every time;
//   * bits.Len, nextPowerOfTwo and the proof length of merkle.New for every number of leaves 1..N and
//     around the powers of two; create -> validate for EVERY committee size 2..N (a tree of ONE leaf for
//     two peers): every honest unit is accepted and carries ceil(log2(max(2, N-1))) siblings.

import (
	"cmp"
	"fmt"
	"math/bits"
	"slices"
	"sort"
	"strconv"

	"github.com/NethermindEth/juno/consensus/propeller"
	"github.com/NethermindEth/juno/consensus/propeller/merkle"
	"github.com/libp2p/go-libp2p/core/peer"
	"verif/harness/lib"
)

// refDepth: number of levels above the leaves of a tree padded to a power of two, at least two leaves.
func refDepth(n int) int {
	d, size := 1, 2
	for size < n {
		size *= 2
		d++
	}
	return d
}

// outsidersFor: peers outside the committee, one sorting before every member, one after every member,
// the others wherever they fall.
func outsidersFor(ms []member, count int) []member {
	var first, last *member
	var rest []member
	for seed := uint64(0); len(rest) < count || first == nil || last == nil; seed++ {
		if seed > 4000 {
			break
		}
		m := makeMember(777000 + seed)
		in := false
		for _, x := range ms {
			if x.id == m.id {
				in = true
			}
		}
		if in {
			continue
		}
		switch {
		case m.id < ms[0].id && first == nil:
			mm := m
			first = &mm
		case m.id > ms[len(ms)-1].id && last == nil:
			mm := m
			last = &mm
		case len(rest) < count:
			rest = append(rest, m)
		}
	}
	if first != nil {
		rest = append(rest, *first)
	}
	if last != nil {
		rest = append(rest, *last)
	}
	return rest
}

func lookupCase(h *hctx, n, localIdx int) {
	rp := map[string]any{"kind": "lookups", "n": n, "local": localIdx}
	h.guard("scheduler-lookups", rp, func() { lookupCase0(h, n, localIdx, rp) })
}

func lookupCase0(h *hctx, n, localIdx int, rp map[string]any) {
	ms := makeCommittee(n, uint64(300+n))
	local := ms[localIdx]
	h.res.Case(fmt.Sprintf("lookups/%d/%d", n, localIdx), true)
	s, err := propeller.NewScheduler(local.id, peerCommittee(ms))
	if err != nil {
		h.res.Fatalf("lookups: NewScheduler(n=%d): %v", n, err)
		return
	}
	total := s.NumTotalShards()
	h.check("vreset", rp, "vreset "+h.cfg.String()+" "+hx([]byte(local.id))+" "+hexList(idList(ms)), "ok", false)
	outs := outsidersFor(ms, 3)
	isMember := map[peer.ID]bool{}
	for _, m := range ms {
		isMember[m.id] = true
	}
	// (1) the binary search itself
	peers := s.Peers()
	ids := make([][]byte, len(peers))
	for i, p := range peers {
		ids[i] = []byte(p.ID)
	}
	for _, t := range append(append([]member{}, ms...), outs...) {
		pos, found := slices.BinarySearchFunc(peers, t.id, func(e propeller.PeerCommittee, x peer.ID) int { return cmp.Compare(e.ID, x) })
		h.check("binary-search", rp, "bsearch "+hexList(ids)+" "+hx([]byte(t.id)), fmt.Sprintf("%d %s", pos, b01(found)), false)
		if !isMember[t.id] {
			switch {
			case pos == 0:
				h.res.Hit("lookups:outsider-insertion-position=first")
			case pos == len(peers):
				h.res.Hit("lookups:outsider-insertion-position=past-the-end")
			default:
				h.res.Hit("lookups:outsider-insertion-position=middle")
			}
		}
	}
	// (2) repeated and interleaved look-ups on the one scheduler
	type call struct {
		kind string // "peer" | "shard" | "origin"
		pub  member
		idx  int
		snd  member
	}
	first := map[string]string{}
	do := func(c call) {
		var impl, line, key string
		switch c.kind {
		case "peer":
			q, e := s.PeerForShardIndex(c.pub.id, propeller.ShardIndex(c.idx))
			impl = classify(e, validateErrs)
			if e == nil {
				impl = "ok " + hx([]byte(q))
			}
			line = fmt.Sprintf("speerforgo %s %d", hx([]byte(c.pub.id)), c.idx)
			key = fmt.Sprintf("peer/%s/%d", c.pub.id, c.idx)
		case "shard":
			si, e := s.ShardIndexForPublisher(c.pub.id)
			impl = classify(e, validateErrs)
			if e == nil {
				impl = "ok " + strconv.Itoa(int(si))
			} else if c.pub.id == local.id {
				impl = "err:self-published"
			}
			line = "sshardforgo " + hx([]byte(c.pub.id))
			key = "shard/" + string(c.pub.id)
		case "origin":
			e := s.ValidateShardOrigin(c.snd.id, c.pub.id, propeller.ShardIndex(c.idx))
			impl = classify(e, validateErrs)
			line = fmt.Sprintf("sorigin %s %s %d", hx([]byte(c.snd.id)), hx([]byte(c.pub.id)), c.idx)
			key = fmt.Sprintf("origin/%s/%s/%d", c.snd.id, c.pub.id, c.idx)
		}
		h.check("scheduler-repeated-lookup", map[string]any{"n": n, "local": localIdx, "call": c.kind, "index": c.idx, "publisher_is_member": isMember[c.pub.id]}, line, impl, true)
		h.res.Hit("lookups:" + c.kind + ":" + outcomeTag(impl))
		if !isMember[c.pub.id] && impl[:2] == "ok" {
			h.violate("scheduler-accepts-publisher-outside-committee",
				fmt.Sprintf("n=%d local=%d: %s for a publisher that is NOT in the committee answered %q (look-ups on one Scheduler, repeated; the first answer for this call was %q)",
					n, localIdx, c.kind, impl, first[key]), rp)
		}
		if f, ok := first[key]; ok && f != impl {
			h.violate("scheduler-lookup-answers-differ-between-calls",
				fmt.Sprintf("n=%d local=%d: the same %s look-up answered %q first and %q later", n, localIdx, c.kind, f, impl), rp)
		} else if !ok {
			first[key] = impl
		}
	}
	member0 := ms[(localIdx+1)%n]
	sender0 := ms[(localIdx+2)%n]
	for _, o := range outs {
		for _, idx := range []int{0, total - 1, total} {
			// the same call three times in a row, then around a member's look-up
			for rep := 0; rep < 3; rep++ {
				do(call{kind: "peer", pub: o, idx: idx})
			}
			do(call{kind: "peer", pub: member0, idx: idx})
			do(call{kind: "peer", pub: o, idx: idx})
			do(call{kind: "peer", pub: o, idx: idx})
		}
		for rep := 0; rep < 3; rep++ {
			do(call{kind: "shard", pub: o})
		}
		do(call{kind: "shard", pub: member0})
		do(call{kind: "shard", pub: o})
		do(call{kind: "shard", pub: o})
		for rep := 0; rep < 2; rep++ {
			do(call{kind: "origin", pub: o, idx: 0, snd: sender0})
			do(call{kind: "origin", pub: o, idx: 0, snd: o})
		}
		// across the three entry points
		do(call{kind: "shard", pub: o})
		do(call{kind: "peer", pub: o, idx: 0})
		do(call{kind: "origin", pub: o, idx: 0, snd: sender0})
		do(call{kind: "shard", pub: o})
	}
	// members, twice each, with an outsider in between
	for _, m := range ms {
		for rep := 0; rep < 2; rep++ {
			do(call{kind: "shard", pub: m})
			do(call{kind: "peer", pub: m, idx: 0})
			if len(outs) > 0 {
				do(call{kind: "peer", pub: outs[0], idx: 0})
			}
		}
	}
}

// depthCase: merkle.New over n one-byte leaves; bits.Len / nextPowerOfTwo / proof length vs the model
// and vs the definition.
func depthCase(h *hctx, n int) {
	rp := map[string]any{"kind": "merkle-depth", "n": n}
	h.guard("merkle-depth", rp, func() {
		h.res.Case(fmt.Sprintf("depth/%d", n), true)
		leaves := make([][]byte, n)
		for i := range leaves {
			leaves[i] = []byte{byte(i), byte(i >> 8)}
		}
		_, tree := merkle.New(leaves)
		want := refDepth(n)
		for i := range tree {
			if len(tree[i].Siblings) != want {
				h.violate("merkle-proof-length-wrong", fmt.Sprintf("merkle.New over %d leaves: proof %d has %d siblings, the tree padded to a power of two (at least 2) has %d levels", n, i, len(tree[i].Siblings), want), rp)
				break
			}
		}
		if len(tree) != n {
			h.violate("merkle-proof-length-wrong", fmt.Sprintf("merkle.New over %d leaves returns %d proofs", n, len(tree)), rp)
			return
		}
		h.check("merkle-depth", rp, fmt.Sprintf("pdepth %d", n), strconv.Itoa(len(tree[0].Siblings)), false)
		h.check("merkle-depth-npow2", rp, fmt.Sprintf("npow2go %d", n), strconv.Itoa(1<<uint(len(tree[0].Siblings))), false)
		h.check("bits-len", rp, fmt.Sprintf("bitslen %d", n), strconv.Itoa(bits.Len(uint(n))), false)
		h.res.Hit("depth:leaves=" + sizeBucket(n))
	})
}

// committeeSizeCase: create -> validate for a committee of n peers (every unit, a fresh validator each).
func committeeSizeCase(h *hctx, n int) {
	rp := map[string]any{"kind": "committee-size", "n": n}
	h.guard("committee-size", rp, func() {
		h.res.Case(fmt.Sprintf("committee-size/%d", n), true)
		ms := makeCommittee(n, uint64(500+n))
		local, pub := ms[0], ms[n-1]
		s, err := propeller.NewScheduler(local.id, peerCommittee(ms))
		if err != nil {
			h.res.Fatalf("committee-size: NewScheduler(n=%d): %v", n, err)
			return
		}
		k, p := s.NumDataShards(), s.NumCodingShards()
		var cid propeller.CommitteeID
		copy(cid[:], fmt.Sprintf("verif-c19-committee-size-%04d", n))
		msg := []byte(fmt.Sprintf("message for a committee of %d", n))
		units, err := propeller.CreatePropellerUnits(pub.priv, &cid, propeller.Nonce(1000+n), msg, k, p)
		if err != nil || len(units) != n-1 {
			h.violate("create-units-fails", fmt.Sprintf("committee of %d (k=%d, p=%d): %v", n, k, p, err), rp)
			return
		}
		want := refDepth(n - 1)
		h.res.Hit(fmt.Sprintf("committee-size:proof-length=%d", want))
		for i := range units {
			if len(units[i].MerkleProof.Siblings) != want {
				h.violate("merkle-proof-length-wrong", fmt.Sprintf("committee of %d peers (%d shards): unit %d carries %d siblings, the tree has %d levels", n, n-1, i, len(units[i].MerkleProof.Siblings), want), rp)
				return
			}
			sender, ok := legitSender(s, local.id, pub.id, i)
			if !ok {
				h.violate("scheduler-shard-peer-mapping-not-bijective", fmt.Sprintf("committee of %d: no designated sender for shard %d", n, i), rp)
				return
			}
			v := propeller.NewValidator(pub.id, s)
			if e := v.Validate(cloneUnit(&units[i]), sender); e != nil {
				h.violate("validator-rejects-honest-unit-at-this-committee-size",
					fmt.Sprintf("committee of %d peers (k=%d, p=%d, %d shards, proofs of %d siblings): a fresh UnitValidator rejects unit %d of CreatePropellerUnits from its designated sender: %v", n, k, p, n-1, want, i, e), rp)
				return
			}
		}
		// k units (the last k) rebuild the message
		ptrs := make([]*propeller.Unit, n-1)
		for i := n - 1 - k; i < n-1; i++ {
			ptrs[i] = cloneUnit(&units[i])
		}
		li, _ := s.ShardIndexForPublisher(pub.id)
		got, _, pr, err := propeller.ConstructMessageFromUnits(ptrs, li, k, p)
		if err != nil || string(got) != string(msg) || len(pr.Siblings) != want {
			h.violate("construct-fails-at-this-committee-size", fmt.Sprintf("committee of %d (k=%d, p=%d): err=%v, %d bytes, local proof of %d siblings", n, k, p, err, len(got), len(pr.Siblings)), rp)
		}
	})
}

func secLookups(h *hctx, r *lib.RNG) {
	for n := 2; n <= h.f.Scale(7, 10); n++ {
		for l := 0; l < n; l++ {
			lookupCase(h, n, l)
		}
	}
	for _, n := range []int{10, 13, 16, 31, 64} {
		lookupCase(h, n, r.Intn(n))
	}
	var ns []int
	for n := 1; n <= h.f.Scale(140, 600); n++ {
		ns = append(ns, n)
	}
	for _, c := range []int{256, 512, 1024, 2048, 4096} {
		for d := -2; d <= 2; d++ {
			ns = append(ns, c+d)
		}
	}
	sort.Ints(ns)
	for i, n := range ns {
		if i > 0 && ns[i-1] == n {
			continue
		}
		depthCase(h, n)
	}
	for n := 2; n <= h.f.Scale(40, 140); n++ {
		committeeSizeCase(h, n)
	}
	for _, n := range []int{65, 66, 129, 130, 257, 258} {
		committeeSizeCase(h, n)
	}
}
