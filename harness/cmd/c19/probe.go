//go:build verif

package main

import (
	"bytes"

	"github.com/NethermindEth/juno/consensus/propeller"
	"github.com/NethermindEth/juno/consensus/propeller/merkle"
	"verif/harness/lib"
)

// probeVariant determines, by behaviour only, which of the repairs of proposed-fixes/C19-*.diff
// the code under test carries, so that the model is driven with the matching flags. The probes
// do not decide violations: the oracles of the sections do, independently of these flags.
func probeVariant(h *hctx) cfgFlags {
	var c cfgFlags
	// (c) UnpadMessage on a length that overflows uint64(varintLen)+msgLen
	err, panicked, _ := lib.Try(func() error {
		_, e := propeller.UnpadMessage(append(bytes.Repeat([]byte{0xff}, 9), 0x01, 0x00, 0x00))
		return e
	})
	c.UnpadGuard = !panicked && err != nil

	pub := makeMember(77)
	cid := propeller.CommitteeID{1, 2, 3}
	units, err := propeller.CreatePropellerUnits(pub.priv, &cid, propeller.Nonce(5), []byte("probe"), 1, 1)
	if err != nil || len(units) != 2 {
		h.res.Fatalf("probe: CreatePropellerUnits failed: %v", err)
		c.ValidatorLeafProto = true
		return c
	}
	// (d) nonce stored in the unit
	c.NonceSet = units[0].Nonce == 5
	// (b) leaf encoding used by sharding.go
	raw := [][]byte{units[0].ShardData[0], units[1].ShardData[0]}
	pro := [][]byte{units[0].ShardData.MarshalProto(), units[1].ShardData.MarshalProto()}
	rawRoot, _ := merkle.New(raw)
	proRoot, _ := merkle.New(pro)
	switch merkle.Hash(units[0].MessageRoot) {
	case rawRoot:
		c.ShardingLeafProto = false
	case proRoot:
		c.ShardingLeafProto = true
	default:
		h.res.Fatalf("probe: the root of created units is neither over raw shards nor over MarshalProto leaves")
	}
	// (a) ConstructMessageFromUnits without shard 0
	_, panicked, _ = lib.Try(func() error {
		_, _, _, e := propeller.ConstructMessageFromUnits([]*propeller.Unit{nil, cloneUnit(&units[1])}, 1, 1, 1)
		return e
	})
	c.RootFromPresent = !panicked
	// leaf encoding used by UnitValidator: which dialect of well-formed unit does it accept?
	ms := makeCommittee(3, 4242)
	local, pb := ms[0], ms[1]
	accepts := func(proto bool) bool {
		s, err := propeller.NewScheduler(local.id, peerCommittee(ms))
		if err != nil {
			return false
		}
		created, err := propeller.CreatePropellerUnits(pb.priv, &cid, propeller.Nonce(5), []byte("probe"), s.NumDataShards(), s.NumCodingShards())
		if err != nil {
			return false
		}
		us := dialectUnits(created, pb, cid, 5, proto)
		v := propeller.NewValidator(pb.id, s)
		sender, _ := legitSender(s, local.id, pb.id, 0)
		var verr error
		_, pan, _ := lib.Try(func() error { verr = v.Validate(&us[0], sender); return nil })
		return !pan && verr == nil
	}
	switch {
	case accepts(true):
		c.ValidatorLeafProto = true
	case accepts(false):
		c.ValidatorLeafProto = false
	default:
		c.ValidatorLeafProto = true
		h.res.Fatalf("probe: UnitValidator accepts neither leaf dialect of a well-formed unit")
	}
	return c
}
