//go:build verif

package main

import (
	"crypto/sha256"
	"encoding/hex"
	"fmt"
	"strings"
	"sync"
)

// Hash terms printed by the Lean driver are evaluated here with the real primitive (SHA-256 and the
// Propeller tags) and compared with what juno returned. This file is the trusted "term evaluator".

type hash = [32]byte

func leafHash(d []byte) hash {
	return sha256.Sum256([]byte("<leaf>" + string(d) + "</leaf>"))
}

func nodeHash(l, r hash) hash {
	return sha256.Sum256([]byte("<node><left>" + string(l[:]) + "</left><right>" + string(r[:]) + "</right></node>"))
}

// termTable remembers which term a 32-byte value is the evaluation of, so that hashes coming from
// the real code can be handed to the model as terms (unknown values become raw atoms R<hex>).
type termTable struct {
	mu sync.Mutex
	m  map[hash]string
}

func newTermTable() *termTable { return &termTable{m: map[hash]string{}} }

func (t *termTable) termOf(h hash) string {
	t.mu.Lock()
	defer t.mu.Unlock()
	if s, ok := t.m[h]; ok {
		return s
	}
	return "R" + hex.EncodeToString(h[:])
}

func (t *termTable) put(h hash, term string) {
	t.mu.Lock()
	if old, ok := t.m[h]; !ok || len(term) < len(old) {
		t.m[h] = term
	}
	t.mu.Unlock()
}

func hx(b []byte) string {
	if len(b) == 0 {
		return "-"
	}
	return hex.EncodeToString(b)
}

func unhx(s string) ([]byte, error) {
	if s == "-" || s == "." {
		return []byte{}, nil
	}
	return hex.DecodeString(s)
}

// hexList renders a list of byte strings as one token: "-" empty list, "." empty element.
func hexList(l [][]byte) string {
	if len(l) == 0 {
		return "-"
	}
	parts := make([]string, len(l))
	for i, b := range l {
		if len(b) == 0 {
			parts[i] = "."
		} else {
			parts[i] = hex.EncodeToString(b)
		}
	}
	return strings.Join(parts, ",")
}

func parseHexList(s string) ([][]byte, error) {
	if s == "-" {
		return nil, nil
	}
	var out [][]byte
	for _, p := range strings.Split(s, ",") {
		b, err := unhx(p)
		if err != nil {
			return nil, err
		}
		out = append(out, b)
	}
	return out, nil
}

// evalTerm parses and evaluates one term, recording every subterm in the table.
func (t *termTable) evalTerm(s string) (hash, error) {
	h, rest, err := t.eval(s)
	if err != nil {
		return hash{}, err
	}
	if rest != "" {
		return hash{}, fmt.Errorf("trailing %q in term", rest)
	}
	return h, nil
}

func hexPrefix(s string) (string, string) {
	i := 0
	for i < len(s) && (s[i] == '-' || (s[i] >= '0' && s[i] <= '9') || (s[i] >= 'a' && s[i] <= 'f')) {
		i++
	}
	return s[:i], s[i:]
}

func (t *termTable) eval(s string) (hash, string, error) {
	if s == "" {
		return hash{}, "", fmt.Errorf("empty term")
	}
	switch s[0] {
	case 'L':
		hs, rest := hexPrefix(s[1:])
		d, err := unhx(hs)
		if err != nil {
			return hash{}, "", err
		}
		h := leafHash(d)
		t.put(h, "L"+hs)
		return h, rest, nil
	case 'R':
		hs, rest := hexPrefix(s[1:])
		d, err := unhx(hs)
		if err != nil || len(d) != 32 {
			return hash{}, "", fmt.Errorf("bad raw atom %q", hs)
		}
		var h hash
		copy(h[:], d)
		return h, rest, nil
	case 'N':
		if len(s) < 2 || s[1] != '(' {
			return hash{}, "", fmt.Errorf("bad node term")
		}
		l, rest, err := t.eval(s[2:])
		if err != nil {
			return hash{}, "", err
		}
		if rest == "" || rest[0] != ',' {
			return hash{}, "", fmt.Errorf("expected ','")
		}
		r, rest2, err := t.eval(rest[1:])
		if err != nil {
			return hash{}, "", err
		}
		if rest2 == "" || rest2[0] != ')' {
			return hash{}, "", fmt.Errorf("expected ')'")
		}
		h := nodeHash(l, r)
		t.put(h, s[:len(s)-len(rest2)+1])
		return h, rest2[1:], nil
	}
	return hash{}, "", fmt.Errorf("bad term %q", s)
}

// evalTermList evaluates "t;t;…" ("-" = empty).
func (t *termTable) evalTermList(s string) ([]hash, error) {
	if s == "-" {
		return nil, nil
	}
	var out []hash
	for _, p := range strings.Split(s, ";") {
		h, err := t.evalTerm(p)
		if err != nil {
			return nil, err
		}
		out = append(out, h)
	}
	return out, nil
}

func (t *termTable) termList(hs []hash) string {
	if len(hs) == 0 {
		return "-"
	}
	parts := make([]string, len(hs))
	for i, h := range hs {
		parts[i] = t.termOf(h)
	}
	return strings.Join(parts, ";")
}
