//go:build verif

package main

import (
	"reflect"
	"unsafe"

	"github.com/NethermindEth/juno/consensus/propeller"
)

// extractBroadcast reads the unexported fields of *propeller.broadcastUnit{unit *Unit; peers []peer.ID}
// (the event a subprocessor emits when it forwards its shard). Read-only.
func extractBroadcast(ev propeller.Event) (*propeller.Unit, int) {
	u, n, _ := extractBroadcastPeers(ev)
	return u, n
}

// extractBroadcastPeers additionally returns the recipients (peer ids as strings, in the shuffled
// order of the event; reflect's String() on a string-kinded value returns its content).
func extractBroadcastPeers(ev propeller.Event) (*propeller.Unit, int, []string) {
	u, n := extractBroadcast0(ev)
	if u == nil {
		return nil, 0, nil
	}
	fp := reflect.ValueOf(ev).Elem().FieldByName("peers")
	out := make([]string, fp.Len())
	for i := range out {
		out[i] = fp.Index(i).String()
	}
	return u, n, out
}

func extractBroadcast0(ev propeller.Event) (*propeller.Unit, int) {
	v := reflect.ValueOf(ev)
	if v.Kind() != reflect.Pointer || v.IsNil() {
		return nil, 0
	}
	e := v.Elem()
	if e.Kind() != reflect.Struct {
		return nil, 0
	}
	fu, fp := e.FieldByName("unit"), e.FieldByName("peers")
	if !fu.IsValid() || !fp.IsValid() || !fu.CanAddr() {
		return nil, 0
	}
	up := reflect.NewAt(fu.Type(), unsafe.Pointer(fu.UnsafeAddr())).Elem().Interface()
	u, ok := up.(*propeller.Unit)
	if !ok || u == nil {
		return nil, 0
	}
	return u, fp.Len()
}
