//go:build verif

package main

import (
	"reflect"
	"unsafe"

	"github.com/NethermindEth/juno/consensus/propeller"
)

// extractBroadcast reads the unexported fields of *propeller.broadcastUnit{unit *Unit; peers []peer.ID}
// (the event a subprocessor emits when it forwards its shard). Read-only.
func extractBroadcast(ev propeller.Event) (*propeller.Unit, int) {
	v := reflect.ValueOf(ev)
	if v.Kind() != reflect.Pointer || v.IsNil() {
		return nil, 0
	}
	e := v.Elem()
	if e.Kind() != reflect.Struct {
		return nil, 0
	}
	fu, fp := e.FieldByName("unit"), e.FieldByName("peers")
	if !fu.IsValid() || !fp.IsValid() || !fu.CanAddr() {
		return nil, 0
	}
	up := reflect.NewAt(fu.Type(), unsafe.Pointer(fu.UnsafeAddr())).Elem().Interface()
	u, ok := up.(*propeller.Unit)
	if !ok || u == nil {
		return nil, 0
	}
	return u, fp.Len()
}
