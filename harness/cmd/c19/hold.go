//go:build verif

package main

// Round 6 — the HAND-OVER of a unit to its subprocessor, deterministic (ModelR6: offer / consume).
//
// ProcessMessage sends the unit into the channel of the message's subprocessor without blocking; what it
// answers depends on how many units wait there, i.e. on how fast the subprocessor is — a race everywhere
// else in this harness (deliver-once, burst: counts over 12 processors). Here the race is taken away: the
// child does not start Processor.Run and does not read the events channel, so a subprocessor that has to
// tell anybody anything — broadcastUnit's send of the local unit, the report of an invalid unit — BLOCKS,
// holding the unit it works on. Everything handed over after that meets a channel nobody receives from:
// the answers and the channel's occupancy after each hand-over are determined by the code alone, and are
// compared, step by step, with the model's `offer`; then Run is started, the events are read, the
// subprocessor works through its channel, and what it does is compared with the model's `consume`s.
//
// Oracles on the real code (no model): an honest unit handed over while fewer than NumTotalShards units
// wait in the channel must not be refused (the regression class of 5e563fa, with a failing input instead
// of a count; sig `processor-refuses-honest-unit-although-its-channel-has-room`); k distinct honest units taken => the local unit is broadcast, once, and is the publisher's.

import (
	"fmt"
	"strings"

	"github.com/NethermindEth/juno/consensus/propeller"
	"github.com/NethermindEth/juno/consensus/propeller/reedsolomon"
	"github.com/libp2p/go-libp2p/core/peer"
	"verif/harness/lib"
)

// unitTokens: the fields of a unit as the driver's pstep / poffer expect them (after the op name).
func unitTokens(h *hctx, u *propeller.Unit, sender peer.ID) (bits, rest string) {
	sigok, hasKey := false, false
	if pk, err := u.Publisher.ExtractPublicKey(); err == nil {
		hasKey = true
		if len(u.Signature) > 0 {
			good, e := pk.Verify(signPayload(hash(u.MessageRoot), u.CommitteeID, uint64(u.Nonce)), u.Signature)
			sigok = good && e == nil
		}
	}
	shards := make([][]byte, len(u.ShardData))
	for j, x := range u.ShardData {
		shards[j] = x
	}
	return b01(sigok) + b01(hasKey), fmt.Sprintf("%s %s %s %s %s %d %s %d %s", hx(u.CommitteeID[:]), hx([]byte(u.Publisher)),
		h.tt.termOf(hash(u.MessageRoot)), h.tt.termList(toHashes(u.MerkleProof.Siblings)), hx(u.Signature),
		uint32(u.ShardIndex), hexList(shards), uint64(u.Nonce), hx([]byte(sender)))
}

// answerCodec: a `need-rs` answer of the driver is answered with the real RecoverData.
func answerCodec(h *hctx, w *procWorld, ans string) string {
	if !strings.HasPrefix(ans, "need-rs ") {
		return ans
	}
	var in [][]byte
	for _, t := range strings.Split(strings.TrimPrefix(ans, "need-rs "), ",") {
		if t == "~" {
			in = append(in, nil)
		} else {
			b, _ := unhx(t)
			in = append(in, b)
		}
	}
	rs := "none"
	var out [][]byte
	if err, _, _ := lib.Try(func() error {
		var e error
		out, e = reedsolomon.RecoverData(in, w.k, w.c)
		return e
	}); err == nil && out != nil {
		rs = hexList(out)
	}
	return h.ask("prs " + rs)
}

type holdOffer struct {
	res                  string // nil | full | noroute:… | panic
	tasks, ptasks        uint64
	live, waiting        int
	bits                 string
	modelTaken, modelNew bool
}

// holdModel: the model's run of a Hold scenario. offers[i]: what `offer` answers to step i and the state
// after it; events: the units the model's subprocessor broadcasts, in order; final tasks / live.
func holdModel(h *hctx, sc *procScenario, w *procWorld, buffered bool) (offers []holdOffer, events []string, tasks uint64, live int, ok bool) {
	us := w.unitsOf(0)
	leaves := make([][]byte, len(us))
	for i := range us {
		leaves[i] = leafBytes(h, &us[i])
	}
	modelMerkle(h, leaves)
	preset := "preset " + h.cfg.String() + " " + h.pcfg.String() + " " + hx([]byte(w.local.id)) + " " + hexList(idList(w.ms))
	if a := h.ask(preset); a != "ok" {
		h.res.Mismatch(lib.Mismatch{Sig: "processor-preset", Model: a, Impl: "ok"})
		return
	}
	if a := h.ask("phc " + b01(buffered)); a != "ok" {
		h.res.Fatalf("driver answered %q to phc", a)
		return
	}
	key := w.keyTokens(h, 0)
	var queue []string // sig bits of the units waiting in the model's channel
	var lastN [5]int
	parse := func(ans string) (head string, n [5]int, good bool) {
		parts := strings.Split(ans, " | ")
		if len(parts) != 2 {
			return ans, n, false
		}
		if _, err := fmt.Sscanf(parts[1], "%d %d %d %d %d", &n[0], &n[1], &n[2], &n[3], &n[4]); err != nil {
			return ans, n, false
		}
		return parts[0], n, true
	}
	consume := func() (ended, any bool) {
		if len(queue) == 0 {
			return false, false
		}
		ans := answerCodec(h, w, h.ask("pconsume "+queue[0]+" "+key))
		if ans == "empty" {
			queue = nil
			return false, false
		}
		head, n, good := parse(ans)
		if !good {
			h.res.Fatalf("driver answered %q to pconsume", ans)
			return true, false
		}
		queue = queue[1:]
		tasks, live = uint64(n[0]), n[3]
		lastN = n
		f := strings.Fields(head)
		if len(f) == 4 && f[0] == "handled" {
			if f[1] != "-" {
				for _, u := range strings.Split(f[1], "+") {
					events = append(events, evalModelUnit(h, u))
				}
			}
			if f[3] != "none" {
				queue = nil // the subprocessor ended: its channel is gone
				return true, true
			}
		}
		if n[4] != len(queue) {
			h.res.Fatalf("hold: the harness' copy of the model's channel has %d units, the model %d", len(queue), n[4])
		}
		return false, true
	}
	for i, st := range sc.Steps {
		u, sender := w.stepUnit(st)
		bits, rest := unitTokens(h, u, sender)
		head, n, good := parse(h.ask("poffer " + bits + " " + rest))
		if !good {
			h.res.Fatalf("driver answered %q to poffer", head)
			return
		}
		o := holdOffer{res: head, tasks: uint64(n[0]), ptasks: uint64(n[1]), live: n[3], waiting: n[4], bits: bits}
		switch head {
		case "taken":
			o.res = "nil"
			queue = append(queue, bits)
		case "ignored":
			o.res = "nil"
		}
		tasks, live = o.tasks, o.live
		if i < sc.Hold && head == "taken" && !sc.Doomed {
			// the subprocessor receives the unit and deals with it (and blocks, if it has something to say)
			if _, any := consume(); any {
				o.tasks, o.ptasks, o.live = uint64(lastN[0]), uint64(lastN[1]), lastN[3]
			}
			o.waiting = len(queue)
		}
		offers = append(offers, o)
	}
	for {
		if _, any := consume(); !any {
			break
		}
	}
	return offers, events, tasks, live, true
}

func procHoldCase(h *hctx, sc *procScenario, pre *procRun) {
	h.guard("processor-harness", map[string]any{"kind": "processor", "scenario": sc}, func() { procHoldCase0(h, sc, pre) })
}

func procHoldCase0(h *hctx, sc *procScenario, pre *procRun) {
	rp := map[string]any{"kind": "processor", "scenario": sc}
	w, err := newProcWorld(sc)
	if err != nil {
		h.res.Fatalf("hold scenario: %v", err)
		return
	}
	var pr procRun
	if pre != nil {
		pr = *pre
	} else {
		pr = runProcChild(sc)
	}
	if pr.machinery != "" {
		h.res.Fatalf("processor child: %s", pr.machinery)
		return
	}
	total := w.k + w.c
	desc := fmt.Sprintf("n=%d (k=%d, %d shards) local=%d publisher=%d, Run and the events reader held back; steps [%s], the first %d one at a time, the others back to back",
		sc.N, w.k, total, sc.Local, sc.Pub, stepsString(sc.Steps), sc.Hold)
	h.res.Case(fmt.Sprintf("proc-hold/%d/%d/%d/%d/%s", sc.N, sc.Local, sc.Pub, sc.Hold, stepsString(sc.Steps)), true)
	if pr.crashed {
		h.violate("processor-goroutine-panics", desc+": the process dies: "+clip(firstPanicLines(pr.stderr)), rp)
		return
	}
	// the child's lines
	type obsT struct {
		res              string
		q0, q1, capacity int
		tasks, ptasks    uint64
		live             int
		seen             bool
	}
	obs := make([]obsT, len(sc.Steps))
	var implEvents []string
	var final *procLine
	for i := range pr.lines {
		l := pr.lines[i]
		switch {
		case l.Step == -1:
			final = &pr.lines[i]
		case l.Res == "events-of-previous":
			for _, e := range l.Events {
				implEvents = append(implEvents, e.Unit)
			}
		case l.Res == "stuck-hold":
			h.violate("processor-stuck", desc+fmt.Sprintf(": the unit of step %d was never received by its subprocessor", l.Step), rp)
			return
		case l.Step >= 0 && l.Step < len(obs) && l.Q0 != nil && l.Q1 != nil && l.Cap != nil && l.Tasks != nil && l.PTasks != nil && l.LiveN != nil:
			obs[l.Step] = obsT{l.Res, *l.Q0, *l.Q1, *l.Cap, *l.Tasks, *l.PTasks, *l.LiveN, true}
		}
	}
	for i := range obs {
		if !obs[i].seen {
			h.res.Fatalf("hold scenario: no observation for step %d (%s)", i, clip(pr.stdout))
			return
		}
	}
	if final == nil || final.Res == "stuck" {
		h.violate("processor-stuck", desc+": after Run was started and the events were read the subprocessor did not get through its channel", rp)
		return
	}
	// --- oracle (no model): an honest unit that finds fewer than NumTotalShards units waiting is not refused
	isHonest := func(st procStepT) bool { return st.Corrupt == "" && st.Sender == "legit" && st.M == 0 }
	capacity := -1
	for i, st := range sc.Steps {
		if obs[i].capacity >= 0 {
			capacity = obs[i].capacity
		}
		h.res.Hit("hold:answer:" + strings.SplitN(obs[i].res, ":", 3)[0])
		if i >= sc.Hold {
			h.res.Hit(fmt.Sprintf("hold:waiting-before-offer=%s", map[bool]string{true: "total-or-more", false: "<total"}[obs[i].q0 >= total]))
		}
		if obs[i].res == "full" && isHonest(st) && obs[i].q0 < total {
			// (a sig of its own: the burst family reports the same defect as a COUNT over 12 processors under
			// `processor-drops-units-handed-over-while-the-subprocessor-is-busy`; this is the single failing input)
			h.violate("processor-refuses-honest-unit-although-its-channel-has-room",
				desc+fmt.Sprintf(": step %d, an honest unit (shard %d) handed over once while its subprocessor was busy and %d unit(s) waited in its channel (a message has %d shards), was refused with 'dropping shard, processor channel full' (capacity of the channel: %d) and is gone",
					i, st.Unit%total, obs[i].q0, total, obs[i].capacity), rp)
			break
		}
	}
	// --- oracle (no model): k distinct honest units taken (the first unit honest) => exactly one broadcast of
	// the publisher's local unit
	taken := map[int]bool{}
	for i, st := range sc.Steps {
		if isHonest(st) && obs[i].res == "nil" {
			taken[st.Unit%total] = true
		}
	}
	honestLocal := renderUnit(&w.units[w.localIdx])
	nLocal := 0
	for _, e := range implEvents {
		if e == honestLocal {
			nLocal++
		} else {
			h.violate("processor-broadcasts-a-unit-that-is-not-the-publishers", desc+": broadcast "+clip(e), rp)
		}
	}
	if len(sc.Steps) > 0 && isHonest(sc.Steps[0]) && len(taken) >= w.k && nLocal == 0 {
		h.violate("processor-never-broadcasts-local-unit-although-threshold-reached",
			desc+fmt.Sprintf(": ProcessMessage answered nil to %d distinct honest units (threshold %d), the local unit was never broadcast", len(taken), w.k), rp)
	}
	if nLocal > 1 {
		h.violate("processor-broadcasts-local-unit-twice", desc+fmt.Sprintf(": %d broadcasts", nLocal), rp)
	}
	if final.Tasks != nil && final.Live != nil && *final.Live >= 0 && *final.Tasks != uint64(*final.Live) {
		h.violate("processor-task-counters-do-not-match-live-subprocessors", desc+fmt.Sprintf(": tasks=%d live=%d after everything settled", *final.Tasks, *final.Live), rp)
	}
	if sc.Doomed {
		h.res.HitN("hold-doomed(measurement):honest-units-answered-nil-behind-an-ended-subprocessor", len(taken))
		h.res.HitN("hold-doomed(measurement):broadcasts-after-release", len(implEvents))
	}
	// --- the model
	if h.driverBroken || h.drv == nil {
		return
	}
	h.res.Hit(fmt.Sprintf("hold:channel-capacity=%s", map[bool]string{true: "NumTotalShards", false: "other"}[capacity == total]))
	offers, events, _, _, ok := holdModel(h, sc, w, capacity > 0)
	if !ok || len(offers) != len(sc.Steps) {
		return
	}
	for i := range sc.Steps {
		impl := obs[i].res
		if strings.HasPrefix(impl, "err:route") {
			impl = "noroute" + strings.TrimPrefix(impl, "err:route")
		}
		mod := offers[i].res
		if strings.Contains(mod, "+") {
			for _, part := range strings.Split(strings.TrimPrefix(mod, "noroute:"), "+") {
				if impl == "noroute:"+part {
					mod = impl
				}
			}
		}
		h.res.Compared(3)
		if mod != impl {
			h.res.Mismatch(lib.Mismatch{Sig: "processor-handover-answer", Input: map[string]any{"scenario": sc, "step": i}, Model: clip(mod), Impl: clip(impl)})
			return
		}
		if sc.Doomed {
			// the real subprocessor has RECEIVED the unit that ends it (it waits for Run); the model's atomic
			// `consume` has not happened yet: that one unit still counts as waiting in the model
			offers[i].waiting--
		}
		if offers[i].waiting != obs[i].q1 {
			h.res.Mismatch(lib.Mismatch{Sig: "processor-handover-channel-occupancy", Input: map[string]any{"scenario": sc, "step": i},
				Model: fmt.Sprintf("%d units wait in the channel", offers[i].waiting), Impl: fmt.Sprintf("%d (capacity %d)", obs[i].q1, obs[i].capacity)})
			return
		}
		if offers[i].tasks != obs[i].tasks || offers[i].ptasks != obs[i].ptasks || offers[i].live != obs[i].live {
			h.res.Mismatch(lib.Mismatch{Sig: "processor-handover-counters", Input: map[string]any{"scenario": sc, "step": i},
				Model: fmt.Sprintf("tasks=%d publisherTasks=%d live=%d", offers[i].tasks, offers[i].ptasks, offers[i].live),
				Impl:  fmt.Sprintf("tasks=%d publisherTasks=%d live=%d", obs[i].tasks, obs[i].ptasks, obs[i].live)})
			return
		}
	}
	h.res.Compared(1)
	if strings.Join(events, "+") != strings.Join(implEvents, "+") {
		h.res.Mismatch(lib.Mismatch{Sig: "processor-handover-broadcasts", Input: map[string]any{"scenario": sc},
			Model: clip(strings.Join(events, "+")), Impl: clip(strings.Join(implEvents, "+"))})
	}
}

// procHold: the scenarios. The unit that blocks the subprocessor is (a) the local unit (broadcastUnit's
// send), for every committee size; (b) an invalid unit after a stored honest one (the report to Run), k >= 2.
// Behind it: honest units in several orders, duplicates and forged units of the same key, up to three more
// than the channel can hold.
func procHold(h *hctx, mk func(n, local, pub, msgLen int, steps []procStepT) *procScenario, r *lib.RNG) {
	var scs []*procScenario
	keyKeeping := []string{"shard-flip", "proof-flip", "sig-flip", "index-oob", "index-next"}
	// (committees of 2 and 3 are left out: there the receive threshold equals the build threshold, the local
	// unit ENDS its subprocessor in the very step that blocks it — the model's `consume` is atomic, it has no
	// state "blocked in the step that will end it")
	ns := []int{4, 5, 6, 7, 8, 10}
	if h.f.Thorough() {
		ns = append(ns, 13, 16, 31)
	}
	for ni, n := range ns {
		total := n - 1
		k := max(1, (n-1)/3)
		for v := 0; v < 3; v++ {
			local, pub := (ni+v)%n, (ni+v+1+v%2)%n
			if local == pub {
				pub = (pub + 1) % n
			}
			w, err := newProcWorld(mk(n, local, pub, 30+v, nil))
			if err != nil {
				h.res.Fatalf("hold world: %v", err)
				return
			}
			li := w.localIdx
			var others []int
			for i := 0; i < total; i++ {
				if i != li {
					others = append(others, (i+v*2)%total)
				}
			}
			// (a) the local unit first; then the other honest units once each (rotated), then extras past the
			// capacity: duplicates and forged ones
			var steps []procStepT
			steps = append(steps, procStepT{Unit: li, Sender: "legit"})
			for _, i := range others {
				if i != li {
					steps = append(steps, procStepT{Unit: i, Sender: "legit"})
				}
			}
			for x := 0; len(steps) < 1+total+3; x++ {
				st := procStepT{Unit: (li + 1 + x) % total, Sender: "legit"}
				if x%2 == 1 {
					st.Corrupt = keyKeeping[(x+v+ni)%len(keyKeeping)]
				}
				steps = append(steps, st)
			}
			sc := mk(n, local, pub, 30+v, steps)
			sc.Hold = 1
			scs = append(scs, sc)
			// (a') the same with forged units mixed in BEFORE the honest ones (they take room in the channel)
			if v == 1 {
				var st2 []procStepT
				st2 = append(st2, procStepT{Unit: li, Sender: "legit"})
				for j, i := range others {
					if j%2 == 0 {
						st2 = append(st2, procStepT{Unit: i, Corrupt: keyKeeping[(j+ni)%len(keyKeeping)], Sender: "legit"})
					}
					st2 = append(st2, procStepT{Unit: i, Sender: []string{"legit", "legit", "other"}[(j+v)%3]})
				}
				sc2 := mk(n, local, pub, 31, st2)
				sc2.Hold = 1
				scs = append(scs, sc2)
			}
			// (b) an honest unit is stored, an invalid one blocks the subprocessor on its report to Run
			if k >= 2 {
				a := others[0]
				st3 := []procStepT{{Unit: a, Sender: "legit"}, {Unit: a, Corrupt: keyKeeping[(v+ni)%len(keyKeeping)], Sender: "legit"}}
				perm := make([]int, total)
				for i := range perm {
					perm[i] = i
				}
				for i := total - 1; i > 0; i-- {
					j := r.Intn(i + 1)
					perm[i], perm[j] = perm[j], perm[i]
				}
				for _, i := range perm {
					if i != a {
						st3 = append(st3, procStepT{Unit: i, Sender: "legit"})
					}
				}
				for x := 0; len(st3) < 2+total+2; x++ {
					st3 = append(st3, procStepT{Unit: perm[x%total], Sender: "legit"})
				}
				sc3 := mk(n, local, pub, 32+v, st3)
				sc3.Hold = 2
				scs = append(scs, sc3)
			}
		}
	}
	// (c) the FIRST unit is invalid: its subprocessor ends and (Run held back) stays registered; honest units
	// handed over now are answered nil, wait in the channel of a subprocessor that will never look at them, and
	// are lost when Run forgets it (ModelR6 `consume`: the channel goes with the subprocessor;
	// `units_behind_an_ended_subprocessor_are_lost`). In the running node this window is as long as Run takes to
	// be scheduled; here it is held open. No oracle — the model comparison and a count in the distribution.
	for ci, n := range []int{4, 7, 10} {
		total := n - 1
		steps := []procStepT{{Unit: ci % total, Corrupt: keyKeeping[ci%len(keyKeeping)], Sender: "legit"}}
		for i := 0; i < total-1; i++ {
			steps = append(steps, procStepT{Unit: (i + ci) % total, Sender: "legit"})
		}
		sc := mk(n, ci%n, (ci+1)%n, 40+ci, steps)
		sc.Hold, sc.Doomed = 1, true
		scs = append(scs, sc)
	}
	runs := runProcChildren(scs)
	for i, sc := range scs {
		procHoldCase(h, sc, &runs[i])
	}
}
