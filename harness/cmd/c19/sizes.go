//go:build verif

package main

// Section "sizes": every size-dependent function on the property's paths is run over a DENSE range
// of sizes (every leaf length, every message length up to ~700, windows of ±16 around powers of two
// and typical buffer sizes up to 64 KiB) and compared with an INDEPENDENT implementation of the
// protocol definition written here (streaming SHA-256 over tag ‖ data ‖ tag, a recursive Merkle
// tree, hand-made protobuf bytes, a hand-made varint), and with the Lean model.
//
// Why: a change that is wrong only in a narrow window of lengths (a fixed scratch buffer whose
// bound forgets the 13 bytes of tags, a fast path for "short" inputs, a one-byte length prefix
// assumed) keeps every honest round trip self-consistent — publisher, validator and reconstruction
// share the function — and was invisible to generators that drew leaves of ≤ 6 bytes and shards of
// ≤ 300 bytes with ONE random flipped byte. What breaks is (a) the value is no longer the protocol's,
// (b) a unit whose shard bytes were altered at a position the broken function does not look at
// keeps a valid proof and is accepted, (c) with one data shard the message is rebuilt from it.
// So: equality with the independent implementation at every size, and tampering at every position
// CLASS (first, middle, last, last−k for k up to 16, cut, extended) at every size.

import (
	"bytes"
	"crypto/sha256"
	"fmt"
	"math/bits"
	"os"
	"strconv"
	"time"

	"github.com/NethermindEth/juno/consensus/propeller"
	"github.com/NethermindEth/juno/consensus/propeller/merkle"
	"github.com/NethermindEth/juno/consensus/propeller/reedsolomon"
	pb "github.com/NethermindEth/juno/consensus/propeller/proto"
	"google.golang.org/protobuf/proto"
	"verif/harness/lib"
)

// ---------------------------------------------------------------------------------------------
// the protocol definitions, written independently of juno (and of terms.go: streaming hash)

func refLeafHash(d []byte) hash {
	s := sha256.New()
	s.Write([]byte("<leaf>"))
	s.Write(d)
	s.Write([]byte("</leaf>"))
	var out hash
	copy(out[:], s.Sum(nil))
	return out
}

func refNodeHash(l, r hash) hash {
	s := sha256.New()
	s.Write([]byte("<node><left>"))
	s.Write(l[:])
	s.Write([]byte("</left><right>"))
	s.Write(r[:])
	s.Write([]byte("</right></node>"))
	var out hash
	copy(out[:], s.Sum(nil))
	return out
}

// refSubtree: hash of the complete subtree of `width` (a power of two) leaves starting at `lo`;
// positions ≥ len(leaves) are empty leaves.
func refSubtree(leaves [][]byte, lo, width int) hash {
	if width == 1 {
		if lo < len(leaves) {
			return refLeafHash(leaves[lo])
		}
		return refLeafHash(nil)
	}
	return refNodeHash(refSubtree(leaves, lo, width/2), refSubtree(leaves, lo+width/2, width/2))
}

// refMerkle: root and proofs of the tree over leaves padded to a power of two (at least 2),
// computed top-down (the code builds bottom-up).
func refMerkle(leaves [][]byte) (hash, [][]hash) {
	n := len(leaves)
	if n == 0 {
		return hash{}, nil
	}
	size := 2
	for size < n {
		size *= 2
	}
	root := refSubtree(leaves, 0, size)
	proofs := make([][]hash, n)
	for i := range proofs {
		// siblings from the leaf level up: at width w the sibling subtree starts at (i/w ^ 1) * w
		for w := 1; w < size; w *= 2 {
			proofs[i] = append(proofs[i], refSubtree(leaves, ((i/w)^1)*w, w))
		}
	}
	return root, proofs
}

func refVerify(proof []hash, root hash, leaf []byte, index uint32) bool {
	cur := refLeafHash(leaf)
	for _, s := range proof {
		if index&1 == 0 {
			cur = refNodeHash(cur, s)
		} else {
			cur = refNodeHash(s, cur)
		}
		index >>= 1
	}
	return cur == root
}

func refUvarint(x uint64) []byte {
	var out []byte
	for x >= 128 {
		out = append(out, byte(x&127)|128)
		x >>= 7
	}
	return append(out, byte(x))
}

func refLenDelimited(body []byte) []byte {
	out := append([]byte{0x0a}, refUvarint(uint64(len(body)))...)
	return append(out, body...)
}

// refShardLeaf: proto3 bytes of ShardsOfPeer{shards: [Shard{data: s}]} (an empty `data` is omitted).
func refShardLeaf(s []byte) []byte {
	if len(s) == 0 {
		return refLenDelimited(nil)
	}
	return refLenDelimited(refLenDelimited(s))
}

// refPad: [varint(len)] [msg] [zeros] up to the next multiple of 2k.
func refPad(msg []byte, k int) []byte {
	out := append(refUvarint(uint64(len(msg))), msg...)
	for len(out)%(2*k) != 0 {
		out = append(out, 0)
	}
	return out
}

// ---------------------------------------------------------------------------------------------

// sizeSweep: every size in 0..dense, then windows of ±w around each centre.
func sizeSweep(dense int, centres []int, w int) []int {
	seen := map[int]bool{}
	var out []int
	add := func(x int) {
		if x >= 0 && !seen[x] {
			seen[x] = true
			out = append(out, x)
		}
	}
	for i := 0; i <= dense; i++ {
		add(i)
	}
	for _, c := range centres {
		for d := -w; d <= w; d++ {
			add(c + d)
		}
	}
	return out
}

func sizeBucket(n int) string {
	switch {
	case n == 0:
		return "0"
	case n < 64:
		return "1-63"
	case n < 128:
		return "64-127"
	case n < 240:
		return "128-239"
	case n <= 272:
		return "240-272"
	case n < 512:
		return "273-511"
	case n <= 1040:
		return "512-1040"
	case n <= 4112:
		return "1041-4112"
	}
	return ">4112"
}

// tamperKinds: the position classes of one altered byte string. Each returns a changed copy (nil:
// not applicable at this length).
type tamperKind struct {
	name string
	f    func(b []byte, salt int) []byte
}

func flipAt(b []byte, pos, salt int) []byte {
	if pos < 0 || pos >= len(b) {
		return nil
	}
	c := append([]byte{}, b...)
	c[pos] ^= 1 << uint(salt%8)
	return c
}

func tamperKinds() []tamperKind {
	ks := []tamperKind{
		{"first", func(b []byte, s int) []byte { return flipAt(b, 0, s) }},
		{"middle", func(b []byte, s int) []byte { return flipAt(b, len(b)/2, s) }},
		{"quarter", func(b []byte, s int) []byte { return flipAt(b, len(b)/4, s+3) }},
	}
	for _, back := range []int{1, 2, 3, 4, 5, 6, 7, 8, 10, 12, 13, 14, 16, 20, 32} {
		back := back
		ks = append(ks, tamperKind{"last-" + strconv.Itoa(back-1), func(b []byte, s int) []byte { return flipAt(b, len(b)-back, s+back) }})
	}
	ks = append(ks,
		tamperKind{"cut-1", func(b []byte, _ int) []byte {
			if len(b) < 1 {
				return nil
			}
			return append([]byte{}, b[:len(b)-1]...)
		}},
		tamperKind{"cut-7", func(b []byte, _ int) []byte {
			if len(b) < 7 {
				return nil
			}
			return append([]byte{}, b[:len(b)-7]...)
		}},
		tamperKind{"extend-0", func(b []byte, _ int) []byte { return append(append([]byte{}, b...), 0) }},
		tamperKind{"extend-tail", func(b []byte, s int) []byte { return append(append([]byte{}, b...), byte(s), '<', '/', 'l') }},
		tamperKind{"tail-zeroed", func(b []byte, _ int) []byte {
			if len(b) < 9 {
				return nil
			}
			c := append([]byte{}, b...)
			same := true
			for i := len(c) - 9; i < len(c); i++ {
				if c[i] != 0 {
					same = false
				}
				c[i] = 0
			}
			if same {
				return nil
			}
			return c
		}},
	)
	return ks
}

// sizePattern: bytes without long runs (every position differs from what a truncation, a shift or
// a zero fill would put there).
func sizePattern(r *lib.RNG, n int) []byte {
	b := r.Bytes(n)
	for i := range b {
		if b[i] == 0 {
			b[i] = byte(1 + i%255)
		}
	}
	return b
}

// ---------------------------------------------------------------------------------------------
// (1) merkle leaf hash / root / proof / Verify at every leaf length

func sizeLeafCase(h *hctx, leaf []byte, withModel bool) {
	L := len(leaf)
	rp := map[string]any{"kind": "size-leaf", "leaf": hx(leaf)}
	h.res.Case("size-leaf/"+strconv.Itoa(L), L > 0)
	h.res.Hit("size:leaf-len=" + sizeBucket(L))
	// trees in which the leaf is alone, a left child, a right child, and next to padding
	trees := [][][]byte{{leaf}, {leaf, {1}}, {{2}, leaf}, {{3}, {4, 5}, leaf}, {leaf, leaf, leaf, leaf, leaf}}
	for ti, leaves := range trees {
		var root merkle.Hash
		var tree merkle.Tree
		err, panicked, _ := lib.Try(func() error { root, tree = merkle.New(leaves); return nil })
		if panicked || len(tree) != len(leaves) {
			h.violate("merkle-new-panics", fmt.Sprintf("merkle.New with a leaf of %d bytes: %v", L, err), rp)
			return
		}
		wroot, wproofs := refMerkle(leaves)
		same := hash(root) == wroot
		for i := range tree {
			if hashesHex(toHashes(tree[i].Siblings)) != hashesHex(wproofs[i]) {
				same = false
			}
		}
		if !same {
			h.violate("merkle-root-or-proof-differs-from-protocol-definition",
				fmt.Sprintf("merkle.New over %d leaves, one of %d bytes: root %x, but SHA256(\"<leaf>\"‖data‖\"</leaf>\") / the tagged node hash give %x "+
					"(the tree is not what any other implementation of the protocol computes or verifies)", len(leaves), L, root[:6], wroot[:6]), rp)
		}
		// completeness with the real verifier and with the independent one
		for i := range leaves {
			good, verr := realVerify(toHashes(tree[i].Siblings), hash(root), leaves[i], uint32(i))
			if verr != nil || !good || (same && !refVerify(toHashes(tree[i].Siblings), hash(root), leaves[i], uint32(i))) {
				h.violate("merkle-proof-of-honest-leaf-does-not-verify", fmt.Sprintf("leaf of %d bytes, tree %d, index %d (%v)", L, ti, i, verr), rp)
				return
			}
		}
		if ti == 0 && withModel {
			implTree := fmt.Sprintf("%x %s", root, hashesHex(toHashes(tree[0].Siblings)))
			h.later("merkle "+hexList(leaves), func(ans string) { // queued: no round trip per leaf
				toks := splitFields(ans)
				mod := "unevaluable: " + clip(ans)
				if len(toks) == 2 {
					mr, e1 := h.tt.evalTerm(toks[0])
					mp, e2 := h.tt.evalTermList(toks[1])
					if e1 == nil && e2 == nil {
						mod = fmt.Sprintf("%x %s", mr, hashesHex(mp))
					}
				}
				h.compare("size-merkle-new", L, mod, implTree)
			})
			// the bytes the MODEL's transcription of merkleLeafHash / merkleNodeHash assembles (buffer +
			// copy calls, ModelHash.lean), hashed here: the root of the one-leaf tree
			implRoot := fmt.Sprintf("%x", root)
			h.later("leafpre "+hx(leaf), func(ans string) {
				pre, err := unhx(ans)
				if err != nil || ans == "bad-op" {
					h.res.Fatalf("driver answered %.60q to leafpre", ans)
					return
				}
				lh := sha256.Sum256(pre)
				eh := sha256.Sum256([]byte("<leaf></leaf>"))
				h.later(fmt.Sprintf("nodepre %x %x", lh, eh), func(ans2 string) {
					pre2, err := unhx(ans2)
					if err != nil || ans2 == "bad-op" {
						h.res.Fatalf("driver answered %.60q to nodepre", ans2)
						return
					}
					h.compare("size-leaf-preimage", L, fmt.Sprintf("%x", sha256.Sum256(pre2)), implRoot)
				})
			})
		}
		if ti > 2 {
			continue
		}
		// soundness at every position class: an altered leaf never verifies against the root
		idx := 0
		if ti == 2 {
			idx = 1
		}
		proof := toHashes(tree[idx].Siblings)
		for ki, tk := range tamperKinds() {
			bad := tk.f(leaf, L+ki)
			if bad == nil || bytes.Equal(bad, leaf) {
				continue
			}
			good, verr := realVerify(proof, hash(root), bad, uint32(idx))
			if verr != nil {
				h.violate("merkle-verify-panics", fmt.Sprintf("Proof.Verify panics (leaf of %d bytes, %s): %v", L, tk.name, verr), rp)
				continue
			}
			h.res.Hit("size-leaf-tamper:" + tk.name)
			if good {
				h.violate("merkle-verifies-wrong-leaf",
					fmt.Sprintf("Proof.Verify accepts a leaf of %d bytes altered at %s (%d bytes now) against the root of the original tree", L, tk.name, len(bad)), rp)
				return
			}
		}
	}
}

// ---------------------------------------------------------------------------------------------
// (2) ShardData.MarshalProto (the leaf encoding) and the unit's wire form at every shard size

func sizeMarshalCase(h *hctx, shard []byte, withModel bool) {
	S := len(shard)
	h.res.Hit("size:shard-marshal=" + sizeBucket(S))
	var out []byte
	_, panicked, _ := lib.Try(func() error { out = propeller.ShardData{shard}.MarshalProto(); return nil })
	if panicked {
		h.violate("marshal-proto-panics", fmt.Sprintf("ShardData.MarshalProto of one shard of %d bytes", S), map[string]any{"kind": "marshal", "shards": hexList([][]byte{shard})})
		return
	}
	h.res.Compared(1)
	if want := refShardLeaf(shard); !bytes.Equal(out, want) {
		h.res.Mismatch(lib.Mismatch{Sig: "size-marshal-proto-vs-handmade-protobuf", Input: S, Model: clip(hx(want)), Impl: clip(hx(out))})
	}
	if withModel {
		h.check("size-marshal-proto", S, "marshal "+hexList([][]byte{shard}), hx(out), false)
	}
	// wire form: Unit -> ToProto -> bytes -> PropellerUnit -> UnitFromProto gives the unit back
	u := propeller.Unit{CommitteeID: propeller.CommitteeID{1, 2, byte(S)}, Publisher: "pub", MessageRoot: propeller.MessageRoot(refLeafHash(shard)),
		MerkleProof: merkle.Proof{Siblings: []merkle.Hash{merkle.Hash(refLeafHash(nil))}}, Signature: propeller.Signature{9, 8, 7},
		ShardIndex: propeller.ShardIndex(S % 5), ShardData: propeller.ShardData{append(propeller.Shard{}, shard...)}, Nonce: propeller.Nonce(S)}
	var back propeller.Unit
	err, panicked, _ := lib.Try(func() error {
		raw, e := proto.Marshal(u.ToProto())
		if e != nil {
			return e
		}
		var pu pb.PropellerUnit
		if e = proto.Unmarshal(raw, &pu); e != nil {
			return e
		}
		back, e = propeller.UnitFromProto(&pu)
		return e
	})
	if panicked || err != nil || unitOutcome(&back) != unitOutcome(&u) {
		h.violate("unit-proto-roundtrip-differs", fmt.Sprintf("UnitFromProto(wire(ToProto(unit with a shard of %d bytes))): panic=%v err=%v", S, panicked, err),
			map[string]any{"kind": "wire", "proto": hx(mustMarshal(u.ToProto())), "what": "honest"})
	}
	if withModel {
		wireCase(h, u.ToProto(), "size-honest")
	}
}

// ---------------------------------------------------------------------------------------------
// (3) EncodeData's split at every data length

func sizeSplitCase(h *hctx, k, p int, data []byte) {
	h.res.Hit(fmt.Sprintf("size:split-k=%d", min(k, 9)))
	rp := map[string]any{"kind": "rs", "k": k, "p": p, "data": hx(data), "rng": 1}
	var enc [][]byte
	err, panicked, _ := lib.Try(func() error {
		var e error
		enc, e = reedsolomon.EncodeData(append([]byte{}, data...), k, p)
		return e
	})
	if panicked || err != nil || len(enc) != k+p {
		h.violate("rs-encode-panics", fmt.Sprintf("EncodeData(len %d, %d, %d): panic=%v err=%v", len(data), k, p, panicked, err), rp)
		return
	}
	h.check("size-rs-split", map[string]any{"k": k, "p": p, "len": len(data)}, fmt.Sprintf("split %d %d %s", k, p, hx(data)), "ok "+hexList(enc[:k]), true)
	flat := bytes.Join(enc[:k], nil)
	if len(flat) < len(data) || !bytes.Equal(flat[:len(data)], data) || len(bytes.Trim(flat[len(data):], "\x00")) != 0 {
		h.violate("rs-encode-not-systematic", fmt.Sprintf("EncodeData(len %d, %d, %d): data shards are not the data", len(data), k, p), rp)
	}
	per := (len(data) + k - 1) / k
	if k+p > 256 {
		per = (per + 63) / 64 * 64
	}
	for _, s := range enc {
		if len(s) != per {
			h.violate("rs-shard-sizes-differ", fmt.Sprintf("EncodeData(len %d, %d, %d): a shard of %d bytes, expected %d", len(data), k, p, len(s), per), rp)
			return
		}
	}
	// one shard missing (which one varies with the length; the last): recovered bit for bit
	for _, miss := range []int{len(data) % (k + p), k + p - 1} {
		if p == 0 {
			break
		}
		in := cloneShards(enc)
		in[miss] = nil
		out, rerr, pan := recoverImpl(in, k, p)
		if pan || rerr != nil || !equalShards(out, enc) {
			h.violate("rs-mds-law-broken", fmt.Sprintf("RecoverData(k=%d,p=%d,len %d) without shard %d: %v", k, p, len(data), miss, rerr), rp)
			return
		}
	}
}

// ---------------------------------------------------------------------------------------------
// (4) the whole path at every message length: create -> validate -> construct, honest and tampered

type sizeWorld struct {
	n          int
	ms         []member
	local, pub member
	sched      *propeller.Scheduler
	k, p       int
}

func newSizeWorld(n int) (*sizeWorld, error) {
	ms := makeCommittee(n, uint64(700+n))
	w := &sizeWorld{n: n, ms: ms, local: ms[0], pub: ms[1]}
	s, err := propeller.NewScheduler(w.local.id, peerCommittee(ms))
	if err != nil {
		return nil, err
	}
	w.sched, w.k, w.p = s, s.NumDataShards(), s.NumCodingShards()
	return w, nil
}

// validateFresh: the verdict of a NEW validator (nothing cached) on one unit from the sender the
// scheduler designates for the unit's index.
func (w *sizeWorld) validateFresh(u *propeller.Unit) (verdict string) {
	sender, ok := legitSender(w.sched, w.local.id, w.pub.id, int(u.ShardIndex))
	if !ok {
		return "err:no-sender"
	}
	var verr error
	err, panicked, _ := lib.Try(func() error {
		v := propeller.NewValidator(w.pub.id, w.sched)
		verr = v.Validate(u, sender)
		return nil
	})
	if panicked {
		return "panic:" + err.Error()
	}
	return classify(verr, validateErrs)
}

type sizeOpts struct {
	model  bool // compare creation (root, shards, proofs as terms) and a tampered Verify with the Lean model
	tamper int  // number of units whose shard is tampered (0: honest part only)
}

func sizeE2ECase(h *hctx, w *sizeWorld, msg []byte, nonce uint64, o sizeOpts) {
	h.guard("sizes", map[string]any{"kind": "size-e2e", "n": w.n, "msg": hx(msg), "nonce": strconv.FormatUint(nonce, 10)},
		func() { sizeE2ECase0(h, w, msg, nonce, o) })
}

func sizeE2ECase0(h *hctx, w *sizeWorld, msg []byte, nonce uint64, o sizeOpts) {
	k, p, total := w.k, w.p, w.k+w.p
	rp := func(extra map[string]any) map[string]any {
		m := map[string]any{"kind": "size-e2e", "n": w.n, "msg": hx(msg), "nonce": strconv.FormatUint(nonce, 10)}
		for a, b := range extra {
			m[a] = b
		}
		return m
	}
	h.res.Case(fmt.Sprintf("size-e2e/%d/%d", w.n, len(msg)), len(msg) > 0)
	cid := propeller.CommitteeID{0xc1, byte(w.n), byte(len(msg)), byte(len(msg) >> 8)}
	var units []propeller.Unit
	err, panicked, _ := lib.Try(func() error {
		var e error
		units, e = propeller.CreatePropellerUnits(w.pub.priv, &cid, propeller.Nonce(nonce), append([]byte{}, msg...), k, p)
		return e
	})
	if panicked || err != nil || len(units) != total {
		h.violate("create-units-fails", fmt.Sprintf("CreatePropellerUnits(len %d, k=%d, p=%d): panic=%v err=%v units=%d", len(msg), k, p, panicked, err, len(units)), rp(nil))
		return
	}
	enc := make([][]byte, total)
	for i := range units {
		if len(units[i].ShardData) != 1 || int(units[i].ShardIndex) != i {
			h.violate("created-unit-fields-inconsistent", fmt.Sprintf("unit %d of CreatePropellerUnits(len %d,k=%d,p=%d)", i, len(msg), k, p), rp(nil))
			return
		}
		enc[i] = units[i].ShardData[0]
	}
	S := len(enc[0])
	h.res.Hit("size:shard-size=" + sizeBucket(S))
	h.res.Hit(fmt.Sprintf("size:e2e-n=%d", w.n))

	// (a) the protocol definition, independently: the data shards are the padded message cut in k,
	// every leaf is the protobuf of its shard, root and proofs are the tagged SHA-256 tree
	padded := refPad(msg, k)
	if flat := bytes.Join(enc[:k], nil); !bytes.Equal(flat, padded) {
		h.violate("created-data-shards-are-not-the-padded-message", fmt.Sprintf("CreatePropellerUnits(len %d,k=%d,p=%d): %d shard bytes, padded message has %d", len(msg), k, p, len(flat), len(padded)), rp(nil))
		return
	}
	leaves := make([][]byte, total)
	for i := range enc {
		if len(enc[i]) != S {
			h.violate("rs-shard-sizes-differ", fmt.Sprintf("CreatePropellerUnits(len %d,k=%d,p=%d): shard %d has %d bytes, shard 0 %d", len(msg), k, p, i, len(enc[i]), S), rp(nil))
			return
		}
		leaves[i] = refShardLeaf(enc[i])
	}
	wroot, wproofs := refMerkle(leaves)
	for i := range units {
		if hash(units[i].MessageRoot) != wroot || hashesHex(toHashes(units[i].MerkleProof.Siblings)) != hashesHex(wproofs[i]) ||
			!refVerify(toHashes(units[i].MerkleProof.Siblings), hash(units[i].MessageRoot), leaves[i], uint32(i)) {
			h.violate("created-unit-root-or-proof-differs-from-protocol-definition",
				fmt.Sprintf("CreatePropellerUnits(len %d, k=%d, p=%d), unit %d (shard of %d bytes, leaf of %d): signed root %x, the protocol's tree over the same shards has %x — "+
					"the proof does not verify under SHA256(\"<leaf>\"‖leaf‖\"</leaf>\")", len(msg), k, p, i, S, len(leaves[i]), units[i].MessageRoot[:6], wroot[:6]), rp(map[string]any{"unit": i}))
			break
		}
	}
	if e := propeller.VerifyMessageSignature(w.pub.pub, &units[0].MessageRoot, &cid, propeller.Nonce(nonce), units[0].Signature); e != nil {
		h.violate("created-unit-signature-invalid", fmt.Sprintf("len %d: %v", len(msg), e), rp(nil))
	}
	if o.model {
		// what is signed: the MODEL's buildSignPayload bytes for (root, committee, nonce), signed here
		// with the publisher's key (Ed25519 is deterministic), must be the units' signature
		wantSig := fmt.Sprintf("%x", []byte(units[0].Signature))
		priv := w.pub.priv
		h.later(fmt.Sprintf("sigpayload %x %x %d", wroot, cid, nonce), func(ans string) {
			pl, err := unhx(ans)
			if err != nil || ans == "bad-op" {
				h.res.Fatalf("driver answered %.60q to sigpayload", ans)
				return
			}
			sig, _ := priv.Sign(pl)
			h.compare("size-sign-payload", rp(nil), fmt.Sprintf("%x", sig), wantSig)
		})
		line := fmt.Sprintf("create %s %d %d %d %s %s %s %s", h.cfg, k, p, nonce, hx(cid[:]), hx([]byte(w.pub.id)), hx(msg), hexList(enc[k:]))
		implS := fmt.Sprintf("ok %x %d %s", wroot, uint64(units[0].Nonce), hexList(enc))
		for i := range units {
			implS += " " + hashesHex(toHashes(units[i].MerkleProof.Siblings))
		}
		h.later(line, func(ans string) {
			modS := ans
			if f := splitFields(ans); len(f) == 4+total && f[0] == "ok" {
				mr, e1 := h.tt.evalTerm(f[1])
				modS = fmt.Sprintf("ok %x %s %s", mr, f[2], f[3])
				for _, t := range f[4:] {
					pr, e2 := h.tt.evalTermList(t)
					if e2 != nil {
						e1 = e2
					}
					modS += " " + hashesHex(pr)
				}
				if e1 != nil {
					modS = "unevaluable: " + clip(ans)
				}
			}
			h.res.Compared(1)
			if modS != implS {
				h.res.Mismatch(lib.Mismatch{Sig: "size-create", Input: rp(nil), Model: clip(modS), Impl: clip(implS)})
			}
		})
	}

	// honest: every unit is accepted by a fresh validator; every structured subset rebuilds msg
	for i := range units {
		if v := w.validateFresh(cloneUnit(&units[i])); v != "ok" {
			h.violate("validator-rejects-honest-created-unit-at-this-size",
				fmt.Sprintf("UnitValidator.Validate rejects unit %d of CreatePropellerUnits(len %d, k=%d, p=%d; shard of %d bytes): %s", i, len(msg), k, p, S, v), rp(map[string]any{"unit": i}))
			return
		}
	}
	var masks []pmask
	if total <= 3 {
		for b := uint64(0); b < 1<<uint(total); b++ {
			masks = append(masks, maskOf(total, b))
		}
	} else {
		all := maskOf(total, 1<<uint(total)-1)
		masks = append(masks, all)
		for _, lo := range []int{0, 1, total - k} { // the data shards; k shards without shard 0; the last k
			m := make(pmask, total)
			for i := lo; i < lo+k && i < total; i++ {
				m[i] = true
			}
			masks = append(masks, m)
		}
		m := make(pmask, total) // k−1 shards
		for i := 0; i < k-1; i++ {
			m[total-1-i] = true
		}
		masks = append(masks, m)
	}
	for _, mask := range masks {
		ptrs := make([]*propeller.Unit, total)
		for i := range units {
			if mask[i] {
				ptrs[i] = cloneUnit(&units[i])
			}
		}
		local := (len(msg) + mask.count()) % total
		out, got, cerr := constructOutcome(h, ptrs, local, k, p)
		rpm := rp(map[string]any{"present_mask": mask.String(), "local": local})
		switch {
		case out == "panic":
			h.violate("construct-panics", fmt.Sprintf("ConstructMessageFromUnits(len %d,k=%d,p=%d) with units %s: %v", len(msg), k, p, mask, cerr), rpm)
		case mask.count() >= k && cerr != nil:
			h.violate("construct-fails-with-enough-shards", fmt.Sprintf("ConstructMessageFromUnits(len %d,k=%d,p=%d) with units %s: %v", len(msg), k, p, mask, cerr), rpm)
		case mask.count() >= k && !bytes.Equal(got, msg):
			h.violate("construct-returns-different-message", fmt.Sprintf("ConstructMessageFromUnits(len %d,k=%d,p=%d) with units %s: %x != %x", len(msg), k, p, mask, clipB(got), clipB(msg)), rpm)
		case mask.count() < k && cerr == nil:
			h.violate("construct-succeeds-below-threshold", fmt.Sprintf("ConstructMessageFromUnits(len %d,k=%d,p=%d) with units %s", len(msg), k, p, mask), rpm)
		case mask.count() >= k:
			want := "ok " + hx(msg) + " " + hexItemGo(enc[local]) + " " + hashesHex(wproofs[local])
			if out != want {
				h.violate("construct-local-shard-or-proof-differs", fmt.Sprintf("ConstructMessageFromUnits(len %d,k=%d,p=%d,local=%d) with units %s", len(msg), k, p, local, mask), rpm)
			}
		}
	}

	// tampered shard bytes at every position class
	var victims []int
	for _, i := range []int{0, total - 1, k - 1, k} {
		if i >= 0 && i < total && len(victims) < o.tamper {
			dup := false
			for _, v := range victims {
				dup = dup || v == i
			}
			if !dup {
				victims = append(victims, i)
			}
		}
	}
	for _, i := range victims {
		for ki, tk := range tamperKinds() {
			bad := tk.f(enc[i], len(msg)+ki+i)
			if bad == nil || bytes.Equal(bad, enc[i]) {
				continue
			}
			u := cloneUnit(&units[i])
			u.ShardData[0] = bad
			rpc := rp(map[string]any{"unit": i, "tamper": tk.name})
			// (b) the validator
			v := w.validateFresh(cloneUnit(u))
			h.res.Hit("size-tamper:" + tk.name + ":" + outcomeTag(v))
			switch {
			case len(v) >= 5 && v[:5] == "panic":
				h.violate("validator-panics-on-corrupted-unit-shard-"+tk.name, fmt.Sprintf("len %d, unit %d: %s", len(msg), i, v), rpc)
			case v == "ok":
				h.violate("validator-accepts-unit-with-altered-shard-bytes",
					fmt.Sprintf("UnitValidator.Validate accepts unit %d of a %d-byte message (n=%d, k=%d, p=%d) whose shard of %d bytes was altered at %s: its Merkle proof still verifies",
						i, len(msg), w.n, k, p, S, tk.name), rpc)
			}
			if o.model && i == victims[0] && (tk.name == "last-0" || tk.name == "last-11" || tk.name == "cut-1") {
				leaf := propeller.ShardData{bad}.MarshalProto()
				rt := merkle.Hash(u.MessageRoot)
				good := u.MerkleProof.Verify(&rt, leaf, uint32(i))
				h.check("size-verify-tampered", rpc,
					"verify "+h.tt.termList(toHashes(u.MerkleProof.Siblings))+" "+h.tt.termOf(hash(rt))+" "+hx(leaf)+" "+strconv.Itoa(i), strconv.FormatBool(good), false)
			}
			// (c) reconstruction from the altered unit: alone with the next k−1 units, and with all
			for _, withAll := range []bool{false, true} {
				ptrs := make([]*propeller.Unit, total)
				ptrs[i] = cloneUnit(u)
				for d, have := 1, 1; d < total && (withAll || have < k); d++ {
					j := (i + d) % total
					ptrs[j] = cloneUnit(&units[j])
					have++
				}
				out, got, cerr := constructOutcome(h, ptrs, i, k, p)
				h.res.Hit("size-tamper-construct:" + outcomeTag(out))
				switch {
				case out == "panic":
					h.violate("construct-panics-on-damaged-unit", fmt.Sprintf("ConstructMessageFromUnits(len %d,k=%d,p=%d), shard of unit %d altered at %s: %v", len(msg), k, p, i, tk.name, cerr), rpc)
				case cerr == nil && !bytes.Equal(got, msg):
					h.violate("construct-delivers-different-message-from-damaged-unit",
						fmt.Sprintf("ConstructMessageFromUnits(len %d, k=%d, p=%d): the shard of unit %d (%d bytes) altered at %s, and a DIFFERENT message is delivered: got %x… want %x…",
							len(msg), k, p, i, S, tk.name, clipB(got), clipB(msg)), rpc)
				}
				if p == 0 && withAll == false && k == 1 {
					break // the same call twice
				}
			}
		}
	}
}

func hexItemGo(b []byte) string {
	if len(b) == 0 {
		return "."
	}
	return hx(b)
}

func splitFields(s string) []string {
	var out []string
	start := -1
	for i := 0; i < len(s); i++ {
		if s[i] == ' ' {
			if start >= 0 {
				out = append(out, s[start:i])
				start = -1
			}
		} else if start < 0 {
			start = i
		}
	}
	if start >= 0 {
		out = append(out, s[start:])
	}
	return out
}

// ---------------------------------------------------------------------------------------------

// bufferCentres: powers of two and typical buffer sizes a size-dependent fast path would use.
var bufferCentres = []int{64, 128, 256, 512, 1024, 2048, 4096, 8192, 16384, 32768, 65536}

func secSizes(h *hctx, r *lib.RNG) {
	thorough := h.f.Thorough()
	t0 := time.Now()
	lap := func(what string) {
		h.flush()
		h.res.Hit(fmt.Sprintf("size-part:%s", what))
		if os.Getenv("C19_SECTIONS") != "" {
			fmt.Fprintf(os.Stderr, "sizes: %s %.1fs\n", what, time.Since(t0).Seconds())
		}
		t0 = time.Now()
	}
	// (1) every leaf length
	leafLens := sizeSweep(h.f.Scale(640, 2100), bufferCentres, 16)
	for _, L := range leafLens {
		leaf := sizePattern(r, L)
		sizeLeafCase(h, leaf, L <= 640 || L%2 == 0)
	}
	lap("leaf")
	// (2) leaf encoding and wire form at every shard size (uvarint length prefixes change at 128 and
	// 16384 of the INNER message: shard sizes 125/126 and 16380/16381)
	for _, S := range sizeSweep(h.f.Scale(640, 2100), append([]int{16384 - 6}, bufferCentres...), 16) {
		sizeMarshalCase(h, sizePattern(r, S), S <= 300 || S%4 < 2 || thorough)
	}
	lap("marshal+wire")
	// (3) uvarint at every small value and around every 7-bit boundary; PadMessage at every length
	var vals []uint64
	for v := uint64(0); v <= 700; v++ {
		vals = append(vals, v)
	}
	for j := uint(1); j <= 9; j++ {
		for d := -2; d <= 2; d++ {
			vals = append(vals, uint64(int64(uint64(1)<<(7*j))+int64(d)))
		}
	}
	for _, v := range vals {
		want := refUvarint(v)
		h.check("size-putuvarint", v, fmt.Sprintf("putuvarint %x", v), hx(want), false)
		h.check("size-uvarint", v, "uvarint "+hx(append(append([]byte{}, want...), 0x80, 0x01)), fmt.Sprintf("%x %d", v, len(want)), false)
	}
	padKs := []int{1, 2, 3, 5}
	if thorough {
		padKs = []int{1, 2, 3, 4, 5, 6, 7, 8, 11, 16, 33}
	}
	for _, k := range padKs {
		for _, l := range sizeSweep(h.f.Scale(520, 2100), []int{1024, 4096, 16384}, 4) {
			msg := sizePattern(r, l)
			padCase(h, msg, k)
			if got := propeller.PadMessage(msg, k); !bytes.Equal(got, refPad(msg, k)) {
				h.violate("pad-differs-from-protocol-definition", fmt.Sprintf("PadMessage(len %d, k=%d) is not [varint(len)][msg][zeros to a multiple of 2k]", l, k),
					map[string]any{"kind": "pad", "msg": hx(msg), "k": k})
			}
		}
	}
	lap("uvarint+pad")
	// (4) the codec's split at every data length (also lengths PadMessage never produces)
	for _, k := range []int{1, 2, 3, 4, 5} {
		for l := 1; l <= h.f.Scale(200, 700); l++ {
			sizeSplitCase(h, k, 1+l%2, sizePattern(r, l))
		}
	}
	// the codec changes at 256 shards in total (GF(2^8) up to 256, Leopard GF(2^16) above, which
	// needs parity and rounds shard sizes up to 64 bytes): both sides of the boundary
	for _, kp := range [][2]int{{200, 55}, {200, 56}, {255, 1}, {128, 128}, {128, 129}, {85, 171}, {85, 172}, {256, 1}, {200, 57}, {3, 300}} {
		k := kp[0]
		lens := []int{k - 1, 64 * k, 64*k + 1}
		if thorough || k < 10 {
			lens = []int{1, k - 1, k, k + 1, 64*k - 1, 64 * k, 64*k + 1, 128 * k, 128*k + 1}
		}
		for _, l := range lens {
			sizeSplitCase(h, k, kp[1], sizePattern(r, l))
		}
	}
	lap("split")
	for _, kp := range [][2]int{{85, 171}, {85, 172}} { // committees of 257 / 258 peers: 256 / 257 shards
		e2eCase(h, kp[0], kp[1], sizePattern(r, 2*kp[0]+61), 11, r, h.f.Scale(6, 60))
	}
	lap("e2e-256/257-shards")
	// (4b) tree sizes around powers of two: root and three proofs against the independent tree
	for _, n := range sizeSweep(0, []int{64, 128, 256, 512, 1024, 2048, 4096}, 1) {
		if n == 0 {
			continue
		}
		leaves := make([][]byte, n)
		for i := range leaves {
			leaves[i] = []byte{byte(i), byte(i >> 8), byte(n)}
		}
		root, tree := merkle.New(leaves)
		wroot, _ := refMerkle(leaves[:1]) // placeholder replaced below (root only: refSubtree)
		size := 2
		for size < n {
			size *= 2
		}
		wroot = refSubtree(leaves, 0, size)
		h.res.Case("size-tree/"+strconv.Itoa(n), true)
		h.res.Hit("size:tree-leaves=" + sizeBucket(n))
		okTree := len(tree) == n && hash(root) == wroot
		for _, i := range []int{0, n / 2, n - 1} {
			if !okTree {
				break
			}
			var want []hash
			for w := 1; w < size; w *= 2 {
				want = append(want, refSubtree(leaves, ((i/w)^1)*w, w))
			}
			okTree = hashesHex(toHashes(tree[i].Siblings)) == hashesHex(want) && refVerify(want, wroot, leaves[i], uint32(i))
		}
		if !okTree {
			h.violate("merkle-root-or-proof-differs-from-protocol-definition", fmt.Sprintf("merkle.New over %d three-byte leaves: root or a proof is not the protocol's", n),
				map[string]any{"kind": "merkle", "leaves": hexList(leaves), "rng": 1})
		}
	}
	lap("trees")
	// (4c) UnpadMessage at every length: the buffer ends exactly at / one byte before the end of the
	// message the prefix announces
	for _, l := range sizeSweep(h.f.Scale(300, 2100), []int{16384}, 2) {
		msg := sizePattern(r, l)
		full := append(refUvarint(uint64(l)), msg...)
		unpadCase(h, full)
		if l > 0 {
			unpadCase(h, full[:len(full)-1])
		}
		unpadCase(h, append(append([]byte{}, full...), 0))
	}
	lap("unpad")
	// (4d) signing.go: the 95 signed bytes for boundary nonces and random roots / committee ids —
	// the model's payload signed here must verify with the real VerifyMessageSignature, and must NOT
	// verify once any of the three fields differs
	{
		pub := makeMember(77)
		nonces := []uint64{0, 1, 255, 256, 65535, 65536, 1<<32 - 1, 1 << 32, 1<<56 - 1, 1 << 56, 1<<63 - 1, 1 << 63, 1<<64 - 1, 1758700000000000000}
		for i := 0; i < h.f.Scale(40, 400); i++ {
			nonces = append(nonces, r.Uint64()>>uint(r.Intn(64)))
		}
		for i, nonce := range nonces {
			var root propeller.MessageRoot
			var cid propeller.CommitteeID
			copy(root[:], r.Bytes(32))
			copy(cid[:], r.Bytes(32))
			if i%7 == 0 { // zero / 0xff fields: nothing is trimmed
				root = propeller.MessageRoot{}
				cid[31], cid[0] = 0, 0xff
			}
			nonce, i := nonce, i
			h.res.Hit("size:sign-payload")
			h.later(fmt.Sprintf("sigpayload %x %x %d", root, cid, nonce), func(ans string) {
				pl, err := unhx(ans)
				if err != nil || ans == "bad-op" {
					h.res.Fatalf("driver answered %.60q to sigpayload", ans)
					return
				}
				sig, _ := pub.priv.Sign(pl)
				verdict := func(rt propeller.MessageRoot, c propeller.CommitteeID, n uint64) string {
					var e error
					_, panicked, _ := lib.Try(func() error { e = propeller.VerifyMessageSignature(pub.pub, &rt, &c, propeller.Nonce(n), sig); return nil })
					if panicked {
						return "panic"
					}
					if e != nil {
						return "rejected"
					}
					return "ok"
				}
				h.compare("size-sign-payload-verifies", map[string]any{"nonce": strconv.FormatUint(nonce, 10)}, "ok", verdict(root, cid, nonce))
				r2, c2 := root, cid
				r2[i%32] ^= 1 << uint(i%8)
				c2[(i*5)%32] ^= 1 << uint(i%8)
				for _, alt := range []struct {
					what string
					v    string
				}{{"root", verdict(r2, cid, nonce)}, {"committee", verdict(root, c2, nonce)}, {"nonce+1", verdict(root, cid, nonce+1)},
					{"nonce-byte-swapped", verdict(root, cid, bits.ReverseBytes64(nonce))}, {"nonce^2^(8j)", verdict(root, cid, nonce^(1<<uint(8*(i%8))))}} {
					if alt.what == "nonce-byte-swapped" && bits.ReverseBytes64(nonce) == nonce {
						continue
					}
					if alt.v != "rejected" {
						h.violate("signature-verifies-over-different-"+alt.what, fmt.Sprintf("a signature over (root, committee, nonce=%d) verifies (%s) after the %s was changed", nonce, alt.v, alt.what),
							map[string]any{"kind": "sigpayload", "root": hx(root[:]), "committee": hx(cid[:]), "nonce": strconv.FormatUint(nonce, 10)})
					}
				}
			})
		}
	}
	lap("sign-payload")
	// (5) the whole path at every message length, for the committees whose scheduler gives
	// (k, p) = (1,0), (1,1), (1,2), (2,4), (3,6)
	type plan struct {
		n, dense, tamper int
		modelEvery       int
	}
	plans := []plan{{2, 700, 1, 1}, {3, 700, 2, 2}, {4, 400, 2, 4}, {7, 300, 2, 4}, {10, 160, 1, 8}}
	if thorough {
		plans = []plan{{2, 2100, 1, 1}, {3, 2100, 2, 1}, {4, 2100, 3, 1}, {5, 700, 3, 2}, {7, 2100, 4, 2}, {10, 1400, 4, 2}, {13, 700, 4, 4}}
	}
	for _, pl := range plans {
		w, err := newSizeWorld(pl.n)
		if err != nil {
			h.res.Fatalf("sizes: NewScheduler(n=%d): %v", pl.n, err)
			continue
		}
		// message lengths: dense from 0, then the lengths that put the SHARD size (and so the leaf)
		// into the window of every buffer centre
		lens := sizeSweep(pl.dense, nil, 0)
		seen := map[int]bool{}
		for _, l := range lens {
			seen[l] = true
		}
		for _, c := range bufferCentres {
			if c > h.f.Scale(4096, 65536) || (pl.n > 4 && c > 1024 && !thorough) {
				continue
			}
			for l := w.k*(c-18) - 3; l <= w.k*(c+16); l++ {
				if l >= 0 && !seen[l] {
					seen[l] = true
					lens = append(lens, l)
				}
			}
		}
		for _, l := range lens {
			msg := sizePattern(r, l)
			if l%5 == 4 { // a message ending in zeros: its tail is indistinguishable from padding except by the length prefix
				for i := l - l/4; i < l; i++ {
					msg[i] = 0
				}
			}
			withModel := l%pl.modelEvery == 0 && l <= 1100
			sizeE2ECase(h, w, msg, uint64(l)*7919+uint64(pl.n), sizeOpts{model: withModel, tamper: pl.tamper})
		}
		lap(fmt.Sprintf("e2e-n=%d", pl.n))
	}
}
