//go:build verif

package main

import (
	"bytes"
	"encoding/hex"
	"fmt"
	"strconv"
	"strings"

	"github.com/NethermindEth/juno/consensus/propeller"
	"github.com/NethermindEth/juno/consensus/propeller/merkle"
	"github.com/NethermindEth/juno/consensus/propeller/reedsolomon"
	"verif/harness/lib"
)

var constructErrs = [][2]string{
	{"no propeller units", "no-units"},
	{"unpadding reconstructed message: invalid varint", "varint"},
	{"unpadding reconstructed message: varint length", "length"},
	{"creating Reed-Solomon", "rs-new"},
	{"recovering shards data", "recover"},
	{"missmatch on shard size", "shard-size"},
	{"wrong message root hash", "root"},
}

func cloneShards(s [][]byte) [][]byte {
	out := make([][]byte, len(s))
	for i, x := range s {
		if x != nil {
			out[i] = append([]byte{}, x...)
		}
	}
	return out
}

// recoverImpl runs juno's RecoverData on a copy; nil result = error.
func recoverImpl(shards [][]byte, k, p int) (out [][]byte, err error, panicked bool) {
	in := cloneShards(shards)
	err, panicked, _ = lib.Try(func() error {
		var e error
		out, e = reedsolomon.RecoverData(in, k, p)
		return e
	})
	if err != nil {
		out = nil
	}
	return
}

func equalShards(a, b [][]byte) bool {
	if len(a) != len(b) {
		return false
	}
	for i := range a {
		if !bytes.Equal(a[i], b[i]) {
			return false
		}
	}
	return true
}

// pmask: which shards / units are present (index i = shard i). Printed shard 0 first.
type pmask []bool

func (m pmask) count() int {
	c := 0
	for _, b := range m {
		if b {
			c++
		}
	}
	return c
}

func (m pmask) String() string {
	b := make([]byte, len(m))
	for i, x := range m {
		b[i] = '0'
		if x {
			b[i] = '1'
		}
	}
	return string(b)
}

func maskOf(n int, bits uint64) pmask {
	m := make(pmask, n)
	for i := 0; i < n && i < 64; i++ {
		m[i] = bits>>uint(i)&1 == 1
	}
	return m
}

func randMask(n int, r *lib.RNG) pmask {
	m := make(pmask, n)
	for i := range m {
		m[i] = r.Bool()
	}
	return m
}

func maskShards(enc [][]byte, mask pmask) [][]byte {
	out := make([][]byte, len(enc))
	for i := range enc {
		if i < len(mask) && mask[i] {
			out[i] = append([]byte{}, enc[i]...)
		}
	}
	return out
}

// subsetMasks: all subsets when 2^n <= limit, otherwise a structured + random sample (any n).
func subsetMasks(n, k int, limit int, r *lib.RNG) []pmask {
	if n < 30 && (1<<uint(n)) <= limit {
		out := make([]pmask, 1<<uint(n))
		for i := range out {
			out[i] = maskOf(n, uint64(i))
		}
		return out
	}
	seen := map[string]bool{}
	var out []pmask
	add := func(m pmask) {
		if !seen[m.String()] {
			seen[m.String()] = true
			out = append(out, m)
		}
	}
	rangeMask := func(lo, hi int) pmask { // shards lo..hi-1 present
		m := make(pmask, n)
		for i := lo; i < hi && i < n; i++ {
			m[i] = true
		}
		return m
	}
	add(rangeMask(0, 0))
	add(rangeMask(0, n))
	add(rangeMask(1, n))   // only shard 0 missing
	add(rangeMask(0, k))   // exactly the data shards
	add(rangeMask(k, n))   // exactly the parity shards
	add(rangeMask(1, k))   // data shards without shard 0: below threshold
	add(rangeMask(n-k, n)) // the last k shards
	tries := 0
	for len(out) < limit && tries < 8*limit {
		tries++
		m := make(pmask, n)
		idx := make([]int, n)
		for i := range idx {
			idx[i] = i
		}
		switch r.Intn(4) {
		case 0: // exactly k present
			lib.Shuffle(r, idx)
			for _, i := range idx[:min(k, n)] {
				m[i] = true
			}
		case 1: // k-1 present
			lib.Shuffle(r, idx)
			for _, i := range idx[:max(min(k-1, n), 0)] {
				m[i] = true
			}
		default:
			m = randMask(n, r)
		}
		add(m)
	}
	return out
}

// rsCase: the laws the Lean theorems assume of the codec, checked on the real library through
// juno's wrappers for one (k, p, data).
func rsCase(h *hctx, k, p int, data []byte, r *lib.RNG) {
	seedForReplay := r.Uint64() >> 12
	h.guard("rs", map[string]any{"kind": "rs", "k": k, "p": p, "data": hx(data), "rng": seedForReplay}, func() { rsCase0(h, k, p, data, seedForReplay) })
}

func rsCase0(h *hctx, k, p int, data []byte, seedForReplay uint64) {
	r := lib.NewRNG(seedForReplay)
	rp := map[string]any{"kind": "rs", "k": k, "p": p, "data": hx(data), "rng": seedForReplay}
	n := k + p
	h.res.Case(fmt.Sprintf("rs/%d/%d/%x", k, p, clipB(data)), n >= 2)
	var enc [][]byte
	err, panicked, _ := lib.Try(func() error {
		var e error
		enc, e = reedsolomon.EncodeData(append([]byte{}, data...), k, p)
		return e
	})
	if panicked {
		h.violate("rs-encode-panics", fmt.Sprintf("EncodeData(len %d, %d, %d) panics: %v", len(data), k, p, err), rp)
		return
	}
	impl := ""
	if err != nil {
		impl = classify(err, [][2]string{{"received empty data", "empty-data"}, {"creating Reed-Solomon", "rs-new"}})
	} else {
		impl = "ok " + hexList(enc[:k])
	}
	h.check("rs-split", rp, fmt.Sprintf("split %d %d %s", k, p, hx(data)), impl, true)
	if err != nil {
		h.res.Hit("rs:encode-" + impl)
		return
	}
	h.res.Hit(fmt.Sprintf("rs:k=%d,p=%d", k, p))
	if len(enc) != n {
		h.violate("rs-shard-count", fmt.Sprintf("EncodeData(%d,%d) returned %d shards", k, p, len(enc)), rp)
		return
	}
	size := len(enc[0])
	// systematic: the data shards are the (zero padded) data
	flat := bytes.Join(enc[:k], nil)
	if len(flat) < len(data) || !bytes.Equal(flat[:len(data)], data) || len(bytes.Trim(flat[len(data):], "\x00")) != 0 {
		h.violate("rs-encode-not-systematic", fmt.Sprintf("EncodeData(len %d, %d, %d): data shards are not the data", len(data), k, p), rp)
	}
	for _, s := range enc {
		if len(s) != size {
			h.violate("rs-shard-sizes-differ", fmt.Sprintf("EncodeData(len %d, %d, %d)", len(data), k, p), rp)
			return
		}
	}
	// MDS: every subset of >= k shards gives back all shards; fewer never succeed
	for _, mask := range subsetMasks(n, k, h.f.Scale(1024, 4096), r) {
		present := mask.count()
		out, rerr, pan := recoverImpl(maskShards(enc, mask), k, p)
		switch {
		case pan:
			h.violate("rs-recover-panics", fmt.Sprintf("RecoverData(k=%d,p=%d,present=%s) panics: %v", k, p, mask, rerr), rp)
		case present >= k && (rerr != nil || !equalShards(out, enc)):
			h.violate("rs-mds-law-broken", fmt.Sprintf("RecoverData(k=%d,p=%d) from shards %s of %d: %v / differs", k, p, mask, n, rerr), rp)
		case present < k && rerr == nil:
			h.violate("rs-recover-succeeds-below-threshold", fmt.Sprintf("RecoverData(k=%d,p=%d) from shards %s succeeds", k, p, mask), rp)
		}
		if present >= k {
			h.res.Hit("rs:recover-ok")
		} else {
			h.res.Hit("rs:recover-too-few")
		}
	}
	// damaged inputs: the result is an error, or a codeword that agrees with every present shard
	for t := 0; t < 24; t++ {
		mask := randMask(n, r)
		in := maskShards(enc, mask)
		var present []int
		for i := range in {
			if in[i] != nil {
				present = append(present, i)
			}
		}
		if len(present) == 0 {
			continue
		}
		j := lib.Pick(r, present)
		kind := lib.Pick(r, []string{"flip", "flip", "trunc", "empty", "extend"})
		switch kind {
		case "flip":
			in[j][r.Intn(size)] ^= 1 << uint(r.Intn(8))
		case "trunc":
			in[j] = in[j][:size-1]
		case "empty":
			in[j] = []byte{}
		case "extend":
			in[j] = append(in[j], 0)
		}
		out, rerr, pan := recoverImpl(in, k, p)
		if pan {
			h.violate("rs-recover-panics", fmt.Sprintf("RecoverData(k=%d,p=%d) on a %s shard panics: %v", k, p, kind, rerr), rp)
			continue
		}
		if rerr != nil {
			h.res.Hit("rs:damaged-" + kind + "-rejected")
			continue
		}
		h.res.Hit("rs:damaged-" + kind + "-accepted")
		if len(out) != n {
			h.violate("rs-recover-shard-count", fmt.Sprintf("RecoverData(k=%d,p=%d) returned %d shards", k, p, len(out)), rp)
		}
		// informational only (the theorems do not rely on it: the Merkle root comparison pins the
		// shards down): is the accepted result a codeword that keeps the shards given?
		for i := range in {
			if len(in[i]) != 0 && !bytes.Equal(in[i], out[i]) {
				h.res.Hit("rs:damaged-accepted-but-present-shard-changed")
			}
		}
		if re, e2 := reedsolomon.EncodeData(bytes.Join(out[:k], nil), k, p); e2 != nil || !equalShards(re, out) {
			h.res.Hit("rs:damaged-accepted-non-codeword")
		}
	}
}

func secRS(h *hctx, r *lib.RNG) {
	maxK, maxP := h.f.Scale(4, 6), h.f.Scale(4, 6)
	for k := 1; k <= maxK; k++ {
		for p := 0; p <= maxP; p++ {
			for _, l := range []int{2 * k, 4 * k} {
				rsCase(h, k, p, r.Bytes(l), r)
			}
			// arbitrary lengths exercise Split's zero padding (EncodeData is public API)
			rsCase(h, k, p, r.Bytes(r.Range(1, 5*k+1)), r)
		}
	}
	// the scheduler's configurations for committees of 2..N peers
	for n := 2; n <= h.f.Scale(16, 40); n++ {
		k := max(1, (n-1)/3)
		rsCase(h, k, n-1-k, r.Bytes(2*k*r.Range(1, 3)), r)
	}
	rsCase(h, 1, 1, nil, r)
	rsCase(h, 0, 1, []byte{1, 2}, r)
	// more than 256 shards: klauspost switches to the Leopard GF(2^16) codec (64-byte shard units,
	// at least one parity shard)
	rsCase(h, 99, 200, r.Bytes(2*99), r)
	rsCase(h, 256, 1, r.Bytes(512), r)
	rsCase(h, 200, 57, r.Bytes(400), r)
	rsCase(h, 300, 0, r.Bytes(600), r)
	if h.f.Thorough() {
		rsCase(h, 85, 170, r.Bytes(170*3), r)
	}
}

// ---------------------------------------------------------------------------------------------

type e2eWorld struct {
	k, p  int
	msg   []byte
	nonce uint64
	cid   propeller.CommitteeID
	pub   member
	units []propeller.Unit
	enc   [][]byte
	root  hash
}

func constructOutcome(h *hctx, units []*propeller.Unit, local, k, p int) (string, []byte, error) {
	var msg []byte
	var sd propeller.ShardData
	var proof merkle.Proof
	err, panicked, _ := lib.Try(func() error {
		var e error
		msg, sd, proof, e = propeller.ConstructMessageFromUnits(units, propeller.ShardIndex(local), k, p)
		return e
	})
	if panicked {
		return "panic", nil, err
	}
	if err != nil {
		return classify(err, constructErrs), nil, err
	}
	sh := "?"
	if len(sd) == 1 {
		sh = hx(sd[0])
		if len(sd[0]) == 0 {
			sh = "."
		}
	}
	return "ok " + hx(msg) + " " + sh + " " + hashesHex(toHashes(proof.Siblings)), msg, nil
}

// modelConstruct queues the model's construct with the real codec's answer for exactly these
// shards and compares it with the implementation's outcome.
func modelConstruct(h *hctx, sig string, input any, units []*propeller.Unit, local, k, p int, impl string) {
	shards := make([][]byte, len(units))
	toks := make([]string, len(units))
	var roots []string // distinct MessageRoots, as terms
	rootIdx := map[hash]int{}
	for i, u := range units {
		if u == nil {
			toks[i] = "nil"
			continue
		}
		l := make([][]byte, len(u.ShardData))
		for j, s := range u.ShardData {
			l[j] = s
		}
		ri, ok := rootIdx[hash(u.MessageRoot)]
		if !ok {
			ri = len(roots)
			rootIdx[hash(u.MessageRoot)] = ri
			roots = append(roots, h.tt.termOf(hash(u.MessageRoot)))
		}
		toks[i] = strconv.Itoa(ri) + "|" + hexList(l)
		if len(u.ShardData) > 0 {
			shards[i] = u.ShardData[0]
		}
	}
	rootsTok := "-"
	if len(roots) > 0 {
		rootsTok = strings.Join(roots, ";")
	}
	rs := "none"
	if out, err, _ := recoverImpl(shards, k, p); err == nil && out != nil {
		rs = hexList(out)
	}
	line := fmt.Sprintf("construct %s %d %d %d %s %s %s", h.cfg, k, p, local, rs, rootsTok, strings.Join(toks, " "))
	h.later(line, func(ans string) {
		model := ans
		if f := strings.Fields(ans); len(f) == 4 && f[0] == "ok" {
			if pr, err := h.tt.evalTermList(f[3]); err == nil {
				model = "ok " + f[1] + " " + f[2] + " " + hashesHex(pr)
			}
		}
		h.res.Compared(1)
		if !sameVerdict(model, impl) {
			h.res.Mismatch(lib.Mismatch{Sig: sig, Input: input, Model: clip(model), Impl: clip(impl)})
		}
	})
}

func e2eCase(h *hctx, k, p int, msg []byte, nonce uint64, r *lib.RNG, subsetLimit int) {
	seedForReplay := r.Uint64() >> 12
	h.guard("e2e", map[string]any{"kind": "e2e", "k": k, "p": p, "msg": hx(msg), "nonce": strconv.FormatUint(nonce, 10), "rng": seedForReplay, "subset_limit": subsetLimit},
		func() { e2eCase0(h, k, p, msg, nonce, seedForReplay, subsetLimit) })
}

func e2eCase0(h *hctx, k, p int, msg []byte, nonce uint64, seedForReplay uint64, subsetLimit int) {
	r := lib.NewRNG(seedForReplay)
	rp := func(extra map[string]any) map[string]any {
		m := map[string]any{"kind": "e2e", "k": k, "p": p, "msg": hx(msg), "nonce": strconv.FormatUint(nonce, 10), "rng": seedForReplay, "subset_limit": subsetLimit}
		for a, b := range extra {
			m[a] = b
		}
		return m
	}
	n := k + p
	pub := makeMember(77)
	var cid propeller.CommitteeID
	copy(cid[:], r.Bytes(32))
	h.res.Case(fmt.Sprintf("e2e/%d/%d/%d/%x", k, p, len(msg), clipB(msg)), len(msg) > 0)
	h.res.Hit(fmt.Sprintf("e2e:k=%d,p=%d", k, p))

	var units []propeller.Unit
	err, panicked, _ := lib.Try(func() error {
		var e error
		units, e = propeller.CreatePropellerUnits(pub.priv, &cid, propeller.Nonce(nonce), append([]byte{}, msg...), k, p)
		return e
	})
	if panicked || err != nil {
		h.violate("create-units-fails", fmt.Sprintf("CreatePropellerUnits(len %d, k=%d, p=%d): panic=%v err=%v", len(msg), k, p, panicked, err), rp(nil))
		return
	}
	if len(units) != n {
		h.violate("create-units-count", fmt.Sprintf("CreatePropellerUnits(k=%d,p=%d) returned %d units", k, p, len(units)), rp(nil))
		return
	}
	enc := make([][]byte, n)
	for i := range units {
		u := &units[i]
		if len(u.ShardData) != 1 || int(u.ShardIndex) != i || u.CommitteeID != cid || u.Publisher != pub.id ||
			u.MessageRoot != units[0].MessageRoot || !bytes.Equal(u.Signature, units[0].Signature) {
			h.violate("created-unit-fields-inconsistent", fmt.Sprintf("unit %d of CreatePropellerUnits(k=%d,p=%d)", i, k, p), rp(nil))
			return
		}
		enc[i] = u.ShardData[0]
	}
	root := hash(units[0].MessageRoot)

	// --- correspondence of creation ---
	ans := h.ask(fmt.Sprintf("create %s %d %d %d %s %s %s %s", h.cfg, k, p, nonce, hx(cid[:]), hx([]byte(pub.id)), hx(msg), hexList(enc[k:])))
	if ans != "" {
		f := strings.Fields(ans)
		implS := fmt.Sprintf("ok %x %d %s", root, uint64(units[0].Nonce), hexList(enc))
		for i := range units {
			implS += " " + hashesHex(toHashes(units[i].MerkleProof.Siblings))
		}
		modS := ans
		if len(f) == 4+n && f[0] == "ok" {
			mr, e1 := h.tt.evalTerm(f[1])
			modS = fmt.Sprintf("ok %x %s %s", mr, f[2], f[3])
			for _, t := range f[4:] {
				pr, e2 := h.tt.evalTermList(t)
				if e2 != nil {
					e1 = e2
				}
				modS += " " + hashesHex(pr)
			}
			if e1 != nil {
				modS = "unevaluable: " + ans
			}
			// what is signed: the model's root, the committee id and the nonce given to Create
			if e1 == nil {
				sig, _ := pub.priv.Sign(signPayload(mr, cid, nonce))
				h.compare("create-signature-payload", rp(nil), hex.EncodeToString(sig), hex.EncodeToString(units[0].Signature))
			}
		}
		h.compare("create", rp(nil), modS, implS)
	}

	// --- oracle on the created units ---
	for i := range units {
		u := &units[i]
		rt := merkle.Hash(u.MessageRoot)
		leaf := []byte(u.ShardData[0])
		if h.cfg.ValidatorLeafProto {
			leaf = u.ShardData.MarshalProto()
		}
		// "every shard's Merkle proof verifies against the signed root": with the leaf bytes the
		// receiver's validator uses
		if !u.MerkleProof.Verify(&rt, leaf, uint32(i)) {
			h.violate("created-unit-proof-does-not-verify", fmt.Sprintf("unit %d of CreatePropellerUnits(len %d,k=%d,p=%d)", i, len(msg), k, p), rp(nil))
		}
		if e := propeller.VerifyMessageSignature(pub.pub, &u.MessageRoot, &u.CommitteeID, u.Nonce, u.Signature); e != nil {
			if propeller.VerifyMessageSignature(pub.pub, &u.MessageRoot, &u.CommitteeID, propeller.Nonce(nonce), u.Signature) == nil {
				h.violate("created-unit-nonce-field-not-set-signature-unverifiable",
					fmt.Sprintf("CreatePropellerUnits(nonce=%d): Unit.Nonce = %d, so the signature does not verify over the unit's own fields: %v", nonce, u.Nonce, e), rp(nil))
			} else {
				h.violate("created-unit-signature-invalid", fmt.Sprintf("unit %d: %v", i, e), rp(nil))
			}
		}
	}
	flat := bytes.Join(enc[:k], nil)
	// the data shards are the padded message (followed by zeros when the Leopard codec rounds the
	// shard size up to 64 bytes)
	if padded := propeller.PadMessage(msg, k); len(flat) < len(padded) || !bytes.Equal(flat[:len(padded)], padded) ||
		len(bytes.Trim(flat[len(padded):], "\x00")) != 0 || (k+p <= 256 && len(flat) != len(padded)) {
		h.violate("created-data-shards-are-not-the-padded-message", fmt.Sprintf("CreatePropellerUnits(len %d,k=%d,p=%d)", len(msg), k, p), rp(nil))
	}

	// --- every subset of units -> ConstructMessageFromUnits ---
	for _, mask := range subsetMasks(n, k, subsetLimit, r) {
		present := mask.count()
		ptrs := make([]*propeller.Unit, n)
		for i := range units {
			if mask[i] {
				ptrs[i] = cloneUnit(&units[i])
			}
		}
		local := r.Intn(n)
		out, got, cerr := constructOutcome(h, ptrs, local, k, p)
		modelConstruct(h, "construct", rp(map[string]any{"present": mask.String(), "local": local}), ptrs, local, k, p, out)
		rpm := rp(map[string]any{"present_mask": mask.String(), "local": local})
		switch {
		case present >= k && !mask[0]:
			h.res.Hit("construct:enough-shards,shard0-missing")
		case present >= k:
			h.res.Hit("construct:enough-shards,shard0-present")
		default:
			h.res.Hit("construct:below-threshold")
		}
		switch {
		case out == "panic" && !mask[0] && present >= k:
			h.violate("construct-panics-when-shard0-missing",
				fmt.Sprintf("ConstructMessageFromUnits(k=%d,p=%d) with units %s (shard 0 first): %v", k, p, mask, cerr), rpm)
		case out == "panic":
			h.violate("construct-panics", fmt.Sprintf("ConstructMessageFromUnits(k=%d,p=%d) with units %s: %v", k, p, mask, cerr), rpm)
		case present >= k && cerr != nil:
			h.violate("construct-fails-with-enough-shards", fmt.Sprintf("ConstructMessageFromUnits(k=%d,p=%d) with units %s: %v", k, p, mask, cerr), rpm)
		case present >= k && !bytes.Equal(got, msg):
			h.violate("construct-returns-different-message", fmt.Sprintf("ConstructMessageFromUnits(k=%d,p=%d) with units %s: %x != %x", k, p, mask, clipB(got), clipB(msg)), rpm)
		case present < k && cerr == nil:
			h.violate("construct-succeeds-below-threshold", fmt.Sprintf("ConstructMessageFromUnits(k=%d,p=%d) with units %s", k, p, mask), rpm)
		}
		if present >= k && cerr == nil && strings.HasPrefix(out, "ok ") {
			// local shard and proof are the publisher's
			want := "ok " + hx(msg) + " " + strings.ReplaceAll(hexList([][]byte{enc[local]}), "-", ".") + " " + hashesHex(toHashes(units[local].MerkleProof.Siblings))
			if out != want {
				h.violate("construct-local-shard-or-proof-differs", fmt.Sprintf("ConstructMessageFromUnits(k=%d,p=%d,local=%d) with units %s", k, p, local, mask), rpm)
			}
		}
	}

	// --- damaged units reaching construction: an error or the exact message, never anything else ---
	for t := 0; t < 16 && n >= 1; t++ {
		mask := randMask(n, r) // shard 0 present or not: since a2bceaf the root is taken from the first present unit
		if mask.count() == 0 {
			mask[r.Intn(n)] = true
		}
		ptrs := make([]*propeller.Unit, n)
		var present []int
		for i := range units {
			if mask[i] {
				ptrs[i] = cloneUnit(&units[i])
				present = append(present, i)
			}
		}
		j := lib.Pick(r, present)
		kind := lib.Pick(r, []string{"shard-flip", "shard-flip", "shard-trunc", "shard-empty", "root-flip-first", "root-flip-other", "shard-swap"})
		switch kind {
		case "shard-flip":
			s := ptrs[j].ShardData[0]
			s[r.Intn(len(s))] ^= 1 << uint(r.Intn(8))
		case "shard-trunc":
			ptrs[j].ShardData[0] = ptrs[j].ShardData[0][:len(ptrs[j].ShardData[0])-1]
		case "shard-empty":
			ptrs[j].ShardData[0] = propeller.Shard{}
		case "root-flip-first":
			ptrs[present[0]].MessageRoot[r.Intn(32)] ^= 1
		case "root-flip-other":
			ptrs[j].MessageRoot[r.Intn(32)] ^= 1
		case "shard-swap":
			o := lib.Pick(r, present)
			ptrs[j].ShardData, ptrs[o].ShardData = ptrs[o].ShardData, ptrs[j].ShardData
		}
		local := r.Intn(n)
		out, got, cerr := constructOutcome(h, ptrs, local, k, p)
		modelConstruct(h, "construct-damaged", rp(map[string]any{"present": mask.String(), "damage": kind, "unit": j}), ptrs, local, k, p, out)
		h.res.Hit("construct-damaged:" + kind + ":" + outcomeTag(out))
		rpm := rp(map[string]any{"present_mask": mask.String(), "damage": kind, "unit": j})
		switch {
		case out == "panic":
			h.violate("construct-panics-on-damaged-unit", fmt.Sprintf("ConstructMessageFromUnits(k=%d,p=%d), %s of unit %d: %v", k, p, kind, j, cerr), rpm)
		case cerr == nil && !bytes.Equal(got, msg):
			h.violate("construct-delivers-different-message-from-damaged-unit",
				fmt.Sprintf("ConstructMessageFromUnits(k=%d,p=%d), %s of unit %d: got %x want %x", k, p, kind, j, clipB(got), clipB(msg)), rpm)
		}
	}
}

// constructEdgeCases: calls outside what the processor does (caller contracts), compared with the
// model only: a local index ≥ k+p, unit slices shorter / longer than k+p, present units with 0 or 2
// shards, and zero data shards.
func constructEdgeCases(h *hctx, r *lib.RNG) {
	pub := makeMember(77)
	var cid propeller.CommitteeID
	copy(cid[:], r.Bytes(32))
	k, p := 2, 2
	msg := genMsg(r, 21)
	units, err := propeller.CreatePropellerUnits(pub.priv, &cid, 9, msg, k, p)
	if err != nil {
		h.res.Fatalf("constructEdgeCases: %v", err)
		return
	}
	leaves := make([][]byte, len(units))
	for i := range units {
		leaves[i] = leafBytes(h, &units[i])
	}
	modelMerkle(h, leaves)
	all := func() []*propeller.Unit {
		out := make([]*propeller.Unit, len(units))
		for i := range units {
			out[i] = cloneUnit(&units[i])
		}
		return out
	}
	run := func(what string, us []*propeller.Unit, local int) {
		out, _, _ := constructOutcome(h, us, local, k, p)
		h.res.Case("construct-edge/"+what, true)
		h.res.Hit("construct-edge:" + what + ":" + outcomeTag(out))
		modelConstruct(h, "construct-edge-"+what, map[string]any{"what": what}, us, local, k, p, out)
	}
	run("local=n", all(), k+p)
	run("local>n", all(), k+p+5)
	run("slice-shorter", all()[:k+p-1], 0)
	run("slice-longer", append(all(), nil), 0)
	run("slice-longer-with-unit", append(all(), cloneUnit(&units[0])), 0)
	us := all()
	us[1].ShardData = propeller.ShardData{}
	run("unit-without-shard", us, 0)
	us = all()
	us[2].ShardData = append(us[2].ShardData, propeller.Shard{1, 2, 3})
	run("unit-with-two-shards", us, 0)
	us = all()
	us[0], us[1] = nil, nil
	us[2].MessageRoot[3] ^= 1 // the first PRESENT unit carries a wrong root (shard 0 missing)
	run("first-present-unit-wrong-root", us, 3)
	run("no-unit-present", make([]*propeller.Unit, k+p), 0)
	// zero data shards: PadMessage divides by zero before reedsolomon.New can refuse
	var cu []propeller.Unit
	_, panicked, _ := lib.Try(func() error {
		var e error
		cu, e = propeller.CreatePropellerUnits(pub.priv, &cid, 9, msg, 0, 2)
		return e
	})
	implS := "err-or-ok"
	if panicked {
		implS = "panic"
	}
	_ = cu
	h.res.Case("create-edge/k=0", true)
	h.check("create-k=0", "k=0", fmt.Sprintf("create %s 0 2 9 %s %s %s -", h.cfg, hx(cid[:]), hx([]byte(pub.id)), hx(msg)), implS, false)
	_, panicked, _ = lib.Try(func() error { propeller.PadMessage(msg, 0); return nil })
	implS = "ok"
	if panicked {
		implS = "panic"
	}
	h.check("pad-k=0", "k=0", "pad 0 "+hx(msg), implS, false)
	// negative k cannot be expressed in the model (k : Nat): oracle only — it must not return
	_, panicked, _ = lib.Try(func() error { propeller.PadMessage(msg, -1); return nil })
	h.res.Hit(fmt.Sprintf("pad-edge:k=-1:panicked=%v", panicked))
}

func secE2E(h *hctx, r *lib.RNG) {
	type kp struct{ k, p int }
	var cfgs []kp
	for n := 2; n <= h.f.Scale(12, 14); n++ { // the scheduler's (k, p) for a committee of n
		k := max(1, (n-1)/3)
		cfgs = append(cfgs, kp{k, n - 1 - k})
	}
	cfgs = append(cfgs, kp{2, 1}, kp{2, 2}, kp{3, 1}, kp{3, 2}, kp{4, 2}, kp{3, 3}, kp{5, 2}, kp{4, 4})
	if h.f.Thorough() {
		cfgs = append(cfgs, kp{6, 5}, kp{7, 4}, kp{2, 9}, kp{5, 10}, kp{10, 20})
	}
	for ci, c := range cfgs {
		k := c.k
		lens := []int{0, 1, 2*k - 2, 2*k - 1, 2 * k, 2*k + 1, 4*k - 1, 126, 127, 128}
		if k > 2 {
			lens = append(lens, k-1, k, k+1)
		}
		if ci%6 == 1 || h.f.Thorough() { // 3-byte varint prefix: a few configurations are enough
			lens = append(lens, 16383, 16384)
		}
		seen := map[int]bool{}
		for _, l := range lens {
			if l < 0 || seen[l] {
				continue
			}
			seen[l] = true
			n := c.k + c.p
			limit := h.f.Scale(2048, 8192) // all subsets up to n = 11 (thorough: 13)
			switch {
			case l > 1000:
				limit = h.f.Scale(12, 128)
			case n > 13:
				limit = h.f.Scale(300, 3000)
			case n > 9 && l > 2*k+1:
				limit = h.f.Scale(300, 8192)
			}
			e2eCase(h, c.k, c.p, genMsg(r, l), lib.Pick(r, []uint64{0, 1, 1758700000000000000, 1<<63 - 1, 1 << 63}), r, limit)
		}
	}
	// more than 256 shards: the Leopard codec (shard size rounded up to 64 bytes)
	for _, c := range []kp{{99, 200}, {256, 1}, {3, 300}} {
		for _, l := range []int{2*c.k - 1, 700} {
			e2eCase(h, c.k, c.p, genMsg(r, l), 7, r, h.f.Scale(10, 120))
		}
	}
	constructEdgeCases(h, r)
	for i := 0; i < h.f.Scale(80, 1500); i++ {
		k, p := r.Range(1, 6), r.Range(0, 6)
		e2eCase(h, k, p, genMsg(r, r.Intn(8*k+4)), r.Uint64()>>uint(r.Intn(64)), r, h.f.Scale(64, 256))
	}
	_ = strconv.Itoa
}
