//go:build verif

package main

import (
	"bytes"
	"fmt"
	"strconv"
	"strings"

	"github.com/NethermindEth/juno/consensus/propeller"
	"github.com/NethermindEth/juno/consensus/propeller/merkle"
	"github.com/libp2p/go-libp2p/core/peer"
	"verif/harness/lib"
)

var validateErrs = [][2]string{
	{"duplicated shard", "duplicate"},
	{"self sending", "self-send"},
	{"self published", "self-published"},
	{"out of range", "index-range"},
	{"not found in the peer list", "publisher-unknown"},
	{"unexpected sender", "unexpected-sender"},
	{"unexpected amount of shards", "shard-count"},
	{"data shards verification failed", "merkle"},
	{"signature missmatch", "sig-mismatch"},
	{"empty signature", "sig-empty"},
	{"signature is invalid", "sig-invalid"},
	{"failed pub key verification", "sig-invalid"},
}

var schedErrs = [][2]string{
	{"at least 2 peers", "too-few"},
	{"not part of the supplied list", "local-missing"},
	{"duplicated ids", "duplicate"},
}

// ---------------------------------------------------------------------------------------------
// scheduler

func schedCase(h *hctx, n, localIdx int) {
	h.guard("scheduler", map[string]any{"kind": "sched", "n": n, "local": localIdx}, func() { schedCase0(h, n, localIdx) })
}

func schedCase0(h *hctx, n, localIdx int) {
	ms := makeCommittee(n, uint64(n))
	outsider := makeMember(999983)
	local := outsider
	if localIdx < n {
		local = ms[localIdx]
	}
	rp := map[string]any{"kind": "sched", "n": n, "local": localIdx}
	h.res.Case(fmt.Sprintf("sched/%d/%d", n, localIdx), n >= 2)
	var s *propeller.Scheduler
	err, panicked, _ := lib.Try(func() error {
		var e error
		s, e = propeller.NewScheduler(local.id, peerCommittee(ms))
		return e
	})
	if panicked {
		h.violate("scheduler-new-panics", fmt.Sprintf("NewScheduler(n=%d): %v", n, err), rp)
		return
	}
	impl := classify(err, schedErrs)
	if err == nil {
		impl = fmt.Sprintf("ok %d %d %d %s", s.NumDataShards(), s.NumCodingShards(), localIdx, hexList(idList(ms)))
	}
	// the model gets the peers in a rotated (unsorted) order
	rot := append(append([][]byte{}, idList(ms)[n/2:]...), idList(ms)[:n/2]...)
	model := h.ask("sched " + hx([]byte(local.id)) + " " + hexList(rot))
	if model != "" {
		h.res.Compared(1)
		if !sameVerdict(model, impl) {
			h.res.Mismatch(lib.Mismatch{Sig: "sched-new", Input: rp, Model: clip(model), Impl: clip(impl)})
		}
	}
	h.res.Hit("sched:new-" + outcomeTag(impl))
	if err != nil {
		return
	}
	h.check("vreset", rp, "vreset "+h.cfg.String()+" "+hx([]byte(local.id))+" "+hexList(idList(ms)), "ok", false)
	k, c := s.NumDataShards(), s.NumCodingShards()
	wantRecv := 2 * k
	if n <= 3 {
		wantRecv = k
	}
	if k != max(1, (n-1)/3) || k+c != n-1 || s.BuildThreshold() != k || s.NumTotalShards() != n-1 || s.ReceiveThreshold() != wantRecv {
		h.violate("scheduler-shard-counts", fmt.Sprintf("n=%d: k=%d c=%d total=%d build=%d receive=%d", n, k, c, s.NumTotalShards(), s.BuildThreshold(), s.ReceiveThreshold()), rp)
	}
	// the publisher's list of targets is, index by index, the designated broadcaster every receiver
	// checks the origin against
	{
		tgs := s.BroadcastTargets()
		tl := make([][]byte, len(tgs))
		for i, t := range tgs {
			tl[i] = []byte(t)
		}
		h.check("sched-broadcast-targets", rp, "btargets "+hx([]byte(local.id))+" "+hexList(rot), "ok "+hexList(tl), false)
	}
	if tg := s.BroadcastTargets(); len(tg) != k+c {
		h.violate("scheduler-broadcast-targets-differ-from-designated-broadcasters", fmt.Sprintf("n=%d: %d targets for %d shards", n, len(tg), k+c), rp)
	} else {
		for i, t := range tg {
			if q, e := s.PeerForShardIndex(local.id, propeller.ShardIndex(i)); e != nil || q != t {
				h.violate("scheduler-broadcast-targets-differ-from-designated-broadcasters",
					fmt.Sprintf("n=%d local=%d: BroadcastTargets()[%d] = %s but PeerForShardIndex(self, %d) = %s (%v)", n, localIdx, i, t, i, q, e), rp)
			}
		}
	}
	everyone := append(append([]member{}, ms...), outsider)
	for _, pub := range everyone {
		// bijection shard index <-> non-publisher peer, consistent with the peer's own view
		seen := map[peer.ID]bool{}
		for i := 0; i < k+c+2; i++ {
			p, e := s.PeerForShardIndex(pub.id, propeller.ShardIndex(i))
			if e != nil {
				continue
			}
			if i >= k+c || p == pub.id || seen[p] {
				h.violate("scheduler-shard-peer-mapping-not-bijective", fmt.Sprintf("n=%d publisher=%s shard %d -> %s", n, pub.id, i, p), rp)
			}
			seen[p] = true
			if other, e2 := propeller.NewScheduler(p, peerCommittee(ms)); e2 == nil {
				if si, e3 := other.ShardIndexForPublisher(pub.id); e3 != nil || int(si) != i {
					h.violate("scheduler-shard-index-for-publisher-inconsistent",
						fmt.Sprintf("n=%d publisher=%s: shard %d belongs to %s, whose own index is %d (%v)", n, pub.id, i, p, si, e3), rp)
				}
			}
		}
		si, e := s.ShardIndexForPublisher(pub.id)
		implS := classify(e, validateErrs)
		if e == nil {
			implS = "ok " + strconv.Itoa(int(si))
		} else if strings.Contains(e.Error(), "same as the publisher") {
			implS = "err:self-published"
		}
		h.check("sched-shardfor", rp, "sshardfor "+hx([]byte(pub.id)), implS, true)
		for _, sender := range everyone {
			for i := 0; i < k+c+2; i++ {
				var e error
				_, pan, _ := lib.Try(func() error { e = s.ValidateShardOrigin(sender.id, pub.id, propeller.ShardIndex(i)); return nil })
				if pan {
					h.violate("scheduler-validate-origin-panics", fmt.Sprintf("n=%d index=%d", n, i), rp)
					continue
				}
				implS := classify(e, validateErrs)
				h.check("sched-origin", map[string]any{"n": n, "local": localIdx, "index": i},
					fmt.Sprintf("sorigin %s %s %d", hx([]byte(sender.id)), hx([]byte(pub.id)), i), implS, true)
				if i == 0 { // the stateless form of the request, once per (publisher, sender)
					h.check("sched-origin", map[string]any{"n": n, "local": localIdx, "index": i},
						fmt.Sprintf("origin %s %s %s %s %d", hx([]byte(local.id)), hexList(idList(ms)), hx([]byte(sender.id)), hx([]byte(pub.id)), i), implS, true)
				}
				h.res.Hit("origin:" + implS)
				// oracle: accepted exactly for the designated broadcaster, or the publisher itself
				// when the local peer is the designated broadcaster
				want := false
				if sender.id != local.id && pub.id != local.id && i < k+c {
					if exp, e2 := s.PeerForShardIndex(pub.id, propeller.ShardIndex(i)); e2 == nil {
						want = exp == sender.id || (exp == local.id && sender.id == pub.id)
					}
				}
				if (e == nil) != want {
					h.violate("scheduler-origin-check-wrong", fmt.Sprintf("n=%d local=%d: ValidateShardOrigin(sender=%s, publisher=%s, %d) = %v", n, localIdx, sender.id, pub.id, i, e), rp)
				}
			}
		}
	}
}

func secSched(h *hctx, r *lib.RNG) {
	for n := 1; n <= h.f.Scale(6, 9); n++ {
		for l := 0; l <= n; l++ {
			schedCase(h, n, l)
		}
	}
	for _, n := range []int{10, 13, 31} {
		schedCase(h, n, r.Intn(n))
	}
	// duplicates
	ms := makeCommittee(3, 3)
	pcs := peerCommittee([]member{ms[0], ms[1], ms[1]})
	_, err := propeller.NewScheduler(ms[0].id, pcs)
	m := h.ask("sched " + hx([]byte(ms[0].id)) + " " + hexList(idList([]member{ms[1], ms[0], ms[1]})))
	if m != "" {
		h.res.Compared(1)
		if !sameVerdict(m, classify(err, schedErrs)) {
			h.res.Mismatch(lib.Mismatch{Sig: "sched-new-duplicate", Model: m, Impl: classify(err, schedErrs)})
		}
	}
}

// ---------------------------------------------------------------------------------------------
// validator behind the processor's routing

type msgKey struct {
	cid   propeller.CommitteeID
	pub   peer.ID
	root  propeller.MessageRoot
	nonce propeller.Nonce
}

// session emulates Processor.ProcessMessage -> subprocessor -> UnitValidator.Validate: one
// validator per message key (processor.go extractKey / createSubprocessor). The Processor itself
// cannot be driven (it logs through a nil logger and blocks on an unset channel).
type session struct {
	h      *hctx
	sched  *propeller.Scheduler
	routes map[msgKey]*propeller.UnitValidator
}

func newSession(h *hctx, local member, ms []member) (*session, error) {
	s, err := propeller.NewScheduler(local.id, peerCommittee(ms))
	if err != nil {
		return nil, err
	}
	h.check("vreset", n0(len(ms)), "vreset "+h.cfg.String()+" "+hx([]byte(local.id))+" "+hexList(idList(ms)), "ok", false)
	return &session{h: h, sched: s, routes: map[msgKey]*propeller.UnitValidator{}}, nil
}

// deliver returns the implementation verdict ("ok", "err:<class>", "panic") and compares it with
// the model's.
func (s *session) deliver(u *propeller.Unit, sender peer.ID, what string) string {
	key := msgKey{u.CommitteeID, u.Publisher, u.MessageRoot, u.Nonce}
	impl := ""
	v, ok := s.routes[key]
	if !ok {
		if _, err := s.sched.ShardIndexForPublisher(key.pub); err != nil {
			impl = "err:route"
		} else {
			err, panicked, _ := lib.Try(func() error { nv := propeller.NewValidator(key.pub, s.sched); v = &nv; return nil })
			if panicked {
				impl = "panic:" + err.Error()
			} else {
				s.routes[key] = v
			}
		}
	}
	if impl == "" {
		var verr error
		err, panicked, _ := lib.Try(func() error { verr = v.Validate(u, sender); return nil })
		if panicked {
			impl = "panic:" + err.Error()
		} else {
			impl = classify(verr, validateErrs)
		}
	}
	// the signature bit the model's verifySignature needs, from the real public key
	sigok := false
	if pk, err := key.pub.ExtractPublicKey(); err == nil && len(u.Signature) > 0 {
		good, e := pk.Verify(signPayload(hash(u.MessageRoot), u.CommitteeID, uint64(u.Nonce)), u.Signature)
		sigok = good && e == nil
	}
	shards := make([][]byte, len(u.ShardData))
	for i, x := range u.ShardData {
		shards[i] = x
	}
	cmp := impl
	if strings.HasPrefix(impl, "panic") {
		cmp = "panic"
	}
	s.h.check("validate", map[string]any{"what": what, "index": uint32(u.ShardIndex)},
		fmt.Sprintf("deliver %s %s %s %s %s %s %d %s %d %s", b01(sigok), hx(u.CommitteeID[:]), hx([]byte(u.Publisher)),
			s.h.tt.termOf(hash(u.MessageRoot)), s.h.tt.termList(toHashes(u.MerkleProof.Siblings)), hx(u.Signature),
			uint32(u.ShardIndex), hexList(shards), uint64(u.Nonce), hx([]byte(sender))), cmp, true)
	return impl
}

// dialectUnits builds the units of a message the way the validator under test expects them
// (Merkle leaves in the validator's encoding, Nonce field set), using only public API. On a tree
// where CreatePropellerUnits and UnitValidator agree they equal the created units.
func dialectUnits(created []propeller.Unit, pub member, cid propeller.CommitteeID, nonce uint64, validatorProto bool) []propeller.Unit {
	leaves := make([][]byte, len(created))
	for i := range created {
		if validatorProto {
			leaves[i] = created[i].ShardData.MarshalProto()
		} else {
			leaves[i] = created[i].ShardData[0]
		}
	}
	root, tree := merkle.New(leaves)
	mr := propeller.MessageRoot(root)
	sig, err := propeller.SignMessage(pub.priv, &mr, &cid, propeller.Nonce(nonce))
	if err != nil {
		panic(err)
	}
	out := make([]propeller.Unit, len(created))
	for i := range created {
		out[i] = propeller.Unit{CommitteeID: cid, Publisher: pub.id, MessageRoot: mr, MerkleProof: tree[i], Signature: sig,
			ShardIndex: propeller.ShardIndex(i), ShardData: propeller.ShardData{append(propeller.Shard{}, created[i].ShardData[0]...)},
			Nonce: propeller.Nonce(nonce)}
	}
	return out
}

// legitSender: who may hand shard i of publisher pub to the local peer.
func legitSender(s *propeller.Scheduler, local, pub peer.ID, i int) (peer.ID, bool) {
	exp, err := s.PeerForShardIndex(pub, propeller.ShardIndex(i))
	if err != nil {
		return "", false
	}
	if exp == local {
		return pub, true
	}
	return exp, true
}

func validatorCase(h *hctx, n, localIdx, pubIdx int, msg []byte, nonce uint64, r *lib.RNG) {
	seedForReplay := r.Uint64() >> 12
	h.guard("validator", map[string]any{"kind": "validator", "n": n, "local": localIdx, "publisher": pubIdx, "msg": hx(msg), "nonce": strconv.FormatUint(nonce, 10), "rng": seedForReplay},
		func() { validatorCase0(h, n, localIdx, pubIdx, msg, nonce, seedForReplay) })
}

func validatorCase0(h *hctx, n, localIdx, pubIdx int, msg []byte, nonce uint64, seedForReplay uint64) {
	r := lib.NewRNG(seedForReplay)
	rp := func(extra map[string]any) map[string]any {
		m := map[string]any{"kind": "validator", "n": n, "local": localIdx, "publisher": pubIdx, "msg": hx(msg), "nonce": strconv.FormatUint(nonce, 10), "rng": seedForReplay}
		for a, b := range extra {
			m[a] = b
		}
		return m
	}
	ms := makeCommittee(n, uint64(100+n))
	local, pub := ms[localIdx], ms[pubIdx]
	outsider := makeMember(999979)
	var cid propeller.CommitteeID
	copy(cid[:], r.Bytes(32))
	h.res.Case(fmt.Sprintf("validator/%d/%d/%d/%d", n, localIdx, pubIdx, len(msg)), true)

	ses, err := newSession(h, local, ms)
	if err != nil {
		h.res.Fatalf("validatorCase: %v", err)
		return
	}
	k, p := ses.sched.NumDataShards(), ses.sched.NumCodingShards()
	total := k + p
	created, err := propeller.CreatePropellerUnits(pub.priv, &cid, propeller.Nonce(nonce), msg, k, p)
	if err != nil {
		h.violate("create-units-fails", fmt.Sprintf("CreatePropellerUnits(k=%d,p=%d): %v", k, p, err), rp(nil))
		return
	}
	// make the hashes of both trees known to the term table (model speaks in terms)
	rawLeaves := make([][]byte, total)
	proLeaves := make([][]byte, total)
	for i := range created {
		rawLeaves[i] = created[i].ShardData[0]
		proLeaves[i] = created[i].ShardData.MarshalProto()
	}
	modelMerkle(h, rawLeaves)
	modelMerkle(h, proLeaves)

	// --- honest units exactly as CreatePropellerUnits makes them: all must be accepted ---
	order := make([]int, total)
	for i := range order {
		order[i] = i
	}
	lib.Shuffle(r, order)
	for _, i := range order {
		sender, _ := legitSender(ses.sched, local.id, pub.id, i)
		v := ses.deliver(cloneUnit(&created[i]), sender, "honest-created")
		h.res.Hit("validate-honest-created:" + outcomeTag(v))
		if v != "ok" {
			// cause, determined with the public API (not from the error text)
			u := &created[i]
			rt := merkle.Hash(u.MessageRoot)
			leaf := []byte(u.ShardData[0])
			if h.cfg.ValidatorLeafProto {
				leaf = u.ShardData.MarshalProto()
			}
			cause := "unexplained"
			switch {
			case !u.MerkleProof.Verify(&rt, leaf, uint32(u.ShardIndex)):
				cause = "leaf-encoding"
			case propeller.VerifyMessageSignature(pub.pub, &u.MessageRoot, &u.CommitteeID, u.Nonce, u.Signature) != nil:
				cause = "signature-over-own-fields"
			}
			sig := "validator-rejects-honest-created-unit-" + cause
			if cause == "signature-over-own-fields" && uint64(u.Nonce) != nonce &&
				propeller.VerifyMessageSignature(pub.pub, &u.MessageRoot, &u.CommitteeID, propeller.Nonce(nonce), u.Signature) == nil {
				// the same defect the e2e section reports: Unit.Nonce is not what was signed
				sig = "created-unit-nonce-field-not-set-signature-unverifiable"
			}
			h.violate(sig,
				fmt.Sprintf("UnitValidator.Validate rejects unit %d made by CreatePropellerUnits (n=%d, k=%d, p=%d, nonce=%d) from its designated sender: %s",
					i, n, k, p, nonce, v), rp(map[string]any{"unit": i}))
		}
	}

	// --- well-formed units in the validator's own dialect ---
	good := dialectUnits(created, pub, cid, nonce, h.cfg.ValidatorLeafProto)
	other := dialectUnits(mustCreate(pub, cid, nonce, append([]byte("other message "), msg...), k, p), pub, cid, nonce, h.cfg.ValidatorLeafProto)
	for _, us := range [][]propeller.Unit{good, other} {
		ls := make([][]byte, total)
		for i := range us {
			if h.cfg.ValidatorLeafProto {
				ls[i] = us[i].ShardData.MarshalProto()
			} else {
				ls[i] = us[i].ShardData[0]
			}
		}
		modelMerkle(h, ls)
	}
	ses, _ = newSession(h, local, ms)
	lib.Shuffle(r, order)
	for _, i := range order {
		sender, _ := legitSender(ses.sched, local.id, pub.id, i)
		v := ses.deliver(cloneUnit(&good[i]), sender, "wellformed")
		h.res.Hit("validate-wellformed:" + outcomeTag(v))
		if v != "ok" {
			h.violate("validator-rejects-wellformed-unit",
				fmt.Sprintf("UnitValidator.Validate rejects a well-formed unit %d (n=%d): %s", i, n, v), rp(map[string]any{"unit": i}))
		}
		v2 := ses.deliver(cloneUnit(&good[i]), sender, "duplicate")
		if v2 == "ok" {
			h.violate("validator-accepts-duplicate-shard", fmt.Sprintf("unit %d accepted twice (n=%d)", i, n), rp(map[string]any{"unit": i}))
		}
	}

	// --- single-field corruptions ---
	members := map[peer.ID]bool{}
	for _, m := range ms {
		members[m.id] = true
	}
	size := 2
	for size < total {
		size *= 2
	}
	type corruption struct {
		name  string
		apply func(u *propeller.Unit, sender *peer.ID, i int) bool // false: not applicable here
	}
	cs := []corruption{
		{"shard-flip", func(u *propeller.Unit, _ *peer.ID, _ int) bool {
			s := u.ShardData[0]
			s[r.Intn(len(s))] ^= 1 << uint(r.Intn(8))
			return true
		}},
		{"shard-trunc", func(u *propeller.Unit, _ *peer.ID, _ int) bool {
			u.ShardData[0] = u.ShardData[0][:len(u.ShardData[0])-1]
			return true
		}},
		{"shard-extend", func(u *propeller.Unit, _ *peer.ID, _ int) bool {
			u.ShardData[0] = append(u.ShardData[0], 0)
			return true
		}},
		{"shard-empty", func(u *propeller.Unit, _ *peer.ID, _ int) bool { u.ShardData[0] = propeller.Shard{}; return true }},
		{"shard-of-other-index", func(u *propeller.Unit, _ *peer.ID, i int) bool {
			if total < 2 {
				return false
			}
			u.ShardData = cloneUnit(&good[(i+1+r.Intn(total-1))%total]).ShardData
			return true
		}},
		{"shards-none", func(u *propeller.Unit, _ *peer.ID, _ int) bool { u.ShardData = propeller.ShardData{}; return true }},
		{"shards-two", func(u *propeller.Unit, _ *peer.ID, _ int) bool {
			u.ShardData = append(u.ShardData, append(propeller.Shard{}, u.ShardData[0]...))
			return true
		}},
		{"proof-sibling-flip", func(u *propeller.Unit, _ *peer.ID, _ int) bool {
			if len(u.MerkleProof.Siblings) == 0 {
				return false
			}
			j := r.Intn(len(u.MerkleProof.Siblings))
			u.MerkleProof.Siblings[j][r.Intn(32)] ^= 1 << uint(r.Intn(8))
			return true
		}},
		{"proof-drop-last", func(u *propeller.Unit, _ *peer.ID, _ int) bool {
			if len(u.MerkleProof.Siblings) == 0 {
				return false
			}
			u.MerkleProof.Siblings = u.MerkleProof.Siblings[:len(u.MerkleProof.Siblings)-1]
			return true
		}},
		{"proof-extra", func(u *propeller.Unit, _ *peer.ID, _ int) bool {
			u.MerkleProof.Siblings = append(u.MerkleProof.Siblings, merkle.Hash{})
			return true
		}},
		{"proof-of-other-index", func(u *propeller.Unit, _ *peer.ID, i int) bool {
			if total < 2 {
				return false
			}
			u.MerkleProof = cloneUnit(&good[(i+1+r.Intn(total-1))%total]).MerkleProof
			return true
		}},
		{"index-other", func(u *propeller.Unit, _ *peer.ID, i int) bool {
			if total < 2 {
				return false
			}
			u.ShardIndex = propeller.ShardIndex((i + 1 + r.Intn(total-1)) % total)
			return true
		}},
		{"index-out-of-range", func(u *propeller.Unit, _ *peer.ID, i int) bool {
			u.ShardIndex = propeller.ShardIndex(lib.Pick(r, []int{total, total + 1, i + size, i + 2*size, i | 1<<31}))
			return true
		}},
		{"sig-flip", func(u *propeller.Unit, _ *peer.ID, _ int) bool {
			u.Signature[r.Intn(len(u.Signature))] ^= 1 << uint(r.Intn(8))
			return true
		}},
		{"sig-empty", func(u *propeller.Unit, _ *peer.ID, _ int) bool { u.Signature = nil; return true }},
		{"sig-trunc", func(u *propeller.Unit, _ *peer.ID, _ int) bool {
			u.Signature = u.Signature[:len(u.Signature)-1]
			return true
		}},
		{"sig-of-other-message", func(u *propeller.Unit, _ *peer.ID, _ int) bool {
			u.Signature = append(propeller.Signature{}, other[0].Signature...)
			return true
		}},
		{"committee-flip", func(u *propeller.Unit, _ *peer.ID, _ int) bool { u.CommitteeID[r.Intn(32)] ^= 1; return true }},
		{"nonce-change", func(u *propeller.Unit, _ *peer.ID, _ int) bool {
			u.Nonce += propeller.Nonce(lib.Pick(r, []int64{1, -1, 1 << 32}))
			return true
		}},
		{"root-flip", func(u *propeller.Unit, _ *peer.ID, _ int) bool { u.MessageRoot[r.Intn(32)] ^= 1; return true }},
		{"root-of-other-message", func(u *propeller.Unit, _ *peer.ID, _ int) bool { u.MessageRoot = other[0].MessageRoot; return true }},
		{"root-proof-sig-of-other-message", func(u *propeller.Unit, _ *peer.ID, i int) bool {
			u.MessageRoot = other[i].MessageRoot
			u.MerkleProof = cloneUnit(&other[i]).MerkleProof
			u.Signature = append(propeller.Signature{}, other[i].Signature...)
			return true
		}},
		{"publisher-other-member", func(u *propeller.Unit, _ *peer.ID, _ int) bool {
			cand := ms[r.Intn(n)]
			if cand.id == pub.id {
				return false
			}
			u.Publisher = cand.id
			return true
		}},
		{"publisher-outsider", func(u *propeller.Unit, _ *peer.ID, _ int) bool { u.Publisher = outsider.id; return true }},
		{"publisher-garbage", func(u *propeller.Unit, _ *peer.ID, _ int) bool { u.Publisher = peer.ID("garbage"); return true }},
		{"sender-other-member", func(u *propeller.Unit, sender *peer.ID, _ int) bool {
			cand := ms[r.Intn(n)]
			if cand.id == *sender {
				return false
			}
			*sender = cand.id
			return true
		}},
		{"sender-outsider", func(u *propeller.Unit, sender *peer.ID, _ int) bool { *sender = outsider.id; return true }},
		{"sender-local", func(u *propeller.Unit, sender *peer.ID, _ int) bool { *sender = local.id; return true }},
		{"sender-publisher", func(u *propeller.Unit, sender *peer.ID, _ int) bool {
			if *sender == pub.id {
				return false
			}
			*sender = pub.id
			return true
		}},
	}

	unitsToTry := order
	if len(unitsToTry) > h.f.Scale(4, 10) {
		unitsToTry = unitsToTry[:h.f.Scale(4, 10)]
	}
	for _, i := range unitsToTry {
		for _, c := range cs {
			// warm: number of honest units validated before (0: cold validator; 1: signature cached;
			// 2: two received; k: the build threshold was reached before the corrupted unit comes)
			warms := []int{0, 1}
			if total >= 3 {
				warms = append(warms, 2)
			}
			if k > 2 && k < total {
				warms = append(warms, k)
			}
			for _, warm := range warms {
				if warm > 0 && total < 2 {
					continue
				}
				u := cloneUnit(&good[i])
				sender, _ := legitSender(ses.sched, local.id, pub.id, i)
				if !c.apply(u, &sender, i) {
					continue
				}
				ses, _ = newSession(h, local, ms)
				accepted := make([]*propeller.Unit, total)
				nacc := 0
				j0 := r.Intn(total)
				for d, done := 0, 0; d < total && done < warm; d++ {
					j := (j0 + d) % total
					if j == i {
						continue
					}
					sj, _ := legitSender(ses.sched, local.id, pub.id, j)
					if ses.deliver(cloneUnit(&good[j]), sj, "warm-up") == "ok" {
						accepted[j] = cloneUnit(&good[j])
						nacc++
					}
					done++
				}
				v := ses.deliver(u, sender, c.name)
				tag := outcomeTag(v)
				h.res.Hit("validate-corrupt:" + c.name + ":" + tag)
				rpc := rp(map[string]any{"unit": i, "corruption": c.name, "after_honest_unit": warm})
				if strings.HasPrefix(v, "panic") {
					h.violate("validator-panics-on-corrupted-unit-"+c.name, fmt.Sprintf("n=%d unit %d, %s: %s", n, i, c.name, v), rpc)
					continue
				}
				if v == "ok" {
					// accepted: it must be indistinguishable from an honest delivery
					idx := int(u.ShardIndex)
					ls, okS := legitSender(ses.sched, local.id, pub.id, idx)
					harmless := false
					sigValid := propeller.VerifyMessageSignature(pub.pub, &u.MessageRoot, &u.CommitteeID, u.Nonce, u.Signature) == nil
					for _, hs := range [][]propeller.Unit{good, other} {
						if !sigValid {
							break
						}
						if okS && ls == sender && idx < total && u.CommitteeID == cid && u.Publisher == pub.id &&
							u.MessageRoot == hs[0].MessageRoot && uint64(u.Nonce) == nonce && len(u.ShardData) == 1 &&
							bytes.Equal(u.ShardData[0], hs[idx].ShardData[0]) {
							harmless = true
						}
					}
					if !harmless {
						h.violate("validator-accepts-corrupted-unit-"+c.name,
							fmt.Sprintf("UnitValidator.Validate accepts unit %d with %s (n=%d, after %d honest units)", i, c.name, n, warm), rpc)
					} else {
						h.res.Hit("validate-corrupt:" + c.name + ":accepted-but-identical-to-honest")
					}
					if idx < total && accepted[idx] == nil && u.MessageRoot == good[0].MessageRoot {
						accepted[idx] = u
						nacc++
					}
				}
				// whatever happened: honest units still get through and the exact message is rebuilt
				for _, j := range order {
					if nacc >= k {
						break
					}
					if accepted[j] != nil {
						continue
					}
					sj, _ := legitSender(ses.sched, local.id, pub.id, j)
					if vj := ses.deliver(cloneUnit(&good[j]), sj, "honest-after-corrupt"); vj == "ok" {
						accepted[j] = cloneUnit(&good[j])
						nacc++
					} else if !(j == int(u.ShardIndex) && v == "ok") {
						h.violate("validator-rejects-honest-unit-after-corrupted-one",
							fmt.Sprintf("n=%d: after %s on unit %d, honest unit %d is rejected: %s", n, c.name, i, j, vj), rpc)
					}
				}
				if nacc >= k && (accepted[0] != nil || h.cfg.RootFromPresent) {
					// construct from what was accepted (dialect units verify in Construct only when
					// sharding and validator agree on the leaf encoding)
					if h.cfg.ShardingLeafProto == h.cfg.ValidatorLeafProto {
						out, got, cerr := constructOutcome(h, accepted, localShard(ses.sched, pub.id), k, p)
						if out == "panic" {
							h.violate("construct-panics-after-corrupted-unit", fmt.Sprintf("%s: %v", c.name, cerr), rpc)
						} else if cerr == nil && !bytes.Equal(got, msg) {
							h.violate("corrupted-unit-changes-delivered-message", fmt.Sprintf("n=%d %s on unit %d: delivered %x", n, c.name, i, clipB(got)), rpc)
						} else if cerr != nil && v != "ok" {
							h.violate("construct-fails-on-validated-units", fmt.Sprintf("n=%d after rejected %s: %v", n, c.name, cerr), rpc)
						}
					}
				}
			}
		}
	}
}

func n0(n int) map[string]any { return map[string]any{"n": n} }

func localShard(s *propeller.Scheduler, pub peer.ID) int {
	i, err := s.ShardIndexForPublisher(pub)
	if err != nil {
		return 0
	}
	return int(i)
}

func mustCreate(pub member, cid propeller.CommitteeID, nonce uint64, msg []byte, k, p int) []propeller.Unit {
	us, err := propeller.CreatePropellerUnits(pub.priv, &cid, propeller.Nonce(nonce), msg, k, p)
	if err != nil {
		panic(err)
	}
	return us
}

func secValidator(h *hctx, r *lib.RNG) {
	ns := []int{2, 3, 4, 5, 7, 10}
	if h.f.Thorough() {
		ns = []int{2, 3, 4, 5, 6, 7, 8, 9, 10, 11, 13, 16}
	}
	for _, n := range ns {
		combos := 0
		for l := 0; l < n; l++ {
			for q := 0; q < n; q++ {
				if q == l {
					continue
				}
				// small committees: every (local, publisher); larger: a sample
				if n > 4 && !r.Chance(h.f.Scale(3, 10), n*(n-1)) && combos > 0 {
					continue
				}
				combos++
				msg := genMsg(r, lib.Pick(r, []int{0, 1, 5, 40, 127, 128, 300}))
				validatorCase(h, n, l, q, msg, lib.Pick(r, []uint64{0, 5, 1758700000000000000}), r)
			}
		}
	}
}
