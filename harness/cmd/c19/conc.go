//go:build verif

package main

// conc.go — the CONCURRENT family (round 5).
//
// Everything else in this harness signs, hashes, encodes, validates and reconstructs ONE message at a
// time. The node does not: Engine.prepareUnitsForBroadcast signs in a goroutine of its own, every message
// key has its own subprocessor goroutine that validates (verifySignature -> buildSignPayload, Merkle
// Verify -> merkleLeafHash / merkleNodeHash) and reconstructs (RecoverData, merkle.New). Any state these
// functions share — a package-level scratch buffer instead of a local array, a sync.Pool whose blocks
// escape, a codec cache — is invisible sequentially and mixes the bytes of two messages when two are in
// flight. The property is per message, so the oracle is the SEQUENTIAL one, per message:
//
//   * every unit of CreatePropellerUnits is accepted by a fresh validator, from its designated sender;
//   * the signature is the (deterministic) Ed25519 signature over the protocol's payload of THIS
//     message's (root, committee, nonce); root and proofs are the protocol's tree over THIS message's
//     shards; the data shards are THIS message, padded;
//   * any k units rebuild exactly the message, the local shard and its proof;
//   * a unit with another nonce is rejected;
//   * and what a goroutine got back (units, proofs, shards) is still that after everybody else has
//     finished (nothing returned aliases a buffer that is reused).
//
// Two levels: (1) the library functions from G goroutines of this process; (2) ONE real Processor (child
// process) with M messages of M publishers in flight, each handed over by a goroutine of its own while
// the subprocessors validate concurrently. Thorough tier: both again under Go's race detector.
// No oracle depends on time; the interleaving is whatever the scheduler gives (GOMAXPROCS > 1).

import (
	"bufio"
	"bytes"
	"context"
	"encoding/json"
	"fmt"
	"os"
	"runtime"
	"runtime/debug"
	"sort"
	"strconv"
	"strings"
	"sync"
	"time"

	"github.com/NethermindEth/juno/consensus/propeller"
	"github.com/NethermindEth/juno/consensus/propeller/merkle"
	"github.com/libp2p/go-libp2p/core/peer"
	"verif/harness/lib"
)

// concJob: one message of one goroutine.
type concJob struct {
	G     int    `json:"goroutine"`
	Round int    `json:"round"`
	N     int    `json:"n"` // committee size (0: a bare (k, p) configuration, no validator)
	K     int    `json:"k"`
	P     int    `json:"p"`
	Pub   int    `json:"publisher"`
	Msg   string `json:"msg"`
	Nonce string `json:"nonce"`
}

type concParams struct {
	Goroutines int    `json:"goroutines"`
	Rounds     int    `json:"rounds"`
	Seed       uint64 `json:"seed"`
}

type concFailure struct {
	Sig  string  `json:"sig"`
	What string  `json:"what"`
	Job  concJob `json:"job"`
}

// concWorld: one committee per size, local peer = member 0 (the receiver every goroutine validates for).
type concWorld struct {
	n     int
	ms    []member
	sched *propeller.Scheduler
	k, p  int
}

var concCommittees = []int{2, 3, 4, 5, 7, 10}

// bare (k, p) configurations: pairs with EQUAL totals and different splits (a codec cached per total
// would be the wrong one), incl. the totals of the committees of 5, 7 and 10
var concConfigs = [][2]int{{2, 4}, {1, 5}, {3, 3}, {4, 2}, {1, 3}, {2, 2}, {3, 1}, {3, 6}, {2, 7}, {5, 1}}

func newConcWorlds() (map[int]*concWorld, error) {
	ws := map[int]*concWorld{}
	for _, n := range concCommittees {
		ms := makeCommittee(n, uint64(900+n))
		s, err := propeller.NewScheduler(ms[0].id, peerCommittee(ms))
		if err != nil {
			return nil, err
		}
		ws[n] = &concWorld{n: n, ms: ms, sched: s, k: s.NumDataShards(), p: s.NumCodingShards()}
	}
	return ws, nil
}

func concCid(j *concJob) propeller.CommitteeID {
	var c propeller.CommitteeID
	copy(c[:], fmt.Sprintf("verif-c19-conc-%02d-%04d-%02d--------", j.G, j.Round, j.N))
	return c
}

// concJobs: the deterministic job list of goroutine g.
func concJobs(par concParams, g int) []concJob {
	r := lib.NewRNG(par.Seed ^ uint64(g+1)*0x9E3779B97F4A7C15)
	lens := []int{0, 1, 2, 5, 17, 31, 32, 33, 63, 64, 100, 126, 127, 128, 129, 200, 243, 250, 255, 256, 257, 300, 511, 512, 700, 1019}
	jobs := make([]concJob, par.Rounds)
	for i := range jobs {
		j := concJob{G: g, Round: i}
		if i%4 == 3 {
			c := concConfigs[(g+i/4)%len(concConfigs)]
			j.K, j.P = c[0], c[1]
		} else {
			j.N = concCommittees[(g+i)%len(concCommittees)]
			j.Pub = 1 + (g+i/3)%(j.N-1)
		}
		msg := r.Bytes(lens[r.Intn(len(lens))])
		if len(msg) > 0 {
			msg[0] = byte(g) // distinct content per goroutine: distinct roots
		}
		j.Msg = hx(msg)
		// nonces around the byte boundaries of the big-endian field, distinct per (g, round)
		base := []uint64{1, 1 << 8, 1 << 16, 1 << 32, 1 << 56, 1<<63 - 5000000, 1758700000000000000}[r.Intn(7)]
		j.Nonce = strconv.FormatUint(base+uint64(g)*100003+uint64(i), 10)
		jobs[i] = j
	}
	return jobs
}

type concOut struct {
	units []propeller.Unit
	err   string
}

// concRunJob: create -> validate -> construct for one message, on the goroutine that calls it.
// Returns the created units (kept by the caller until everybody has finished).
func concRunJob(ws map[int]*concWorld, j *concJob, fail func(sig, what string)) []propeller.Unit {
	msg, _ := unhx(j.Msg)
	nonce := nonceOf(j.Nonce)
	cid := concCid(j)
	var pub member
	k, p := j.K, j.P
	var w *concWorld
	if j.N > 0 {
		w = ws[j.N]
		pub, k, p = w.ms[j.Pub], w.k, w.p
	} else {
		pub = ws[4].ms[1+j.G%3]
	}
	total := k + p
	units, err := propeller.CreatePropellerUnits(pub.priv, &cid, propeller.Nonce(nonce), append([]byte{}, msg...), k, p)
	if err != nil || len(units) != total {
		fail("concurrent-create-units-fails", fmt.Sprintf("CreatePropellerUnits(len %d, k=%d, p=%d): err=%v units=%d", len(msg), k, p, err, len(units)))
		return nil
	}
	// the signature, straight away and through the validator
	if e := propeller.VerifyMessageSignature(pub.pub, &units[0].MessageRoot, &cid, propeller.Nonce(nonce), units[0].Signature); e != nil {
		fail("concurrent-honest-signature-rejected", fmt.Sprintf("VerifyMessageSignature on the unit CreatePropellerUnits just returned (k=%d, p=%d, nonce %d): %v", k, p, nonce, e))
	}
	// sign again / verify again (what a publisher with several broadcasts in preparation does)
	for x := 0; x < 2; x++ {
		mr := units[0].MessageRoot
		sig, e := propeller.SignMessage(pub.priv, &mr, &cid, propeller.Nonce(nonce))
		if e != nil || !bytes.Equal(sig, units[0].Signature) {
			fail("concurrent-publisher-signs-a-different-payload", fmt.Sprintf("SignMessage over the same (root, committee, nonce %d) gives another signature than the one in the units (Ed25519 is deterministic): err=%v", nonce, e))
		}
	}
	if w != nil {
		li, lerr := w.sched.ShardIndexForPublisher(pub.id)
		if lerr != nil {
			fail("concurrent-scheduler-refuses-member-publisher", lerr.Error())
			return units
		}
		for i := range units {
			sender, ok := legitSender(w.sched, w.ms[0].id, pub.id, i)
			if !ok {
				fail("concurrent-scheduler-refuses-member-publisher", fmt.Sprintf("PeerForShardIndex(publisher %d, %d) fails", j.Pub, i))
				continue
			}
			v := propeller.NewValidator(pub.id, w.sched)
			if e := v.Validate(cloneUnit(&units[i]), sender); e != nil {
				fail("concurrent-validator-rejects-honest-unit", fmt.Sprintf("a fresh UnitValidator rejects unit %d of %d of the message just created (n=%d, len %d, nonce %d) from its designated sender: %v", i, total, j.N, len(msg), nonce, e))
			}
		}
		// a unit of ANOTHER nonce must not pass (a torn payload could carry the other goroutine's nonce)
		{
			u := cloneUnit(&units[int(li)%total])
			u.Nonce++
			sender, _ := legitSender(w.sched, w.ms[0].id, pub.id, int(u.ShardIndex))
			v := propeller.NewValidator(pub.id, w.sched)
			if e := v.Validate(u, sender); e == nil {
				fail("concurrent-validator-accepts-altered-unit", fmt.Sprintf("a fresh UnitValidator accepts unit %d with nonce+1 (n=%d, nonce %d)", u.ShardIndex, j.N, nonce))
			}
		}
		concConstruct(j, units, msg, k, p, int(li), fail)
	} else {
		concConstruct(j, units, msg, k, p, (j.G+j.Round)%total, fail)
	}
	concTree(j, fail)
	return units
}

// concTreeLeaves: the leaves of the goroutine's own tree of this round (2 … 49 leaves, distinct content).
func concTreeLeaves(j *concJob) [][]byte {
	n := 2 + (j.G*7+j.Round*5)%48
	leaves := make([][]byte, n)
	for i := range leaves {
		leaves[i] = []byte(fmt.Sprintf("tree-%d-%d-%d", j.G, j.Round, i))
	}
	return leaves
}

// concTree: a Merkle tree of its own per round, every proof verified with the real Verify while the
// other goroutines hash theirs (many node hashes in flight: a shared node / leaf buffer mixes them);
// root and proofs against the harness' own tree.
func concTree(j *concJob, fail func(sig, what string)) {
	leaves := concTreeLeaves(j)
	root, tree := merkle.New(leaves)
	if len(tree) != len(leaves) {
		fail("concurrent-merkle-tree-wrong", fmt.Sprintf("merkle.New over %d leaves returns %d proofs", len(leaves), len(tree)))
		return
	}
	for i := range tree {
		if !tree[i].Verify(&root, leaves[i], uint32(i)) {
			fail("concurrent-merkle-tree-wrong", fmt.Sprintf("merkle.New over %d leaves of this goroutine, then Verify of its proof %d against its root: false", len(leaves), i))
			return
		}
	}
	want := refSubtree(leaves, 0, 1<<uint(refDepth(len(leaves))))
	if hash(root) != want {
		fail("concurrent-merkle-tree-wrong", fmt.Sprintf("merkle.New over %d leaves of this goroutine: root %x, the protocol's tree has %x", len(leaves), root[:6], want[:6]))
		return
	}
	for i := range tree {
		if !refVerify(toHashes(tree[i].Siblings), want, leaves[i], uint32(i)) {
			fail("concurrent-merkle-tree-wrong", fmt.Sprintf("merkle.New over %d leaves of this goroutine: proof %d does not verify under the protocol's hashes", len(leaves), i))
			return
		}
	}
}

// concConstruct: k units (a window that moves with the round: shard 0 is missing most of the time).
func concConstruct(j *concJob, units []propeller.Unit, msg []byte, k, p, li int, fail func(sig, what string)) {
	total := k + p
	ptrs := make([]*propeller.Unit, total)
	start := (j.Round + j.G) % total
	for x := 0; x < k; x++ {
		i := (start + x) % total
		ptrs[i] = cloneUnit(&units[i])
	}
	got, sh, pr, err := propeller.ConstructMessageFromUnits(ptrs, propeller.ShardIndex(li), k, p)
	if err != nil {
		fail("concurrent-construct-fails", fmt.Sprintf("ConstructMessageFromUnits from %d honest units starting at %d (k=%d, p=%d, len %d): %v", k, start, k, p, len(msg), err))
		return
	}
	if !bytes.Equal(got, msg) {
		fail("concurrent-construct-returns-different-message", fmt.Sprintf("k=%d p=%d len %d: got %d bytes", k, p, len(msg), len(got)))
		return
	}
	if len(sh) != 1 || !bytes.Equal(sh[0], units[li].ShardData[0]) || hashesHex(toHashes(pr.Siblings)) != hashesHex(toHashes(units[li].MerkleProof.Siblings)) {
		fail("concurrent-construct-local-shard-or-proof-wrong", fmt.Sprintf("k=%d p=%d len %d local index %d", k, p, len(msg), li))
		return
	}
	root := merkle.Hash(units[li].MessageRoot)
	if !pr.Verify(&root, propeller.ShardData(sh).MarshalProto(), uint32(li)) {
		fail("concurrent-construct-local-shard-or-proof-wrong", fmt.Sprintf("the rebuilt proof does not verify: k=%d p=%d len %d local index %d", k, p, len(msg), li))
	}
}

// concAudit: after everybody has finished — what goroutine g got back for job j, against the protocol
// definitions written in this harness (sizes.go) and against a sequential CreatePropellerUnits.
func concAudit(ws map[int]*concWorld, j *concJob, units []propeller.Unit, fail func(sig, what string)) {
	msg, _ := unhx(j.Msg)
	nonce := nonceOf(j.Nonce)
	cid := concCid(j)
	var pub member
	k, p := j.K, j.P
	if j.N > 0 {
		w := ws[j.N]
		pub, k, p = w.ms[j.Pub], w.k, w.p
	} else {
		pub = ws[4].ms[1+j.G%3]
	}
	total := k + p
	enc := make([][]byte, total)
	for i := range units {
		if len(units[i].ShardData) != 1 || int(units[i].ShardIndex) != i || units[i].Publisher != pub.id ||
			units[i].CommitteeID != cid || uint64(units[i].Nonce) != nonce {
			fail("concurrent-created-unit-fields-wrong", fmt.Sprintf("unit %d (k=%d, p=%d, nonce %d)", i, k, p, nonce))
			return
		}
		enc[i] = units[i].ShardData[0]
	}
	if flat := bytes.Join(enc[:k], nil); !bytes.Equal(flat, refPad(msg, k)) {
		fail("concurrent-created-shards-are-not-this-message", fmt.Sprintf("the data shards kept from CreatePropellerUnits(len %d, k=%d, p=%d) are not the padded message any more", len(msg), k, p))
		return
	}
	leaves := make([][]byte, total)
	for i := range enc {
		leaves[i] = refShardLeaf(enc[i])
	}
	wroot, wproofs := refMerkle(leaves)
	for i := range units {
		if hash(units[i].MessageRoot) != wroot || hashesHex(toHashes(units[i].MerkleProof.Siblings)) != hashesHex(wproofs[i]) {
			fail("concurrent-created-unit-root-or-proof-wrong", fmt.Sprintf("unit %d of CreatePropellerUnits(len %d, k=%d, p=%d), looked at after the other goroutines finished: root %x / proof differ from the protocol's tree over its own shards (root %x)",
				i, len(msg), k, p, units[i].MessageRoot[:6], wroot[:6]))
			return
		}
	}
	want, err := pub.priv.Sign(signPayload(wroot, cid, nonce))
	if err != nil {
		return
	}
	for i := range units {
		if !bytes.Equal(units[i].Signature, want) {
			fail("concurrent-publisher-signs-a-different-payload", fmt.Sprintf("unit %d of CreatePropellerUnits(len %d, k=%d, p=%d, nonce %d): the signature is not the Ed25519 signature over <propeller>‖root‖committee‖nonce‖<propeller/> of THIS message",
				i, len(msg), k, p, nonce))
			return
		}
	}
	// the same call again, alone
	seq, err := propeller.CreatePropellerUnits(pub.priv, &cid, propeller.Nonce(nonce), append([]byte{}, msg...), k, p)
	if err != nil || len(seq) != total {
		fail("concurrent-create-units-fails", fmt.Sprintf("sequential CreatePropellerUnits(len %d, k=%d, p=%d): %v", len(msg), k, p, err))
		return
	}
	for i := range seq {
		if renderUnit(&seq[i]) != renderUnit(&units[i]) {
			fail("concurrent-created-units-differ-from-sequential", fmt.Sprintf("unit %d of CreatePropellerUnits(len %d, k=%d, p=%d, nonce %d)", i, len(msg), k, p, nonce))
			return
		}
	}
}

// concLibRun runs the library-level family in this process.
func concLibRun(par concParams) (fails []concFailure, jobs int, err error) {
	if runtime.GOMAXPROCS(0) < 2 {
		runtime.GOMAXPROCS(4)
	}
	ws, err := newConcWorlds()
	if err != nil {
		return nil, 0, err
	}
	var mu sync.Mutex
	seen := map[string]bool{}
	record := func(j *concJob) func(sig, what string) {
		return func(sig, what string) {
			mu.Lock()
			if !seen[sig] {
				seen[sig] = true
				fails = append(fails, concFailure{Sig: sig, What: what, Job: *j})
			}
			mu.Unlock()
		}
	}
	all := make([][]concJob, par.Goroutines)
	kept := make([][][]propeller.Unit, par.Goroutines)
	var wg sync.WaitGroup
	start := make(chan struct{})
	for g := 0; g < par.Goroutines; g++ {
		all[g] = concJobs(par, g)
		kept[g] = make([][]propeller.Unit, len(all[g]))
		wg.Add(1)
		go func(g int) {
			defer wg.Done()
			<-start
			for i := range all[g] {
				j := &all[g][i]
				func() {
					defer func() {
						if r := recover(); r != nil {
							st := string(debug.Stack())
							if len(st) > 1200 {
								st = st[:1200]
							}
							record(j)("concurrent-panic", fmt.Sprintf("%v\n%s", r, st))
						}
					}()
					kept[g][i] = concRunJob(ws, j, record(j))
				}()
			}
		}(g)
	}
	close(start)
	wg.Wait()
	for g := range all {
		for i := range all[g] {
			jobs++
			if kept[g][i] == nil {
				continue
			}
			j := &all[g][i]
			func() {
				defer func() {
					if r := recover(); r != nil {
						record(j)("concurrent-panic", fmt.Sprintf("audit: %v", r))
					}
				}()
				concAudit(ws, j, kept[g][i], record(j))
			}()
		}
	}
	return fails, jobs, nil
}

// ---------------------------------------------------------------------------------------------
// processor level: one real Processor, M messages of M publishers in flight

type concMsgOut struct {
	M       int      `json:"m"`
	Pub     int      `json:"publisher"` // index in the committee
	Results []string `json:"results"`   // what ProcessMessage answered per unit (after retries)
	Want    string   `json:"want"`      // rendering of the publisher's unit for the local index (sequential creation)
	WantTo  string   `json:"want_to"`   // the recipients: everybody but publisher and local peer
	Created bool     `json:"created"`
}

type concProcLine struct {
	Conc   bool         `json:"conc"`
	Msgs   []concMsgOut `json:"msgs"`
	Events []procEvent  `json:"events"`
	Note   string       `json:"note,omitempty"`
	Tasks  uint64       `json:"tasks"`
	Live   int          `json:"live"`
	// library-level family inside the child (race twin)
	Lib     []concFailure `json:"lib,omitempty"`
	LibJobs int           `json:"lib_jobs,omitempty"`
}

// procConcChild: sc.Conc messages, message m published by the m-th member other than the local peer
// (cyclically), created, and handed over unit by unit, by goroutine m; one consumer of the events.
func procConcChild(sc *procScenario, w *procWorld) {
	out := bufio.NewWriter(os.Stdout)
	emit := func(l concProcLine) {
		b, _ := json.Marshal(l)
		out.Write(b)
		out.WriteByte('\n')
		out.Flush()
	}
	if sc.ConcLib > 0 {
		fails, jobs, err := concLibRun(concParams{Goroutines: sc.Conc, Rounds: sc.ConcLib, Seed: 7})
		if err != nil {
			fmt.Fprintln(os.Stderr, "child: conc:", err)
			os.Exit(3)
		}
		emit(concProcLine{Conc: true, Lib: fails, LibJobs: jobs})
		os.Exit(0)
	}
	cfg := propeller.DefaultConfig()
	cfg.StaleMessageTimeout = 60 * time.Second
	p, events := propeller.NewProcessor(w.local.id, &cfg)
	probe, perr := newTaskProbe(p)
	if perr != nil {
		fmt.Fprintln(os.Stderr, "child: task probe:", perr)
		os.Exit(3)
	}
	ctx, cancel := context.WithCancel(context.Background())
	defer cancel()
	runNote := make(chan string, 1)
	go func() {
		defer func() {
			if r := recover(); r != nil {
				runNote <- fmt.Sprintf("run-panic: %v", r)
			}
		}()
		p.Run(ctx)
	}()
	var evMu sync.Mutex
	var evs []procEvent
	stop := make(chan struct{})
	consumerDone := make(chan struct{})
	go func() {
		defer close(consumerDone)
		for {
			select {
			case e := <-events:
				d := describeEvent(e)
				evMu.Lock()
				evs = append(evs, d)
				evMu.Unlock()
			case <-stop:
				return
			}
		}
	}()
	var others []int
	for i, m := range w.ms {
		if m.id != w.local.id && m.id != w.keyless {
			others = append(others, i)
		}
	}
	total := w.k + w.c
	msgs := make([]concMsgOut, sc.Conc)
	var wg sync.WaitGroup
	start := make(chan struct{})
	for m := 0; m < sc.Conc; m++ {
		wg.Add(1)
		go func(m int) {
			defer wg.Done()
			pi := others[m%len(others)]
			pub := w.ms[pi]
			mo := concMsgOut{M: m, Pub: pi}
			msg := append([]byte{byte(m)}, w.msg...)
			<-start
			units, err := propeller.CreatePropellerUnits(pub.priv, &w.cid, propeller.Nonce(w.nonce+uint64(m)), msg, w.k, w.c)
			if err != nil || len(units) != total {
				msgs[m] = mo
				return
			}
			mo.Created = true
			if sc.Once {
				// MEASUREMENT (no oracle): every unit exactly once, each from a goroutine of its own, all
				// at the same moment — what a full-mesh broadcast looks like to the receiver
				res := make([]string, total)
				var wg2 sync.WaitGroup
				go2 := make(chan struct{})
				for i := 0; i < total; i++ {
					wg2.Add(1)
					go func(i int) {
						defer wg2.Done()
						u := cloneUnit(&units[i])
						sender, _ := legitSender(w.sched, w.local.id, pub.id, i)
						<-go2
						if err := p.ProcessMessage(ctx, u, sender, w.procSched); err == nil {
							res[i] = "nil"
						} else if strings.Contains(err.Error(), "processor channel full") {
							res[i] = "full"
						} else {
							res[i] = "err:" + err.Error()
						}
					}(i)
				}
				close(go2)
				wg2.Wait()
				mo.Results = res
				msgs[m] = mo
				return
			}
			for x := 0; x < total; x++ {
				i := (x + m) % total
				u := cloneUnit(&units[i])
				sender, _ := legitSender(w.sched, w.local.id, pub.id, i)
				res := ""
				for attempts := 0; ; attempts++ {
					err := p.ProcessMessage(ctx, u, sender, w.procSched)
					if err == nil {
						res = "nil"
						break
					}
					if strings.Contains(err.Error(), "processor channel full") {
						if attempts > 200000 {
							res = "stuck"
							break
						}
						time.Sleep(200 * time.Microsecond)
						continue
					}
					res = "err:" + err.Error()
					break
				}
				mo.Results = append(mo.Results, res)
			}
			msgs[m] = mo
		}(m)
	}
	close(start)
	wg.Wait()
	// Since 5e563fa the subprocessors' channels are BUFFERED: ProcessMessage returns before the unit is
	// looked at, so "everything handed over" no longer means "everything processed". Wait until every
	// queue is empty (a unit still queued for a subprocessor that ended is dropped with its channel) and
	// every created message has had its broadcast — no outcome depends on the time this takes; only a
	// message that is NEVER built makes the child wait the whole (generous) deadline before it reports.
	if !sc.Once {
		created := 0
		for m := range msgs {
			if msgs[m].Created {
				created++
			}
		}
		deadline := time.Now().Add(20 * time.Second)
		for n := 0; ; n++ {
			evMu.Lock()
			got := len(evs)
			evMu.Unlock()
			if q := probe.queued(); q <= 0 && got >= created {
				break
			}
			if time.Now().After(deadline) && n >= 2000 {
				break
			}
			time.Sleep(300 * time.Microsecond)
		}
	}
	// settle: every subprocessor that ended has been handled by Run
	tk, _, live := probe.read(w.pub.id)
	for n := 0; n < 5000 && live >= 0 && tk != uint64(live); n++ {
		time.Sleep(400 * time.Microsecond)
		tk, _, live = probe.read(w.pub.id)
	}
	time.Sleep(5 * time.Millisecond)
	close(stop)
	<-consumerDone
	// the expectation, computed alone: the publisher's unit for the local index
	for m := range msgs {
		pub := w.ms[msgs[m].Pub]
		msg := append([]byte{byte(m)}, w.msg...)
		units, err := propeller.CreatePropellerUnits(pub.priv, &w.cid, propeller.Nonce(w.nonce+uint64(m)), msg, w.k, w.c)
		li, lerr := w.sched.ShardIndexForPublisher(pub.id)
		if err != nil || lerr != nil || int(li) >= len(units) {
			continue
		}
		msgs[m].Want = renderUnit(&units[li])
		var to [][]byte
		for _, q := range w.ms {
			if q.id != pub.id && q.id != w.local.id {
				to = append(to, []byte(q.id))
			}
		}
		sort.Slice(to, func(a, b int) bool { return string(to[a]) < string(to[b]) })
		msgs[m].WantTo = hexList(to)
	}
	note := ""
	select {
	case note = <-runNote:
	default:
	}
	evMu.Lock()
	emit(concProcLine{Conc: true, Msgs: msgs, Events: evs, Note: note, Tasks: tk, Live: live})
	evMu.Unlock()
	os.Exit(0)
}

func concScenarios(h *hctx) []*procScenario {
	var scs []*procScenario
	mk := func(n, local, msgLen, conc int) *procScenario {
		return &procScenario{N: n, Local: local, Pub: (local + 1) % n, Msg: hx(genMsg(lib.NewRNG(uint64(n*1000+msgLen)), msgLen)),
			Nonce: "1758700000000000000", Conc: conc}
	}
	for _, x := range [][4]int{{4, 0, 20, 6}, {5, 1, 64, 8}, {7, 0, 243, 12}, {8, 7, 33, 14}, {5, 4, 0, 8}, {7, 3, 500, 12}} {
		scs = append(scs, mk(x[0], x[1], x[2], x[3]))
	}
	if h.f.Thorough() {
		for _, x := range [][4]int{{10, 2, 100, 18}, {13, 0, 1000, 24}, {4, 3, 1, 9}, {16, 5, 77, 30}} {
			scs = append(scs, mk(x[0], x[1], x[2], x[3]))
		}
	}
	return scs
}

func parseConcLine(pr procRun) (concProcLine, bool) {
	for _, l := range strings.Split(pr.stdout, "\n") {
		var cl concProcLine
		if strings.TrimSpace(l) != "" && json.Unmarshal([]byte(l), &cl) == nil && cl.Conc {
			return cl, true
		}
	}
	return concProcLine{}, false
}

// concProcEval: the per-message oracle on the child's report.
func concProcEval(h *hctx, sc *procScenario, pr procRun, race bool) {
	rp := map[string]any{"kind": "processor", "scenario": slimScenario(sc)}
	if race {
		rp["race"] = true
	}
	h.res.Case(fmt.Sprintf("proc-conc/%d/%d/%d/%v", sc.N, sc.Local, sc.Conc, race), true)
	if pr.machinery != "" {
		h.res.Fatalf("concurrent processor child: %s", pr.machinery)
		return
	}
	cl, ok := parseConcLine(pr)
	if pr.crashed || !ok {
		if pr.timeout {
			h.violate("concurrent-processor-hangs", fmt.Sprintf("n=%d, %d messages in flight: the child did not finish in 60 s", sc.N, sc.Conc), rp)
			return
		}
		h.violate("processor-goroutine-panics", fmt.Sprintf("n=%d local=%d, %d messages of different publishers in flight: the process dies: %s", sc.N, sc.Local, sc.Conc, clip(firstPanicLines(pr.stderr))), rp)
		return
	}
	if cl.Note != "" {
		h.violate("processor-run-panics", fmt.Sprintf("n=%d, %d messages in flight: %s", sc.N, sc.Conc, cl.Note), rp)
	}
	byUnit := map[string][]procEvent{}
	for _, e := range cl.Events {
		byUnit[e.Unit] = append(byUnit[e.Unit], e)
	}
	wanted := map[string]bool{}
	for _, m := range cl.Msgs {
		h.res.Hit("conc:processor-message")
		if !m.Created || m.Want == "" {
			h.violate("concurrent-create-units-fails", fmt.Sprintf("n=%d message %d of %d", sc.N, m.M, sc.Conc), rp)
			continue
		}
		for i, r := range m.Results {
			if r != "nil" {
				h.violate("concurrent-processor-refuses-honest-unit", fmt.Sprintf("n=%d, %d messages in flight: ProcessMessage answered %q to honest unit #%d of message %d", sc.N, sc.Conc, r, i, m.M), rp)
				break
			}
		}
		wanted[m.Want] = true
		got := byUnit[m.Want]
		switch {
		case len(got) == 0:
			h.violate("concurrent-processor-message-not-built", fmt.Sprintf("n=%d local=%d, %d messages of different publishers in flight, every honest unit of each handed over: the local unit of message %d (publisher %d) was never broadcast — sequentially every one of these messages is built",
				sc.N, sc.Local, sc.Conc, m.M, m.Pub), rp)
		case len(got) > 1:
			h.violate("processor-broadcasts-local-unit-twice", fmt.Sprintf("n=%d, %d messages in flight: message %d broadcast %d times", sc.N, sc.Conc, m.M, len(got)), rp)
		case got[0].Peers != m.WantTo:
			h.violate("processor-broadcast-recipients-wrong", fmt.Sprintf("n=%d, %d messages in flight: message %d", sc.N, sc.Conc, m.M), rp)
		}
	}
	for u := range byUnit {
		if !wanted[u] {
			h.violate("processor-broadcasts-a-unit-that-is-not-the-publishers", fmt.Sprintf("n=%d local=%d, %d messages in flight: a broadcast unit is no publisher's unit for the local index: %s", sc.N, sc.Local, sc.Conc, clip(u)), rp)
			break
		}
	}
	if cl.Live >= 0 && cl.Tasks != uint64(cl.Live) {
		h.violate("processor-task-counters-do-not-match-live-subprocessors", fmt.Sprintf("n=%d, %d messages in flight: tasks=%d live=%d after everything settled", sc.N, sc.Conc, cl.Tasks, cl.Live), rp)
	}
}

// concOnceMeasure — a MEASUREMENT, not an oracle (the outcome depends on the interleaving): all N-1 honest
// units of a new message are handed over exactly once, at the same moment, from N-1 goroutines (what the
// engine's stream handlers do when the committee broadcasts). ProcessMessage is non-blocking by design:
// a unit that arrives while the message's subprocessor validates another one is dropped ("processor
// channel full"). How many units get through, and is the message built? Reported in the distribution.
func concOnceMeasure(h *hctx) {
	var scs []*procScenario
	for _, n := range []int{4, 7, 10, 13} {
		sc := &procScenario{N: n, Local: 0, Pub: 1, Msg: hx(genMsg(lib.NewRNG(uint64(n)), 40)), Nonce: "1758700000000000000", Conc: 4, Once: true}
		scs = append(scs, sc)
	}
	runs := runProcChildren(scs)
	for i, pr := range runs {
		cl, ok := parseConcLine(pr)
		if pr.machinery != "" || pr.crashed || !ok {
			continue // (crashes are reported by the scenarios with retries)
		}
		byUnit := map[string]int{}
		for _, e := range cl.Events {
			byUnit[e.Unit]++
		}
		for _, m := range cl.Msgs {
			taken := 0
			for _, r := range m.Results {
				if r == "nil" {
					taken++
				}
			}
			k := max(1, (scs[i].N-1)/3)
			h.res.HitN(fmt.Sprintf("conc-once(measurement):n=%d:units-offered", scs[i].N), len(m.Results))
			h.res.HitN(fmt.Sprintf("conc-once(measurement):n=%d:units-taken", scs[i].N), taken)
			if byUnit[m.Want] > 0 {
				h.res.Hit(fmt.Sprintf("conc-once(measurement):n=%d:message-built", scs[i].N))
			} else if taken < k {
				h.res.Hit(fmt.Sprintf("conc-once(measurement):n=%d:message-NOT-built(fewer-than-k-units-taken)", scs[i].N))
			} else {
				h.res.Hit(fmt.Sprintf("conc-once(measurement):n=%d:message-NOT-built", scs[i].N))
			}
		}
	}
}

// secConcurrent: both levels (quick and thorough), plus the race twins (thorough).
func secConcurrent(h *hctx, r *lib.RNG) {
	par := concParams{Goroutines: h.f.Scale(8, 16), Rounds: h.f.Scale(500, 1500), Seed: r.Uint64() >> 8}
	concLibCase(h, par)
	if !h.pcfg.ProcWired || !(h.cfg.ShardingLeafProto == h.cfg.ValidatorLeafProto && h.cfg.NonceSet) {
		return // reported by secProcessor
	}
	scs := concScenarios(h)
	runs := runProcChildren(scs)
	for i := range scs {
		concProcEval(h, scs[i], runs[i], false)
	}
	concOnceMeasure(h)
	if h.f.Thorough() {
		concRace(h, scs)
	}
}

func concLibCase(h *hctx, par concParams) {
	rp := map[string]any{"kind": "concurrent", "params": par}
	fails, jobs, err := concLibRun(par)
	if err != nil {
		h.res.Fatalf("concurrent family: %v", err)
		return
	}
	for i := 0; i < jobs; i++ {
		h.res.Case(fmt.Sprintf("conc/%d/%d", par.Seed, i), true)
	}
	h.res.HitN("conc:library-message(create+validate+construct+audit)", jobs)
	h.res.HitN("conc:goroutines", par.Goroutines)
	for _, f := range fails {
		h.violate(f.Sig, fmt.Sprintf("%d goroutines, each creating, signing, validating and rebuilding its OWN messages (GOMAXPROCS=%d); goroutine %d, round %d: %s",
			par.Goroutines, runtime.GOMAXPROCS(0), f.Job.G, f.Job.Round, f.What), map[string]any{"kind": "concurrent", "params": par, "job": f.Job})
	}
	_ = rp
}

// concRace: the same under Go's race detector (a child built with -race): the library family inside
// the child, and the concurrent processor scenarios.
func concRace(h *hctx, scs []*procScenario) {
	bin, err := buildRaceChild()
	if err != nil {
		h.res.Fatalf("race child: %v", err)
		return
	}
	lib0 := &procScenario{N: 4, Local: 0, Pub: 1, Msg: "00", Nonce: "5", Conc: 8, ConcLib: 60}
	all := append([]*procScenario{lib0}, scs...)
	plain := childBin
	childBin = bin
	os.Setenv("GORACE", "halt_on_error=1 exitcode=66")
	runs := runProcChildren(all)
	os.Unsetenv("GORACE")
	childBin = plain
	for i, pr := range runs {
		sc := all[i]
		rp := map[string]any{"kind": "processor", "scenario": slimScenario(sc), "race": true}
		if pr.machinery != "" {
			h.res.Fatalf("race child: %s", pr.machinery)
			return
		}
		if strings.Contains(pr.stderr, "WARNING: DATA RACE") {
			h.res.Hit("conc-race:data-race")
			var frames []string
			for _, l := range strings.Split(pr.stderr, "\n") {
				l = strings.TrimSpace(l)
				if strings.HasPrefix(l, "Write at") || strings.HasPrefix(l, "Read at") || strings.HasPrefix(l, "Previous ") ||
					strings.Contains(l, "consensus/propeller.") || strings.Contains(l, "consensus/propeller/") {
					frames = append(frames, l)
				}
				if len(frames) >= 12 {
					break
				}
			}
			joined := strings.Join(frames, " | ")
			if strings.Contains(joined, "consensus/propeller") {
				h.violate("propeller-data-race-between-messages-in-flight", fmt.Sprintf("Go's race detector, %d goroutines each working on its own message: %s", sc.Conc, clip(joined)), rp)
			} else {
				h.res.Fatalf("race child: a data race outside consensus/propeller (in the harness?): %s", clip(pr.stderr))
			}
			continue
		}
		if sc.ConcLib > 0 {
			h.res.Case("conc-race/lib", true)
			cl, ok := parseConcLine(pr)
			if pr.crashed || !ok {
				h.violate("concurrent-panic", fmt.Sprintf("the library family dies under the race detector: %s", clip(firstPanicLines(pr.stderr))), rp)
				continue
			}
			for _, f := range cl.Lib {
				h.violate(f.Sig, "under the race detector: "+f.What, map[string]any{"kind": "concurrent", "params": concParams{Goroutines: sc.Conc, Rounds: sc.ConcLib, Seed: 7}, "job": f.Job})
			}
			h.res.HitN("conc-race:library-message", cl.LibJobs)
			continue
		}
		concProcEval(h, sc, pr, true)
		h.res.Hit("conc-race:processor-scenario")
	}
}

// concReplay: a replay of kind "concurrent" runs the family again with the recorded parameters (the
// interleaving is not reproducible; the family is long enough to show a shared buffer on every run).
func concReplay(h *hctx, rp map[string]any) {
	b, _ := json.Marshal(rp["params"])
	var par concParams
	if json.Unmarshal(b, &par) != nil || par.Goroutines == 0 {
		h.res.Fatalf("replay: bad parameters of the concurrent family")
		return
	}
	concLibCase(h, par)
}

var _ = peer.ID("")
