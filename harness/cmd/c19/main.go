//go:build verif

// Harness for C19 (erasure-coded broadcast): drives the real consensus/propeller packages and the
// Lean model (c19drv) on the same inputs and evaluates the property's oracle on the real code.
//
// Sections (all run in both tiers; the thorough tier widens the spaces):
//
//	padding   Uvarint / PadMessage / UnpadMessage on boundary lengths and arbitrary (malformed) bytes
//	merkle    merkle.New / Proof.Verify for 1..N leaves; tampered leaf / index / sibling / length
//	rs        the MDS law on the real klauspost codec through juno's EncodeData / RecoverData:
//	          every subset of shards for small (k, parity), plus single-shard corruptions
//	e2e       CreatePropellerUnits -> every subset of units -> ConstructMessageFromUnits
//	sched     NewScheduler / ValidateShardOrigin / ShardIndexForPublisher over small committees
//	validator UnitValidator.Validate behind the processor's per-message-key routing: honest units
//	          (must be accepted) and every single-field corruption (must be rejected or harmless)
//	sizes     every size-dependent function (leaf hash, leaf encoding, uvarint, padding, split, wire
//	          form, create -> validate -> construct) at EVERY size of a dense range and around every
//	          power of two, against an independent implementation of the protocol definition;
//	          tampering at every position class (sizes.go)
package main

import (
	"encoding/json"
	"flag"
	"fmt"
	"os"
	"strconv"
	"strings"
	"sync"
	"sync/atomic"
	"time"

	pb "github.com/NethermindEth/juno/consensus/propeller/proto"
	"google.golang.org/protobuf/proto"
	"verif/harness/lib"
)

// cfgFlags mirrors Juno.C19.Cfg: which variant of the code is under test (probed, see probe.go).
type cfgFlags struct {
	UnpadGuard         bool `json:"unpad_guard"`
	RootFromPresent    bool `json:"root_from_present"`
	ShardingLeafProto  bool `json:"sharding_leaf_proto"`
	ValidatorLeafProto bool `json:"validator_leaf_proto"`
	NonceSet           bool `json:"nonce_set"`
}

func b01(b bool) string {
	if b {
		return "1"
	}
	return "0"
}

func (c cfgFlags) String() string {
	return b01(c.UnpadGuard) + b01(c.RootFromPresent) + b01(c.ShardingLeafProto) + b01(c.ValidatorLeafProto) + b01(c.NonceSet)
}

type hctx struct {
	f    lib.Flags
	res  *lib.Result
	drv  *lib.Driver
	dmu  sync.Mutex
	tt   *termTable
	cfg  cfgFlags
	pcfg pcfgFlags
	// scenarios in which the real Processor diverged from the model only after a subprocessor ended
	postFinalization []*procScenario
	// model traces of processor scenarios, computed before their children run
	traces map[*procScenario][]traceStep
	// the re-run of such a scenario is in progress: a divergence now is not queued again
	rerunning bool
	// scenarios run again with a patient child after a task-counter mismatch (capped)
	patientReruns int
	// driverBroken is set after the first driver failure: the sections keep running their
	// oracles on the real code, without correspondence.
	driverBroken bool
	// requests whose answers nothing else depends on are queued and sent in batches
	pendLines []string
	pendCbs   []func(ans string)
}

// later queues a request; cb gets the answer when the queue is flushed (order is preserved, so
// the stateful validator session of the driver sees the requests in program order).
func (h *hctx) later(line string, cb func(ans string)) {
	if h.driverBroken || h.drv == nil {
		return
	}
	h.pendLines = append(h.pendLines, line)
	h.pendCbs = append(h.pendCbs, cb)
	if len(h.pendLines) >= 3000 {
		h.flush()
	}
}

func (h *hctx) flush() {
	if len(h.pendLines) == 0 {
		return
	}
	lines, cbs := h.pendLines, h.pendCbs
	h.pendLines, h.pendCbs = nil, nil
	if h.driverBroken || h.drv == nil {
		return
	}
	for _, l := range lines {
		if strings.ContainsRune(l, '\n') {
			h.driverBroken = true
			h.res.Fatalf("driver request contains a newline")
			return
		}
	}
	outs, err := h.drv.AskAll(lines)
	if err != nil {
		h.driverBroken = true
		h.res.Fatalf("driver failed: %v", err)
	}
	for i, o := range outs {
		if i < len(cbs) {
			cbs[i](o)
		}
	}
	if len(outs) < len(cbs) && err == nil {
		h.driverBroken = true
		h.res.Fatalf("driver answered %d of %d requests", len(outs), len(cbs))
	}
	// a callback may have queued follow-up requests (the preimage chain of sizes.go): until none is left
	if len(h.pendLines) > 0 && !h.driverBroken {
		h.flush()
	}
}

// check queues one model/implementation comparison. soft: an implementation error whose text is
// not recognised ("err:other") matches any model error.
func (h *hctx) check(sig string, input any, line, impl string, soft bool) {
	h.later(line, func(model string) {
		if model == "bad-op" || model == "" {
			h.res.Fatalf("driver answered %q to %.120q", model, line)
			return
		}
		h.res.Compared(1)
		if model == impl || (soft && sameVerdict(model, impl)) {
			return
		}
		h.res.Mismatch(lib.Mismatch{Sig: sig, Input: input, Model: clip(model), Impl: clip(impl)})
	})
}

// ask sends one request to the Lean driver ("" if the driver is gone).
func (h *hctx) ask(line string) string {
	h.flush()
	h.dmu.Lock()
	defer h.dmu.Unlock()
	if h.driverBroken || h.drv == nil {
		return ""
	}
	out, err := h.drv.Ask(line)
	if err != nil {
		h.driverBroken = true
		h.res.Fatalf("driver failed: %v (request %.200q)", err, line)
		return ""
	}
	return out
}

// compare records one model/implementation comparison.
func (h *hctx) compare(sig string, input any, model, impl string) bool {
	if model == "" { // driver gone: nothing to compare
		return true
	}
	h.res.Compared(1)
	if model != impl {
		h.res.Mismatch(lib.Mismatch{Sig: sig, Input: input, Model: clip(model), Impl: clip(impl)})
		return false
	}
	return true
}

func clip(s string) string {
	if len(s) > 600 {
		return s[:600] + "…"
	}
	return s
}

// guard runs one case; a panic that escapes it (real code called outside lib.Try) is reported as
// a finding with the case's replay instead of crashing the harness.
func (h *hctx) guard(section string, replay map[string]any, f func()) {
	err, panicked, stack := lib.Try(func() error { f(); return nil })
	if panicked {
		if len(stack) > 1500 {
			stack = stack[:1500]
		}
		h.violate("panic-in-"+section, fmt.Sprintf("%v\n%s", err, stack), replay)
	}
}

func (h *hctx) violate(sig, what string, replay map[string]any) {
	h.res.Violate(lib.Violation{Sig: sig, What: what, Replay: replay})
}

func main() {
	child := flag.String("c19-child", "", "internal: run one processor scenario (file) on the real Processor")
	f := lib.ParseFlags()
	if *child != "" {
		procChild(*child)
		return
	}
	res := lib.NewResult("case = one call sequence on the real propeller code (pad/unpad of a byte string, Merkle tree + " +
		"tampered proof, shard subset reconstruction, validator verdict on an honest or corrupted unit); non-trivial = " +
		"non-empty message or byte string / at least 2 shards / a unit that passes the origin check or is corrupted in exactly one field")
	h := &hctx{f: f, res: res, tt: newTermTable()}
	drv, err := lib.StartDriver(f.Driver)
	if err != nil {
		res.Fatalf("driver: %v", err)
		h.driverBroken = true
	} else {
		h.drv = drv
		defer drv.Close()
	}
	h.cfg = probeVariant(h)
	res.Note("code variant probed on the real code (model driven with the same flags): %+v", h.cfg)
	h.pcfg.WireGuard = probeWire()
	probeProcessor(h)
	res.Note("wire/processor variant probed: %s", h.pcfg.describe())

	if f.Replay != "" {
		runReplay(h, f.Replay)
		h.flush()
		lib.Finish(f, res)
	}

	r := lib.NewRNG(f.Seed)
	timings := ""
	for i, sec := range []struct {
		name string
		run  func(*hctx, *lib.RNG)
	}{{"padding", secPadding}, {"merkle", secMerkle}, {"rs", secRS}, {"e2e", secE2E}, {"sched", secSched}, {"validator", secValidator},
		{"wire", secWire}, {"timecache", secTimecache}, {"processor", secProcessor}, {"sizes", secSizes}, {"concurrent", secConcurrent}, {"lookups", secLookups}} {
		// C19_SECTIONS=a,b (debugging aid only; ./check never sets it): run just these sections
		if only := os.Getenv("C19_SECTIONS"); only != "" && !strings.Contains(","+only+",", ","+sec.name+",") {
			continue
		}
		t0 := time.Now()
		sec.run(h, r.Fork(uint64(i+1)))
		h.flush()
		timings += fmt.Sprintf(" %s=%.1fs", sec.name, time.Since(t0).Seconds())
	}
	res.Note("section wall times:%s", timings)
	res.HitN("compare:error-text-not-recognised(accept/reject only)", int(errOtherHits.Load()))
	ex := false
	res.Exhaustive = &ex
	lib.Finish(f, res)
}

// runReplay re-runs exactly the input of a replay file written by an earlier run.
func runReplay(h *hctx, path string) {
	raw, err := os.ReadFile(path)
	if err != nil {
		h.res.Fatalf("cannot read replay: %v", err)
		return
	}
	var file struct {
		Replay map[string]any `json:"replay"`
	}
	if err := json.Unmarshal(raw, &file); err != nil || file.Replay == nil {
		// maybe the bare replay object
		if err2 := json.Unmarshal(raw, &file.Replay); err2 != nil {
			h.res.Fatalf("cannot parse replay: %v", err)
			return
		}
	}
	rp := file.Replay
	kind, _ := rp["kind"].(string)
	switch kind {
	case "unpad":
		b, _ := unhx(str(rp["padded"]))
		unpadCase(h, b)
	case "pad":
		b, _ := unhx(str(rp["msg"]))
		padCase(h, b, num(rp["k"]))
	case "concurrent":
		concReplay(h, rp)
	case "lookups":
		lookupCase(h, num(rp["n"]), num(rp["local"]))
	case "merkle-depth":
		depthCase(h, num(rp["n"]))
	case "committee-size":
		committeeSizeCase(h, num(rp["n"]))
	case "timecache":
		secTimecache(h, lib.NewRNG(1))
	case "timecache-run":
		tcReplay(h, rp)
	case "wire":
		b, _ := unhx(str(rp["proto"]))
		var pu pb.PropellerUnit
		if err := proto.Unmarshal(b, &pu); err != nil {
			h.res.Fatalf("replay: %v", err)
			return
		}
		wireCase(h, &pu, str(rp["what"]))
	case "processor":
		b, _ := json.Marshal(rp["scenario"])
		var sc procScenario
		if err := json.Unmarshal(b, &sc); err != nil {
			h.res.Fatalf("replay: %v", err)
			return
		}
		if sc.Conc > 0 {
			if r, _ := rp["race"].(bool); r {
				concRace(h, []*procScenario{&sc})
			} else {
				concProcEval(h, &sc, runProcChild(&sc), false)
			}
			return
		}
		if r, _ := rp["race"].(bool); r {
			bin, err := buildRaceChild()
			if err != nil {
				h.res.Fatalf("race child: %v", err)
				return
			}
			raceEval(h, []*procScenario{&sc}, bin)
			return
		}
		if sc.Hold > 0 {
			if !h.pcfg.ProcWired {
				h.res.Fatalf("replay: the real Processor cannot be driven")
				return
			}
			procHoldCase(h, &sc, nil)
			return
		}
		if sc.Once && sc.Burst {
			scs := make([]*procScenario, 12)
			for i := range scs {
				scs[i] = &sc
			}
			if !h.pcfg.ProcWired {
				h.res.Fatalf("replay: the real Processor cannot be driven")
				return
			}
			evalBurst(h, scs)
			return
		}
		if sc.Once {
			scs := make([]*procScenario, 12)
			for i := range scs {
				scs[i] = &sc
			}
			if !h.pcfg.ProcWired {
				h.res.Fatalf("replay: the real Processor cannot be driven")
				return
			}
			evalOnce(h, scs)
			return
		}
		procCase(h, &sc)
	case "size-leaf":
		b, _ := unhx(str(rp["leaf"]))
		sizeLeafCase(h, b, true)
	case "size-e2e":
		msg, _ := unhx(str(rp["msg"]))
		w, err := newSizeWorld(num(rp["n"]))
		if err != nil {
			h.res.Fatalf("replay: %v", err)
			return
		}
		sizeE2ECase0(h, w, msg, nonceOf(rp["nonce"]), sizeOpts{model: true, tamper: 4})
	case "marshal":
		sh, _ := parseHexList(str(rp["shards"]))
		marshalCase(h, sh)
	case "merkle":
		leaves, _ := parseHexList(str(rp["leaves"]))
		merkleCase0(h, leaves, uint64(num(rp["rng"])), true)
	case "rs":
		data, _ := unhx(str(rp["data"]))
		rsCase0(h, num(rp["k"]), num(rp["p"]), data, uint64(num(rp["rng"])))
	case "e2e":
		msg, _ := unhx(str(rp["msg"]))
		e2eCase0(h, num(rp["k"]), num(rp["p"]), msg, nonceOf(rp["nonce"]), uint64(num(rp["rng"])), num(rp["subset_limit"]))
	case "sched":
		schedCase(h, num(rp["n"]), num(rp["local"]))
	case "validator":
		msg, _ := unhx(str(rp["msg"]))
		validatorCase0(h, num(rp["n"]), num(rp["local"]), num(rp["publisher"]), msg, nonceOf(rp["nonce"]), uint64(num(rp["rng"])))
	default:
		h.res.Fatalf("replay of kind %q is not supported", kind)
	}
}

// nonceOf: nonces are written as decimal strings in replays (they do not fit a JSON number).
func nonceOf(v any) uint64 {
	switch x := v.(type) {
	case string:
		n, _ := strconv.ParseUint(x, 10, 64)
		return n
	case float64:
		return uint64(x)
	}
	return 0
}

func str(v any) string {
	s, _ := v.(string)
	return s
}

func num(v any) int {
	switch x := v.(type) {
	case float64:
		return int(x)
	case int:
		return x
	}
	return 0
}

// classify maps an error text of the real code to the model's error class ("other" if the text is
// not recognised: then only accept/reject is compared, so rewording a message is not an alarm).
func classify(err error, table [][2]string) string {
	if err == nil {
		return "ok"
	}
	msg := err.Error()
	for _, e := range table {
		if strings.Contains(msg, e[0]) {
			return "err:" + e[1]
		}
	}
	return "err:other"
}

// sameVerdict compares a model answer with a classified implementation answer; an unrecognised
// implementation error class matches any model error.
func sameVerdict(model, impl string) bool {
	if model == impl {
		return true
	}
	if impl == "err:other" && strings.HasPrefix(model, "err:") {
		errOtherHits.Add(1)
		return true
	}
	return false
}

// errOtherHits counts comparisons in which the real error text was not recognised (only
// accept/reject was compared); shown in the distribution.
var errOtherHits atomic.Int64

func firstWord(s string) string {
	if i := strings.IndexByte(s, ' '); i >= 0 {
		return s[:i]
	}
	return s
}

func sprint(a ...any) string { return fmt.Sprint(a...) }
