//go:build verif

package main

import (
	"crypto/rand"
	"fmt"

	"github.com/NethermindEth/juno/consensus/propeller"
	"github.com/NethermindEth/juno/consensus/propeller/merkle"
	"github.com/libp2p/go-libp2p/core/crypto"
	"github.com/libp2p/go-libp2p/core/peer"
	"verif/harness/lib"
)

func main() {
	priv, pub, _ := crypto.GenerateEd25519Key(rand.Reader)
	cid := propeller.CommitteeID{1}
	msg := []byte("hello world, this is a message")
	units, err := propeller.CreatePropellerUnits(priv, &cid, propeller.Nonce(7), msg, 3, 2)
	fmt.Println(len(units), err)
	for i := range units {
		u := &units[i]
		root := merkle.Hash(u.MessageRoot)
		fmt.Println(i, "raw", u.MerkleProof.Verify(&root, u.ShardData[0], uint32(u.ShardIndex)),
			"marshal", u.MerkleProof.Verify(&root, u.ShardData.MarshalProto(), uint32(u.ShardIndex)),
			"nonce", u.Nonce,
			"sig(unit nonce)", propeller.VerifyMessageSignature(pub, &u.MessageRoot, &u.CommitteeID, u.Nonce, u.Signature),
			"sig(7)", propeller.VerifyMessageSignature(pub, &u.MessageRoot, &u.CommitteeID, 7, u.Signature))
	}
	for mask := 0; mask < 32; mask++ {
		ptrs := make([]*propeller.Unit, 5)
		cnt := 0
		for i := 0; i < 5; i++ {
			if mask>>i&1 == 1 {
				c := units[i]
				c.ShardData = propeller.ShardData{append([]byte{}, units[i].ShardData[0]...)}
				ptrs[i] = &c
				cnt++
			}
		}
		var m []byte
		e, p, _ := lib.Try(func() error { var err error; m, _, _, err = propeller.ConstructMessageFromUnits(ptrs, 0, 3, 2); return err })
		fmt.Printf("mask %05b cnt %d panic=%v err=%v ok=%v\n", mask, cnt, p, e, string(m) == string(msg))
	}
	e, p, _ := lib.Try(func() error { _, err := propeller.UnpadMessage([]byte{0xff, 0xff, 0xff, 0xff, 0xff, 0xff, 0xff, 0xff, 0xff, 1, 0, 0}); return err })
	fmt.Println("unpad", e, p)
	_ = peer.ID("")
}
