//go:build verif

package main

import (
	"bytes"
	"encoding/hex"
	"fmt"
	"strconv"
	"strings"

	"github.com/NethermindEth/juno/consensus/propeller"
	"github.com/NethermindEth/juno/consensus/propeller/merkle"
	"verif/harness/lib"
)

func hashesHex(hs []hash) string {
	if len(hs) == 0 {
		return "-"
	}
	p := make([]string, len(hs))
	for i, h := range hs {
		p[i] = hex.EncodeToString(h[:])
	}
	return strings.Join(p, ";")
}

func toHashes(s []merkle.Hash) []hash {
	out := make([]hash, len(s))
	for i, x := range s {
		out[i] = hash(x)
	}
	return out
}

// modelMerkle asks the model for root and proofs of the tree over leaves and evaluates the terms.
// ok=false if the driver is unavailable or its answer cannot be evaluated.
func modelMerkle(h *hctx, leaves [][]byte) (root hash, proofs [][]hash, ok bool) {
	ans := h.ask("merkle " + hexList(leaves))
	if ans == "" {
		return
	}
	toks := strings.Fields(ans)
	if len(toks) != 1+len(leaves) {
		h.res.Mismatch(lib.Mismatch{Sig: "merkle-answer-shape", Input: len(leaves), Model: clip(ans)})
		return
	}
	var err error
	if root, err = h.tt.evalTerm(toks[0]); err != nil {
		h.res.Mismatch(lib.Mismatch{Sig: "merkle-term", Model: clip(toks[0]), Impl: err.Error()})
		return
	}
	for _, t := range toks[1:] {
		p, err := h.tt.evalTermList(t)
		if err != nil {
			h.res.Mismatch(lib.Mismatch{Sig: "merkle-term", Model: clip(t), Impl: err.Error()})
			return
		}
		proofs = append(proofs, p)
	}
	return root, proofs, true
}

func realVerify(proof []hash, root hash, leaf []byte, index uint32) (bool, error) {
	p := merkle.Proof{Siblings: make([]merkle.Hash, len(proof))}
	for i, s := range proof {
		p.Siblings[i] = merkle.Hash(s)
	}
	rt := merkle.Hash(root)
	var ok bool
	err, panicked, _ := lib.Try(func() error { ok = p.Verify(&rt, leaf, index); return nil })
	if panicked {
		return false, err
	}
	return ok, nil
}

func merkleCase(h *hctx, leaves [][]byte, r *lib.RNG, tamper bool) {
	seedForReplay := r.Uint64() >> 12
	h.guard("merkle", map[string]any{"kind": "merkle", "leaves": hexList(leaves), "rng": seedForReplay}, func() { merkleCase0(h, leaves, seedForReplay, tamper) })
}

func merkleCase0(h *hctx, leaves [][]byte, seedForReplay uint64, tamper bool) {
	r := lib.NewRNG(seedForReplay)
	rp := map[string]any{"kind": "merkle", "leaves": hexList(leaves), "rng": seedForReplay}
	n := len(leaves)
	h.res.Case("merkle/"+hexList(leaves), n >= 2)
	h.res.Hit(fmt.Sprintf("merkle:leaves=%s", bucket(n)))
	var root merkle.Hash
	var tree merkle.Tree
	err, panicked, _ := lib.Try(func() error { root, tree = merkle.New(leaves); return nil })
	if panicked {
		h.violate("merkle-new-panics", fmt.Sprintf("merkle.New(%d leaves) panics: %v", n, err), rp)
		return
	}
	mroot, mproofs, ok := modelMerkle(h, leaves)
	if ok {
		impl := hex.EncodeToString(root[:])
		for _, p := range tree {
			impl += " " + hashesHex(toHashes(p.Siblings))
		}
		mod := hex.EncodeToString(mroot[:])
		for _, p := range mproofs {
			mod += " " + hashesHex(p)
		}
		h.compare("merkle-new", hexList(leaves), mod, impl)
	}
	if n == 0 {
		return
	}
	size := 2
	for size < n {
		size *= 2
	}
	if len(tree) != n {
		h.violate("merkle-proof-count", fmt.Sprintf("merkle.New(%d leaves) returned %d proofs", n, len(tree)), rp)
		return
	}
	// completeness: every honest (leaf, index, proof) verifies against the root
	for i := range leaves {
		good, err := realVerify(toHashes(tree[i].Siblings), hash(root), leaves[i], uint32(i))
		if err != nil || !good {
			h.violate("merkle-proof-of-honest-leaf-does-not-verify",
				fmt.Sprintf("merkle.New(%d leaves): proof %d does not verify (%v)", n, i, err), rp)
			return
		}
	}
	if !tamper {
		return
	}
	// proofs of the padding positions exist too (same tree with explicit empty leaves)
	fullLeaves := append([][]byte{}, leaves...)
	for len(fullLeaves) < size {
		fullLeaves = append(fullLeaves, []byte{})
	}
	_, fullTree := merkle.New(fullLeaves)

	rounds := 6 + n
	for t := 0; t < rounds; t++ {
		i := r.Intn(n)
		leaf := append([]byte{}, leaves[i]...)
		proof := toHashes(tree[i].Siblings)
		index := uint32(i)
		rt := hash(root)
		what := ""
		switch r.Intn(12) {
		case 0:
			what = "leaf-flip"
			if len(leaf) == 0 {
				leaf = []byte{0}
			} else {
				leaf[r.Intn(len(leaf))] ^= 1 << uint(r.Intn(8))
			}
		case 1:
			what = "leaf-other"
			leaf = append([]byte{}, leaves[r.Intn(n)]...)
		case 2:
			what = "leaf-trunc-or-extend"
			if len(leaf) > 0 && r.Bool() {
				leaf = leaf[:len(leaf)-1]
			} else {
				leaf = append(leaf, 0)
			}
		case 3:
			what = "index-other"
			index = uint32(r.Intn(size))
		case 4:
			what = "index-plus-size"
			index = uint32(i + size*r.Range(1, 3))
		case 5:
			what = "index-high-bits"
			index = uint32(i) | 1<<uint(r.Range(8, 31))
		case 6:
			what = "sibling-flip"
			if len(proof) == 0 { // (a tree with empty proofs is reported elsewhere; no harness panic here)
				proof = append(proof, leafHash(leaf))
			}
			j := r.Intn(len(proof))
			proof[j][r.Intn(32)] ^= 1 << uint(r.Intn(8))
		case 7:
			what = "sibling-swap-or-dup"
			if len(proof) >= 2 {
				a, b := r.Intn(len(proof)), r.Intn(len(proof))
				proof[a], proof[b] = proof[b], proof[a]
			} else if len(proof) == 1 {
				proof[0] = leafHash(leaf)
			} else {
				proof = append(proof, leafHash(leaf))
			}
		case 8:
			what = "proof-shorter"
			proof = proof[:len(proof)-1]
			if r.Bool() && len(proof) > 0 { // claim an inner node as root / leaf
				rt = proof[len(proof)-1]
			}
		case 9:
			what = "proof-longer"
			proof = append(proof, lib.Pick(r, []hash{{}, leafHash(nil), rt}))
		case 10:
			what = "padding-position"
			j := r.Intn(size)
			index = uint32(j)
			proof = toHashes(fullTree[j].Siblings)
			leaf = append([]byte{}, fullLeaves[j]...)
			if r.Chance(1, 3) {
				leaf = append([]byte{}, leaves[i]...)
			}
		case 11:
			what = "root-other"
			rt[r.Intn(32)] ^= 1
		}
		h.res.Hit("merkle-tamper:" + what)
		good, err := realVerify(proof, rt, leaf, index)
		if err != nil {
			h.violate("merkle-verify-panics", fmt.Sprintf("Proof.Verify panics (%s): %v", what, err), rp)
			continue
		}
		h.check("merkle-verify", map[string]any{"leaves": hexList(leaves), "tamper": what, "index": index, "leaf": hx(leaf)},
			"verify "+h.tt.termList(proof)+" "+h.tt.termOf(rt)+" "+hx(leaf)+" "+strconv.FormatUint(uint64(index), 10),
			strconv.FormatBool(good), false)
		if good {
			h.res.Hit("merkle-tamper:accepted")
		}
		// soundness oracle: an accepted (leaf, index, proof) against the TRUE root is the honest one
		if good && rt == hash(root) {
			pos := int(index) % size
			if !bytes.Equal(leaf, fullLeaves[pos]) {
				h.violate("merkle-verifies-wrong-leaf",
					fmt.Sprintf("Verify accepts leaf %x at index %d of a tree whose leaf there is %x (%s)", leaf, index, fullLeaves[pos], what), rp)
			} else if hashesHex(proof) != hashesHex(toHashes(fullTree[pos].Siblings)) {
				h.violate("merkle-verifies-wrong-proof",
					fmt.Sprintf("Verify accepts a proof for index %d that is not the tree's (%s)", index, what), rp)
			}
		}
	}
}

func bucket(n int) string {
	switch {
	case n <= 4:
		return strconv.Itoa(n)
	case n <= 8:
		return "5-8"
	case n <= 16:
		return "9-16"
	case n <= 32:
		return "17-32"
	}
	return ">32"
}

func genLeaves(r *lib.RNG, n int) [][]byte {
	leaves := make([][]byte, n)
	mode := r.Intn(4)
	for i := range leaves {
		switch mode {
		case 0: // all equal (symmetric tree: proofs of different indices coincide)
			leaves[i] = []byte{7}
		case 1: // few distinct values, some empty
			leaves[i] = lib.Pick(r, [][]byte{{}, {0}, {1}, {0, 0}})
		default:
			leaves[i] = r.Bytes(r.Intn(6))
		}
	}
	return leaves
}

// marshalCase: ShardData.MarshalProto (the validator's Merkle leaf) vs the model's protobuf bytes.
func marshalCase(h *hctx, shards [][]byte) {
	sd := make(propeller.ShardData, len(shards))
	for i, s := range shards {
		sd[i] = s
	}
	var out []byte
	err, panicked, _ := lib.Try(func() error { out = sd.MarshalProto(); return nil })
	if panicked {
		h.violate("marshal-proto-panics", fmt.Sprintf("ShardData.MarshalProto of %d shards: %v", len(shards), err), map[string]any{"kind": "marshal", "shards": hexList(shards)})
		return
	}
	h.res.Case("marshal/"+hexList(shards), len(shards) > 0)
	h.res.Hit(fmt.Sprintf("marshal:shards=%d", len(shards)))
	h.check("marshal-proto", len(shards), "marshal "+hexList(shards), hx(out), false)
}

func secMerkle(h *hctx, r *lib.RNG) {
	marshalCase(h, nil)
	for _, l := range []int{0, 1, 2, 126, 127, 128, 129, 300, 16383, 16384} {
		marshalCase(h, [][]byte{genMsg(r, l)})
		marshalCase(h, [][]byte{genMsg(r, l), {}, genMsg(r, 3)})
	}
	for i := 0; i < h.f.Scale(60, 600); i++ {
		n := r.Intn(4)
		sh := make([][]byte, n)
		for j := range sh {
			sh[j] = r.Bytes(lib.Pick(r, []int{0, 0, 1, 5, 63, 64, 127, 128, 200}))
		}
		marshalCase(h, sh)
	}
	for n := 0; n <= 70; n++ {
		model := h.ask("npow2 " + strconv.Itoa(n))
		// nextPowerOfTwo is unexported: observed through the proof length of an n-leaf tree
		if n >= 1 {
			_, tree := merkle.New(make([][]byte, n))
			h.compare("npow2", n, model, strconv.Itoa(1<<uint(len(tree[0].Siblings))))
		}
	}
	maxN := h.f.Scale(34, 140)
	for n := 0; n <= maxN; n++ {
		reps := 3
		if n > 17 {
			reps = 1
		}
		for j := 0; j < reps; j++ {
			merkleCase(h, genLeaves(r, n), r, true)
		}
	}
	for _, n := range []int{63, 64, 65, 127, 128, 129, 255, 256, 257} {
		if n <= maxN {
			continue
		}
		merkleCase(h, genLeaves(r, n), r, n < 130)
	}
}
