//go:build verif

// Harness for C01: drives the real juno tries / states and the Lean model on the same generated
// histories, compares roots (correspondence) and evaluates the property oracle on the real code:
// every root equals the independent recomputation of the Starknet commitment from the final
// key/value map (which implies order-, batching-, restart- and backend-independence).
package main

import (
	"encoding/json"
	"fmt"
	"math/big"
	"os"
	"runtime"
	"sort"
	"strings"
	"sync"
	"time"

	"verif/harness/lib"
)

type replayFile struct {
	Replay json.RawMessage `json:"replay"`
}

type replayBody struct {
	Kind  string          `json:"kind"`
	Trie  *TrieCase       `json:"trie,omitempty"`
	State json.RawMessage `json:"state,omitempty"`
}

func parallel[T any](items []T, f func(i int, it T)) {
	var wg sync.WaitGroup
	ch := make(chan int, len(items))
	for i := range items {
		ch <- i
	}
	close(ch)
	n := runtime.GOMAXPROCS(0)
	if n > 16 {
		n = 16
	}
	for w := 0; w < n; w++ {
		wg.Add(1)
		go func() {
			defer wg.Done()
			for i := range ch {
				f(i, items[i])
			}
		}()
	}
	wg.Wait()
}

// ---------------------------------------------------------------------------------------------
// generators

var smallVals = []string{"0", "1", "2"}

func genExhaustive(r *lib.RNG, height, maxLen int, hash string) []*TrieCase {
	var alphabet []TOp
	for k := 0; k < 1<<height; k++ {
		for _, v := range smallVals {
			alphabet = append(alphabet, TOp{Op: "put", K: fmt.Sprintf("%x", k), V: v})
		}
	}
	var out []*TrieCase
	var rec func(prefix []TOp)
	rec = func(prefix []TOp) {
		if len(prefix) > 0 {
			c := &TrieCase{Height: height, Hash: hash}
			for _, op := range prefix {
				c.Ops = append(c.Ops, op)
				// marker placement is the only random part of this family
				switch r.Intn(6) {
				case 0:
					c.Ops = append(c.Ops, TOp{Op: "hash"})
				case 1:
					c.Ops = append(c.Ops, TOp{Op: "commit"})
				}
			}
			out = append(out, c)
		}
		if len(prefix) == maxLen {
			return
		}
		for _, a := range alphabet {
			rec(append(append([]TOp{}, prefix...), a))
		}
	}
	rec(nil)
	return out
}

// genExhaustiveCommit: every sequence with Commit + reopen after EVERY write (no reads in between on
// the writing object): all writes after the first go through unresolved nodes.
func genExhaustiveCommit(height, maxLen int, hash string) []*TrieCase {
	var alphabet []TOp
	for k := 0; k < 1<<height; k++ {
		for _, v := range smallVals {
			alphabet = append(alphabet, TOp{Op: "put", K: fmt.Sprintf("%x", k), V: v})
		}
	}
	var out []*TrieCase
	var rec func(prefix []TOp)
	rec = func(prefix []TOp) {
		if len(prefix) > 0 {
			c := &TrieCase{Height: height, Hash: hash}
			for _, op := range prefix {
				c.Ops = append(c.Ops, op, TOp{Op: "commit"})
			}
			out = append(out, c)
		}
		if len(prefix) == maxLen {
			return
		}
		for _, a := range alphabet {
			rec(append(append([]TOp{}, prefix...), a))
		}
	}
	rec(nil)
	return out
}

func randBits(r *lib.RNG, n int) *big.Int {
	x := new(big.Int)
	for i := 0; i < n; i++ {
		if r.Bool() {
			x.SetBit(x, i, 1)
		}
	}
	return x
}

// genKeyPool builds keys of the given height that share prefixes of chosen lengths:
// each new key copies the top L bits of an existing key, flips bit L and fills the rest with
// zeros / ones / random bits.
func genKeyPool(r *lib.RNG, height, n int) []*big.Int {
	var pool []*big.Int
	first := lib.Pick(r, []*big.Int{new(big.Int), new(big.Int).Sub(new(big.Int).Lsh(big.NewInt(1), uint(height)), big.NewInt(1)), randBits(r, height), randBits(r, height)})
	pool = append(pool, first)
	lens := []int{0, 1, 2, height / 2, height - 3, height - 2, height - 1}
	if height == 251 {
		lens = []int{0, 1, 125, 249, 250, 250, 249, 128, 64, 192}
	}
	for len(pool) < n {
		base := lib.Pick(r, pool)
		l := lib.Pick(r, lens)
		if r.Chance(1, 4) {
			l = r.Intn(height)
		}
		if l < 0 {
			l = 0
		}
		if l >= height {
			l = height - 1
		}
		// bit index (from LSB) of path position l is height-1-l
		k := new(big.Int).Set(base)
		pos := height - 1 - l
		k.SetBit(k, pos, base.Bit(pos)^1)
		switch r.Intn(3) {
		case 0: // rest zeros
			for i := 0; i < pos; i++ {
				k.SetBit(k, i, 0)
			}
		case 1: // rest ones
			for i := 0; i < pos; i++ {
				k.SetBit(k, i, 1)
			}
		default:
			rnd := randBits(r, pos)
			for i := 0; i < pos; i++ {
				k.SetBit(k, i, rnd.Bit(i))
			}
		}
		dup := false
		for _, p := range pool {
			if p.Cmp(k) == 0 {
				dup = true
			}
		}
		if !dup || r.Chance(1, 8) {
			pool = append(pool, k)
		}
	}
	return pool
}

var boundaryVals = boundaryFelts()

func genVal(r *lib.RNG) string {
	switch r.Intn(10) {
	case 0, 1:
		return "0"
	case 2:
		return "1"
	case 3:
		return "2"
	case 4, 5:
		// 2^251-1, 2^251, 2^251+1, top nibble 8, P-2, P-1, ... : felts above 2^251 are legal values
		return lib.Pick(r, boundaryVals)
	default:
		return randBits(r, 251).Text(16)
	}
}

func genRandomCase(r *lib.RNG, height, nKeys, nOps int, markers bool) *TrieCase {
	c := &TrieCase{Height: height, Hash: lib.Pick(r, []string{"ped", "ped", "pos"})}
	if r.Chance(1, 3) {
		c.Owner = lib.Pick(r, []string{"1", "2", randBits(r, 250).Text(16)})
	}
	pool := genKeyPool(r, height, nKeys)
	withGets := markers && r.Chance(1, 4)
	present := map[string]bool{}
	for i := 0; i < nOps; i++ {
		k := lib.Pick(r, pool).Text(16)
		v := genVal(r)
		// bias: delete keys that are present, re-insert keys that were deleted
		if present[k] && r.Chance(1, 3) {
			v = "0"
		}
		c.Ops = append(c.Ops, TOp{Op: "put", K: k, V: v})
		present[k] = v != "0"
		if markers {
			switch r.Intn(8) {
			case 0:
				c.Ops = append(c.Ops, TOp{Op: "hash"})
			case 1:
				c.Ops = append(c.Ops, TOp{Op: "commit"})
			}
			// a read on the writing object in a quarter of the histories (it resolves nodes: histories without
			// reads keep the write-through-unresolved-node paths busy)
			if withGets && r.Chance(1, 4) {
				c.Ops = append(c.Ops, TOp{Op: "get", K: lib.Pick(r, pool).Text(16)})
			}
		}
	}
	return c
}

// ---------------------------------------------------------------------------------------------

type trieOutcome struct {
	c      *TrieCase
	t2, lg trace
	spec   []string
	lines  []string
	obsIdx []int
	llines []string
	lobs   []int
	blines []string
	bobs   []int
	bdumps []int
	zlines []string
	zobs   []int
	zgets  []int
}

func checkTrieCases(f lib.Flags, res *lib.Result, drv *lib.Driver, cases []*TrieCase, family string) {
	t0 := time.Now()
	defer func() {
		res.HitN("ms:"+family, int(time.Since(t0).Milliseconds()))
		// checkpoint: a panic inside a goroutine of the code under test (parallel hasher / collector)
		// cannot be recovered and kills the process; what was found so far stays on disk
		if f.Out != "" {
			_ = res.Write(f.Out)
		}
	}()
	outs := make([]*trieOutcome, len(cases))
	parallel(cases, func(i int, c *TrieCase) {
		o := &trieOutcome{c: c}
		if !lib.WithDeadline(deadline(), func() { o.t2 = runTrie2(c) }) {
			o.t2.Err = "hang: core/trie2 did not finish within the deadline"
		}
		if !lib.WithDeadline(deadline(), func() { o.lg = runLegacy(c) }) {
			o.lg.Err = "hang: core/trie did not finish within the deadline"
		}
		o.spec, _ = specTrace(c)
		outs[i] = o
	})
	// model answers, one batch
	var all []string
	for _, o := range outs {
		o.lines, o.obsIdx = modelLines(o.c, 0)
		all = append(all, o.lines...)
		o.llines, o.lobs = legacyModelLines(o.c, 0)
		if o.c.Height <= 8 {
			// tie between the Lean definition `Spec.root` and the Go recomputation used as oracle
			_, fin := specTrace(o.c)
			line := fmt.Sprintf("spec %d %s", o.c.Height, o.c.Hash)
			ks := make([]string, 0, len(fin))
			for k := range fin {
				ks = append(ks, k)
			}
			sort.Strings(ks)
			for _, k := range ks {
				v := fin[k]
				line += " " + k + ":" + feltHex(&v)
			}
			o.llines = append(o.llines, line)
		}
		all = append(all, o.llines...)
		o.blines, o.bobs, o.bdumps = lazyModelLines(o.c, 0)
		all = append(all, o.blines...)
		o.zlines, o.zobs, o.zgets = restartModelLines(o.c, 0)
		all = append(all, o.zlines...)
	}
	var answers []string
	if drv != nil {
		var err error
		answers, err = drv.AskAll(all)
		if err != nil {
			res.Fatalf("Lean driver died / answered short in family %s: %v", family, err)
			res.Mismatch(lib.Mismatch{Sig: "driver-died", Input: family, Model: err.Error()})
			answers = nil
		}
	}
	off := 0
	for _, o := range outs {
		evalTrieOutcome(res, o, answers, off, family)
		off += len(o.lines) + len(o.llines) + len(o.blines) + len(o.zlines)
	}
}

func evalTrieOutcome(res *lib.Result, o *trieOutcome, answers []string, off int, family string) {
	c := o.c
	nput := 0
	for _, op := range c.Ops {
		if op.Op == "put" {
			nput++
		} else {
			res.Hit("op:" + op.Op)
		}
	}
	key, _ := json.Marshal(c)
	res.Case(string(key), nput >= 2)
	res.Hit("family:" + family)
	res.Hit(fmt.Sprintf("trie:h=%d", c.Height))
	res.Hit("trie:" + c.Hash)
	classifyOps(res, c)
	res.Sample(6, c)

	// property oracle on the real code
	if o.t2.Err != "" {
		violateOnce(res, "trie2-error-on-valid-history", func() lib.Violation { return lib.Violation{Sig: "trie2-error-on-valid-history", What: "trie2 returned an error / panicked on a valid op sequence: " + o.t2.Err,
			Replay: replayBody{Kind: "trie", Trie: shrinkTrie(c, func(c *TrieCase) bool { return runTrie2(c).Err != "" })}} })
	} else if d := firstDiff(o.t2.Roots, o.spec); d >= 0 && primitiveIsCause(c, o.t2.Roots) {
		reportPrimitiveInside(res, c.Hash, replayBody{Kind: "trie", Trie: c}, at(o.t2.Roots, d), at(o.spec, d))
	} else if d >= 0 {
		violateOnce(res, "trie2-root-differs-from-commitment-of-map", func() lib.Violation { return lib.Violation{Sig: "trie2-root-differs-from-commitment-of-map",
			What: fmt.Sprintf("trie2 root at observation %d is %s, the Starknet commitment of the key/value map is %s", d, at(o.t2.Roots, d), at(o.spec, d)),
			Replay: replayBody{Kind: "trie", Trie: shrinkTrie(c, func(c *TrieCase) bool {
				s, _ := specTrace(c)
				t := runTrie2(c)
				return t.Err == "" && firstDiff(t.Roots, s) >= 0
			})}} })
	}
	if o.t2.Read != "" {
		violateOnce(res, "trie2-read-after-reopen-differs-from-map", func() lib.Violation {
			return lib.Violation{Sig: "trie2-read-after-reopen-differs-from-map", What: "core/trie2 after Commit + reopen: " + o.t2.Read,
				Replay: replayBody{Kind: "trie", Trie: shrinkTrie(c, func(c *TrieCase) bool { return runTrie2(c).Read != "" })}}
		})
	}
	if o.lg.Read != "" {
		violateOnce(res, "legacy-trie-read-after-reopen-differs-from-map", func() lib.Violation {
			return lib.Violation{Sig: "legacy-trie-read-after-reopen-differs-from-map", What: "core/trie after Commit + reopen: " + o.lg.Read,
				Replay: replayBody{Kind: "trie", Trie: shrinkTrie(c, func(c *TrieCase) bool { return runLegacy(c).Read != "" })}}
		})
	}
	if o.lg.Err != "" {
		violateOnce(res, "legacy-trie-error-on-valid-history", func() lib.Violation { return lib.Violation{Sig: "legacy-trie-error-on-valid-history", What: "core/trie returned an error / panicked on a valid op sequence: " + o.lg.Err,
			Replay: replayBody{Kind: "trie", Trie: shrinkTrie(c, func(c *TrieCase) bool { return runLegacy(c).Err != "" })}} })
	} else if d := firstDiff(o.lg.Roots, o.spec); d >= 0 && primitiveIsCause(c, o.lg.Roots) {
		reportPrimitiveInside(res, c.Hash, replayBody{Kind: "trie", Trie: c}, at(o.lg.Roots, d), at(o.spec, d))
	} else if d >= 0 {
		violateOnce(res, "legacy-trie-root-differs-from-commitment-of-map", func() lib.Violation { return lib.Violation{Sig: "legacy-trie-root-differs-from-commitment-of-map",
			What: fmt.Sprintf("core/trie root at observation %d is %s, the Starknet commitment of the key/value map is %s", d, at(o.lg.Roots, d), at(o.spec, d)),
			Replay: replayBody{Kind: "trie", Trie: shrinkTrie(c, func(c *TrieCase) bool {
				s, _ := specTrace(c)
				t := runLegacy(c)
				return t.Err == "" && firstDiff(t.Roots, s) >= 0
			})}} })
	}
	if o.t2.Err == "" && o.lg.Err == "" {
		if d := firstDiff(o.t2.Roots, o.lg.Roots); d >= 0 {
			violateOnce(res, "trie-backends-disagree", func() lib.Violation { return lib.Violation{Sig: "trie-backends-disagree",
				What: fmt.Sprintf("observation %d: trie2 root %s, core/trie root %s", d, at(o.t2.Roots, d), at(o.lg.Roots, d)),
				Replay: replayBody{Kind: "trie", Trie: shrinkTrie(c, func(c *TrieCase) bool {
					a, b := runTrie2(c), runLegacy(c)
					return a.Err == "" && b.Err == "" && firstDiff(a.Roots, b.Roots) >= 0
				})}} })
		}
	}

	// correspondence: Lean model term, evaluated with the real hash, vs the real trie2 root
	if answers == nil {
		return
	}
	for j, idx := range o.obsIdx {
		ans := answers[off+idx]
		res.Compared(1)
		v, err := evalTerm(ans)
		impl := at(o.t2.Roots, j)
		if err != nil {
			res.Mismatch(lib.Mismatch{Sig: "trie2-model-answer", Input: c, Model: clip(ans), Impl: impl})
			return
		}
		if got := feltHex(&v); got != impl {
			res.Mismatch(lib.Mismatch{Sig: "trie2-root", Input: c, Model: got + " = " + clip(ans), Impl: impl})
			return
		}
	}
	// trie2 model with node database: roots, and the node set of every Commit
	boff := off + len(o.lines) + len(o.llines)
	for i, l := range o.blines {
		if strings.HasPrefix(l, "bput ") {
			a := answers[boff+i]
			if strings.HasPrefix(a, "ok:") {
				if strings.Contains(a[3:], "i") {
					res.Hit("lazy:insert-through-unresolved-node")
				}
				if strings.Contains(a[3:], "d") {
					res.Hit("lazy:delete-through-unresolved-node")
				}
				if strings.Contains(a[3:], "s") {
					res.Hit("lazy:collapse-into-unresolved-sibling")
				}
			} else if a != "ok" {
				res.Mismatch(lib.Mismatch{Sig: "trie2-store-model-update", Input: c, Model: clip(a), Impl: "ok"})
			}
		}
	}
	ci := 0
	for j, idx := range o.bobs {
		ans := answers[boff+idx]
		fields := strings.Fields(ans)
		res.Compared(1)
		if len(fields) == 0 {
			res.Mismatch(lib.Mismatch{Sig: "trie2-store-model-answer", Input: c, Model: clip(ans)})
			break
		}
		v, err := evalTerm(fields[0])
		if impl := at(o.t2.Roots, j); err != nil || feltHex(&v) != impl {
			res.Mismatch(lib.Mismatch{Sig: "trie2-store-model-root", Input: c, Model: clip(ans), Impl: impl})
			break
		}
		if len(fields) > 1 { // a commit
			if ci < len(o.t2.Sets) {
				res.Compared(1)
				res.HitN("commit:nodes-written", len(fields)-1)
				if d := compareSet(fields[1:], o.t2.Sets[ci]); d != "" {
					res.Mismatch(lib.Mismatch{Sig: "trie2-committed-node-set", Input: c, Model: d})
					break
				}
			}
			ci++
		}
	}
	// the whole node database after every Commit: model disk vs the key/value content of the real store
	for j, idx := range o.bdumps {
		if j >= len(o.t2.Disks) {
			break
		}
		res.Compared(1)
		model := strings.Fields(answers[boff+idx])
		if d := compareSet(model, o.t2.Disks[j]); d != "" {
			res.Mismatch(lib.Mismatch{Sig: "trie2-node-database-after-commit", Input: c, Model: fmt.Sprintf("after commit %d: %s", j, d)})
			break
		}
		res.HitN("store-diff:node-database-entries-compared", len(model))
	}
	// restart model (unresolved nodes carry their subtree)
	zoff := boff + len(o.blines)
	for j, idx := range o.zobs {
		ans := answers[zoff+idx]
		res.Compared(1)
		v, err := evalTerm(ans)
		if impl := at(o.t2.Roots, j); err != nil || feltHex(&v) != impl {
			res.Mismatch(lib.Mismatch{Sig: "trie2-restart-model-root", Input: c, Model: clip(ans), Impl: impl})
			break
		}
	}
	for j, idx := range o.zgets {
		if j >= len(o.t2.Gets) {
			break
		}
		res.Compared(1)
		v, err := evalTerm(answers[zoff+idx])
		if err != nil || feltHex(&v) != o.t2.Gets[j] {
			res.Mismatch(lib.Mismatch{Sig: "trie2-restart-model-get", Input: c, Model: clip(answers[zoff+idx]), Impl: o.t2.Gets[j]})
			break
		}
		res.Hit("op:get-on-writing-object")
	}
	// same for the legacy trie model
	loff := off + len(o.lines)
	if c.Height <= 8 {
		ans := answers[loff+len(o.llines)-1]
		res.Compared(1)
		v, err := evalTerm(ans)
		if want := at(o.spec, len(o.spec)-1); err != nil || feltHex(&v) != want {
			res.Mismatch(lib.Mismatch{Sig: "lean-spec-root-vs-go-recomputation", Input: c, Model: clip(ans), Impl: want})
		}
	}
	for j, idx := range o.lobs {
		ans := answers[loff+idx]
		res.Compared(1)
		impl := at(o.lg.Roots, j)
		if o.lg.Err != "" {
			impl = "err"
		}
		v, err := evalTerm(ans)
		if err != nil {
			res.Mismatch(lib.Mismatch{Sig: "legacy-trie-model-answer", Input: c, Model: clip(ans), Impl: impl})
			return
		}
		if got := feltHex(&v); got != impl {
			res.Mismatch(lib.Mismatch{Sig: "legacy-trie-root", Input: c, Model: got + " = " + clip(ans), Impl: impl})
			return
		}
	}
}

func at(xs []string, i int) string {
	if i < len(xs) {
		return xs[i]
	}
	return "<missing>"
}

func firstDiff(a, b []string) int {
	n := len(a)
	if len(b) > n {
		n = len(b)
	}
	for i := 0; i < n; i++ {
		if at(a, i) != at(b, i) {
			return i
		}
	}
	return -1
}

// shrinkTrie greedily removes ops while the failure predicate keeps holding.
func shrinkTrie(c *TrieCase, fails func(*TrieCase) bool) *TrieCase {
	cur := *c
	cur.Ops = append([]TOp{}, c.Ops...)
	if !fails(&cur) {
		return c
	}
	for changed := true; changed; {
		changed = false
		for i := 0; i < len(cur.Ops) && len(cur.Ops) <= 400; i++ {
			cand := cur
			cand.Ops = append(append([]TOp{}, cur.Ops[:i]...), cur.Ops[i+1:]...)
			if fails(&cand) {
				cur = cand
				changed = true
				i--
			}
		}
	}
	return &cur
}

func main() {
	f := lib.ParseFlags()
	res := lib.NewResult("histories of put/overwrite/write-zero/Hash/Commit+reopen on core/trie2, core/trie and the temp-trie backends, " +
		"and state-diff sequences on core/state and core/deprecatedstate; non-trivial = history with at least 2 writes")
	r := lib.NewRNG(f.Seed)
	drv, err := lib.StartDriver(f.Driver)
	if err != nil {
		res.Fatalf("Lean driver did not start: %v", err)
		drv = nil
	}
	if drv != nil {
		defer drv.Close()
	}

	tracerLeafAbs = probeTracer()
	res.Note("trie2 tracer records the absolute path of a deleted last-level leaf: %v (selects the Lean model variant)", tracerLeafAbs)
	if f.Replay != "" {
		runReplay(f, res, drv)
		lib.Finish(f, res)
	}

	// (developer switch: C01_ONLY=migrated runs the round-5 migration families alone)
	if os.Getenv("C01_ONLY") == "migrated" {
		legacyPurgeVariant = legacyPurges()
		runMigratedFamilies(f, res, drv, r.Fork(10_000_000))
		lib.Finish(f, res)
	}

	if os.Getenv("C01_ONLY") == "revert" {
		legacyPurgeVariant = legacyPurges()
		checkReverts(f, res, r.Fork(12_000_000), nil)
		lib.Finish(f, res)
	}
	if os.Getenv("C01_ONLY") == "enc" {
		checkEncodings(f, res, drv, r.Fork(11_000_000))
		lib.Finish(f, res)
	}

	// 0. juno's hash primitives against the independent implementations (boundary felts × boundary felts)
	checkPrimitives(f, res, r)
	if f.Out != "" {
		_ = res.Write(f.Out)
	}

	// 1. exhaustive short histories on tiny heights
	for _, hk := range []string{"ped", "pos"} {
		checkTrieCases(f, res, drv, genExhaustive(r, 1, f.Scale(4, 5), hk), "exhaustive-h1")
		checkTrieCases(f, res, drv, genExhaustive(r, 2, f.Scale(3, 4), hk), "exhaustive-h2")
		if hk == "ped" {
			checkTrieCases(f, res, drv, genExhaustive(r, 3, f.Scale(2, 3), hk), "exhaustive-h3")
		}
	}
	checkTrieCases(f, res, drv, genExhaustiveCommit(2, f.Scale(3, 4), "ped"), "exhaustive-commit-every-op-h2")
	checkTrieCases(f, res, drv, genExhaustiveCommit(3, f.Scale(2, 3), "pos"), "exhaustive-commit-every-op-h3")
	// 2. random histories on heights 2..8
	var cs []*TrieCase
	for i := 0; i < f.Scale(1500, 30000); i++ {
		h := r.Range(2, 8)
		cs = append(cs, genRandomCase(r.Fork(uint64(i)), h, r.Range(2, 7), r.Range(2, 24), true))
	}
	checkTrieCases(f, res, drv, cs, "random-small")
	// 3. height 251 (and 64) with shared-prefix key families
	cs = nil
	for i := 0; i < f.Scale(600, 12000); i++ {
		h := 251
		if i%5 == 4 {
			h = 64
		}
		cs = append(cs, genRandomCase(r.Fork(uint64(1_000_000+i)), h, r.Range(1, 9), r.Range(1, 30), true))
	}
	checkTrieCases(f, res, drv, cs, "random-251")
	// 4. large batches (parallel hashing / parallel collector paths: > 100 pending updates)
	cs = nil
	for i := 0; i < f.Scale(8, 60); i++ {
		rr := r.Fork(uint64(2_000_000 + i))
		c := genRandomCase(rr, 251, rr.Range(120, 260), rr.Range(150, 400), false)
		if i%4 != 3 {
			// one big batch, Commit + reopen (parallel hasher / collector), then a tail touching old keys
			tail := genRandomCase(rr, 251, 4, rr.Range(3, 12), true)
			c.Ops = append(c.Ops, TOp{Op: "commit"})
			for j, op := range tail.Ops {
				if op.Op == "put" {
					op.K = c.Ops[(j*37)%len(c.Ops)].K
					if op.K == "" {
						op.K = c.Ops[0].K
					}
				}
				c.Ops = append(c.Ops, op)
			}
			c.Ops = append(c.Ops, TOp{Op: "commit"})
			if i%4 == 1 {
				// a SECOND large batch on the reopened trie: > 100 overwrites / deletions / re-insertions of old
				// keys and some new ones (parallel hashing through unresolved nodes, parallel collection with
				// pending deletions), Commit + reopen, a few more writes
				n1 := len(c.Ops)
				for j, m := 0, rr.Range(110, 180); j < m; j++ {
					k := c.Ops[rr.Intn(n1)].K
					if k == "" || rr.Chance(1, 6) {
						k = randBits(rr, 251).Text(16)
					}
					v := genVal(rr)
					if rr.Chance(1, 3) {
						v = "0"
					}
					c.Ops = append(c.Ops, TOp{Op: "put", K: k, V: v})
				}
				c.Ops = append(c.Ops, TOp{Op: "commit"})
				for j := 0; j < 4; j++ {
					c.Ops = append(c.Ops, TOp{Op: "put", K: c.Ops[rr.Intn(n1)].K + "", V: genVal(rr)})
				}
				for j := range c.Ops {
					if c.Ops[j].Op == "put" && c.Ops[j].K == "" {
						c.Ops[j].K = "7"
					}
				}
			}
		}
		cs = append(cs, c)
	}
	checkTrieCases(f, res, drv, cs, "large-batch")

	checkTempTries(f, res, drv, r)
	checkBlockCommitments(f, res, drv, r.Fork(6_000_000))
	checkVersions(f, res, drv, r.Fork(7_000_000))
	checkPointerReuse(f, res, drv, r.Fork(8_000_000))
	probeLeads(res)
	// byte level of the persisted nodes / records / keys (round 6)
	checkEncodings(f, res, drv, r.Fork(11_000_000))
	if f.Out != "" {
		_ = res.Write(f.Out)
	}

	// 5. state-diff sequences through core/state and core/deprecatedstate
	legacyPurgeVariant = legacyPurges()
	res.Note("deprecatedstate purges emptied system contracts in Update: %v (selects the Lean model variant)", legacyPurgeVariant)
	oldFixedVariant = [2]bool{oldRootFixed(true), oldRootFixed(false)}
	res.Note("Update accepts the stored old root at the commitment-formula switch: core/state %v, core/deprecatedstate %v (selects the Lean model variant)", oldFixedVariant[0], oldFixedVariant[1])
	finaliseFixedVariant = [2]bool{finaliseKeepsOldRoot(true), finaliseKeepsOldRoot(false)}
	res.Note("updateStateRoots keeps the caller's OldRoot: new state %v, deprecated state %v (selects the variant of the chain model)", finaliseFixedVariant[0], finaliseFixedVariant[1])
	for v := range finaliseFixedVariant {
		if finaliseFixedVariant[v] != oldFixedVariant[v] {
			res.Fatalf("the tree under test has the repaired old-root check in only one of Update / updateStateRoots (backend %d): the chain model has no such variant", v)
		}
	}
	checkStateCases(f, res, drv, directedStateCases(), "state-directed")
	checkStateCases(f, res, drv, versionSwitchCases(), "state-version-switch")
	checkInvalidDiffs(f, res, drv, genInvalidCases(r.Fork(5_000_000), f.Scale(60, 1200)))
	var scs []*StateCase
	for i := 0; i < f.Scale(300, 6000); i++ {
		rr := r.Fork(uint64(3_000_000 + i))
		scs = append(scs, genStateCase(rr, rr.Range(1, 6)))
	}
	checkStateCases(f, res, drv, scs, "state-random")
	checkSplitMerged(f, res, drv, scs[:min(len(scs), f.Scale(110, 600))])
	scs = nil
	for i := 0; i < f.Scale(3, 30); i++ {
		scs = append(scs, genLargeStateCase(r.Fork(uint64(4_000_000+i))))
	}
	checkStateCases(f, res, drv, scs, "state-large-diff")
	scs = nil
	for i := 0; i < f.Scale(2, 20); i++ {
		scs = append(scs, genManyContractsCase(r.Fork(uint64(9_000_000+i))))
	}
	checkStateCases(f, res, drv, scs, "state-many-contracts")
	// reorgs: blocks reverted (State.Revert of both backends), then other blocks accepted (round 6)
	checkReverts(f, res, r.Fork(12_000_000), nil)
	// 6. a database produced by an upgrade: Contract records written by the head-state migration (round 5)
	runMigratedFamilies(f, res, drv, r.Fork(10_000_000))
	lib.Finish(f, res)
}

func runReplay(f lib.Flags, res *lib.Result, drv *lib.Driver) {
	b, err := os.ReadFile(f.Replay)
	if err != nil {
		res.Fatalf("replay: %v", err)
		return
	}
	var rf replayFile
	var body replayBody
	if err := json.Unmarshal(b, &rf); err != nil || json.Unmarshal(rf.Replay, &body) != nil {
		res.Fatalf("replay: cannot parse %s", f.Replay)
		return
	}
	switch body.Kind {
	case "trie":
		checkTrieCases(f, res, drv, []*TrieCase{body.Trie}, "replay")
	case "state":
		var sc StateCase
		if err := json.Unmarshal(body.State, &sc); err != nil {
			res.Fatalf("replay: %v", err)
			return
		}
		legacyPurgeVariant = legacyPurges()
		oldFixedVariant = [2]bool{oldRootFixed(true), oldRootFixed(false)}
		finaliseFixedVariant = [2]bool{finaliseKeepsOldRoot(true), finaliseKeepsOldRoot(false)}
		checkStateCases(f, res, drv, []*StateCase{&sc}, "replay")
	case "primitive":
		checkPrimitives(f, res, lib.NewRNG(f.Seed))
	case "splitmerged":
		var sc StateCase
		if err := json.Unmarshal(body.State, &sc); err != nil {
			res.Fatalf("replay: %v", err)
			return
		}
		legacyPurgeVariant = legacyPurges()
		oldFixedVariant = [2]bool{oldRootFixed(true), oldRootFixed(false)}
		finaliseFixedVariant = [2]bool{finaliseKeepsOldRoot(true), finaliseKeepsOldRoot(false)}
		checkSplitMerged(f, res, drv, []*StateCase{&sc})
	case "migrated":
		var mc MigCase
		if err := json.Unmarshal(body.State, &mc); err != nil {
			res.Fatalf("replay: %v", err)
			return
		}
		legacyPurgeVariant = legacyPurges()
		checkMigrated(f, res, drv, []*MigCase{&mc}, "replay")
	case "enc":
		checkEncodings(f, res, drv, lib.NewRNG(f.Seed).Fork(11_000_000))
	case "revert":
		var rc RevCase
		if err := json.Unmarshal(body.State, &rc); err != nil {
			res.Fatalf("replay: %v", err)
			return
		}
		legacyPurgeVariant = legacyPurges()
		checkReverts(f, res, lib.NewRNG(f.Seed), &rc)
	case "ptr":
		checkPointerReuse(f, res, drv, lib.NewRNG(f.Seed).Fork(8_000_000))
	case "version":
		checkVersions(f, res, drv, lib.NewRNG(f.Seed).Fork(7_000_000))
	case "blockcomm":
		checkBlockCommitments(f, res, drv, lib.NewRNG(f.Seed).Fork(6_000_000))
	case "temptrie":
		var n int
		_ = json.Unmarshal(body.State, &n)
		checkTempTrieN(res, drv, n)
	}
}
