//go:build verif

package main

import (
	"crypto/sha256"
	"fmt"
	"math/big"
	"sync"

	"github.com/NethermindEth/juno/core/crypto"
	"github.com/NethermindEth/juno/core/felt"
	pedersenhash "github.com/consensys/gnark-crypto/ecc/stark-curve/pedersen-hash"
	"verif/harness/lib"
)

// Hash primitives that do NOT go through core/crypto. The oracle (spec.go, the abstract state
// commitment) and the evaluation of the Lean model's hash terms use these, so that a defect in juno's
// own Pedersen / Poseidon code shows up as a root that differs from the protocol's.
//
//   - indPedersen : gnark-crypto's pedersen-hash package (nibble tables; juno has its own byte-table code)
//   - indPoseidon*: the Hades permutation written out here with math/big, round constants derived from
//     their definition sha256("Hades<i>") mod P (juno stores the expanded table), plain MDS matrix
//   - textbookPedersen: shift + a_low*P0 + a_high*P1 + b_low*P2 + b_high*P3 with double-and-add on
//     math/big Jacobian coordinates; slow, used only to cross-check the other two on samples

var fieldP, _ = new(big.Int).SetString("800000000000011000000000000000000000000000000000000000000000001", 16)

func indPedersen(a, b *felt.Felt) felt.Felt {
	return felt.Felt(pedersenhash.Pedersen(a.Impl(), b.Impl()))
}

var (
	hadesOnce sync.Once
	hadesKeys [91][3]*big.Int
)

func hadesInit() {
	for r := 0; r < 91; r++ {
		for j := 0; j < 3; j++ {
			sum := sha256.Sum256([]byte(fmt.Sprintf("Hades%d", 3*r+j)))
			hadesKeys[r][j] = new(big.Int).Mod(new(big.Int).SetBytes(sum[:]), fieldP)
		}
	}
}

func hades(s *[3]*big.Int) {
	hadesOnce.Do(hadesInit)
	cube := func(x *big.Int) *big.Int {
		y := new(big.Int).Mul(x, x)
		y.Mod(y, fieldP)
		y.Mul(y, x)
		return y.Mod(y, fieldP)
	}
	for r := 0; r < 91; r++ {
		for j := 0; j < 3; j++ {
			s[j] = new(big.Int).Add(s[j], hadesKeys[r][j])
			s[j].Mod(s[j], fieldP)
		}
		full := r < 4 || r >= 87
		if full {
			s[0], s[1] = cube(s[0]), cube(s[1])
		}
		s[2] = cube(s[2])
		// MDS ((3,1,1),(1,-1,1),(1,1,-2))
		t0 := new(big.Int).Mul(s[0], big.NewInt(3))
		t0.Add(t0, s[1]).Add(t0, s[2])
		t1 := new(big.Int).Sub(s[0], s[1])
		t1.Add(t1, s[2])
		t2 := new(big.Int).Add(s[0], s[1])
		t2.Sub(t2, new(big.Int).Mul(s[2], big.NewInt(2)))
		s[0], s[1], s[2] = t0.Mod(t0, fieldP), t1.Mod(t1, fieldP), t2.Mod(t2, fieldP)
	}
}

func bigOf(f *felt.Felt) *big.Int { return f.BigInt(new(big.Int)) }

func feltOf(b *big.Int) felt.Felt {
	var f felt.Felt
	f.SetBigInt(b)
	return f
}

// bigPoseidon: the permutation on math/big (slow; cross-check only)
func bigPoseidon(a, b *felt.Felt) felt.Felt {
	s := [3]*big.Int{bigOf(a), bigOf(b), big.NewInt(2)}
	hades(&s)
	return feltOf(s[0])
}

// the same permutation on field elements (gnark-crypto's fp arithmetic, which is not juno code):
// explicit matrix product, constants from their definition
var (
	hadesFOnce sync.Once
	hadesFKeys [91][3]felt.Felt
	mds        [3][3]felt.Felt
)

func hadesF(s *[3]felt.Felt) {
	hadesFOnce.Do(func() {
		hadesOnce.Do(hadesInit)
		for r := range hadesKeys {
			for j := range hadesKeys[r] {
				hadesFKeys[r][j] = feltOf(hadesKeys[r][j])
			}
		}
		for i, row := range [3][3]int64{{3, 1, 1}, {1, -1, 1}, {1, 1, -2}} {
			for j, v := range row {
				mds[i][j] = feltOf(new(big.Int).Mod(big.NewInt(v), fieldP))
			}
		}
	})
	for r := 0; r < 91; r++ {
		for j := 0; j < 3; j++ {
			s[j].Add(&s[j], &hadesFKeys[r][j])
		}
		lo := 2
		if r < 4 || r >= 87 {
			lo = 0
		}
		for j := lo; j < 3; j++ {
			var sq felt.Felt
			sq.Mul(&s[j], &s[j])
			s[j].Mul(&sq, &s[j])
		}
		var out [3]felt.Felt
		for i := 0; i < 3; i++ {
			for j := 0; j < 3; j++ {
				var t felt.Felt
				t.Mul(&mds[i][j], &s[j])
				out[i].Add(&out[i], &t)
			}
		}
		*s = out
	}
}

func indPoseidon(a, b *felt.Felt) felt.Felt {
	s := [3]felt.Felt{*a, *b, felt.FromUint64[felt.Felt](2)}
	hadesF(&s)
	return s[0]
}

// sponge over an arbitrary number of elements (padding 1, rate 2)
func indPoseidonElems(xs ...*felt.Felt) felt.Felt {
	var s [3]felt.Felt
	one := felt.FromUint64[felt.Felt](1)
	i := 0
	for ; i+1 < len(xs); i += 2 {
		s[0].Add(&s[0], xs[i])
		s[1].Add(&s[1], xs[i+1])
		hadesF(&s)
	}
	if i < len(xs) {
		s[0].Add(&s[0], xs[i])
		s[1].Add(&s[1], &one)
	} else {
		s[0].Add(&s[0], &one)
	}
	hadesF(&s)
	return s[0]
}

func indHashFnOf(name string) crypto.HashFn {
	if name == "pos" {
		return indPoseidon
	}
	return indPedersen
}

// ---- textbook Pedersen on math/big -----------------------------------------------------------------

type jac struct{ x, y, z *big.Int }

func mod(x *big.Int) *big.Int { return x.Mod(x, fieldP) }

func mulm(a, b *big.Int) *big.Int { return mod(new(big.Int).Mul(a, b)) }

// curve y^2 = x^3 + x + beta
func jacDouble(p jac) jac {
	if p.z.Sign() == 0 {
		return p
	}
	yy := mulm(p.y, p.y)
	s := mulm(big.NewInt(4), mulm(p.x, yy))
	zz := mulm(p.z, p.z)
	m := mod(new(big.Int).Add(mulm(big.NewInt(3), mulm(p.x, p.x)), mulm(zz, zz))) // alpha = 1
	x := mod(new(big.Int).Sub(mulm(m, m), mulm(big.NewInt(2), s)))
	y := mod(new(big.Int).Sub(mulm(m, new(big.Int).Sub(s, x)), mulm(big.NewInt(8), mulm(yy, yy))))
	z := mulm(big.NewInt(2), mulm(p.y, p.z))
	return jac{x, y, z}
}

func jacAdd(p, q jac) jac {
	if p.z.Sign() == 0 {
		return q
	}
	if q.z.Sign() == 0 {
		return p
	}
	z1z1, z2z2 := mulm(p.z, p.z), mulm(q.z, q.z)
	u1, u2 := mulm(p.x, z2z2), mulm(q.x, z1z1)
	s1, s2 := mulm(p.y, mulm(q.z, z2z2)), mulm(q.y, mulm(p.z, z1z1))
	if u1.Cmp(u2) == 0 {
		if s1.Cmp(s2) == 0 {
			return jacDouble(p)
		}
		return jac{big.NewInt(1), big.NewInt(1), new(big.Int)}
	}
	h := mod(new(big.Int).Sub(u2, u1))
	r := mod(new(big.Int).Sub(s2, s1))
	hh := mulm(h, h)
	hhh := mulm(h, hh)
	v := mulm(u1, hh)
	x := mod(new(big.Int).Sub(new(big.Int).Sub(mulm(r, r), hhh), mulm(big.NewInt(2), v)))
	y := mod(new(big.Int).Sub(mulm(r, new(big.Int).Sub(v, x)), mulm(s1, hhh)))
	z := mulm(h, mulm(p.z, q.z))
	return jac{x, y, z}
}

func jacMul(p jac, k *big.Int) jac {
	acc := jac{big.NewInt(1), big.NewInt(1), new(big.Int)}
	for i := k.BitLen() - 1; i >= 0; i-- {
		acc = jacDouble(acc)
		if k.Bit(i) == 1 {
			acc = jacAdd(acc, p)
		}
	}
	return acc
}

func pt(x, y string) jac {
	X, _ := new(big.Int).SetString(x, 10)
	Y, _ := new(big.Int).SetString(y, 10)
	return jac{X, Y, big.NewInt(1)}
}

var (
	pedShift = pt("2089986280348253421170679821480865132823066470938446095505822317253594081284", "1713931329540660377023406109199410414810705867260802078187082345529207694986")
	pedP     = [4]jac{
		pt("996781205833008774514500082376783249102396023663454813447423147977397232763", "1668503676786377725805489344771023921079126552019160156920634619255970485781"),
		pt("2251563274489750535117886426533222435294046428347329203627021249169616184184", "1798716007562728905295480679789526322175868328062420237419143593021674992973"),
		pt("2138414695194151160943305727036575959195309218611738193261179310511854807447", "113410276730064486255102093846540133784865286929052426931474106396135072156"),
		pt("2379962749567351885752724891227938183011949129833673362440656643086021394946", "776496453633298175483985398648758586525933812536653089401905292063708816422"),
	}
)

func textbookPedersen(a, b *felt.Felt) felt.Felt {
	low := new(big.Int).Sub(new(big.Int).Lsh(big.NewInt(1), 248), big.NewInt(1))
	acc := pedShift
	for i, v := range []*big.Int{bigOf(a), bigOf(b)} {
		lo := new(big.Int).And(v, low)
		hi := new(big.Int).Rsh(v, 248)
		acc = jacAdd(acc, jacMul(pedP[2*i], lo))
		acc = jacAdd(acc, jacMul(pedP[2*i+1], hi))
	}
	zi := new(big.Int).ModInverse(acc.z, fieldP)
	return feltOf(mulm(acc.x, mulm(zi, zi)))
}

// ---- boundary felts and the direct check of juno's primitives -----------------------------------

// boundaryFelts: 0, 1, 2, 2^248-1, 2^248, 2^251-1, 2^251, 2^251+1, top-nibble-8 values, P-2, P-1
func boundaryFelts() []string {
	two := func(n uint) *big.Int { return new(big.Int).Lsh(big.NewInt(1), n) }
	vs := []*big.Int{
		big.NewInt(0), big.NewInt(1), big.NewInt(2), big.NewInt(255), big.NewInt(256),
		new(big.Int).Sub(two(248), big.NewInt(1)), two(248), new(big.Int).Add(two(248), big.NewInt(1)),
		new(big.Int).Sub(two(251), big.NewInt(1)), two(251), new(big.Int).Add(two(251), big.NewInt(1)),
		new(big.Int).Add(two(251), two(192)), new(big.Int).Add(two(251), new(big.Int).Lsh(big.NewInt(16), 192)),
		new(big.Int).Sub(fieldP, big.NewInt(2)), new(big.Int).Sub(fieldP, big.NewInt(1)),
		new(big.Int).Sub(two(250), big.NewInt(1)), two(250), new(big.Int).Add(two(249), two(250)),
	}
	out := make([]string, len(vs))
	for i, v := range vs {
		out[i] = v.Text(16)
	}
	return out
}

var primitivesBroken = map[string]bool{}

// checkPrimitives compares juno's Pedersen / Poseidon / PoseidonElems with the independent
// implementations on every pair of boundary felts and on random felts, and the two independent
// Pedersen implementations with each other on a sample.
func checkPrimitives(f lib.Flags, res *lib.Result, r *lib.RNG) {
	t0 := timeNow()
	defer func() { res.HitN("ms:primitives", msSince(t0)) }()
	bs := boundaryFelts()
	type pair struct{ a, b string }
	var pairs []pair
	for _, a := range bs {
		for _, b := range bs {
			pairs = append(pairs, pair{a, b})
		}
	}
	for i := 0; i < f.Scale(300, 5000); i++ {
		a, b := randBits(r, 252), randBits(r, 252)
		if r.Chance(1, 3) {
			a = new(big.Int).Sub(fieldP, new(big.Int).Rsh(randBits(r, 60), uint(r.Intn(60))))
		}
		pairs = append(pairs, pair{new(big.Int).Mod(a, fieldP).Text(16), new(big.Int).Mod(b, fieldP).Text(16)})
	}
	var mu sync.Mutex
	parallel(pairs, func(i int, p pair) {
		a, b := hexFelt(p.a), hexFelt(p.b)
		jp, ip := crypto.Pedersen(&a, &b), indPedersen(&a, &b)
		js, is := crypto.Poseidon(&a, &b), indPoseidon(&a, &b)
		one := felt.FromUint64[felt.Felt](1)
		je, ie := crypto.PoseidonElems(&one, &a, &b), indPoseidonElems(&one, &a, &b)
		ja := crypto.PedersenArray([]felt.Felt{a, b})
		z := felt.Zero
		h1 := indPedersen(&z, &a)
		h2 := indPedersen(&h1, &b)
		two := felt.FromUint64[felt.Felt](2)
		ia := indPedersen(&h2, &two)
		mu.Lock()
		defer mu.Unlock()
		res.Case("prim/"+p.a+"/"+p.b, true)
		res.Hit("family:hash-primitives")
		rep := map[string]string{"kind": "primitive", "a": p.a, "b": p.b}
		if !jp.Equal(&ip) {
			primitivesBroken["ped"] = true
			violateOnce(res, "pedersen-differs-from-reference-implementation", func() lib.Violation {
				return lib.Violation{Sig: "pedersen-differs-from-reference-implementation",
					What:   fmt.Sprintf("crypto.Pedersen(%s, %s) = %s, the reference implementations give %s", p.a, p.b, feltHex(&jp), feltHex(&ip)),
					Replay: rep}
			})
		}
		if !ja.Equal(&ia) {
			primitivesBroken["ped"] = true
			violateOnce(res, "pedersen-array-differs-from-reference-implementation", func() lib.Violation {
				return lib.Violation{Sig: "pedersen-array-differs-from-reference-implementation",
					What:   fmt.Sprintf("crypto.PedersenArray([%s, %s]) = %s, reference %s", p.a, p.b, feltHex(&ja), feltHex(&ia)),
					Replay: rep}
			})
		}
		if !js.Equal(&is) || !je.Equal(&ie) {
			primitivesBroken["pos"] = true
			violateOnce(res, "poseidon-differs-from-reference-implementation", func() lib.Violation {
				return lib.Violation{Sig: "poseidon-differs-from-reference-implementation",
					What:   fmt.Sprintf("crypto.Poseidon(%s, %s) = %s / PoseidonElems(1,a,b) = %s, the reference (Hades permutation from its definition) gives %s / %s", p.a, p.b, feltHex(&js), feltHex(&je), feltHex(&is), feltHex(&ie)),
					Replay: rep}
			})
		}
		// the two independent Pedersen implementations against each other (slow one on a sample)
		if i%7 == 0 {
			if bp := bigPoseidon(&a, &b); !bp.Equal(&is) {
				res.Fatalf("the two reference Poseidon implementations of the harness disagree on (%s, %s)", p.a, p.b)
				res.Mismatch(lib.Mismatch{Sig: "reference-poseidon-implementations-disagree", Input: rep, Model: feltHex(&bp), Impl: feltHex(&is)})
			}
			tp := textbookPedersen(&a, &b)
			res.Hit("primitive:textbook-pedersen-cross-check")
			if !tp.Equal(&ip) {
				res.Fatalf("the two reference Pedersen implementations of the harness disagree on (%s, %s): %s vs %s", p.a, p.b, feltHex(&tp), feltHex(&ip))
				res.Mismatch(lib.Mismatch{Sig: "reference-pedersen-implementations-disagree", Input: rep, Model: feltHex(&tp), Impl: feltHex(&ip)})
			}
		}
	})
}

// reportPrimitiveInside: a history whose real roots are wrong only because the hash primitive is
// (see primitiveIsCause). If checkPrimitives already reported the primitive with a direct input this
// adds nothing; otherwise the history itself is the witness.
func reportPrimitiveInside(res *lib.Result, kind string, replay any, got, want string) {
	k := "ped"
	sig := "pedersen-differs-from-reference-implementation"
	if kind == "pos" {
		k, sig = "pos", "poseidon-differs-from-reference-implementation"
	}
	if primitivesBroken[k] {
		return
	}
	sig += "-inside-history"
	violateOnce(res, sig, func() lib.Violation {
		return lib.Violation{Sig: sig, What: fmt.Sprintf("the real root %s is the commitment of the map under juno's own hash function but not under the reference implementation (%s): the trie logic is right, the hash primitive is not", got, want), Replay: replay}
	})
}
