//go:build verif

package main

// Round 6: the BYTE level of what both backends persist, against ModelEnc.lean.
//   - trie2: every key and every blob of the node database after a Commit (trienode.EncodeNode / DecodeNode,
//     trieutils.BitArray Write / UnmarshalBinary), plus damaged blobs (error paths of DecodeNode);
//   - core/state: every raw record of the Contract bucket after every block (stateContract.MarshalBinary /
//     UnmarshalBinary), records written by state.WriteContract (the migrator's writer), damaged records;
//   - core/trie: the whole storage of the legacy trie after every Hash() — root key, node keys, node bytes
//     (Node.WriteTo / UnmarshalBinary, BitArray Write / UnmarshalBinary, Storage.dbKey) — against the storage
//     of the Lean legacy model (`ldump`): the store-level diff of the legacy backend.
// Oracles on the real code: a persisted node / record read back and written again gives the same bytes; a
// record in the short form reads with a zero storage root.

import (
	"bytes"
	"encoding/hex"
	"fmt"
	"math/big"
	"sort"
	"strings"

	"github.com/NethermindEth/juno/core/felt"
	"github.com/NethermindEth/juno/core/state"
	"github.com/NethermindEth/juno/core/trie"
	"github.com/NethermindEth/juno/core/trie2/trienode"
	"github.com/NethermindEth/juno/core/trie2/trieutils"
	"github.com/NethermindEth/juno/db"
	"github.com/NethermindEth/juno/db/memory"
	"verif/harness/lib"
)

func hexOrDash(b []byte) string {
	if len(b) == 0 {
		return "-"
	}
	return hex.EncodeToString(b)
}

// encAsk collects driver lines with the answer the real code gives; flushed in batches.
type encAsk struct {
	lines, want, what []string
}

func (a *encAsk) add(line, want, what string) {
	a.lines = append(a.lines, line)
	a.want = append(a.want, want)
	a.what = append(a.what, what)
}

func (a *encAsk) flush(res *lib.Result, drv *lib.Driver, sig string, input any) bool {
	if drv == nil || len(a.lines) == 0 {
		return true
	}
	ans, err := drv.AskAll(a.lines)
	if err != nil || len(ans) != len(a.lines) {
		res.Fatalf("byte-level family: driver failed (%v; %d answers for %d lines)", err, len(ans), len(a.lines))
		return false
	}
	ok := true
	for i := range ans {
		res.Compared(1)
		if ans[i] == "bad-op" {
			res.Fatalf("byte-level family: driver answered bad-op to %q", clip(a.lines[i]))
			return false
		}
		if a.want[i] == "err" {
			// an error of the real code: the model must answer an error as well (the class is the model's)
			if strings.HasPrefix(ans[i], "err") {
				res.Hit("enc:error:" + strings.SplitN(a.lines[i], " ", 2)[0] + ":" + ans[i])
				continue
			}
		} else if ans[i] == a.want[i] {
			continue
		}
		if ok {
			res.Mismatch(lib.Mismatch{Sig: sig, Input: input, Model: a.what[i] + ": " + clip(a.lines[i]) + " -> " + clip(ans[i]), Impl: clip(a.want[i])})
		}
		ok = false
	}
	a.lines, a.want, a.what = nil, nil, nil
	return ok
}

func bigHex(f *felt.Felt) string { return f.BigInt(new(big.Int)).Text(16) }

// renderNode: a decoded trie2 node in the form the driver's `dnode` answers
func renderNode(n trienode.Node) string {
	switch d := n.(type) {
	case *trienode.ValueNode:
		x := felt.Felt(*d)
		return "L:" + bigHex(&x)
	case *trienode.HashNode:
		x := felt.Felt(*d)
		return "L:" + bigHex(&x)
	case *trienode.BinaryNode:
		l, r := d.Children[0].Hash(nil), d.Children[1].Hash(nil)
		return "B:" + bigHex(&l) + ":" + bigHex(&r)
	case *trienode.EdgeNode:
		c := d.Child.Hash(nil)
		pf := d.Path.Felt()
		return fmt.Sprintf("E:%s:%d:%s", bigHex(&c), d.Path.Len(), bigHex(&pf))
	}
	return "?"
}

func encodeLine(n trienode.Node) string {
	s := renderNode(n)
	return "enode " + strings.ReplaceAll(s, ":", " ")
}

// realDecode: trienode.DecodeNode under recover; "err" for an error or a panic
func realDecode(blob []byte, pathLen, maxLen uint8) (string, trienode.Node) {
	var node trienode.Node
	err, _, _ := lib.Try(func() error {
		var zero felt.Felt
		n, err := trienode.DecodeNode(blob, &zero, pathLen, maxLen)
		node = n
		return err
	})
	if err != nil || node == nil {
		return "err", nil
	}
	if e, ok := node.(*trienode.EdgeNode); ok {
		// UnmarshalBinary does not check that the value fits into the length: outside the model's domain
		pf := e.Path.Felt()
		if pf.BigInt(new(big.Int)).BitLen() > int(e.Path.Len()) {
			return "skip", nil
		}
	}
	return renderNode(node), node
}

func checkEncTrie2(f lib.Flags, res *lib.Result, drv *lib.Driver, r *lib.RNG) {
	n := f.Scale(60, 1200)
	for i := 0; i < n; i++ {
		rr := r.Fork(uint64(i))
		h := lib.Pick(rr, []int{251, 251, 251, 64, 8, 3})
		c := genRandomCase(rr, h, rr.Range(1, 12), rr.Range(1, 40), false)
		if i%7 == 0 {
			c.Owner = "abc"
		}
		res.Case(fmt.Sprintf("enc-trie2:%d", i), len(c.Ops) >= 2)
		var ask encAsk
		var viol string
		err, _, _ := lib.Try(func() error {
			s, err := openT2(c)
			if err != nil {
				return err
			}
			for _, op := range c.Ops {
				if op.Op == "put" {
					k, v := hexFelt(op.K), hexFelt(op.V)
					if err := s.tr.Update(&k, &v); err != nil {
						return err
					}
				}
			}
			if _, err := s.commit(); err != nil {
				return err
			}
			skip := 1
			if !felt.IsZero(&s.owner) {
				skip += 32
			}
			dump := dumpDB(s.disk)
			keys := make([]string, 0, len(dump))
			for k := range dump {
				keys = append(keys, k)
			}
			sort.Strings(keys)
			for _, k := range keys {
				kb, blob := []byte(k), []byte(dump[k])
				if len(kb) < skip+2 {
					continue
				}
				pb := kb[skip+1:]
				var path trieutils.Path
				if err := path.UnmarshalBinary(pb); err != nil {
					return fmt.Errorf("key with an undecodable path: %x", kb)
				}
				pf := path.Felt()
				res.Hit(fmt.Sprintf("enc:trie2-key-path-bytes=%d", len(pb)-1))
				ask.add("dpath "+hexOrDash(pb), fmt.Sprintf("ok %d %s", path.Len(), bigHex(&pf)), "node key")
				ask.add(fmt.Sprintf("epath %d %s", path.Len(), bigHex(&pf)), hexOrDash(path.EncodedBytes()), "node key")
				// the whole raw key (bucket, owner, node type, path): the model's nodeKeyByPath for both leaf flags — one
				// of the two must be the key found in the database, the other the key the real function builds for it
				ownerF := felt.Felt(s.owner)
				for _, lf := range []bool{false, true} {
					lfs := "0"
					if lf {
						lfs = "1"
					}
					ask.add(fmt.Sprintf("ekey %d %s %s %d %s", byte(s.id.Bucket()), bigHex(&ownerF), lfs, path.Len(), bigHex(&pf)),
						hexOrDash([]byte(s.keyOf(&path, lf))), "raw node key")
				}
				if !bytes.Equal(path.EncodedBytes(), pb) && viol == "" {
					viol = fmt.Sprintf("key path %x decodes to (%d, %s) which encodes to %x", pb, path.Len(), bigHex(&pf), path.EncodedBytes())
				}
				want, node := realDecode(blob, path.Len(), s.height)
				if want == "skip" {
					continue
				}
				ask.add(fmt.Sprintf("dnode %d %d %s", path.Len(), s.height, hexOrDash(blob)), want, "stored blob")
				if node != nil {
					res.Hit("enc:trie2-blob:" + want[:1] + fmt.Sprintf(":bytes=%d", len(blob)))
					again := trienode.EncodeNode(node)
					ask.add(encodeLine(node), hexOrDash(again), "stored blob re-encoded")
					if !bytes.Equal(again, blob) && viol == "" {
						viol = fmt.Sprintf("node at path length %d: stored blob %x, decoded and encoded again %x", path.Len(), blob, again)
					}
				}
				// damaged blobs: the error paths of DecodeNode (every third entry, to bound the volume)
				if rr.Chance(1, 3) {
					var variants [][]byte
					variants = append(variants, blob[:len(blob)-1], append(append([]byte{}, blob...), 0), []byte{})
					if len(blob) > 32 {
						for _, t := range []byte{0, 3, 1, 2} {
							v := append([]byte{}, blob...)
							v[0] = t
							variants = append(variants, v)
						}
						v := append([]byte{}, blob...)
						v[len(v)-1]++ // the length byte of an edge path / the last hash byte of a binary node
						variants = append(variants, v, blob[:33], blob[:34])
					}
					for _, v := range variants {
						for _, pl := range []uint8{path.Len(), s.height, s.height + 1} {
							w, _ := realDecode(v, pl, s.height)
							if w == "skip" {
								continue
							}
							ask.add(fmt.Sprintf("dnode %d %d %s", pl, s.height, hexOrDash(v)), w, "damaged blob")
						}
					}
				}
			}
			return nil
		})
		if err != nil {
			res.Mismatch(lib.Mismatch{Sig: "enc-trie2-run", Input: c, Impl: err.Error()})
			continue
		}
		if viol != "" {
			violateOnce(res, "trie2-persisted-node-does-not-survive-decode-and-encode", func() lib.Violation {
				return lib.Violation{Sig: "trie2-persisted-node-does-not-survive-decode-and-encode", What: viol,
					Replay: map[string]any{"kind": "enc", "family": "trie", "trie": c}}
			})
		}
		// the model's bintail class has no counterpart (the Go code decodes the tail as a nested node)
		ask.flush(res, drv, "trie2-node-bytes", c)
	}
}

// ---- contract records ---------------------------------------------------------------------------------------

func rawContractBucket(disk *memory.Database) (addrs []felt.Felt, vals [][]byte, err error) {
	it, err := disk.NewIterator(db.Contract.Key(), true)
	if err != nil {
		return nil, nil, err
	}
	defer it.Close()
	for ok := it.First(); ok; ok = it.Next() {
		k := it.Key()
		v, err := it.Value()
		if err != nil {
			return nil, nil, err
		}
		if len(k) != 1+felt.Bytes {
			return nil, nil, fmt.Errorf("Contract bucket: key of %d bytes", len(k))
		}
		addrs = append(addrs, felt.FromBytes[felt.Felt](k[1:]))
		vals = append(vals, append([]byte{}, v...))
	}
	return addrs, vals, nil
}

func recLines(ask *encAsk, res *lib.Result, disk *memory.Database, what string) (string, error) {
	addrs, vals, err := rawContractBucket(disk)
	if err != nil {
		return "", err
	}
	viol := ""
	for i := range addrs {
		ct, err := state.GetContract(disk, &addrs[i])
		if err != nil {
			return "", fmt.Errorf("GetContract(%s): %v", addrs[i].String(), err)
		}
		fields := fmt.Sprintf("%s %s %s %x", bigHex(&ct.Nonce), bigHex(&ct.ClassHash), bigHex(&ct.StorageRoot), ct.DeployedHeight)
		res.Hit(fmt.Sprintf("enc:contract-record-bytes=%d", len(vals[i])))
		ask.add("drec "+hexOrDash(vals[i]), "ok "+fields, what)
		ask.add("erec "+fields, hexOrDash(vals[i]), what)
		again, _ := ct.MarshalBinary()
		if !bytes.Equal(again, vals[i]) && viol == "" {
			viol = fmt.Sprintf("record of %s: stored %x, read and marshalled again %x", addrs[i].String(), vals[i], again)
		}
		if len(vals[i]) == 2*felt.Bytes+8 && !ct.StorageRoot.IsZero() && viol == "" {
			viol = fmt.Sprintf("record of %s in the short form reads with storage root %s", addrs[i].String(), ct.StorageRoot.String())
		}
	}
	return viol, nil
}

func checkEncRecords(f lib.Flags, res *lib.Result, drv *lib.Driver, r *lib.RNG) {
	// (a) the records core/state writes, after every block of random histories
	n := f.Scale(40, 800)
	for i := 0; i < n; i++ {
		rr := r.Fork(uint64(i))
		c := genStateCase(rr, rr.Range(1, 4))
		res.Case(fmt.Sprintf("enc-records:%d", i), true)
		var ask encAsk
		var viol string
		err, _, _ := lib.Try(func() error {
			disk := memory.New()
			var prev felt.Felt
			for bn := range c.Blocks {
				root, err := applyNew(disk, &prev, uint64(bn), &c.Blocks[bn])
				if err != nil {
					return nil // (blocks at a formula switch may be rejected: known finding 2)
				}
				prev = root
				v, err := recLines(&ask, res, disk, fmt.Sprintf("record after block %d", bn))
				if err != nil {
					return err
				}
				if viol == "" {
					viol = v
				}
			}
			return nil
		})
		if err != nil {
			res.Mismatch(lib.Mismatch{Sig: "enc-records-run", Input: c, Impl: err.Error()})
			continue
		}
		if viol != "" {
			violateOnce(res, "contract-record-does-not-survive-unmarshal-and-marshal", func() lib.Violation {
				return lib.Violation{Sig: "contract-record-does-not-survive-unmarshal-and-marshal", What: viol,
					Replay: map[string]any{"kind": "enc", "family": "records", "state": c}}
			})
		}
		ask.flush(res, drv, "contract-record-bytes", c)
	}
	// (b) state.WriteContract (the head-state migration's writer) on boundary fields; damaged records
	bf := []string{"0", "1", "ff", "100", felt2p251, feltPm1, "7ffffffffffffffffffffffffffffffffffffffffffffffffffffffffffffff"}
	heights := []uint64{0, 1, 255, 256, 1<<32 - 1, 1 << 32, 1<<63 - 1, 1 << 63, 1<<64 - 1}
	var ask encAsk
	var viol string
	for _, ns := range bf {
		for _, cs := range bf {
			for _, h := range heights {
				res.Case("enc-write-contract:"+ns+":"+cs+fmt.Sprint(h), true)
				disk := memory.New()
				addr, nonce, class := hexFelt("abc"), hexFelt(ns), hexFelt(cs)
				if err := state.WriteContract(disk, &addr, nonce, class, h); err != nil {
					res.Mismatch(lib.Mismatch{Sig: "enc-write-contract-run", Impl: err.Error()})
					continue
				}
				_, vals, err := rawContractBucket(disk)
				if err != nil || len(vals) != 1 {
					res.Mismatch(lib.Mismatch{Sig: "enc-write-contract-run", Impl: fmt.Sprint(err, len(vals))})
					continue
				}
				ask.add(fmt.Sprintf("erec %s %s 0 %x", bigHex(&nonce), bigHex(&class), h), hexOrDash(vals[0]), "state.WriteContract")
				v, err := recLines(&ask, res, disk, "state.WriteContract")
				if err == nil && viol == "" {
					viol = v
				}
				// damaged records: every other length is an error of UnmarshalBinary
				for _, dv := range [][]byte{vals[0][:len(vals[0])-1], append(append([]byte{}, vals[0]...), 0), {}, vals[0][:32],
					append(append([]byte{}, vals[0]...), make([]byte, 31)...), append(append([]byte{}, vals[0]...), make([]byte, 32)...)} {
					d2 := memory.New()
					_ = d2.Put(db.ContractKey(&addr), dv)
					ct, err := state.GetContract(d2, &addr)
					want := "err"
					if err == nil {
						want = fmt.Sprintf("ok %s %s %s %x", bigHex(&ct.Nonce), bigHex(&ct.ClassHash), bigHex(&ct.StorageRoot), ct.DeployedHeight)
					}
					ask.add("drec "+hexOrDash(dv), want, "damaged record")
				}
			}
		}
	}
	if viol != "" {
		violateOnce(res, "contract-record-does-not-survive-unmarshal-and-marshal", func() lib.Violation {
			return lib.Violation{Sig: "contract-record-does-not-survive-unmarshal-and-marshal", What: viol, Replay: map[string]any{"kind": "enc", "family": "write-contract"}}
		})
	}
	ask.flush(res, drv, "contract-record-bytes", "state.WriteContract on boundary fields")
}

// ---- legacy trie: the whole storage after every Hash() -----------------------------------------------------

// legacyStoreDump: the txn's content under the trie's prefix in the form of the driver's `ldump`
func legacyStoreDump(txn db.IndexedBatch, prefix []byte, ask *encAsk, res *lib.Result) ([]string, string, error) {
	it, err := txn.NewIterator(prefix, true)
	if err != nil {
		return nil, "", err
	}
	defer it.Close()
	type ent struct {
		l int
		p *big.Int
		s string
	}
	root := "R:-"
	var es []ent
	viol := ""
	pstr := func(b *trie.BitArray) string {
		bf := b.Felt()
		return fmt.Sprintf("%d.%s", b.Len(), bigHex(&bf))
	}
	for ok := it.First(); ok; ok = it.Next() {
		k := append([]byte{}, it.Key()...)
		v, err := it.Value()
		if err != nil {
			return nil, "", err
		}
		v = append([]byte{}, v...)
		if len(k) == len(prefix) {
			var rk trie.BitArray
			if err := rk.UnmarshalBinary(v); err != nil {
				return nil, "", fmt.Errorf("root key %x: %v", v, err)
			}
			rf := rk.Felt()
			root = fmt.Sprintf("R:%d:%s", rk.Len(), bigHex(&rf))
			ask.add("dpathl "+hexOrDash(v), fmt.Sprintf("ok %d %s %d", rk.Len(), bigHex(&rf), rk.EncodedLen()), "root key")
			ask.add(fmt.Sprintf("epathl %d %s", rk.Len(), bigHex(&rf)), hexOrDash(v), "root key")
			continue
		}
		var key trie.BitArray
		if err := key.UnmarshalBinary(k[len(prefix):]); err != nil {
			return nil, "", fmt.Errorf("node key %x: %v", k, err)
		}
		kf := key.Felt()
		ask.add(fmt.Sprintf("epathl %d %s", key.Len(), bigHex(&kf)), hexOrDash(k[len(prefix):]), "node key")
		var node trie.Node
		if err := node.UnmarshalBinary(v); err != nil {
			return nil, "", fmt.Errorf("node %x: %v", v, err)
		}
		kids, links := "-", "-:-"
		if node.Left != nil {
			lf, rf := node.Left.Felt(), node.Right.Felt()
			kids = fmt.Sprintf("%d:%s:%d:%s", node.Left.Len(), bigHex(&lf), node.Right.Len(), bigHex(&rf))
			// (a nil child of the Go node is written as the empty key; the trie code never links to it)
			links = pstr(node.Left) + ":" + pstr(node.Right)
		}
		hashes := "-"
		if len(v) > 32 && node.Left != nil && len(v) == 32+int(node.Left.EncodedLen())+int(node.Right.EncodedLen())+64 {
			hashes = bigHex(node.LeftHash) + ":" + bigHex(node.RightHash)
		}
		res.Hit(fmt.Sprintf("enc:legacy-node-bytes=%d", len(v)))
		ask.add("dlnode "+hexOrDash(v), fmt.Sprintf("ok %s %s %s", bigHex(node.Value), kids, hashes), "legacy node")
		ask.add(fmt.Sprintf("elnode %s %s %s", bigHex(node.Value), kids, hashes), hexOrDash(v), "legacy node")
		var buf bytes.Buffer
		if hashes == "-" {
			node.LeftHash, node.RightHash = nil, nil
		}
		if _, err := node.WriteTo(&buf); err == nil && !bytes.Equal(buf.Bytes(), v) && viol == "" {
			viol = fmt.Sprintf("node under key (%d, %s): stored %x, read and written again %x", key.Len(), bigHex(&kf), v, buf.Bytes())
		}
		es = append(es, ent{int(key.Len()), kf.BigInt(new(big.Int)), fmt.Sprintf("N:%d:%s:%s:%s", key.Len(), bigHex(&kf), bigHex(node.Value), links)})
	}
	sort.Slice(es, func(i, j int) bool {
		if es[i].l != es[j].l {
			return es[i].l < es[j].l
		}
		return es[i].p.Cmp(es[j].p) < 0
	})
	out := []string{root}
	for _, e := range es {
		out = append(out, e.s)
	}
	return out, viol, nil
}

func checkEncLegacy(f lib.Flags, res *lib.Result, drv *lib.Driver, r *lib.RNG) {
	n := f.Scale(150, 3000)
	for i := 0; i < n; i++ {
		rr := r.Fork(uint64(i))
		h := lib.Pick(rr, []int{251, 251, 64, 8, 3, 2})
		c := genRandomCase(rr, h, rr.Range(1, 8), rr.Range(1, 24), true)
		res.Case(fmt.Sprintf("enc-legacy:%d", i), len(c.Ops) >= 2)
		var ask encAsk
		var dumps [][]string
		var viol string
		err, _, _ := lib.Try(func() error {
			disk := memory.New()
			txn := disk.NewIndexedBatch()
			prefix := []byte{0x7}
			open := func() (*trie.Trie, error) {
				if c.Hash == "pos" {
					return trie.NewTriePoseidon(txn, prefix, uint8(c.Height))
				}
				return trie.NewTriePedersen(txn, prefix, uint8(c.Height))
			}
			t, err := open()
			if err != nil {
				return err
			}
			obs := func() error {
				if _, err := t.Hash(); err != nil {
					return err
				}
				d, v, err := legacyStoreDump(txn, prefix, &ask, res)
				if err != nil {
					return err
				}
				if viol == "" {
					viol = v
				}
				dumps = append(dumps, d)
				return nil
			}
			for _, op := range c.Ops {
				switch op.Op {
				case "put":
					k, v := hexFelt(op.K), hexFelt(op.V)
					if _, err := t.Put(&k, &v); err != nil {
						return err
					}
				case "hash":
					if err := obs(); err != nil {
						return err
					}
				case "commit":
					if err := obs(); err != nil {
						return err
					}
					if t, err = open(); err != nil {
						return err
					}
				}
			}
			return obs()
		})
		if err != nil {
			res.Mismatch(lib.Mismatch{Sig: "enc-legacy-run", Input: c, Impl: err.Error()})
			continue
		}
		if viol != "" {
			violateOnce(res, "legacy-trie-persisted-node-does-not-survive-read-and-write", func() lib.Violation {
				return lib.Violation{Sig: "legacy-trie-persisted-node-does-not-survive-read-and-write", What: viol,
					Replay: map[string]any{"kind": "enc", "family": "trie", "trie": c}}
			})
		}
		if !ask.flush(res, drv, "legacy-node-bytes", c) || drv == nil {
			continue
		}
		// the storage of the model after every Hash()
		lines, obsIdx := legacyModelLines(c, 0)
		var script []string
		var dumpAt []int
		next := 0
		for li, l := range lines {
			script = append(script, l)
			if next < len(obsIdx) && obsIdx[next] == li {
				dumpAt = append(dumpAt, len(script))
				script = append(script, "ldump 0")
				next++
			}
		}
		ans, err2 := drv.AskAll(script)
		if err2 != nil || len(ans) != len(script) {
			res.Fatalf("byte-level family: driver failed on a legacy script (%v)", err2)
			continue
		}
		for j, at := range dumpAt {
			if j >= len(dumps) {
				break
			}
			res.Compared(1)
			model := strings.Fields(ans[at])
			if d := compareSet(model, dumps[j]); d != "" {
				res.Mismatch(lib.Mismatch{Sig: "legacy-trie-storage-after-hash", Input: c, Model: fmt.Sprintf("after Hash() %d: %s", j, d)})
				break
			}
			res.HitN("store-diff:legacy-storage-entries-compared", len(model))
		}
	}
}

func checkEncodings(f lib.Flags, res *lib.Result, drv *lib.Driver, r *lib.RNG) {
	checkEncTrie2(f, res, drv, r.Fork(1))
	checkEncRecords(f, res, drv, r.Fork(2))
	checkEncLegacy(f, res, drv, r.Fork(3))
}
