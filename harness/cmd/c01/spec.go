//go:build verif

package main

import (
	"math/big"
	"sort"

	"github.com/NethermindEth/juno/core/crypto"
	"github.com/NethermindEth/juno/core/felt"
)

// Independent recomputation of the Starknet commitment from a key/value map: the
// (length, path, bottom) definition of the protocol documentation, by recursion on the height.
// Nothing of juno's trie code is used here, only the hash primitive.
type snode struct {
	plen   int
	path   *big.Int
	bottom felt.Felt
}

func (s snode) empty() bool { return s.plen == 0 && s.bottom.IsZero() }

func (s snode) hash(hf crypto.HashFn) felt.Felt {
	if s.plen == 0 {
		return s.bottom
	}
	var pf, lf, r felt.Felt
	pf.SetBigInt(s.path)
	h := hf(&s.bottom, &pf)
	lf.SetUint64(uint64(s.plen))
	r.Add(&h, &lf)
	return r
}

type kv struct {
	k *big.Int
	v felt.Felt
}

func specBuild(kvs []kv, depth, height int, hf crypto.HashFn) snode {
	if len(kvs) == 0 {
		return snode{path: new(big.Int)}
	}
	if depth == height {
		return snode{path: new(big.Int), bottom: kvs[0].v}
	}
	bit := height - 1 - depth
	mid := sort.Search(len(kvs), func(i int) bool { return kvs[i].k.Bit(bit) == 1 })
	l := specBuild(kvs[:mid], depth+1, height, hf)
	r := specBuild(kvs[mid:], depth+1, height, hf)
	switch {
	case l.empty() && r.empty():
		return snode{path: new(big.Int)}
	case l.empty():
		p := new(big.Int).Set(r.path)
		p.SetBit(p, r.plen, 1)
		return snode{plen: r.plen + 1, path: p, bottom: r.bottom}
	case r.empty():
		return snode{plen: l.plen + 1, path: new(big.Int).Set(l.path), bottom: l.bottom}
	}
	lh, rh := l.hash(hf), r.hash(hf)
	return snode{path: new(big.Int), bottom: hf(&lh, &rh)}
}

// specRoot computes the commitment of the map m (hex key -> value; zero values are absent).
func specRoot(m map[string]felt.Felt, height int, hf crypto.HashFn) felt.Felt {
	kvs := make([]kv, 0, len(m))
	for k, v := range m {
		if v.IsZero() {
			continue
		}
		n, _ := new(big.Int).SetString(k, 16)
		kvs = append(kvs, kv{n, v})
	}
	sort.Slice(kvs, func(i, j int) bool { return kvs[i].k.Cmp(kvs[j].k) < 0 })
	return specBuild(kvs, 0, height, hf).hash(hf)
}
