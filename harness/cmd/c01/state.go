//go:build verif

package main

import (
	"encoding/json"
	"fmt"
	"math/big"
	"sort"
	"strconv"
	"strings"
	"time"

	"github.com/NethermindEth/juno/blockchain"
	"github.com/NethermindEth/juno/blockchain/networks"
	"github.com/NethermindEth/juno/core"
	"github.com/NethermindEth/juno/core/crypto"
	"github.com/NethermindEth/juno/core/deprecatedstate"
	"github.com/NethermindEth/juno/core/felt"
	"github.com/NethermindEth/juno/core/state"
	"github.com/NethermindEth/juno/core/trie2/triedb"
	"github.com/NethermindEth/juno/db"
	"github.com/NethermindEth/juno/db/memory"
	_ "github.com/NethermindEth/juno/encoder/registry"
	"verif/harness/lib"
)

// SBlock is one accepted state update (all felts as hex strings so that a case is its own replay).
type SBlock struct {
	Version  string                       `json:"version"`
	Deployed map[string]string            `json:"deployed,omitempty"`  // addr -> class hash
	Replaced map[string]string            `json:"replaced,omitempty"`  // addr -> class hash
	Nonces   map[string]string            `json:"nonces,omitempty"`    // addr -> nonce
	Storage  map[string]map[string]string `json:"storage,omitempty"`   // addr -> key -> value
	Declared map[string]string            `json:"declared,omitempty"`  // sierra class hash -> compiled class hash
	Migrated map[string]string            `json:"migrated,omitempty"`  // sierra class hash -> new compiled class hash
	// entries of the diff that do NOT change the abstract state: Cairo-0 declarations (no class-trie leaf) and
	// DeclaredV1Classes entries for which the caller supplies no definition (a class the node already has: both
	// backends skip the class-trie write)
	DeclaredV0 []string          `json:"declared_v0,omitempty"`
	NoDef      map[string]string `json:"declared_without_definition,omitempty"`
	// Sierra definitions handed to Update for class hashes the diff does NOT declare (what sync does for the class
	// of a deployed contract the state does not know): the definition is registered, no class-trie leaf is written;
	// a LATER block may declare the class — then the leaf must be written although the definition is already known
	ExtraDefs []string `json:"definitions_without_declaration,omitempty"`
	// updates applied on the SAME parent state before this block and then dropped (never part of the chain)
	Before []Discarded `json:"before,omitempty"`
}

// Discarded is a state update that is executed by the real code on a batch that is never written:
// Mode "close" = State.Update on a fresh batch that is Closed without Write, "simulate" =
// Blockchain.Simulate, "badroot" = an Update whose NewRoot check fails (skipVerifyNewRoot=false),
// "badold" = an Update whose OldRoot is not the root of the state (must be rejected).
// Reopen = build new StateDB / trie database objects afterwards.
type Discarded struct {
	Diff   SBlock `json:"diff"`
	Mode   string `json:"mode"`
	Reopen bool   `json:"reopen,omitempty"`
}

type StateCase struct {
	Blocks []SBlock `json:"blocks"`
	// Restarts: every long-lived object of the node is thrown away and rebuilt on the same database before
	// every block (StateDB + trie database at the state level, the Blockchain object on the chain paths): a
	// process restart between two updates
	Restarts bool `json:"restarts,omitempty"`
}

// ---- abstract state: the definition the property talks about ----------------------------------

type absContract struct {
	class, nonce felt.Felt
	storage      map[string]felt.Felt
}

type absState struct {
	contracts map[string]*absContract
	classes   map[string]felt.Felt // class hash -> compiled class hash
}

func newAbs() *absState {
	return &absState{contracts: map[string]*absContract{}, classes: map[string]felt.Felt{}}
}

func isSystem(addr string) bool { return addr == "1" || addr == "2" }

func (a *absState) apply(b *SBlock) {
	for addr, ch := range b.Deployed {
		a.contracts[addr] = &absContract{class: hexFelt(ch), storage: map[string]felt.Felt{}}
	}
	// (replace / nonce on an address that does not exist: an invalid diff — shrinking can produce
	// one; it is then no longer a candidate, see validState)
	for addr, ch := range b.Replaced {
		if c, ok := a.contracts[addr]; ok {
			c.class = hexFelt(ch)
		}
	}
	for addr, n := range b.Nonces {
		if c, ok := a.contracts[addr]; ok {
			c.nonce = hexFelt(n)
		}
	}
	for addr, st := range b.Storage {
		c, ok := a.contracts[addr]
		if !ok { // only system contracts may appear undeployed
			c = &absContract{storage: map[string]felt.Felt{}}
			a.contracts[addr] = c
		}
		for k, v := range st {
			f := hexFelt(v)
			if f.IsZero() {
				delete(c.storage, k)
			} else {
				c.storage[k] = f
			}
		}
	}
	for ch, casm := range b.Declared {
		a.classes[ch] = hexFelt(casm)
	}
	for ch, casm := range b.Migrated {
		a.classes[ch] = hexFelt(casm)
	}
}

var (
	stateVersion0 = felt.NewFromBytes[felt.Felt]([]byte(`STARKNET_STATE_V0`))
	leafVersion0  = felt.NewFromBytes[felt.Felt]([]byte(`CONTRACT_CLASS_LEAF_V0`))
)

// commitment is the Starknet state commitment of the abstract state, recomputed independently:
// contract leaf H(H(H(class, storageRoot), nonce), 0), except that a contract state that is
// entirely empty (class 0, nonce 0, storage root 0) has leaf 0 (Starknet OS, get_contract_state_hash);
// keepEmptySystem=true computes the variant in which such a contract keeps its non-zero leaf
// (used only to classify a disagreement).
type hashSet struct {
	ped, pos crypto.HashFn
	elems    func(...*felt.Felt) felt.Felt
}

var (
	indHS  = hashSet{indPedersen, indPoseidon, indPoseidonElems}
	junoHS = hashSet{crypto.Pedersen, crypto.Poseidon, crypto.PoseidonElems}
)

func (a *absState) commitment(version string, keepEmptySystem bool) (root, contractRoot, classRoot felt.Felt) {
	return a.commitmentWith(indHS, version, keepEmptySystem)
}

func (a *absState) commitmentWith(hs hashSet, version string, keepEmptySystem bool) (root, contractRoot, classRoot felt.Felt) {
	leaves := map[string]felt.Felt{}
	for addr, c := range a.contracts {
		sr := specRoot(c.storage, 251, hs.ped)
		if c.class.IsZero() && c.nonce.IsZero() && sr.IsZero() && !keepEmptySystem {
			continue
		}
		h1 := hs.ped(&c.class, &sr)
		h2 := hs.ped(&h1, &c.nonce)
		leaves[addr] = hs.ped(&h2, &felt.Zero)
	}
	contractRoot = specRoot(leaves, 251, hs.ped)
	cl := map[string]felt.Felt{}
	for ch, casm := range a.classes {
		cl[ch] = hs.pos(leafVersion0, &casm)
	}
	classRoot = specRoot(cl, 251, hs.pos)
	if contractRoot.IsZero() && classRoot.IsZero() {
		return felt.Zero, contractRoot, classRoot
	}
	if classRoot.IsZero() && pre014(version) {
		return contractRoot, contractRoot, classRoot
	}
	return hs.elems(stateVersion0, &contractRoot, &classRoot), contractRoot, classRoot
}

// pre014 decides "protocol version < 0.14.0" independently of juno's version code.
func pre014(version string) bool {
	var v [3]int
	for i, part := range strings.SplitN(version, ".", 4) {
		if i >= 3 {
			break
		}
		n, err := strconv.Atoi(part)
		if err != nil {
			break
		}
		v[i] = n
	}
	return v[0] == 0 && v[1] < 14
}

// model script: one snew + one sblock line per block; storage writes in descending key order
// (the order core/state applies them), everything else in sorted order.
func stateModelLines(c *StateCase, id int, purge bool) (lines []string, blockIdx, discIdx []int) {
	lines, blockIdx, discIdx, _ = stateModelLinesOld(c, id, purge, false)
	return lines, blockIdx, discIdx
}

// ... with one `sold` line before every block n > 0: the old-root check of Update given the root stored for
// block n-1 (oldIdx[n-1] = its line); oldFixed selects the model variant with the proposed repair.
func stateModelLinesOld(c *StateCase, id int, purge, oldFixed bool) (lines []string, blockIdx, discIdx, oldIdx []int) {
	b2i := func(b bool) int {
		if b {
			return 1
		}
		return 0
	}
	lines = []string{fmt.Sprintf("snew %d %d", id, b2i(purge))}
	for n := range c.Blocks {
		b := &c.Blocks[n]
		for di := range b.Before {
			discIdx = append(discIdx, len(lines))
			lines = append(lines, diffLine("sdiscard", id, &b.Before[di].Diff))
		}
		if n > 0 {
			oldIdx = append(oldIdx, len(lines))
			lines = append(lines, fmt.Sprintf("sold %d %d %d %d", id, b2i(oldFixed), b2i(pre014(c.Blocks[n-1].Version)), b2i(pre014(b.Version))))
		}
		blockIdx = append(blockIdx, len(lines))
		lines = append(lines, diffLine("sblock", id, b))
	}
	return lines, blockIdx, discIdx, oldIdx
}

// oldRootFixed probes whether a backend of the tree under test accepts the stored old root at the
// commitment-formula switch (selects the Lean model variant of the old-root check).
func oldRootFixed(newState bool) bool {
	c := &StateCase{Blocks: []SBlock{
		{Version: "0.13.2", Deployed: map[string]string{"abc": "c1a55"}},
		{Version: "0.14.0", Nonces: map[string]string{"abc": "1"}},
	}}
	t := runOldState(c)
	if newState {
		t = runNewState(c)
	}
	return t.Err == "" && len(t.OldRej) == 0
}

var oldFixedVariant [2]bool // [new backend, deprecated backend]

func diffLine(op string, id int, b *SBlock) string {
	return strings.TrimSpace(fmt.Sprintf("%s %d %s", op, id, diffItems(b)))
}

// diffItems: the version of the block as a STRING (`v=<version>`: the Lean model parses it itself,
// Version.pre014?) followed by the items of the diff in application order.
func diffItems(b *SBlock) string {
	var items []string
	add := func(tag string, m map[string]string) {
		ks := make([]string, 0, len(m))
		for k := range m {
			ks = append(ks, k)
		}
		sort.Strings(ks)
		for _, k := range ks {
			items = append(items, tag+":"+k+":"+m[k])
		}
	}
	add("D", b.Declared)
	add("M", b.Migrated)
	add("P", b.Deployed)
	add("R", b.Replaced)
	add("N", b.Nonces)
	addrs := make([]string, 0, len(b.Storage))
	for a := range b.Storage {
		addrs = append(addrs, a)
	}
	sort.Strings(addrs)
	for _, a := range addrs {
		ks := make([]*big.Int, 0, len(b.Storage[a]))
		for k := range b.Storage[a] {
			n, _ := new(big.Int).SetString(k, 16)
			ks = append(ks, n)
		}
		sort.Slice(ks, func(i, j int) bool { return ks[i].Cmp(ks[j]) > 0 })
		var kvs []string
		for _, k := range ks {
			kvs = append(kvs, k.Text(16)+"="+b.Storage[a][k.Text(16)])
		}
		items = append(items, "S:"+a+":"+strings.Join(kvs, ","))
	}
	return strings.TrimSpace("v=" + b.Version + " " + strings.Join(items, " "))
}

// model script for the state model on tries that are reopened from the node database for every block
// (ModelStateL.lean): what core/state really does (state.New per block)
func stateLModelLines(c *StateCase, id int) (lines []string, blockIdx []int) {
	lines = []string{fmt.Sprintf("tnew %d 1", id)}
	for n := range c.Blocks {
		blockIdx = append(blockIdx, len(lines))
		lines = append(lines, fmt.Sprintf("tblock %d 1 %s", id, diffItems(&c.Blocks[n])))
	}
	return lines, blockIdx
}

// model script for the chain model (ModelChain.lean), Finalise path
func chainFinModelLines(c *StateCase, id int, fixed, purge bool) (lines []string, blockIdx []int) {
	b2i := func(b bool) int {
		if b {
			return 1
		}
		return 0
	}
	lines = []string{fmt.Sprintf("cnew %d %d %d", id, b2i(fixed), b2i(purge))}
	for n := range c.Blocks {
		blockIdx = append(blockIdx, len(lines))
		lines = append(lines, fmt.Sprintf("cfin %d %s", id, diffItems(&c.Blocks[n])))
	}
	return lines, blockIdx
}

// ... Store path, following the real run: every block first with a wrong new root (must be rejected),
// then with the stored previous root as old root; a block the node rejected like that is sent again with the
// old root recomputed under the block's own version (`cur`). idx[n] = line of the `prev bad` request.
func chainStoreModelLines(c *StateCase, id int, fixed, purge bool, t *trace) (lines []string, blockIdx []int) {
	b2i := func(b bool) int {
		if b {
			return 1
		}
		return 0
	}
	rej := map[int]bool{}
	for _, n := range t.OldRej {
		rej[n] = true
	}
	lines = []string{fmt.Sprintf("cnew %d %d %d", id, b2i(fixed), b2i(purge))}
	for n := 0; n < t.StoreBlocks && n < len(c.Blocks); n++ {
		blockIdx = append(blockIdx, len(lines))
		it := diffItems(&c.Blocks[n])
		ver, rest, _ := strings.Cut(it, " ")
		lines = append(lines, strings.TrimSpace(fmt.Sprintf("cstore %d %s prev bad %s", id, ver, rest)))
		lines = append(lines, strings.TrimSpace(fmt.Sprintf("cstore %d %s prev ok %s", id, ver, rest)))
		if rej[n] {
			lines = append(lines, strings.TrimSpace(fmt.Sprintf("cstore %d %s cur ok %s", id, ver, rest)))
		}
	}
	return lines, blockIdx
}

// finaliseKeepsOldRoot probes which updateStateRoots the tree under test has: the repaired one keeps the
// caller's OldRoot (selects the variant of the chain model).
func finaliseKeepsOldRoot(newState bool) bool {
	c := &StateCase{Blocks: []SBlock{
		{Version: "0.13.2", Deployed: map[string]string{"abc": "c1a55"}},
		{Version: "0.14.0", Nonces: map[string]string{"abc": "1"}},
	}}
	t := runChain(c, newState)
	return t.Err == "" && len(t.OldStored) == 0
}

var finaliseFixedVariant [2]bool // [new backend, deprecated backend]

// legacyPurges probes which treatment of an emptied system contract the deprecated backend of
// the tree under test has (the Lean model follows the code: `purge` flag).
func legacyPurges() bool {
	t := runOldState(&StateCase{Blocks: []SBlock{{Version: "0.13.2", Storage: map[string]map[string]string{"1": {"7": "0"}}}}})
	return t.Err == "" && len(t.Roots) == 1 && t.Roots[0] == "0"
}

// ---- running the real states --------------------------------------------------------------------

func fmap(m map[string]string) map[felt.Felt]*felt.Felt {
	out := make(map[felt.Felt]*felt.Felt, len(m))
	for k, v := range m {
		f := hexFelt(v)
		out[hexFelt(k)] = &f
	}
	return out
}

func dummyClass(i uint64) core.ClassDefinition {
	one := felt.FromUint64[felt.Felt](1 + i)
	return &core.SierraClass{
		Abi: "[]", AbiHash: &one, ProgramHash: &one, SemanticVersion: "0.1.0",
		Program: []felt.Felt{one},
		Compiled: &core.CasmClass{Bytecode: []felt.Felt{one}, CompilerVersion: "2.1.0", Prime: big.NewInt(1),
			External: []core.CasmEntryPoint{}, L1Handler: []core.CasmEntryPoint{}, Constructor: []core.CasmEntryPoint{}},
	}
}

func toUpdate(b *SBlock, oldRoot *felt.Felt) (*core.StateUpdate, map[felt.Felt]core.ClassDefinition) {
	d := &core.StateDiff{
		StorageDiffs:      map[felt.Felt]map[felt.Felt]*felt.Felt{},
		Nonces:            fmap(b.Nonces),
		DeployedContracts: fmap(b.Deployed),
		DeclaredV1Classes: fmap(b.Declared),
		ReplacedClasses:   fmap(b.Replaced),
		MigratedClasses:   map[felt.SierraClassHash]felt.CasmClassHash{},
	}
	for addr, st := range b.Storage {
		d.StorageDiffs[hexFelt(addr)] = fmap(st)
	}
	for ch, casm := range b.Migrated {
		d.MigratedClasses[felt.SierraClassHash(hexFelt(ch))] = felt.CasmClassHash(hexFelt(casm))
	}
	classes := map[felt.Felt]core.ClassDefinition{}
	var i uint64
	for ch := range b.Declared {
		classes[hexFelt(ch)] = dummyClass(i)
		i++
	}
	for ch, casm := range b.NoDef {
		f := hexFelt(casm)
		d.DeclaredV1Classes[hexFelt(ch)] = &f
	}
	for _, ch := range b.ExtraDefs {
		if _, declared := b.Declared[ch]; !declared {
			classes[hexFelt(ch)] = dummyClass(i)
			i++
		}
	}
	for _, ch := range b.DeclaredV0 {
		f := hexFelt(ch)
		d.DeclaredV0Classes = append(d.DeclaredV0Classes, &f)
		classes[f] = &core.DeprecatedCairoClass{Abi: json.RawMessage("[]"), Program: "AA=="}
	}
	return &core.StateUpdate{OldRoot: oldRoot, StateDiff: d}, classes
}

// runNewState applies the blocks through core/state the way blockchain/statebackend does
// (a fresh State per block, opened at the previous root, inside one database write), and
// returns the root after every block as computed (a) by the updating object and (b) by a state
// re-opened from the database afterwards.
func runNewState(c *StateCase) (tr trace) {
	err, panicked, _ := lib.Try(func() error {
		disk := memory.New()
		sdb := state.NewStateDB(disk, triedb.New(disk, nil))
		prev := felt.Zero
		lastVer := ""
		for n := range c.Blocks {
			b := &c.Blocks[n]
			hdr := &core.Header{Number: uint64(n), ProtocolVersion: b.Version}
			if c.Restarts {
				sdb = state.NewStateDB(disk, triedb.New(disk, nil))
			}
			for di := range b.Before {
				d := &b.Before[di]
				before := dumpDB(disk)
				root, derr := discardNew(disk, sdb, &prev, uint64(n), d)
				tr.DRoots = append(tr.DRoots, root)
				if tr.Leak == "" {
					if diff := diffDump(before, dumpDB(disk)); diff != "" {
						tr.Leak = fmt.Sprintf("block %d, discarded update %d (%s): %s", n, di, d.Mode, diff)
					} else if derr != nil {
						tr.Leak = fmt.Sprintf("block %d, discarded update %d (%s) failed: %v", n, di, d.Mode, derr)
					}
				}
				if d.Reopen {
					sdb = state.NewStateDB(disk, triedb.New(disk, nil))
				}
				rd, err := state.NewStateReader(&prev, sdb)
				if err != nil {
					return err
				}
				if now, err := rd.Commitment(lastVer); err != nil || !now.Equal(&prev) {
					if tr.Leak == "" {
						tr.Leak = fmt.Sprintf("block %d, after discarded update %d (%s) the state reads root %s (err %v), accepted root is %s", n, di, d.Mode, now.String(), err, prev.String())
					}
				}
			}
			var newRoot felt.Felt
			apply := func(old *felt.Felt) error {
				return disk.Write(func(batch db.Batch) error {
					st, err := state.New(&prev, sdb, batch)
					if err != nil {
						return err
					}
					su, classes := toUpdate(b, old)
					if err := st.Update(hdr, su, classes, true); err != nil {
						return err
					}
					newRoot, err = st.Commitment(b.Version)
					return err
				})
			}
			// OldRoot = the root STORED for the previous block (what the feeder gateway sends and what
			// Blockchain.Store passes on), not a root recomputed under this block's version
			stored := prev
			err := apply(&stored)
			if err != nil {
				// (no matching on error texts: a rejection of the stored old root is an update that fails with
				// the stored root and succeeds with the root recomputed under the new version, if that differs)
				rd, e := state.NewStateReader(&prev, sdb)
				if e != nil {
					return e
				}
				if old, e := rd.Commitment(b.Version); e == nil && !old.Equal(&prev) {
					if e2 := apply(&old); e2 == nil {
						tr.OldRej = append(tr.OldRej, n)
						tr.OldRejErr = err.Error()
						err = nil
					}
				}
			}
			if err != nil {
				return fmt.Errorf("block %d: %w", n, err)
			}
			// restart: a new reader on the stored data must see the same commitment
			rd, err := state.NewStateReader(&newRoot, sdb)
			if err != nil {
				return err
			}
			again, err := rd.Commitment(b.Version)
			if err != nil {
				return fmt.Errorf("block %d reopen: %w", n, err)
			}
			if !again.Equal(&newRoot) {
				return fmt.Errorf("block %d: root after reopen %s differs from root computed by Update %s", n, again.String(), newRoot.String())
			}
			tr.Roots = append(tr.Roots, feltHex(&newRoot))
			if recs, rerr := contractBucket(disk); rerr != nil {
				return fmt.Errorf("block %d: %w", n, rerr)
			} else {
				tr.Fields = append(tr.Fields, recs)
			}
			prev = newRoot
			lastVer = b.Version
		}
		return nil
	})
	if err != nil {
		tr.Err = err.Error()
		if panicked {
			tr.Err = "panic: " + tr.Err
		}
	}
	return tr
}

// model script for the state model with cached storage roots and a separate storage-trie store (ModelMigrate.lean),
// natively built: one mblock per block
func recordModelLines(c *StateCase, id int) (lines []string, blockIdx []int) {
	lines = []string{fmt.Sprintf("mnew %d 1", id)}
	for n := range c.Blocks {
		blockIdx = append(blockIdx, len(lines))
		lines = append(lines, diffLine("mblock", id, &c.Blocks[n]))
	}
	return lines, blockIdx
}

func runOldState(c *StateCase) (tr trace) {
	err, panicked, _ := lib.Try(func() error {
		disk := memory.New()
		prev := felt.Zero
		lastVer := ""
		for n := range c.Blocks {
			b := &c.Blocks[n]
			hdr := &core.Header{Number: uint64(n), ProtocolVersion: b.Version}
			for di := range b.Before {
				d := &b.Before[di]
				before := dumpDB(disk)
				root, derr := discardOld(disk, &prev, uint64(n), d)
				tr.DRoots = append(tr.DRoots, root)
				if tr.Leak == "" {
					if diff := diffDump(before, dumpDB(disk)); diff != "" {
						tr.Leak = fmt.Sprintf("block %d, discarded update %d (%s): %s", n, di, d.Mode, diff)
					} else if derr != nil {
						tr.Leak = fmt.Sprintf("block %d, discarded update %d (%s) failed: %v", n, di, d.Mode, derr)
					}
				}
				txn := disk.NewIndexedBatch()
				now, err := deprecatedstate.New(txn).Commitment(lastVer)
				_ = txn.Close()
				if (err != nil || !now.Equal(&prev)) && tr.Leak == "" {
					tr.Leak = fmt.Sprintf("block %d, after discarded update %d (%s) the state reads root %s (err %v), accepted root is %s", n, di, d.Mode, now.String(), err, prev.String())
				}
			}
			var newRoot felt.Felt
			apply := func(old *felt.Felt) error {
				return disk.Update(func(txn db.IndexedBatch) error {
					st := deprecatedstate.New(txn)
					su, classes := toUpdate(b, old)
					if err := st.Update(hdr, su, classes, true); err != nil {
						return err
					}
					var err error
					newRoot, err = st.Commitment(b.Version)
					return err
				})
			}
			stored := prev
			err := apply(&stored)
			if err != nil {
				txn := disk.NewIndexedBatch()
				old, e := deprecatedstate.New(txn).Commitment(b.Version)
				_ = txn.Close()
				if e == nil && !old.Equal(&prev) {
					if e2 := apply(&old); e2 == nil {
						tr.OldRej = append(tr.OldRej, n)
						tr.OldRejErr = err.Error()
						err = nil
					}
				}
			}
			if err != nil {
				return fmt.Errorf("block %d: %w", n, err)
			}
			var again felt.Felt
			err = disk.Update(func(txn db.IndexedBatch) error {
				var e error
				again, e = deprecatedstate.New(txn).Commitment(b.Version)
				return e
			})
			if err != nil {
				return fmt.Errorf("block %d reopen: %w", n, err)
			}
			if !again.Equal(&newRoot) {
				return fmt.Errorf("block %d: root after reopen %s differs from root computed by Update %s", n, again.String(), newRoot.String())
			}
			tr.Roots = append(tr.Roots, feltHex(&newRoot))
			tr.Fields = append(tr.Fields, legacyFields(disk))
			prev = newRoot
			lastVer = b.Version
		}
		return nil
	})
	if err != nil {
		tr.Err = err.Error()
		if panicked {
			tr.Err = "panic: " + tr.Err
		}
	}
	return tr
}

// legacyFields: the per-field contract buckets of core/deprecatedstate, `addr:class:nonce` ("-" = no nonce entry)
func legacyFields(disk *memory.Database) []string {
	it, err := disk.NewIterator(db.ContractClassHash.Key(), true)
	if err != nil {
		return []string{"error: " + err.Error()}
	}
	defer it.Close()
	type ent struct {
		addr felt.Felt
		s    string
	}
	var es []ent
	for ok := it.First(); ok; ok = it.Next() {
		k := it.Key()
		v, _ := it.Value()
		if len(k) != 1+felt.Bytes {
			continue
		}
		addr := felt.FromBytes[felt.Felt](k[1:])
		cls := felt.FromBytes[felt.Felt](v)
		nonce := "-"
		_ = disk.Get(db.ContractNonceKey(&addr), func(nv []byte) error {
			n := felt.FromBytes[felt.Felt](nv)
			nonce = feltHex(&n)
			return nil
		})
		es = append(es, ent{addr, feltHex(&addr) + ":" + feltHex(&cls) + ":" + nonce})
	}
	sort.Slice(es, func(i, j int) bool { return es[i].addr.Cmp(&es[j].addr) < 0 })
	out := make([]string, len(es))
	for i := range es {
		out[i] = es[i].s
	}
	return out
}

// model script for the TRANSCRIBED legacy state (ModelLegacyState.lean)
func legacyStateModelLines(c *StateCase, id int, purge bool) (lines []string, blockIdx []int) {
	p := 0
	if purge {
		p = 1
	}
	lines = []string{fmt.Sprintf("ynew %d %d", id, p)}
	for n := range c.Blocks {
		blockIdx = append(blockIdx, len(lines))
		lines = append(lines, diffLine("yblock", id, &c.Blocks[n]))
	}
	return lines, blockIdx
}

func hasMigration(c *StateCase) bool {
	for n := range c.Blocks {
		if len(c.Blocks[n].Migrated) > 0 {
			return true
		}
		for _, d := range c.Blocks[n].Before {
			if len(d.Diff.Migrated) > 0 {
				return true
			}
		}
	}
	return false
}

// runChain applies the blocks through Blockchain.Finalise (the path that derives the roots signed into
// the header) under the given WithNewState setting; dropped updates go through Blockchain.Simulate of
// the same node.
func runChain(c *StateCase, newState bool) (tr trace) {
	err, panicked, _ := lib.Try(func() error {
		disk := memory.New()
		bc := blockchain.New(disk, &networks.Mainnet, blockchain.WithNewState(newState))
		prevRoot := felt.Zero
		parent := felt.Zero
		for n := range c.Blocks {
			b := &c.Blocks[n]
			if c.Restarts && n > 0 {
				bc = blockchain.New(disk, &networks.Mainnet, blockchain.WithNewState(newState))
			}
			for di := range b.Before {
				d := &b.Before[di]
				before := dumpDB(disk)
				su, classes := toUpdate(&d.Diff, &prevRoot)
				blk := simBlock(uint64(n), d.Diff.Version)
				blk.ParentHash = &parent
				_, derr := bc.Simulate(blk, su, classes, nil)
				if tr.Leak == "" {
					if diff := diffDump(before, dumpDB(disk)); diff != "" {
						tr.Leak = fmt.Sprintf("block %d, Simulate %d: %s", n, di, diff)
					} else if derr != nil {
						tr.Leak = fmt.Sprintf("block %d, Simulate %d failed: %v", n, di, derr)
					}
				}
			}
			su, classes := toUpdate(b, &prevRoot)
			blk := simBlock(uint64(n), b.Version)
			p := parent
			blk.ParentHash = &p
			if err := bc.Finalise(blk, su, classes, nil); err != nil {
				return fmt.Errorf("block %d: Finalise: %w", n, err)
			}
			head, err := bc.HeadsHeader()
			if err != nil {
				return fmt.Errorf("block %d: head: %w", n, err)
			}
			if !head.GlobalStateRoot.Equal(blk.GlobalStateRoot) || head.Number != uint64(n) {
				return fmt.Errorf("block %d: stored header root %s differs from the root Finalise computed %s", n, head.GlobalStateRoot.String(), blk.GlobalStateRoot.String())
			}
			// the state update the node stores for block n must start at the root it stored for block n-1
			if stored, err := bc.StateUpdateByNumber(uint64(n)); err != nil {
				return fmt.Errorf("block %d: stored state update: %w", n, err)
			} else {
				tr.StoredOld = append(tr.StoredOld, feltHex(stored.OldRoot))
				tr.StoredNew = append(tr.StoredNew, feltHex(stored.NewRoot))
				if !stored.OldRoot.Equal(&prevRoot) {
					tr.OldStored = append(tr.OldStored, n)
				} else if !stored.NewRoot.Equal(blk.GlobalStateRoot) {
					return fmt.Errorf("block %d: stored StateUpdate.NewRoot %s differs from the header root %s", n, stored.NewRoot.String(), blk.GlobalStateRoot.String())
				}
			}
			tr.Roots = append(tr.Roots, feltHex(blk.GlobalStateRoot))
			prevRoot = *blk.GlobalStateRoot
			parent = *blk.Hash
		}
		return nil
	})
	if err != nil {
		tr.Err = err.Error()
		if panicked {
			tr.Err = "panic: " + tr.Err
		}
	}
	return tr
}

// runStore applies the blocks through Blockchain.Store (the sync path): OldRoot = the root stored for the
// previous block, NewRoot = roots[n] (the root the state layer computed for the same history), new root
// verified by the node. Stops at the first rejected block, which is recorded in OldRej (the caller knows
// whether the state layer rejected the stored old root there too).
func runStore(c *StateCase, newState bool, roots []string) (tr trace) {
	err, panicked, _ := lib.Try(func() error {
		disk := memory.New()
		bc := blockchain.New(disk, &networks.Mainnet, blockchain.WithNewState(newState))
		prevRoot := felt.Zero
		parent := felt.Zero
		for n := range c.Blocks {
			if n >= len(roots) {
				break
			}
			if c.Restarts && n > 0 {
				bc = blockchain.New(disk, &networks.Mainnet, blockchain.WithNewState(newState))
			}
			b := &c.Blocks[n]
			old := prevRoot
			su, classes := toUpdate(b, &old)
			nr := hexFelt(roots[n])
			su.NewRoot = &nr
			blk := simBlock(uint64(n), b.Version)
			p := parent
			blk.ParentHash = &p
			blk.GlobalStateRoot = &nr
			h := felt.FromUint64[felt.Felt](0x5107e000 + uint64(n))
			blk.Hash = &h
			su.BlockHash = &h
			z := felt.Zero
			comms := &core.BlockCommitments{TransactionCommitment: &z, EventCommitment: &z, ReceiptCommitment: &z, StateDiffCommitment: &z}
			// the same block with a wrong new root must be rejected and leave the database as it is
			{
				before := dumpDB(disk)
				old2 := prevRoot
				su2, classes2 := toUpdate(b, &old2)
				bad := felt.FromUint64[felt.Felt](0xbad0)
				su2.NewRoot = &bad
				blk2 := simBlock(uint64(n), b.Version)
				p2 := parent
				blk2.ParentHash = &p2
				blk2.GlobalStateRoot = &bad
				blk2.Hash = &h
				su2.BlockHash = &h
				if err := bc.Store(blk2, comms, su2, classes2); err == nil {
					return fmt.Errorf("block %d: Blockchain.Store accepted a block whose new root is wrong", n)
				}
				if diff := diffDump(before, dumpDB(disk)); diff != "" && tr.Leak == "" {
					tr.Leak = fmt.Sprintf("block %d: a rejected Blockchain.Store changed the database: %s", n, diff)
				}
			}
			tr.StoreBlocks = n + 1
			if err := bc.Store(blk, comms, su, classes); err != nil {
				// (judged by the caller: the same block may be rejected by the state layer for its stored old root)
				tr.OldRej = append(tr.OldRej, n)
				tr.OldRejErr = err.Error()
				// the same block with the old root recomputed under ITS version (what the unchanged tree verifies
				// against): if that is accepted the history goes on
				hs, closer, herr := bc.HeadState()
				if herr != nil {
					return nil
				}
				cm, isCm := hs.(interface {
					Commitment(string) (felt.Felt, error)
				})
				if !isCm {
					_ = closer()
					return nil
				}
				cur, cerr := cm.Commitment(b.Version)
				_ = closer()
				if cerr != nil || cur.Equal(&prevRoot) {
					return nil
				}
				su3, classes3 := toUpdate(b, &cur)
				su3.NewRoot = &nr
				su3.BlockHash = &h
				blk3 := simBlock(uint64(n), b.Version)
				p3 := parent
				blk3.ParentHash = &p3
				blk3.GlobalStateRoot = &nr
				blk3.Hash = &h
				if err := bc.Store(blk3, comms, su3, classes3); err != nil {
					return nil
				}
				su = su3
			}
			if stored, err := bc.StateUpdateByNumber(uint64(n)); err != nil {
				return fmt.Errorf("block %d: stored state update: %w", n, err)
			} else {
				tr.StoredOld = append(tr.StoredOld, feltHex(stored.OldRoot))
				tr.StoredNew = append(tr.StoredNew, feltHex(stored.NewRoot))
			}
			head, err := bc.HeadsHeader()
			if err != nil {
				return fmt.Errorf("block %d: head: %w", n, err)
			}
			if !head.GlobalStateRoot.Equal(&nr) || head.Number != uint64(n) {
				return fmt.Errorf("block %d: stored header root %s differs from the root of the block %s", n, head.GlobalStateRoot.String(), nr.String())
			}
			tr.Roots = append(tr.Roots, roots[n])
			prevRoot = nr
			parent = h
		}
		return nil
	})
	if err != nil {
		tr.Err = err.Error()
		if panicked {
			tr.Err = "panic: " + tr.Err
		}
	}
	return tr
}

// chainable: Blockchain.Finalise / Store only take protocol versions the node supports (CheckBlockVersion)
func chainable(c *StateCase) bool {
	for n := range c.Blocks {
		// (the chain layer insists on a definition for every declared class: "class not available in newClasses")
		if !supportedVersion(c.Blocks[n].Version) || len(c.Blocks[n].NoDef) > 0 {
			return false
		}
		for _, d := range c.Blocks[n].Before {
			if !supportedVersion(d.Diff.Version) || len(d.Diff.NoDef) > 0 {
				return false
			}
		}
	}
	return !hasMigration(c)
}

func supportedVersion(v string) bool { return v != "1.0.0" }

// formulaSwitches: the blocks n > 0 at which the root stored for block n-1 (commitment of the state under the
// version of block n-1) is not the commitment of the same state under the version of block n: the class trie
// is empty, the contract trie is not, and exactly one of the two versions is < 0.14.0.
func formulaSwitches(c *StateCase, keepEmptySystem bool) map[int]bool {
	out := map[int]bool{}
	a := newAbs()
	for n := range c.Blocks {
		if n > 0 {
			for _, keep := range []bool{false, keepEmptySystem} {
				r1, _, _ := a.commitment(c.Blocks[n-1].Version, keep)
				r2, _, _ := a.commitment(c.Blocks[n].Version, keep)
				if !r1.Equal(&r2) {
					out[n] = true
				}
			}
		}
		a.apply(&c.Blocks[n])
	}
	return out
}

func subsetOf(xs []int, m map[int]bool) bool {
	for _, x := range xs {
		if !m[x] {
			return false
		}
	}
	return true
}

// ---- discarded updates -----------------------------------------------------------------------------

func dumpDB(disk *memory.Database) map[string]string {
	out := map[string]string{}
	it, err := disk.NewIterator(nil, false)
	if err != nil {
		return out
	}
	defer it.Close()
	for ok := it.First(); ok; ok = it.Next() {
		v, _ := it.Value()
		out[string(it.Key())] = string(v)
	}
	return out
}

func diffDump(a, b map[string]string) string {
	keys := map[string]bool{}
	for k := range a {
		keys[k] = true
	}
	for k := range b {
		keys[k] = true
	}
	var ks []string
	for k := range keys {
		if a[k] != b[k] || (len(a[k]) == 0 && len(b[k]) == 0 && hasKey(a, k) != hasKey(b, k)) {
			ks = append(ks, k)
		}
	}
	if len(ks) == 0 {
		return ""
	}
	sort.Strings(ks)
	k := ks[0]
	st := "changed"
	if !hasKey(a, k) {
		st = "added"
	} else if !hasKey(b, k) {
		st = "removed"
	}
	return fmt.Sprintf("%d database keys differ after the update was dropped; first: key %x (bucket %d) %s", len(ks), k, k[0], st)
}

func hasKey(m map[string]string, k string) bool { _, ok := m[k]; return ok }

func simBlock(num uint64, version string) *core.Block {
	one := felt.FromUint64[felt.Felt](1)
	f := func() *felt.Felt { x := one; return &x }
	return &core.Block{Header: &core.Header{
		ParentHash: f(), Number: num, SequencerAddress: f(), ProtocolVersion: version,
		EventsBloom: core.EventsBloom(nil), L1GasPriceETH: f(), L1GasPriceSTRK: f(),
		L1DataGasPrice: &core.GasPrice{PriceInWei: f(), PriceInFri: f()},
		L2GasPrice:     &core.GasPrice{PriceInWei: f(), PriceInFri: f()},
		Signatures:     [][]*felt.Felt{},
	}, Transactions: []core.Transaction{}, Receipts: []*core.TransactionReceipt{}}
}

// discardNew runs one update on core/state through a path that never writes its batch; returns the
// root the update computed ("" if the path yields none).
func discardNew(disk *memory.Database, sdb *state.StateDB, prev *felt.Felt, num uint64, d *Discarded) (string, error) {
	hdr := &core.Header{Number: num, ProtocolVersion: d.Diff.Version}
	switch d.Mode {
	case "simulate":
		bc := blockchain.New(disk, &networks.Mainnet, blockchain.WithNewState(true))
		su, classes := toUpdate(&d.Diff, prev)
		blk := simBlock(num, d.Diff.Version)
		if _, err := bc.Simulate(blk, su, classes, nil); err != nil {
			return "", err
		}
		return feltHex(blk.GlobalStateRoot), nil
	case "badroot":
		err := disk.Write(func(batch db.Batch) error {
			st, err := state.New(prev, sdb, batch)
			if err != nil {
				return err
			}
			old, err := st.Commitment(d.Diff.Version)
			if err != nil {
				return err
			}
			su, classes := toUpdate(&d.Diff, &old)
			bad := felt.FromUint64[felt.Felt](0xdead)
			su.NewRoot = &bad
			return st.Update(hdr, su, classes, false)
		})
		if err == nil {
			return "", fmt.Errorf("an update with a wrong NewRoot was accepted")
		}
		return "", nil
	case "badold":
		// an update that claims to start from a root the state does not have must be rejected
		err := disk.Write(func(batch db.Batch) error {
			st, err := state.New(prev, sdb, batch)
			if err != nil {
				return err
			}
			bad := felt.FromUint64[felt.Felt](0xdead)
			su, classes := toUpdate(&d.Diff, &bad)
			if err := st.Update(hdr, su, classes, true); err != nil {
				return err
			}
			return errWrongOldRootAccepted // (do not write the batch)
		})
		if err == errWrongOldRootAccepted {
			return "", err
		}
		return "", nil
	default: // close
		batch := disk.NewBatch()
		defer batch.Close()
		st, err := state.New(prev, sdb, batch)
		if err != nil {
			return "", err
		}
		old, err := st.Commitment(d.Diff.Version)
		if err != nil {
			return "", err
		}
		su, classes := toUpdate(&d.Diff, &old)
		if err := st.Update(hdr, su, classes, true); err != nil {
			return "", err
		}
		root, err := st.Commitment(d.Diff.Version)
		return feltHex(&root), err
	}
}

var errWrongOldRootAccepted = fmt.Errorf("an update with a wrong OldRoot was accepted")

func discardOld(disk *memory.Database, prev *felt.Felt, num uint64, d *Discarded) (string, error) {
	hdr := &core.Header{Number: num, ProtocolVersion: d.Diff.Version}
	switch d.Mode {
	case "simulate":
		bc := blockchain.New(disk, &networks.Mainnet, blockchain.WithNewState(false))
		su, classes := toUpdate(&d.Diff, prev)
		blk := simBlock(num, d.Diff.Version)
		if _, err := bc.Simulate(blk, su, classes, nil); err != nil {
			return "", err
		}
		return feltHex(blk.GlobalStateRoot), nil
	case "badroot":
		err := disk.Update(func(txn db.IndexedBatch) error {
			st := deprecatedstate.New(txn)
			old, err := st.Commitment(d.Diff.Version)
			if err != nil {
				return err
			}
			su, classes := toUpdate(&d.Diff, &old)
			bad := felt.FromUint64[felt.Felt](0xdead)
			su.NewRoot = &bad
			return st.Update(hdr, su, classes, false)
		})
		if err == nil {
			return "", fmt.Errorf("an update with a wrong NewRoot was accepted")
		}
		return "", nil
	case "badold":
		err := disk.Update(func(txn db.IndexedBatch) error {
			st := deprecatedstate.New(txn)
			bad := felt.FromUint64[felt.Felt](0xdead)
			su, classes := toUpdate(&d.Diff, &bad)
			if err := st.Update(hdr, su, classes, true); err != nil {
				return err
			}
			return errWrongOldRootAccepted
		})
		if err == errWrongOldRootAccepted {
			return "", err
		}
		return "", nil
	default:
		txn := disk.NewIndexedBatch()
		defer txn.Close()
		st := deprecatedstate.New(txn)
		old, err := st.Commitment(d.Diff.Version)
		if err != nil {
			return "", err
		}
		su, classes := toUpdate(&d.Diff, &old)
		if err := st.Update(hdr, su, classes, true); err != nil {
			return "", err
		}
		root, err := st.Commitment(d.Diff.Version)
		return feltHex(&root), err
	}
}

// expected roots after every block; alt = variant where an emptied contract keeps its leaf
func specStateTrace(c *StateCase) (want, alt []string) { return specStateTraceWith(c, indHS) }

func specStateTraceWith(c *StateCase, hs hashSet) (want, alt []string) {
	a := newAbs()
	for n := range c.Blocks {
		a.apply(&c.Blocks[n])
		r, _, _ := a.commitmentWith(hs, c.Blocks[n].Version, false)
		want = append(want, feltHex(&r))
		r2, _, _ := a.commitmentWith(hs, c.Blocks[n].Version, true)
		alt = append(alt, feltHex(&r2))
	}
	return want, alt
}

// the real roots are right under juno's own hash functions, wrong under the reference ones
func primitiveIsCauseState(c *StateCase, real []string) bool {
	w, a := specStateTraceWith(c, junoHS)
	return firstDiff(real, w) < 0 || firstDiff(real, a) < 0
}

// which primitive: roots right with juno's Pedersen and the reference Poseidon -> Pedersen, else Poseidon
func brokenPrimitiveState(c *StateCase, real []string) string {
	w, a := specStateTraceWith(c, hashSet{crypto.Pedersen, indPoseidon, indPoseidonElems})
	if firstDiff(real, w) < 0 || firstDiff(real, a) < 0 {
		return "ped"
	}
	return "pos"
}

// ---- generator ------------------------------------------------------------------------------------

// ascending; "" parses as 0.0.0, "0.14" as 0.14.0; "0.9.9" / "0.13.10" are string-order traps; "1.0.0" is not
// supported by the chain layer (state layer only)
var versions = []string{"", "0.9.9", "0.13.1", "0.13.1.1", "0.13.2", "0.13.6", "0.13.10", "0.14", "0.14.0", "0.14.1", "1.0.0"}

func pickVersionFrom(r *lib.RNG, from int) (string, int) {
	// the common ones more often
	for {
		i := from + r.Intn(len(versions)-from)
		v := versions[i]
		if (v == "" || v == "0.9.9" || v == "0.13.10" || v == "0.14" || v == "1.0.0") && r.Chance(2, 3) {
			continue
		}
		return v, i
	}
}

type statePools struct {
	noMigrate            bool // no CASM-hash migrations in this history (migrations keep a history off the chain paths)
	addrs, keys, classes []string
	deployClasses        []string // class hashes of deployed contracts: any felt, also >= 2^251
}

const feltPm1 = "800000000000011000000000000000000000000000000000000000000000000" // P-1
const felt2p251 = "800000000000000000000000000000000000000000000000000000000000000"

func genPools(r *lib.RNG) *statePools {
	p := &statePools{addrs: []string{"1", "2"}}
	for _, k := range genKeyPool(r, 251, r.Range(2, 5)) {
		if k.Sign() != 0 && k.Cmp(big.NewInt(2)) > 0 {
			p.addrs = append(p.addrs, k.Text(16))
		}
	}
	for _, k := range genKeyPool(r, 251, r.Range(2, 6)) {
		p.keys = append(p.keys, k.Text(16))
	}
	p.classes = []string{"c1a55", "c1a56", randBits(r, 250).Text(16)}
	// more class hashes (class-trie keys), sharing prefixes: a block may declare / migrate several at once
	for _, k := range genKeyPool(r, 251, r.Range(4, 9)) {
		if k.Sign() != 0 {
			p.classes = append(p.classes, k.Text(16))
		}
	}
	p.deployClasses = append([]string{feltPm1, felt2p251}, p.classes[:3]...)
	return p
}

func containsStr(xs []string, x string) bool {
	for _, y := range xs {
		if y == x {
			return true
		}
	}
	return false
}

func permOf(r *lib.RNG, n int) []int {
	p := make([]int, n)
	for i := range p {
		p[i] = i
	}
	lib.Shuffle(r, p)
	return p
}

// genBlock generates one diff that is valid on top of the abstract state a (a is not modified).
func genBlock(r *lib.RNG, a *absState, p *statePools, ver string) SBlock {
	b := SBlock{Version: ver}
	for _, addr := range p.addrs {
		if _, ok := a.contracts[addr]; !ok && !isSystem(addr) && r.Chance(1, 2) {
			if b.Deployed == nil {
				b.Deployed = map[string]string{}
			}
			b.Deployed[addr] = lib.Pick(r, p.deployClasses)
		}
	}
	deployedNow := func(addr string) bool {
		if _, ok := a.contracts[addr]; ok {
			return true
		}
		_, ok := b.Deployed[addr]
		return ok
	}
	for _, addr := range p.addrs {
		if !deployedNow(addr) && !isSystem(addr) {
			continue
		}
		if !isSystem(addr) && deployedNow(addr) {
			if _, justNow := b.Deployed[addr]; !justNow && r.Chance(1, 6) {
				if b.Replaced == nil {
					b.Replaced = map[string]string{}
				}
				b.Replaced[addr] = lib.Pick(r, p.deployClasses)
			}
			if r.Chance(1, 3) {
				if b.Nonces == nil {
					b.Nonces = map[string]string{}
				}
				b.Nonces[addr] = lib.Pick(r, []string{"0", "1", "2", "ff", feltPm1, felt2p251})
			}
		}
		if r.Chance(2, 3) {
			st := map[string]string{}
			for i, m := 0, r.Range(1, 4); i < m; i++ {
				k := lib.Pick(r, p.keys)
				v := genVal(r)
				// bias towards zeroing slots that are set, so that storages become empty again
				if c0, ok := a.contracts[addr]; ok {
					if _, set := c0.storage[k]; set && r.Chance(1, 2) {
						v = "0"
					}
				}
				st[k] = v
			}
			if b.Storage == nil {
				b.Storage = map[string]map[string]string{}
			}
			b.Storage[addr] = st
		}
	}
	if r.Chance(1, 8) {
		b.DeclaredV0 = []string{lib.Pick(r, []string{"c0c0", "c0c1"})}
	}
	if r.Chance(1, 8) {
		b.NoDef = map[string]string{lib.Pick(r, []string{"c1a5d", "c1a5e"}): "ca5a1"}
	}
	// definitions registered without a declaration (classes of the declaration pool: a later block may declare them)
	if r.Chance(1, 4) {
		for i, m := 0, r.Range(1, 2); i < m; i++ {
			ch := lib.Pick(r, p.classes)
			if _, ok := a.classes[ch]; !ok && !containsStr(b.ExtraDefs, ch) {
				b.ExtraDefs = append(b.ExtraDefs, ch)
			}
		}
	}
	// class trie: 0..5 Sierra declarations and 0..3 CASM-hash migrations per block, every leaf value distinct
	// (several class-trie leaves written by ONE Update)
	casmSeq := 0
	casm := func(prefix string) string {
		casmSeq++
		if casmSeq == 3 && r.Chance(1, 3) {
			return feltPm1
		}
		return fmt.Sprintf("%s%x%04x", prefix, casmSeq, r.Intn(1<<16))
	}
	nd := lib.Pick(r, []int{0, 0, 0, 0, 1, 1, 2, 3, 4, 5})
	nm := lib.Pick(r, []int{0, 0, 0, 1, 1, 2, 3})
	if p.noMigrate {
		nm = 0
	}
	for _, i := range permOf(r, len(p.classes)) {
		ch := p.classes[i]
		if _, ok := a.classes[ch]; !ok && len(b.Declared) < nd {
			if b.Declared == nil {
				b.Declared = map[string]string{}
			}
			b.Declared[ch] = casm("ca5a")
		}
	}
	// (a definition for a class this very diff declares is not "extra")
	if len(b.ExtraDefs) > 0 {
		var keep []string
		for _, ch := range b.ExtraDefs {
			if _, now := b.Declared[ch]; !now {
				keep = append(keep, ch)
			}
		}
		b.ExtraDefs = keep
	}
	for _, i := range permOf(r, len(p.classes)) {
		ch := p.classes[i]
		_, old := a.classes[ch]
		_, now := b.Declared[ch]
		// (a class declared by this very diff may be migrated by it too: both backends write the declared leaf
		// first and the migrated one over it)
		if (old || (now && r.Chance(1, 3))) && len(b.Migrated) < nm {
			if b.Migrated == nil {
				b.Migrated = map[string]string{}
			}
			b.Migrated[ch] = casm("ca5b")
		}
	}
	return b
}

var discardModes = []string{"close", "close", "simulate", "simulate", "badroot", "badold"}

func genStateCase(r *lib.RNG, nBlocks int) *StateCase {
	c := &StateCase{}
	p := genPools(r)
	p.noMigrate = r.Chance(1, 2)
	c.Restarts = r.Chance(1, 3)
	a := newAbs()
	// one protocol-version regime per case, sometimes switching once
	ver, vi := pickVersionFrom(r, 0)
	switchAt := -1
	if r.Chance(1, 3) {
		switchAt = r.Intn(nBlocks)
	}
	withDiscards := r.Chance(1, 2)
	for n := 0; n < nBlocks; n++ {
		if n == switchAt {
			// protocol versions of a chain never decrease
			ver, vi = pickVersionFrom(r, vi)
		}
		var before []Discarded
		if withDiscards && r.Chance(2, 3) {
			// updates on the same parent that are executed and dropped (never part of the chain)
			for i, m := 0, r.Range(1, 2); i < m; i++ {
				before = append(before, Discarded{Diff: genBlock(r, a, p, ver), Mode: lib.Pick(r, discardModes), Reopen: r.Bool()})
			}
		}
		b := genBlock(r, a, p, ver)
		b.Before = before
		a.apply(&b)
		c.Blocks = append(c.Blocks, b)
	}
	return c
}

// one contract with a large storage diff in a single block (> 100 updates: parallel hashing and
// parallel node collection in core/state), then blocks that overwrite / zero a part of it
func genLargeStateCase(r *lib.RNG) *StateCase {
	ver, _ := pickVersionFrom(r, 0)
	keys := genKeyPool(r, 251, r.Range(130, 220))
	st := map[string]string{}
	for _, k := range keys {
		v := genVal(r)
		if v == "0" {
			v = "3"
		}
		st[k.Text(16)] = v
	}
	c := &StateCase{Blocks: []SBlock{{Version: ver, Deployed: map[string]string{"abc": "c1a55"}, Storage: map[string]map[string]string{"abc": st}}}}
	for n := 0; n < 3; n++ {
		st2 := map[string]string{}
		m := r.Range(5, 30)
		if n == 1 {
			// a second LARGE diff on the stored trie: > 100 overwrites / zero writes of old slots and new slots
			m = r.Range(110, 170)
		}
		for i := 0; i < m; i++ {
			k := lib.Pick(r, keys).Text(16)
			if n == 1 && r.Chance(1, 8) {
				k = randBits(r, 251).Text(16)
			}
			v := genVal(r)
			if n == 1 && r.Chance(1, 3) {
				v = "0"
			}
			st2[k] = v
		}
		c.Blocks = append(c.Blocks, SBlock{Version: ver, Storage: map[string]map[string]string{"abc": st2}})
	}
	return c
}

// many contracts touched by ONE block (> 100: parallel hashing / node collection of the CONTRACT trie, the merge
// of > 100 storage node sets, more state objects than worker goroutines), then blocks that touch a few of them
func genManyContractsCase(r *lib.RNG) *StateCase {
	ver, _ := pickVersionFrom(r, 0)
	addrs := genKeyPool(r, 251, r.Range(110, 160))
	b0 := SBlock{Version: ver, Deployed: map[string]string{}, Storage: map[string]map[string]string{}, Nonces: map[string]string{},
		Declared: map[string]string{"c1a55": "ca5a1", "c1a56": "ca5a2"}}
	var live []string
	seen := map[string]bool{}
	for _, a := range addrs {
		if a.Cmp(big.NewInt(2)) <= 0 || seen[a.Text(16)] {
			continue
		}
		seen[a.Text(16)] = true
		ad := a.Text(16)
		live = append(live, ad)
		b0.Deployed[ad] = lib.Pick(r, []string{"c1a55", "c1a56"})
		if r.Chance(2, 3) {
			st := map[string]string{}
			for i, m := 0, r.Range(1, 3); i < m; i++ {
				v := genVal(r)
				if v == "0" {
					v = "4"
				}
				st[fmt.Sprintf("%x", r.Intn(6))] = v
			}
			b0.Storage[ad] = st
		}
		if r.Chance(1, 4) {
			b0.Nonces[ad] = "1"
		}
	}
	// ... and more than 100 class-trie leaves written by the same block (parallel paths of the CLASS trie)
	if r.Bool() {
		for i, k := range genKeyPool(r, 251, r.Range(105, 130)) {
			if k.Sign() != 0 {
				b0.Declared[k.Text(16)] = fmt.Sprintf("ca5c%04x", i)
			}
		}
	}
	c := &StateCase{Blocks: []SBlock{b0}, Restarts: r.Bool()}
	for n := 0; n < 2; n++ {
		b := SBlock{Version: ver, Storage: map[string]map[string]string{}, Nonces: map[string]string{}}
		for i, m := 0, r.Range(3, 40); i < m; i++ {
			ad := lib.Pick(r, live)
			if r.Chance(1, 3) {
				b.Nonces[ad] = lib.Pick(r, []string{"2", "3", feltPm1})
			} else {
				b.Storage[ad] = map[string]string{fmt.Sprintf("%x", r.Intn(6)): genVal(r)}
			}
		}
		if len(b0.Declared) > 100 && n == 1 {
			b.Declared = map[string]string{"c1a57": "ca5a7"}
		}
		c.Blocks = append(c.Blocks, b)
	}
	return c
}

// directed histories for the corner the generator reaches only sometimes
func directedStateCases() []*StateCase {
	var out []*StateCase
	for _, ver := range []string{"0.13.2", "0.14.0"} {
		// the definition of a class is registered first (class of a deployed contract, fetched by sync), the class is
		// declared by a later block: the class-trie leaf must be written although the definition is already known
		out = append(out, &StateCase{Blocks: []SBlock{
			{Version: ver, Deployed: map[string]string{"abc": "c1a55"}, ExtraDefs: []string{"c1a55"}},
			{Version: ver, Declared: map[string]string{"c1a55": "ca5a1"}},
			{Version: ver, Nonces: map[string]string{"abc": "1"}, ExtraDefs: []string{"c1a55", "c1a56"}},
			{Version: ver, Declared: map[string]string{"c1a56": "ca5a2", "c1a57": "ca5a3"}, Migrated: map[string]string{"c1a55": "ca5b1"}},
		}})
		for _, sys := range []string{"1", "2"} {
			// system contract storage written, then fully zeroed in a later block
			out = append(out, &StateCase{Blocks: []SBlock{
				{Version: ver, Storage: map[string]map[string]string{sys: {"7": "5"}}},
				{Version: ver, Storage: map[string]map[string]string{sys: {"7": "0"}}},
			}})
			// ... with another contract around, and a re-write afterwards
			out = append(out, &StateCase{Blocks: []SBlock{
				{Version: ver, Deployed: map[string]string{"abc": "c1a55"}, Storage: map[string]map[string]string{sys: {"7": "5", "8": "6"}, "abc": {"1": "1"}}},
				{Version: ver, Storage: map[string]map[string]string{sys: {"7": "0"}}},
				{Version: ver, Storage: map[string]map[string]string{sys: {"8": "0"}}},
				{Version: ver, Storage: map[string]map[string]string{sys: {"9": "1"}}},
			}})
		}
		// zero write to a never written slot of a fresh system contract
		out = append(out, &StateCase{Blocks: []SBlock{
			{Version: ver, Storage: map[string]map[string]string{"1": {"7": "0"}}},
			{Version: ver, Deployed: map[string]string{"abc": "c1a55"}},
		}})
		// a dropped update writes the storage of an existing contract; the next accepted block touches it
		for _, mode := range []string{"close", "simulate", "badroot", "badold"} {
			for _, reopen := range []bool{false, true} {
				dropped := SBlock{Version: ver, Storage: map[string]map[string]string{"abc": {"1": "9", "5": "7"}, "1": {"7": "3"}},
					Nonces: map[string]string{"abc": "5"}, Declared: map[string]string{"c1a56": "ca5a2"}}
				out = append(out, &StateCase{Blocks: []SBlock{
					{Version: ver, Deployed: map[string]string{"abc": "c1a55"}, Storage: map[string]map[string]string{"abc": {"1": "1", "2": "2"}}},
					{Version: ver, Storage: map[string]map[string]string{"abc": {"3": "4"}}, Before: []Discarded{{Diff: dropped, Mode: mode, Reopen: reopen}}},
					{Version: ver, Storage: map[string]map[string]string{"abc": {"1": "0"}},
						Before: []Discarded{{Diff: SBlock{Version: ver, Deployed: map[string]string{"def": "c1a55"}, Storage: map[string]map[string]string{"def": {"1": "1"}}}, Mode: mode, Reopen: reopen}}},
					{Version: ver, Deployed: map[string]string{"def": "c1a56"}, Storage: map[string]map[string]string{"def": {"2": "2"}}},
				}})
			}
		}
		// several class-trie leaves written by ONE update: two / five declarations, declaration + migration of
		// another class, two migrations; and the same classes declared one per block
		five := map[string]string{"c1a51": "ca5a1", "c1a52": "ca5a2", "c1a53": "ca5a3", "c1a54": "ca5a4", "7ff": feltPm1}
		out = append(out, &StateCase{Blocks: []SBlock{{Version: ver, Declared: map[string]string{"c1a51": "ca5a1", "c1a52": "ca5a2"}}}})
		out = append(out, &StateCase{Blocks: []SBlock{{Version: ver, Declared: five}}})
		out = append(out, &StateCase{Blocks: []SBlock{
			{Version: ver, Declared: map[string]string{"c1a51": "ca5a1", "c1a52": "ca5a2"}},
			{Version: ver, Declared: map[string]string{"c1a53": "ca5a3"}, Migrated: map[string]string{"c1a51": "ca5b1"}},
			{Version: ver, Migrated: map[string]string{"c1a52": "ca5b2", "c1a53": "ca5b3"}},
			{Version: ver, Deployed: map[string]string{"abc": "c1a51"}, Migrated: map[string]string{"c1a51": "ca5b4", "c1a52": "ca5b5", "c1a53": "ca5b6"}, Declared: map[string]string{"c1a54": "ca5a4", "7ff": "ca5a5"}},
		}})
		{
			var split []SBlock
			for _, ch := range []string{"c1a51", "c1a52", "c1a53", "c1a54", "7ff"} {
				split = append(split, SBlock{Version: ver, Declared: map[string]string{ch: five[ch]}})
			}
			out = append(out, &StateCase{Blocks: split})
		}
		// a class declared and migrated by the same diff; migrated again later
		out = append(out, &StateCase{Blocks: []SBlock{
			{Version: ver, Declared: map[string]string{"c1a55": "ca5a1"}, Migrated: map[string]string{"c1a55": "ca5b1"}},
			{Version: ver, Migrated: map[string]string{"c1a55": "ca5b2"}, Declared: map[string]string{"c1a56": "ca5a2"}},
		}})
		// empty first block, class only, contract only
		out = append(out, &StateCase{Blocks: []SBlock{{Version: ver}, {Version: ver, Declared: map[string]string{"c1a55": "ca5a1"}}}})
		out = append(out, &StateCase{Blocks: []SBlock{{Version: ver, Deployed: map[string]string{"abc": "c1a55"}}}})
	}
	return out
}

// ---- evaluation --------------------------------------------------------------------------------------

// validState: the history only contains diffs that are valid on the state before them (shrinking
// must not turn a history into an invalid one)
func validState(c *StateCase) bool {
	a := newAbs()
	okDiff := func(b *SBlock) bool {
		for addr := range b.Deployed {
			if _, ok := a.contracts[addr]; ok || isSystem(addr) {
				return false
			}
		}
		exists := func(addr string) bool {
			if _, ok := a.contracts[addr]; ok {
				return true
			}
			_, ok := b.Deployed[addr]
			return ok
		}
		for addr := range b.Replaced {
			if !exists(addr) || isSystem(addr) {
				return false
			}
		}
		for addr := range b.Nonces {
			if !exists(addr) || isSystem(addr) {
				return false
			}
		}
		for addr := range b.Storage {
			if !exists(addr) && !isSystem(addr) {
				return false
			}
		}
		return true
	}
	for n := range c.Blocks {
		for _, d := range c.Blocks[n].Before {
			if !okDiff(&d.Diff) {
				return false
			}
		}
		if !okDiff(&c.Blocks[n]) {
			return false
		}
		a.apply(&c.Blocks[n])
	}
	return true
}

func shrinkState(c *StateCase, fails0 func(*StateCase) bool) *StateCase {
	fails := func(c *StateCase) bool { return validState(c) && fails0(c) }
	cur := &StateCase{Blocks: append([]SBlock{}, c.Blocks...)}
	if !fails(cur) {
		return c
	}
	// drop trailing blocks, then storage entries
	for len(cur.Blocks) > 1 {
		cand := &StateCase{Blocks: cur.Blocks[:len(cur.Blocks)-1]}
		if !fails(cand) {
			break
		}
		cur = cand
	}
	for bi := range cur.Blocks {
		for di := len(cur.Blocks[bi].Before) - 1; di >= 0; di-- {
			cand := deepCopyState(cur)
			cand.Blocks[bi].Before = append(cand.Blocks[bi].Before[:di], cand.Blocks[bi].Before[di+1:]...)
			if fails(cand) {
				cur = cand
			}
		}
	}
	for changed := true; changed; {
		changed = false
		for bi := range cur.Blocks {
			for addr, st := range cur.Blocks[bi].Storage {
				for k := range st {
					cand := deepCopyState(cur)
					delete(cand.Blocks[bi].Storage[addr], k)
					if len(cand.Blocks[bi].Storage[addr]) == 0 {
						delete(cand.Blocks[bi].Storage, addr)
					}
					if fails(cand) {
						cur = cand
						changed = true
					}
				}
			}
		}
	}
	return cur
}

func deepCopyState(c *StateCase) *StateCase {
	b, _ := json.Marshal(c)
	var out StateCase
	_ = json.Unmarshal(b, &out)
	return &out
}

var legacyPurgeVariant bool

func checkStateCases(f lib.Flags, res *lib.Result, drv *lib.Driver, cases []*StateCase, family string) {
	t0 := time.Now()
	defer func() {
		res.HitN("ms:"+family, int(time.Since(t0).Milliseconds()))
		// checkpoint: a panic inside a goroutine of the code under test (parallel hasher / collector)
		// cannot be recovered and kills the process; what was found so far stays on disk
		if f.Out != "" {
			_ = res.Write(f.Out)
		}
	}()
	type outcome struct {
		nw, old   trace
		chN, chO  *trace // through Blockchain.Finalise / Simulate (every 3rd case and all directed ones)
		stN, stO  *trace // through Blockchain.Store (every 3rd case, offset 1, and all directed ones)
		want, alt []string
	}
	outs := make([]outcome, len(cases))
	parallel(cases, func(i int, c *StateCase) {
		var o outcome
		if !lib.WithDeadline(deadline(), func() {
			o.nw = runNewState(c)
			o.old = runOldState(c)
			// (casm-hash migrations have chain-level validity rules of their own — which class was declared
			// under which hash version — that the diff generator does not track: state level only)
			directed := family == "state-directed" || family == "replay" || family == "state-version-switch"
			if (i%3 == 0 || directed) && chainable(c) {
				a, b := runChain(c, true), runChain(c, false)
				o.chN, o.chO = &a, &b
			}
			if (i%3 == 1 || directed) && chainable(c) && o.nw.Err == "" && o.old.Err == "" {
				a, b := runStore(c, true, o.nw.Roots), runStore(c, false, o.old.Roots)
				o.stN, o.stO = &a, &b
			}
		}) {
			o.nw.Err = "hang: the state histories did not finish within the deadline"
		}
		o.want, o.alt = specStateTrace(c)
		outs[i] = o
	})
	// model answers (new backend: purge; deprecated backend: as probed on the tree under test)
	var answers [2][]string
	var offs []int
	bIdx := make([][]int, len(cases))
	dIdx := make([][]int, len(cases))
	oIdx := make([][]int, len(cases))
	if drv != nil {
		for v, purge := range []bool{true, legacyPurgeVariant} {
			var all []string
			offs = offs[:0]
			for i, c := range cases {
				offs = append(offs, len(all))
				var ls []string
				ls, bIdx[i], dIdx[i], oIdx[i] = stateModelLinesOld(c, 0, purge, oldFixedVariant[v])
				all = append(all, ls...)
			}
			a, err := drv.AskAll(all)
			if err != nil {
				res.Fatalf("Lean driver died / answered short in family %s: %v", family, err)
				res.Mismatch(lib.Mismatch{Sig: "driver-died", Input: family, Model: err.Error()})
				a = nil
			}
			answers[v] = a
		}
	}
	// round 4: further models of the same histories — (a) the state model on tries reopened from the node
	// database for every block, (b) what the node stores per block through Finalise, (c) through Store
	type xoff struct {
		l, fN, fO, sN, sO, y, m           int   // offsets into xans (-1 = not asked)
		lIdx, fNi, fOi, sNi, sOi, yi, mi []int // line index of every block
	}
	xo := make([]xoff, len(cases))
	var xans []string
	if drv != nil {
		var all []string
		for i, c := range cases {
			o := &outs[i]
			x := xoff{l: -1, fN: -1, fO: -1, sN: -1, sO: -1, y: -1, m: -1}
			add := func(off *int, idx *[]int, ls []string, ix []int) {
				*off = len(all)
				*idx = ix
				all = append(all, ls...)
			}
			if o.nw.Err == "" {
				ls, ix := stateLModelLines(c, 0)
				add(&x.l, &x.lIdx, ls, ix)
			}
			if o.old.Err == "" {
				ls, ix := legacyStateModelLines(c, 0, legacyPurgeVariant)
				add(&x.y, &x.yi, ls, ix)
			}
			if o.nw.Err == "" && o.old.Err == "" {
				// (the model keeps the legacy state next to the native one until a migration: both must accept)
				ls, ix := recordModelLines(c, 0)
				add(&x.m, &x.mi, ls, ix)
			}
			if o.chN != nil && o.chN.Err == "" {
				ls, ix := chainFinModelLines(c, 0, finaliseFixedVariant[0], true)
				add(&x.fN, &x.fNi, ls, ix)
			}
			if o.chO != nil && o.chO.Err == "" {
				ls, ix := chainFinModelLines(c, 0, finaliseFixedVariant[1], legacyPurgeVariant)
				add(&x.fO, &x.fOi, ls, ix)
			}
			if o.stN != nil && o.stN.Err == "" {
				ls, ix := chainStoreModelLines(c, 0, oldFixedVariant[0], true, o.stN)
				add(&x.sN, &x.sNi, ls, ix)
			}
			if o.stO != nil && o.stO.Err == "" {
				ls, ix := chainStoreModelLines(c, 0, oldFixedVariant[1], legacyPurgeVariant, o.stO)
				add(&x.sO, &x.sOi, ls, ix)
			}
			xo[i] = x
		}
		a, err := drv.AskAll(all)
		if err != nil {
			res.Fatalf("Lean driver died / answered short in family %s (round-4 models): %v", family, err)
			a = nil
		}
		xans = a
	}
	// three terms "root old new" of a chain-model answer against the stored values
	cmpStored := func(sig string, c *StateCase, n int, ans, root, old, new string) bool {
		res.Compared(1)
		fs := strings.Fields(ans)
		if len(fs) != 3 {
			res.Mismatch(lib.Mismatch{Sig: sig, Input: c, Model: fmt.Sprintf("block %d: %s", n, clip(ans)), Impl: fmt.Sprintf("root %s old %s new %s", root, old, new)})
			return false
		}
		for j, want := range []string{root, old, new} {
			v, err := evalTerm(fs[j])
			if err != nil || feltHex(&v) != want {
				res.Mismatch(lib.Mismatch{Sig: sig, Input: c, Model: fmt.Sprintf("block %d field %d (root/old/new): %s = %s", n, j, feltHex(&v), clip(fs[j])), Impl: want})
				return false
			}
		}
		return true
	}
	xcmp := func(i int, c *StateCase) {
		if xans == nil {
			return
		}
		o := &outs[i]
		x := xo[i]
		if x.l >= 0 {
			for n := range c.Blocks {
				a := xans[x.l+x.lIdx[n]]
				res.Compared(1)
				v, err := evalTerm(a)
				if err != nil || feltHex(&v) != at(o.nw.Roots, n) {
					res.Mismatch(lib.Mismatch{Sig: "state-root-on-reopened-tries", Input: c, Model: fmt.Sprintf("block %d: %s", n, clip(a)), Impl: at(o.nw.Roots, n)})
					break
				}
			}
			res.Hit("state:model-on-reopened-tries")
		}
		if x.m >= 0 {
			// core/state with the records' cached storage roots: root and the whole Contract bucket after every block
			for n := range c.Blocks {
				res.Compared(2)
				root, recs, err := parseMigAnswer(xans[x.m+x.mi[n]], true)
				if err != nil || root != at(o.nw.Roots, n) {
					res.Mismatch(lib.Mismatch{Sig: "state-root-with-cached-storage-roots", Input: c, Model: fmt.Sprintf("block %d: %s %v", n, root, err), Impl: at(o.nw.Roots, n)})
					break
				}
				if n < len(o.nw.Fields) {
					if d := compareSet(recs, o.nw.Fields[n]); d != "" {
						res.Mismatch(lib.Mismatch{Sig: "contract-records-after-block", Input: c, Model: fmt.Sprintf("block %d: %s", n, d)})
						break
					}
					res.HitN("store-diff:contract-records-compared", len(recs))
				}
			}
		}
		if x.y >= 0 {
			// the transcription of core/deprecatedstate: root and the two per-field buckets after every block
			for n := range c.Blocks {
				a := xans[x.y+x.yi[n]]
				res.Compared(2)
				fs := strings.Fields(a)
				if len(fs) == 0 || a == "rejected" {
					res.Mismatch(lib.Mismatch{Sig: "deprecatedstate-transcription-rejects", Input: c, Model: fmt.Sprintf("block %d: %s", n, clip(a)), Impl: at(o.old.Roots, n)})
					break
				}
				v, err := evalTerm(fs[0])
				if err != nil || feltHex(&v) != at(o.old.Roots, n) {
					res.Mismatch(lib.Mismatch{Sig: "deprecatedstate-transcription-root", Input: c, Model: fmt.Sprintf("block %d: %s", n, clip(fs[0])), Impl: at(o.old.Roots, n)})
					break
				}
				var model []string
				for _, f := range fs[1:] {
					model = append(model, strings.TrimPrefix(f, "F:"))
				}
				if n < len(o.old.Fields) {
					if d := compareSet(model, o.old.Fields[n]); d != "" {
						res.Mismatch(lib.Mismatch{Sig: "deprecatedstate-contract-field-buckets", Input: c, Model: fmt.Sprintf("block %d: %s", n, d)})
						break
					}
					res.HitN("store-diff:legacy-contract-field-entries-compared", len(model))
				}
			}
			res.Hit("state:deprecatedstate-transcription")
		}
		for _, ch := range []struct {
			off int
			idx []int
			t   *trace
			sig string
		}{{x.fN, x.fNi, o.chN, "finalise-stored-roots-new-state"}, {x.fO, x.fOi, o.chO, "finalise-stored-roots-legacy-state"}} {
			if ch.off < 0 {
				continue
			}
			res.Hit("state:chain-model-finalise")
			for n := range c.Blocks {
				if !cmpStored(ch.sig, c, n, xans[ch.off+ch.idx[n]], at(ch.t.Roots, n), at(ch.t.StoredOld, n), at(ch.t.StoredNew, n)) {
					break
				}
			}
		}
		for _, ch := range []struct {
			off int
			idx []int
			t   *trace
			sig string
		}{{x.sN, x.sNi, o.stN, "store-stored-roots-new-state"}, {x.sO, x.sOi, o.stO, "store-stored-roots-legacy-state"}} {
			if ch.off < 0 {
				continue
			}
			res.Hit("state:chain-model-store")
			rej := map[int]bool{}
			for _, n := range ch.t.OldRej {
				rej[n] = true
			}
			for n := range ch.idx {
				base := ch.off + ch.idx[n]
				res.Compared(2)
				if xans[base] != "rejected" {
					res.Mismatch(lib.Mismatch{Sig: ch.sig, Input: c, Model: fmt.Sprintf("block %d with a wrong new root: %s", n, clip(xans[base])), Impl: "rejected"})
					break
				}
				if (xans[base+1] == "rejected") != rej[n] {
					res.Mismatch(lib.Mismatch{Sig: ch.sig, Input: c, Model: fmt.Sprintf("block %d with the stored previous root as old root: %s", n, clip(xans[base+1])), Impl: fmt.Sprintf("rejected blocks %v", ch.t.OldRej)})
					break
				}
				acc := xans[base+1]
				if rej[n] {
					acc = xans[base+2]
					if n >= len(ch.t.StoredOld) {
						// the node rejected the block with the recomputed old root as well: so must the model
						res.Compared(1)
						if acc != "rejected" {
							res.Mismatch(lib.Mismatch{Sig: ch.sig, Input: c, Model: fmt.Sprintf("block %d with the recomputed old root: %s", n, clip(acc)), Impl: "rejected"})
						}
						break
					}
				}
				if !cmpStored(ch.sig, c, n, acc, at(ch.t.Roots, n), at(ch.t.StoredOld, n), at(ch.t.StoredNew, n)) {
					break
				}
			}
		}
	}
	cmp := func(sig string, ci int, c *StateCase, ans []string, off int, impl trace) {
		if ans == nil || impl.Err != "" {
			return
		}
		// roots computed by the dropped updates (where the path yields one)
		for j, idx := range dIdx[ci] {
			want := at(impl.DRoots, j)
			if want == "" || want == "<missing>" {
				continue
			}
			a := ans[off+idx]
			res.Compared(1)
			v, err := evalTerm(a)
			if err != nil || feltHex(&v) != want {
				res.Mismatch(lib.Mismatch{Sig: sig + "-of-dropped-update", Input: c, Model: clip(a), Impl: want})
				return
			}
		}
		// the old-root check: the model rejects the stored root exactly where the code does
		rej := map[int]bool{}
		for _, n := range impl.OldRej {
			rej[n] = true
		}
		for j, idx := range oIdx[ci] {
			a := ans[off+idx]
			res.Compared(1)
			if (a == "mismatch") != rej[j+1] || (a != "mismatch" && a != "ok") {
				res.Mismatch(lib.Mismatch{Sig: sig + "-old-root-check", Input: c, Model: fmt.Sprintf("block %d: %s", j+1, a), Impl: fmt.Sprintf("rejected blocks %v %s", impl.OldRej, impl.OldRejErr)})
				return
			}
		}
		for n := range c.Blocks {
			a := ans[off+bIdx[ci][n]]
			res.Compared(1)
			if a == "rejected" {
				res.Mismatch(lib.Mismatch{Sig: sig + "-model-rejects", Input: c, Model: a, Impl: at(impl.Roots, n)})
				return
			}
			v, err := evalTerm(a)
			if err != nil || feltHex(&v) != at(impl.Roots, n) {
				res.Mismatch(lib.Mismatch{Sig: sig, Input: c, Model: feltHex(&v) + " = " + clip(a), Impl: at(impl.Roots, n)})
				return
			}
		}
	}
	for i, c := range cases {
		o := outs[i]
		if drv != nil {
			cmp("state-root", i, c, answers[0], offs[i], o.nw)
			cmp("deprecatedstate-root", i, c, answers[1], offs[i], o.old)
			xcmp(i, c)
		}
		key, _ := json.Marshal(c)
		res.Case(string(key), len(c.Blocks) >= 2)
		res.Hit("family:" + family)
		classifyState(res, c)
		res.Sample(8, c)
		rep := func(fails func(*StateCase) bool) any {
			b, _ := json.Marshal(shrinkState(c, fails))
			return replayBody{Kind: "state", State: b}
		}
		// the same history through Blockchain.Finalise / Simulate, both WithNewState settings
		for _, ch := range []struct {
			t    *trace
			name string
			nw   bool
		}{{o.chN, "new", true}, {o.chO, "legacy", false}} {
			if ch.t == nil {
				continue
			}
			res.Hit("state:via-Blockchain.Finalise")
			t, name, nw := ch.t, ch.name, ch.nw
			ref := o.nw
			if !nw {
				ref = o.old
			}
			switch {
			case t.Leak != "":
				sig := "blockchain-simulate-leaves-trace-in-database-" + name + "-state"
				violateOnce(res, sig, func() lib.Violation {
					return lib.Violation{Sig: sig, What: "Blockchain.Simulate changed the database: " + t.Leak,
						Replay: rep(func(c *StateCase) bool { return runChain(c, nw).Leak != "" })}
				})
			case t.Err != "" && ref.Err == "":
				sig := "blockchain-finalise-fails-on-valid-history-" + name + "-state"
				violateOnce(res, sig, func() lib.Violation {
					return lib.Violation{Sig: sig, What: t.Err,
						Replay: rep(func(c *StateCase) bool { return runChain(c, nw).Err != "" })}
				})
			case t.Err == "" && ref.Err == "" && firstDiff(t.Roots, ref.Roots) >= 0:
				// the state layer itself is judged below; here only: Finalise signs the root the state computes
				d := firstDiff(t.Roots, ref.Roots)
				sig := "finalise-root-differs-from-state-root-" + name + "-state"
				violateOnce(res, sig, func() lib.Violation {
					return lib.Violation{Sig: sig,
						What: fmt.Sprintf("block %d: Header.GlobalStateRoot produced by Blockchain.Finalise is %s, the state's own Update/Commitment gives %s", d, at(t.Roots, d), at(ref.Roots, d)),
						Replay: rep(func(c *StateCase) bool {
							a := runChain(c, nw)
							b := runNewState(c)
							if !nw {
								b = runOldState(c)
							}
							return a.Err == "" && b.Err == "" && firstDiff(a.Roots, b.Roots) >= 0
						})}
				})
			}
		}
		// the same history through Blockchain.Store (sync path: stored old root, new root verified by the node)
		for _, ch := range []struct {
			t    *trace
			name string
			nw   bool
		}{{o.stN, "new", true}, {o.stO, "legacy", false}} {
			if ch.t == nil {
				continue
			}
			res.Hit("state:via-Blockchain.Store")
			t, name, nw := ch.t, ch.name, ch.nw
			ref := o.nw
			if !nw {
				ref = o.old
			}
			rejAtState := map[int]bool{}
			for _, n := range ref.OldRej {
				rejAtState[n] = true
			}
			switch {
			case t.Leak != "":
				sig := "blockchain-store-rejected-block-leaves-trace-in-database-" + name + "-state"
				violateOnce(res, sig, func() lib.Violation {
					return lib.Violation{Sig: sig, What: t.Leak,
						Replay: rep(func(c *StateCase) bool {
							r := runNewState(c)
							if !nw {
								r = runOldState(c)
							}
							return r.Err == "" && runStore(c, nw, r.Roots).Leak != ""
						})}
				})
			case t.Err != "":
				sig := "blockchain-store-fails-on-valid-block-" + name + "-state"
				if strings.Contains(t.Err, "accepted a block whose new root is wrong") {
					sig = "blockchain-store-accepts-wrong-new-root-" + name + "-state"
				}
				violateOnce(res, sig, func() lib.Violation {
					return lib.Violation{Sig: sig, What: t.Err,
						Replay: rep(func(c *StateCase) bool {
							r := runNewState(c)
							if !nw {
								r = runOldState(c)
							}
							return r.Err == "" && runStore(c, nw, r.Roots).Err != ""
						})}
				})
			case len(t.OldRej) > 0 && subsetOf(t.OldRej, rejAtState):
				// the same rejection as at the state layer (reported there)
				res.Hit("state:Blockchain.Store-rejects-block-at-formula-switch")
			case len(t.OldRej) > 0:
				sig := "blockchain-store-rejects-block-the-state-accepts-" + name + "-state"
				violateOnce(res, sig, func() lib.Violation {
					return lib.Violation{Sig: sig, What: fmt.Sprintf("block %d: Blockchain.Store: %s; the state's own Update accepts the same update with the same old and new root", t.OldRej[0], t.OldRejErr),
						Replay: rep(func(c *StateCase) bool {
							r := runNewState(c)
							if !nw {
								r = runOldState(c)
							}
							st := runStore(c, nw, r.Roots)
							m := map[int]bool{}
							for _, n := range r.OldRej {
								m[n] = true
							}
							return r.Err == "" && len(st.OldRej) > 0 && !subsetOf(st.OldRej, m)
						})}
				})
			case len(rejAtState) == 0 && len(t.Roots) != len(c.Blocks):
				res.Fatalf("Blockchain.Store history ended early without an error (%d of %d blocks)", len(t.Roots), len(c.Blocks))
			}
		}
		// the root stored for block n-1 must be accepted as OldRoot of block n; the state update stored for
		// block n must start at it
		sw := formulaSwitches(c, false)
		swAlt := formulaSwitches(c, true)
		for _, ch := range []struct {
			t    *trace
			name string
			nw   bool
			sw   map[int]bool
		}{{&o.nw, "state", true, sw}, {&o.old, "deprecatedstate", false, swAlt}} {
			t, name, nw, sw := ch.t, ch.name, ch.nw, ch.sw
			if len(t.OldRej) == 0 {
				continue
			}
			run := func(c *StateCase) trace {
				if nw {
					return runNewState(c)
				}
				return runOldState(c)
			}
			if subsetOf(t.OldRej, sw) {
				sig := name + "-rejects-stored-old-root-at-commitment-formula-switch"
				violateOnce(res, sig, func() lib.Violation {
					return lib.Violation{Sig: sig,
						What: fmt.Sprintf("core/%s.Update rejects block %d (version %s) whose OldRoot is the root stored for block %d (version %s): %s. "+
							"The class trie is empty, so the stored root is the pre-0.14.0 commitment (the contract root), but the old root is verified under the NEW block's version "+
							"(Poseidon(STARKNET_STATE_V0, contractRoot, 0)); the update is accepted only with an OldRoot that no previous block stored",
							name, t.OldRej[0], c.Blocks[t.OldRej[0]].Version, t.OldRej[0]-1, c.Blocks[t.OldRej[0]-1].Version, t.OldRejErr),
						Replay: rep(func(c *StateCase) bool {
							r := run(c)
							return len(r.OldRej) > 0 && subsetOf(r.OldRej, formulaSwitches(c, !nw))
						})}
				})
			} else {
				sig := name + "-rejects-stored-old-root"
				violateOnce(res, sig, func() lib.Violation {
					return lib.Violation{Sig: sig,
						What: fmt.Sprintf("core/%s.Update rejects a block whose OldRoot is the root stored for the previous block (blocks %v): %s", name, t.OldRej, t.OldRejErr),
						Replay: rep(func(c *StateCase) bool {
							r := run(c)
							return len(r.OldRej) > 0 && !subsetOf(r.OldRej, formulaSwitches(c, !nw))
						})}
				})
			}
		}
		for _, ch := range []struct {
			t  *trace
			nw bool
			sw map[int]bool
		}{{o.chN, true, sw}, {o.chO, false, swAlt}} {
			if ch.t == nil || len(ch.t.OldStored) == 0 {
				continue
			}
			t, nw := ch.t, ch.nw
			sig := "finalise-stores-old-root-other-than-previous-block-root"
			if subsetOf(t.OldStored, ch.sw) {
				sig += "-at-commitment-formula-switch"
			}
			atSwitch := subsetOf(t.OldStored, ch.sw)
			violateOnce(res, sig, func() lib.Violation {
				return lib.Violation{Sig: sig,
					What: fmt.Sprintf("Blockchain.Finalise (WithNewState=%v): the state update stored for block %d has an OldRoot that is not the GlobalStateRoot stored for block %d "+
						"(updateStateRoots replaces the caller's OldRoot by the commitment recomputed under the new block's protocol version)", nw, t.OldStored[0], t.OldStored[0]-1),
					Replay: rep(func(c *StateCase) bool {
						r := runChain(c, nw)
						return len(r.OldStored) > 0 && subsetOf(r.OldStored, formulaSwitches(c, !nw)) == atSwitch
					})}
			})
		}
		// an update with a wrong old root must be rejected
		for _, ch := range []struct {
			t    *trace
			name string
			nw   bool
		}{{&o.nw, "state", true}, {&o.old, "deprecatedstate", false}} {
			if !strings.Contains(ch.t.Leak, "wrong OldRoot was accepted") {
				continue
			}
			t, name, nw := ch.t, ch.name, ch.nw
			sig := name + "-accepts-wrong-old-root"
			violateOnce(res, sig, func() lib.Violation {
				return lib.Violation{Sig: sig, What: "core/" + name + ".Update: " + t.Leak,
					Replay: rep(func(c *StateCase) bool {
						r := runOldState(c)
						if nw {
							r = runNewState(c)
						}
						return strings.Contains(r.Leak, "wrong OldRoot was accepted")
					})}
			})
			t.Leak = ""
		}
		// dropped updates must leave no trace
		if o.nw.Leak != "" {
			violateOnce(res, "state-dropped-update-leaves-trace-in-database", func() lib.Violation {
				return lib.Violation{Sig: "state-dropped-update-leaves-trace-in-database",
					What:   "core/state: an update executed on a batch that was never written changed the database / the readable state: " + o.nw.Leak,
					Replay: rep(func(c *StateCase) bool { return runNewState(c).Leak != "" })}
			})
		}
		if o.old.Leak != "" {
			violateOnce(res, "deprecatedstate-dropped-update-leaves-trace-in-database", func() lib.Violation {
				return lib.Violation{Sig: "deprecatedstate-dropped-update-leaves-trace-in-database",
					What:   "core/deprecatedstate: an update executed on a transaction that was never written changed the database / the readable state: " + o.old.Leak,
					Replay: rep(func(c *StateCase) bool { return runOldState(c).Leak != "" })}
			})
		}
		// new backend
		if o.nw.Err != "" {
			violateOnce(res, "state-update-fails-on-valid-history", func() lib.Violation { return lib.Violation{Sig: "state-update-fails-on-valid-history", What: "core/state: " + o.nw.Err,
				Replay: rep(func(c *StateCase) bool { return runNewState(c).Err != "" })} })
		} else if d := firstDiff(o.nw.Roots, o.want); d >= 0 && primitiveIsCauseState(c, o.nw.Roots) {
			b, _ := json.Marshal(c)
			reportPrimitiveInside(res, brokenPrimitiveState(c, o.nw.Roots), replayBody{Kind: "state", State: b}, at(o.nw.Roots, d), at(o.want, d))
		} else if d >= 0 {
			violateOnce(res, "state-root-differs-from-commitment-of-state", func() lib.Violation { return lib.Violation{Sig: "state-root-differs-from-commitment-of-state",
				What: fmt.Sprintf("core/state root after block %d is %s, the Starknet commitment of the resulting state is %s", d, at(o.nw.Roots, d), at(o.want, d)),
				Replay: rep(func(c *StateCase) bool {
					w, _ := specStateTrace(c)
					t := runNewState(c)
					return t.Err == "" && firstDiff(t.Roots, w) >= 0
				})} })
		}
		// deprecated backend
		if o.old.Err != "" {
			violateOnce(res, "deprecatedstate-update-fails-on-valid-history", func() lib.Violation { return lib.Violation{Sig: "deprecatedstate-update-fails-on-valid-history", What: "core/deprecatedstate: " + o.old.Err,
				Replay: rep(func(c *StateCase) bool { return runOldState(c).Err != "" })} })
		} else if d := firstDiff(o.old.Roots, o.want); d >= 0 && firstDiff(o.old.Roots, o.alt) >= 0 && primitiveIsCauseState(c, o.old.Roots) {
			b, _ := json.Marshal(c)
			reportPrimitiveInside(res, brokenPrimitiveState(c, o.old.Roots), replayBody{Kind: "state", State: b}, at(o.old.Roots, d), at(o.want, d))
		} else if d >= 0 {
			if firstDiff(o.old.Roots, o.alt) < 0 {
				// the only deviation: a system contract whose storage became empty keeps a non-zero leaf
				violateOnce(res, "deprecatedstate-keeps-leaf-of-emptied-system-contract", func() lib.Violation { return lib.Violation{Sig: "deprecatedstate-keeps-leaf-of-emptied-system-contract",
					What: fmt.Sprintf("core/deprecatedstate root after block %d is %s; the commitment of the resulting state (and core/state) is %s: "+
						"a system contract (0x1/0x2) whose storage was written and later fully zeroed keeps the leaf H(H(H(0,0),0),0) in the legacy contract trie", d, at(o.old.Roots, d), at(o.want, d)),
					Replay: rep(func(c *StateCase) bool {
						w, a := specStateTrace(c)
						t := runOldState(c)
						return t.Err == "" && firstDiff(t.Roots, w) >= 0 && firstDiff(t.Roots, a) < 0
					})} })
			} else {
				violateOnce(res, "deprecatedstate-root-differs-from-commitment-of-state", func() lib.Violation { return lib.Violation{Sig: "deprecatedstate-root-differs-from-commitment-of-state",
					What: fmt.Sprintf("core/deprecatedstate root after block %d is %s, the Starknet commitment of the resulting state is %s", d, at(o.old.Roots, d), at(o.want, d)),
					Replay: rep(func(c *StateCase) bool {
						w, a := specStateTrace(c)
						t := runOldState(c)
						return t.Err == "" && firstDiff(t.Roots, w) >= 0 && firstDiff(t.Roots, a) >= 0
					})} })
			}
		}
	}
}

func classifyState(res *lib.Result, c *StateCase) {
	if c.Restarts {
		res.Hit("state:restart-before-every-block(new StateDB / Blockchain objects)")
	}
	for n := range c.Blocks {
		if k := len(c.Blocks[n].Declared) + len(c.Blocks[n].Migrated); k >= 2 {
			res.Hit("state:block-writes-several-class-trie-leaves")
			if len(c.Blocks[n].Declared) >= 2 {
				res.Hit("state:block-declares-several-classes")
			}
			if len(c.Blocks[n].Migrated) >= 2 {
				res.Hit("state:block-migrates-several-classes")
			}
			if len(c.Blocks[n].Declared) >= 1 && len(c.Blocks[n].Migrated) >= 1 {
				res.Hit("state:block-declares-and-migrates")
			}
		}
		for ch := range c.Blocks[n].Migrated {
			if _, both := c.Blocks[n].Declared[ch]; both {
				res.Hit("state:class-declared-and-migrated-in-one-block")
			}
		}
	}
	a := newAbs()
	for n := range c.Blocks {
		b := &c.Blocks[n]
		res.Hit("state:block-version=" + b.Version)
		for _, d := range b.Before {
			res.Hit("state:dropped-update:" + d.Mode)
			if d.Reopen {
				res.Hit("state:dropped-update:then-reopen")
			}
			for addr := range d.Diff.Storage {
				if _, ok := a.contracts[addr]; ok {
					res.Hit("state:dropped-update-writes-existing-contract-storage")
					break
				}
			}
		}
		if len(b.Deployed) > 0 {
			res.Hit("state:deploy")
		}
		if len(b.Replaced) > 0 {
			res.Hit("state:replace-class")
		}
		if len(b.Nonces) > 0 {
			res.Hit("state:nonce")
		}
		if len(b.Declared) > 0 {
			res.Hit("state:declare")
		}
		if len(b.Migrated) > 0 {
			res.Hit("state:migrate-casm")
		}
		if len(b.DeclaredV0) > 0 {
			res.Hit("state:declare-cairo0")
		}
		if len(b.NoDef) > 0 {
			res.Hit("state:declared-without-definition")
		}
		if len(b.ExtraDefs) > 0 {
			res.Hit("state:definition-without-declaration")
		}
		for ch := range b.Declared {
			for m := 0; m < n; m++ {
				if containsStr(c.Blocks[m].ExtraDefs, ch) {
					res.Hit("state:class-declared-after-its-definition-was-registered")
					break
				}
			}
		}
		if n > 0 && pre014(c.Blocks[n-1].Version) != pre014(b.Version) {
			_, cr, clr := a.commitment(b.Version, false)
			switch {
			case clr.IsZero() && !cr.IsZero():
				res.Hit("state:formula-switch:class-trie-empty")
			case clr.IsZero():
				res.Hit("state:formula-switch:state-empty")
			default:
				res.Hit("state:formula-switch:class-trie-nonempty")
			}
		}
		before := map[string]int{}
		for addr, ct := range a.contracts {
			before[addr] = len(ct.storage)
		}
		a.apply(b)
		addrs := make([]string, 0, len(b.Storage))
		for addr := range b.Storage {
			addrs = append(addrs, addr)
		}
		sort.Strings(addrs)
		for _, addr := range addrs {
			res.Hit("state:storage-diff")
			if isSystem(addr) {
				res.Hit("state:system-contract-storage")
			}
			if before[addr] > 0 && len(a.contracts[addr].storage) == 0 {
				res.Hit("state:storage-emptied")
				if isSystem(addr) {
					res.Hit("state:system-contract-storage-emptied")
				}
			}
		}
		_, _, classRoot := a.commitment(b.Version, false)
		if classRoot.IsZero() {
			res.Hit("state:class-trie-empty")
		} else {
			res.Hit("state:class-trie-nonempty")
		}
	}
}

// ---- version-switch histories (explicit) -----------------------------------------------------------

func versionSwitchCases() []*StateCase {
	var out []*StateCase
	dep := func(v string) SBlock { return SBlock{Version: v, Deployed: map[string]string{"abc": "c1a55"}} }
	depDecl := func(v string) SBlock {
		return SBlock{Version: v, Deployed: map[string]string{"abc": "c1a55"}, Declared: map[string]string{"c1a55": "ca5a1"}}
	}
	nonce := func(v string) SBlock { return SBlock{Version: v, Nonces: map[string]string{"abc": "1"}} }
	decl := func(v string) SBlock { return SBlock{Version: v, Declared: map[string]string{"c1a56": "ca5a2"}} }
	for _, vs := range [][2]string{{"0.13.2", "0.14.0"}, {"0.13.10", "0.14"}, {"", "0.14.1"}, {"0.9.9", "0.13.10"}, {"0.13.6", "0.13.6"}, {"0.14.0", "0.14.1"}, {"0.9.9", "0.14.0"}} {
		a, b := vs[0], vs[1]
		// class trie empty at the switch; the switch block changes a nonce / declares the first class / is empty
		out = append(out, &StateCase{Blocks: []SBlock{dep(a), nonce(b)}})
		out = append(out, &StateCase{Blocks: []SBlock{dep(a), decl(b), nonce(b)}})
		out = append(out, &StateCase{Blocks: []SBlock{dep(a), {Version: b}, nonce(b)}})
		// class trie non-empty at the switch
		out = append(out, &StateCase{Blocks: []SBlock{depDecl(a), nonce(b), decl(b)}})
		// empty state at the switch; only a system contract at the switch
		out = append(out, &StateCase{Blocks: []SBlock{{Version: a}, dep(b), nonce(b)}})
		out = append(out, &StateCase{Blocks: []SBlock{{Version: a, Storage: map[string]map[string]string{"1": {"7": "5"}}}, {Version: b, Storage: map[string]map[string]string{"1": {"8": "5"}}}}})
		// dropped updates right at the switch
		for _, mode := range []string{"close", "simulate", "badroot"} {
			out = append(out, &StateCase{Blocks: []SBlock{dep(a),
				{Version: b, Nonces: map[string]string{"abc": "2"}, Before: []Discarded{{Diff: nonce(b), Mode: mode, Reopen: mode == "close"}}}}})
		}
	}
	// entries that do not change the abstract state: Cairo-0 declaration, declared-without-definition
	out = append(out, &StateCase{Blocks: []SBlock{
		{Version: "0.13.2", Deployed: map[string]string{"abc": "c1a55"}, DeclaredV0: []string{"c0c0"}, NoDef: map[string]string{"c1a57": "ca5a1"}},
		{Version: "0.14.0", Declared: map[string]string{"c1a55": "ca5a1"}, NoDef: map[string]string{"c1a58": "ca5a1"}},
	}})
	return out
}

// ---- invalid diffs: the acceptance predicate of model and both backends ---------------------------------

type invalidCase struct {
	Kind string     `json:"kind"`
	Case *StateCase `json:"case"` // the LAST block is invalid on the state before it
}

func genInvalidCases(r *lib.RNG, n int) []*invalidCase {
	var out []*invalidCase
	for i := 0; i < n; i++ {
		rr := r.Fork(uint64(i))
		c := genStateCase(rr, rr.Range(1, 3))
		for bi := range c.Blocks {
			c.Blocks[bi].Before = nil
		}
		a := newAbs()
		for bi := range c.Blocks {
			a.apply(&c.Blocks[bi])
		}
		ver := c.Blocks[len(c.Blocks)-1].Version
		var existing, fresh []string
		for addr := range a.contracts {
			// (not a system address: an emptied system contract is purged by core/state and kept by
			// core/deprecatedstate — the known finding — so "already deployed" is backend dependent there;
			// deploying at 0x1/0x2 is outside the input space anyway, see notes)
			if !isSystem(addr) {
				existing = append(existing, addr)
			}
		}
		sort.Strings(existing)
		for _, addr := range []string{"1", "2", "def", "7ff"} {
			if _, ok := a.contracts[addr]; !ok {
				fresh = append(fresh, addr)
			}
		}
		kinds := []string{"replace-undeployed", "nonce-undeployed", "storage-undeployed"}
		if len(existing) > 0 {
			kinds = append(kinds, "deploy-existing")
		}
		kind := lib.Pick(rr, kinds)
		bad := SBlock{Version: ver}
		// a valid part next to the invalid entry, so that "state is not updated" has something to lose
		bad.Declared = map[string]string{"c1a5f": "ca5a1"}
		switch kind {
		case "deploy-existing":
			bad.Deployed = map[string]string{lib.Pick(rr, existing): "c1a56"}
		case "replace-undeployed":
			bad.Replaced = map[string]string{lib.Pick(rr, fresh): "c1a56"}
		case "nonce-undeployed":
			bad.Nonces = map[string]string{lib.Pick(rr, fresh): "1"}
		case "storage-undeployed":
			bad.Storage = map[string]map[string]string{lib.Pick(rr, []string{"def", "7ff"}): {"1": "1"}}
		}
		c.Blocks = append(c.Blocks, bad)
		out = append(out, &invalidCase{Kind: kind, Case: c})
	}
	return out
}

func checkInvalidDiffs(f lib.Flags, res *lib.Result, drv *lib.Driver, cases []*invalidCase) {
	t0 := time.Now()
	defer func() {
		res.HitN("ms:state-invalid-diff", int(time.Since(t0).Milliseconds()))
		if f.Out != "" {
			_ = res.Write(f.Out)
		}
	}()
	type outcome struct{ nw, old trace }
	outs := make([]outcome, len(cases))
	parallel(cases, func(i int, ic *invalidCase) {
		var o outcome
		if !lib.WithDeadline(deadline(), func() {
			o.nw = runNewState(ic.Case)
			o.old = runOldState(ic.Case)
		}) {
			res.Fatalf("invalid-diff case did not finish within the harness deadline")
		}
		outs[i] = o
	})
	var all []string
	var lastIdx []int
	if drv != nil {
		for _, ic := range cases {
			ls, bIdx, _ := stateModelLines(ic.Case, 0, true)
			lastIdx = append(lastIdx, len(all)+bIdx[len(bIdx)-1])
			all = append(all, ls...)
		}
	}
	var ans []string
	if drv != nil {
		var err error
		if ans, err = drv.AskAll(all); err != nil {
			res.Fatalf("Lean driver died / answered short in family state-invalid-diff: %v", err)
			ans = nil
		}
	}
	for i, ic := range cases {
		last := len(ic.Case.Blocks) - 1
		key, _ := json.Marshal(ic)
		res.Case("invalid:"+string(key), true)
		res.Hit("family:state-invalid-diff")
		res.Hit("state:invalid-diff:" + ic.Kind)
		body, _ := json.Marshal(ic.Case)
		rejected := func(t trace) (bool, string) {
			pre := fmt.Sprintf("block %d:", last)
			switch {
			case strings.HasPrefix(t.Err, "panic"):
				return false, t.Err
			case strings.HasPrefix(t.Err, pre):
				return true, ""
			case t.Err == "":
				return false, "accepted, root " + at(t.Roots, last)
			default:
				return false, t.Err
			}
		}
		rn, wn := rejected(outs[i].nw)
		ro, wo := rejected(outs[i].old)
		if !rn || !ro {
			sig := "state-accepts-invalid-diff"
			if rn != ro {
				sig = "state-backends-disagree-on-acceptance"
			}
			violateOnce(res, sig, func() lib.Violation {
				return lib.Violation{Sig: sig, What: fmt.Sprintf("diff of kind %s must be rejected with an error and leave the state unchanged; core/state: %q, core/deprecatedstate: %q", ic.Kind, wn, wo),
					Replay: replayBody{Kind: "state", State: body}}
			})
		}
		if ans != nil {
			res.Compared(1)
			if (ans[lastIdx[i]] == "rejected") != rn {
				res.Mismatch(lib.Mismatch{Sig: "state-acceptance", Input: ic, Model: clip(ans[lastIdx[i]]), Impl: fmt.Sprintf("rejected=%v %s", rn, wn)})
			}
		}
	}
}
