//go:build verif

package main

import (
	"fmt"
	"math/big"
	"sort"
	"strings"

	"github.com/NethermindEth/juno/core/crypto"
	"github.com/NethermindEth/juno/core/felt"
	"github.com/NethermindEth/juno/core/trie"
	"github.com/NethermindEth/juno/core/trie2"
	"github.com/NethermindEth/juno/core/trie2/triedb/rawdb"
	"github.com/NethermindEth/juno/core/trie2/trienode"
	"github.com/NethermindEth/juno/core/trie2/trieutils"
	"github.com/NethermindEth/juno/db/memory"
	"verif/harness/lib"
)

// TOp is one step of a trie history. Op: "put" (K,V hex; V=0 deletes), "hash" (Hash(): observe the
// root, keep going on the same object), "commit" (Commit(), persist, drop the object, reopen), "get" (Get(K)
// on the WRITING object: trie2 resolves and keeps the nodes on the way).
type TOp struct {
	Op string `json:"op"`
	K  string `json:"k,omitempty"`
	V  string `json:"v,omitempty"`
}

type TrieCase struct {
	Height int    `json:"height"`
	Hash   string `json:"hash"`  // ped | pos
	Owner  string `json:"owner"` // "" = contract-trie style id, else storage trie of that owner
	Ops    []TOp  `json:"ops"`
}

func hashFnOf(name string) crypto.HashFn {
	if name == "pos" {
		return crypto.Poseidon
	}
	return crypto.Pedersen
}

func hexFelt(s string) felt.Felt {
	n, ok := new(big.Int).SetString(s, 16)
	if !ok {
		panic("bad hex " + s)
	}
	var f felt.Felt
	f.SetBigInt(n)
	return f
}

func feltHex(f *felt.Felt) string { return f.BigInt(new(big.Int)).Text(16) }

// observation points: root after each hash / commit marker and at the end
type trace struct {
	Sets  [][]string `json:"-"` // canonical node set of every Commit (trie2 only)
	Disks [][]string `json:"-"` // canonical dump of the whole node database after every Commit (trie2 only)
	Roots []string `json:"roots"`
	Err   string   `json:"err,omitempty"`
	Read  string   `json:"read,omitempty"` // first read-back (Get after reopen) that differs from the map
	Gets  []string `json:"-"`              // answers of the "get" ops
	Leak  string   `json:"leak,omitempty"` // first dropped update that left a trace in the database
	DRoots []string `json:"-"`             // roots computed by the dropped updates ("" = none)
	// state level: blocks whose Update was REJECTED when given the root stored for the previous block as
	// OldRoot (commitment-mismatch error) and accepted with the old root recomputed under the new block's version
	OldRej    []int  `json:"-"`
	OldRejErr string `json:"-"`
	// chain level: blocks for which the stored StateUpdate.OldRoot is not the root stored in the previous header
	OldStored []int `json:"-"`
	// chain level: StateUpdate.OldRoot / NewRoot as stored for every block; number of blocks Store was tried on
	StoredOld   []string `json:"-"`
	StoredNew   []string `json:"-"`
	StoreBlocks int      `json:"-"`
	// legacy state: the ContractClassHash / ContractNonce buckets after every block (`addr:class:nonce`, sorted)
	Fields [][]string `json:"-"`
}

type getter interface {
	Get(key *felt.Felt) (felt.Felt, error)
}

// readBack compares Get of every key ever written with the abstract map.
func readBack(g getter, m map[string]string) string {
	keys := make([]string, 0, len(m))
	for k := range m {
		keys = append(keys, k)
	}
	sort.Strings(keys)
	for _, k := range keys {
		kf := hexFelt(k)
		v, err := g.Get(&kf)
		if err != nil {
			return fmt.Sprintf("Get(%s): %v", k, err)
		}
		if feltHex(&v) != m[k] {
			return fmt.Sprintf("Get(%s) = %s, last value written is %s", k, feltHex(&v), m[k])
		}
	}
	return ""
}

// ---- trie2 on rawdb over the memory store, with commit + reopen ---------------------------

type t2sess struct {
	disk   *memory.Database
	tdb    *rawdb.Database
	id     trieutils.TrieID
	height uint8
	hf     crypto.HashFn
	tr     *trie2.Trie
	owner  felt.Address
	lastSet []string
	lastDisk []string
}

func openT2(c *TrieCase) (*t2sess, error) {
	s := &t2sess{disk: memory.New(), height: uint8(c.Height), hf: hashFnOf(c.Hash)}
	s.tdb = rawdb.New(s.disk)
	one := felt.StateRootHash(felt.FromUint64[felt.Felt](1))
	if c.Owner == "" {
		s.id = trieutils.NewContractTrieID(one)
	} else {
		s.owner = felt.Address(hexFelt(c.Owner))
		s.id = trieutils.NewContractStorageTrieID(one, s.owner)
	}
	return s, s.reopen()
}

func (s *t2sess) reopen() error {
	tr, err := trie2.New(s.id, s.height, s.hf, s.tdb)
	if err != nil {
		return err
	}
	s.tr = tr
	return nil
}

// canonSet renders a committed node set the way the Lean driver prints its own.
func canonSet(nodes *trienode.NodeSet, height uint8) []string {
	if nodes == nil {
		return []string{"none"}
	}
	type ent struct {
		l int
		p *big.Int
		s string
	}
	var es []ent
	for path, n := range nodes.Nodes {
		pf := path.Felt()
		pn := pf.BigInt(new(big.Int))
		pre := fmt.Sprintf("%d:%s", path.Len(), pn.Text(16))
		var str string
		if _, ok := n.(*trienode.DeletedNode); ok {
			l := "0"
			if n.IsLeaf() {
				l = "1"
			}
			str = "D:" + pre + ":" + l
		} else {
			h := n.Hash()
			dec, err := trienode.DecodeNode(n.Blob(), &h, path.Len(), height)
			switch d := dec.(type) {
			case *trienode.ValueNode:
				v := felt.Felt(*d)
				str = "L:" + pre + ":" + feltHex(&v)
			case *trienode.BinaryNode:
				l, r := d.Children[0].Hash(nil), d.Children[1].Hash(nil)
				str = "B:" + pre + ":" + feltHex(&h) + ":" + feltHex(&l) + ":" + feltHex(&r)
			case *trienode.EdgeNode:
				c := d.Child.Hash(nil)
				ef := d.Path.Felt()
				str = fmt.Sprintf("E:%s:%s:%s:%d:%s", pre, feltHex(&h), feltHex(&c), d.Path.Len(), ef.BigInt(new(big.Int)).Text(16))
			default:
				str = fmt.Sprintf("X:%s:%v", pre, err)
			}
		}
		es = append(es, ent{int(path.Len()), pn, str})
	}
	sort.Slice(es, func(i, j int) bool {
		if es[i].l != es[j].l {
			return es[i].l < es[j].l
		}
		return es[i].p.Cmp(es[j].p) < 0
	})
	out := make([]string, len(es))
	for i, e := range es {
		out[i] = e.s
	}
	return out
}

func (s *t2sess) commit() (felt.Felt, error) {
	root, nodes := s.tr.Commit()
	s.lastSet = canonSet(nodes, s.height)
	if nodes != nil {
		batch := s.disk.NewBatch()
		merged := trienode.NewMergeNodeSet(nodes)
		r := felt.StateRootHash(root)
		if err := s.tdb.Update(&r, &r, 0, nil, merged, batch); err != nil {
			return root, err
		}
		if err := batch.Write(); err != nil {
			return root, err
		}
	}
	s.lastDisk = s.canonDisk()
	return root, s.reopen()
}

// canonDisk renders the whole key/value content of the trie's database the way the Lean driver prints
// the model's (`bdump`): every key is parsed back into (path, leaf flag), every blob decoded.
// Key layout (trieutils.nodeKeyByPath): [bucket][32 bytes owner, if any][node type][encoded path].
func (s *t2sess) canonDisk() []string {
	type ent struct {
		l    int
		p    *big.Int
		leaf bool
		s    string
	}
	var es []ent
	skip := 1
	if !felt.IsZero(&s.owner) {
		skip += 32
	}
	for k, v := range dumpDB(s.disk) {
		kb := []byte(k)
		if len(kb) < skip+1 || kb[0] != byte(s.id.Bucket()) {
			es = append(es, ent{-1, new(big.Int), false, fmt.Sprintf("X:foreign-key:%x", kb)})
			continue
		}
		var path trieutils.Path
		if err := path.UnmarshalBinary(kb[skip+1:]); err != nil {
			es = append(es, ent{-1, new(big.Int), false, fmt.Sprintf("X:bad-path:%x", kb)})
			continue
		}
		// the node-type byte is not exported: rebuild both keys with the real key function
		isLeaf := false
		switch k {
		case s.keyOf(&path, true):
			isLeaf = true
		case s.keyOf(&path, false):
		default:
			es = append(es, ent{-1, new(big.Int), false, fmt.Sprintf("X:key-not-canonical:%x", kb)})
			continue
		}
		pf := path.Felt()
		pn := pf.BigInt(new(big.Int))
		lf := "0"
		if isLeaf {
			lf = "1"
		}
		pre := fmt.Sprintf("%d:%s:%s:", path.Len(), pn.Text(16), lf)
		var zero felt.Felt
		dec, err := trienode.DecodeNode([]byte(v), &zero, path.Len(), s.height)
		var str string
		switch d := dec.(type) {
		case *trienode.ValueNode:
			x := felt.Felt(*d)
			str = pre + "L:" + feltHex(&x)
		case *trienode.BinaryNode:
			l, r := d.Children[0].Hash(nil), d.Children[1].Hash(nil)
			str = pre + "B:" + feltHex(&l) + ":" + feltHex(&r)
		case *trienode.EdgeNode:
			c := d.Child.Hash(nil)
			ef := d.Path.Felt()
			str = fmt.Sprintf("%sE:%s:%d:%s", pre, feltHex(&c), d.Path.Len(), ef.BigInt(new(big.Int)).Text(16))
		default:
			str = fmt.Sprintf("%sX:%v", pre, err)
		}
		es = append(es, ent{int(path.Len()), pn, isLeaf, str})
	}
	sort.Slice(es, func(i, j int) bool {
		if es[i].l != es[j].l {
			return es[i].l < es[j].l
		}
		if c := es[i].p.Cmp(es[j].p); c != 0 {
			return c < 0
		}
		return !es[i].leaf && es[j].leaf
	})
	out := make([]string, len(es))
	for i, e := range es {
		out[i] = e.s
	}
	if len(out) == 0 {
		return []string{"empty"}
	}
	return out
}

// keyOf: the database key the real code uses for a node (through WriteNodeByPath on a scratch store)
func (s *t2sess) keyOf(path *trieutils.Path, isLeaf bool) string {
	scratch := memory.New()
	if err := trieutils.WriteNodeByPath(scratch, s.id.Bucket(), &s.owner, path, isLeaf, []byte{1}); err != nil {
		return ""
	}
	for k := range dumpDB(scratch) {
		return k
	}
	return ""
}

func runTrie2(c *TrieCase) (tr trace) {
	err, panicked, _ := lib.Try(func() error {
		s, err := openT2(c)
		if err != nil {
			return err
		}
		written := map[string]string{}
		for _, op := range c.Ops {
			switch op.Op {
			case "put":
				k, v := hexFelt(op.K), hexFelt(op.V)
				written[op.K] = feltHex(&v)
				if err := s.tr.Update(&k, &v); err != nil {
					return err
				}
			case "get":
				k := hexFelt(op.K)
				v, err := s.tr.Get(&k)
				if err != nil {
					return err
				}
				tr.Gets = append(tr.Gets, feltHex(&v))
				if want, ok := written[op.K]; (ok && want != feltHex(&v)) || (!ok && !v.IsZero()) {
					if tr.Read == "" {
						tr.Read = fmt.Sprintf("Get(%s) on the writing object = %s, last value written is %q", op.K, feltHex(&v), want)
					}
				}
			case "hash":
				h, err := s.tr.Hash()
				if err != nil {
					return err
				}
				tr.Roots = append(tr.Roots, feltHex(&h))
			case "commit":
				h, err := s.commit()
				if err != nil {
					return err
				}
				tr.Roots = append(tr.Roots, feltHex(&h))
				tr.Sets = append(tr.Sets, s.lastSet)
				tr.Disks = append(tr.Disks, s.lastDisk)
				if tr.Read == "" {
					// read back through a SECOND trie object: Get resolves (and re-hangs) every node it
					// passes, which would hide the write-through-unresolved-node code of the main object
					rd, err := trie2.New(s.id, s.height, s.hf, s.tdb)
					if err != nil {
						return err
					}
					tr.Read = readBack(rd, written)
				}
			}
		}
		h, err := s.tr.Hash()
		if err != nil {
			return err
		}
		tr.Roots = append(tr.Roots, feltHex(&h))
		return nil
	})
	if err != nil {
		tr.Err = err.Error()
		if panicked {
			tr.Err = "panic: " + tr.Err
		}
	}
	return tr
}

// ---- legacy core/trie on an indexed batch of the memory store ------------------------------

func runLegacy(c *TrieCase) (tr trace) {
	err, panicked, _ := lib.Try(func() error {
		disk := memory.New()
		txn := disk.NewIndexedBatch()
		prefix := []byte{0x7}
		if c.Owner != "" {
			o := hexFelt(c.Owner)
			prefix = append(prefix, o.Marshal()...)
		}
		open := func() (*trie.Trie, error) {
			if c.Hash == "pos" {
				return trie.NewTriePoseidon(txn, prefix, uint8(c.Height))
			}
			return trie.NewTriePedersen(txn, prefix, uint8(c.Height))
		}
		t, err := open()
		if err != nil {
			return err
		}
		written := map[string]string{}
		for _, op := range c.Ops {
			switch op.Op {
			case "put":
				k, v := hexFelt(op.K), hexFelt(op.V)
				written[op.K] = feltHex(&v)
				if _, err := t.Put(&k, &v); err != nil {
					return err
				}
			case "get":
				k := hexFelt(op.K)
				v, err := t.Get(&k)
				if err != nil {
					return err
				}
				if want, ok := written[op.K]; (ok && want != feltHex(&v)) || (!ok && !v.IsZero()) {
					if tr.Read == "" {
						tr.Read = fmt.Sprintf("Get(%s) on the writing object = %s, last value written is %q", op.K, feltHex(&v), want)
					}
				}
			case "hash":
				h, err := t.Hash()
				if err != nil {
					return err
				}
				tr.Roots = append(tr.Roots, feltHex(&h))
			case "commit":
				if err := t.Commit(); err != nil {
					return err
				}
				h, err := t.Hash()
				if err != nil {
					return err
				}
				tr.Roots = append(tr.Roots, feltHex(&h))
				if t, err = open(); err != nil {
					return err
				}
				if tr.Read == "" {
					rd, err := open()
					if err != nil {
						return err
					}
					tr.Read = readBack(rd, written)
				}
			}
		}
		h, err := t.Hash()
		if err != nil {
			return err
		}
		tr.Roots = append(tr.Roots, feltHex(&h))
		return nil
	})
	if err != nil {
		tr.Err = err.Error()
		if panicked {
			tr.Err = "panic: " + tr.Err
		}
	}
	return tr
}

// ---- abstract map semantics + independent spec roots at every observation point ------------

func specTrace(c *TrieCase) (roots []string, final map[string]felt.Felt) {
	return specTraceWith(c, indHashFnOf(c.Hash)) // the oracle does not use core/crypto
}

// primitiveIsCause: the real roots differ from the protocol's, but they ARE the commitment of the map
// when it is computed with juno's own hash function — the trie logic is fine, the primitive is not.
func primitiveIsCause(c *TrieCase, real []string) bool {
	js, _ := specTraceWith(c, hashFnOf(c.Hash))
	return firstDiff(real, js) < 0
}

func specTraceWith(c *TrieCase, hf crypto.HashFn) (roots []string, final map[string]felt.Felt) {
	m := map[string]felt.Felt{}
	obs := func() {
		r := specRoot(m, c.Height, hf)
		roots = append(roots, feltHex(&r))
	}
	for _, op := range c.Ops {
		switch op.Op {
		case "put":
			v := hexFelt(op.V)
			if v.IsZero() {
				delete(m, op.K)
			} else {
				m[op.K] = v
			}
		case "get":
		default:
			obs()
		}
	}
	obs()
	return roots, m
}

// script for the legacy (core/trie) model: commit = Hash() + reopen (dirty list dropped)
func legacyModelLines(c *TrieCase, id int) (lines []string, obsIdx []int) {
	lines = append(lines, fmt.Sprintf("lnew %d %d %s", id, c.Height, c.Hash))
	for _, op := range c.Ops {
		switch op.Op {
		case "put":
			lines = append(lines, fmt.Sprintf("lput %d %s %s", id, op.K, op.V))
		case "hash":
			obsIdx = append(obsIdx, len(lines))
			lines = append(lines, fmt.Sprintf("lhash %d", id))
		case "commit":
			obsIdx = append(obsIdx, len(lines))
			lines = append(lines, fmt.Sprintf("lhash %d", id))
			lines = append(lines, fmt.Sprintf("lreopen %d", id))
		}
	}
	obsIdx = append(obsIdx, len(lines))
	lines = append(lines, fmt.Sprintf("lhash %d", id))
	return lines, obsIdx
}

// tracerLeafAbs: which path trie2's delete reports to the tracer for a last-level leaf, probed on
// the tree under test (the Lean model follows the code; no root depends on it).
var tracerLeafAbs bool

func probeTracer() bool {
	c := &TrieCase{Height: 2, Hash: "ped", Ops: []TOp{{Op: "put", K: "2", V: "1"}, {Op: "put", K: "3", V: "1"},
		{Op: "commit"}, {Op: "put", K: "3", V: "0"}, {Op: "commit"}}}
	t := runTrie2(c)
	if len(t.Sets) < 2 {
		return false
	}
	for _, e := range t.Sets[1] {
		if e == "D:2:3:1" {
			return true
		}
	}
	return false
}

// script for the trie2 model with node database / tracer / lazy resolution: commit answers carry
// the node set
func lazyModelLines(c *TrieCase, id int) (lines []string, obsIdx, dumpIdx []int) {
	fix := 0
	if tracerLeafAbs {
		fix = 1
	}
	lines = append(lines, fmt.Sprintf("bnew %d %d %s %d", id, c.Height, c.Hash, fix))
	for _, op := range c.Ops {
		switch op.Op {
		case "put":
			lines = append(lines, fmt.Sprintf("bput %d %s %s", id, op.K, op.V))
		case "hash":
			obsIdx = append(obsIdx, len(lines))
			lines = append(lines, fmt.Sprintf("bhash %d", id))
		case "commit":
			obsIdx = append(obsIdx, len(lines))
			lines = append(lines, fmt.Sprintf("bcommit %d", id))
			dumpIdx = append(dumpIdx, len(lines))
			lines = append(lines, fmt.Sprintf("bdump %d", id))
		}
	}
	obsIdx = append(obsIdx, len(lines))
	lines = append(lines, fmt.Sprintf("bhash %d", id))
	return lines, obsIdx, dumpIdx
}

// script for the restart model (ModelLazy.lean): commit = Hash() + reopen
func restartModelLines(c *TrieCase, id int) (lines []string, obsIdx, getIdx []int) {
	lines = append(lines, fmt.Sprintf("znew %d %d %s", id, c.Height, c.Hash))
	for _, op := range c.Ops {
		switch op.Op {
		case "put":
			lines = append(lines, fmt.Sprintf("zput %d %s %s", id, op.K, op.V))
		case "get":
			getIdx = append(getIdx, len(lines))
			lines = append(lines, fmt.Sprintf("zget %d %s", id, op.K))
		case "hash":
			obsIdx = append(obsIdx, len(lines))
			lines = append(lines, fmt.Sprintf("zhash %d", id))
		case "commit":
			obsIdx = append(obsIdx, len(lines))
			lines = append(lines, fmt.Sprintf("zhash %d", id))
			lines = append(lines, fmt.Sprintf("zreopen %d", id))
		}
	}
	obsIdx = append(obsIdx, len(lines))
	lines = append(lines, fmt.Sprintf("zhash %d", id))
	return lines, obsIdx, getIdx
}

// compareSet checks one model node-set entry against the real one: structure fields literally,
// hash terms by evaluation with the real primitive.
func compareSet(model, impl []string) string {
	if len(model) != len(impl) {
		return fmt.Sprintf("node set sizes differ: model %d, implementation %d", len(model), len(impl))
	}
	for i := range model {
		mf, rf := strings.Split(model[i], ":"), strings.Split(impl[i], ":")
		if len(mf) != len(rf) || mf[0] != rf[0] {
			return fmt.Sprintf("entry %d: model %s, implementation %s", i, clip(model[i]), impl[i])
		}
		for j := range mf {
			if mf[j] == rf[j] {
				continue
			}
			// a term field?
			v, err := evalTerm(mf[j])
			if err != nil || feltHex(&v) != rf[j] {
				return fmt.Sprintf("entry %d field %d: model %s, implementation %s", i, j, clip(model[i]), impl[i])
			}
		}
	}
	return ""
}

// model script for the Lean driver: slot id, answers to be read back for each line
func modelLines(c *TrieCase, id int) (lines []string, obsIdx []int) {
	lines = append(lines, fmt.Sprintf("new %d %d %s", id, c.Height, c.Hash))
	for _, op := range c.Ops {
		switch op.Op {
		case "put":
			lines = append(lines, fmt.Sprintf("put %d %s %s", id, op.K, op.V))
		case "get":
		default:
			obsIdx = append(obsIdx, len(lines))
			lines = append(lines, fmt.Sprintf("hash %d", id))
		}
	}
	obsIdx = append(obsIdx, len(lines))
	lines = append(lines, fmt.Sprintf("hash %d", id))
	return lines, obsIdx
}
