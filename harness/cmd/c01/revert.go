//go:build verif

package main

// Round 6: reorgs. `State.Revert` of both backends (core/state/state.go, core/deprecatedstate/state.go — anchored
// files of C01; the revert logic itself belongs to C03 / C04 and is NOT modelled here) was executed by no family
// of this check. What C01 says about it: whatever state a node reaches — also through reverted blocks — the roots of
// the accepted updates that FOLLOW are the commitments of the resulting abstract states, on both backends.
// History: blocks 0..n-1, the last k reverted one by one (root after each revert = root of the prefix), then new
// blocks generated on the abstract state of the prefix (they touch the contracts / slots / classes of the reverted
// blocks again). Oracle = the independent commitment of the abstract state (spec.go), as everywhere.

import (
	"encoding/json"
	"fmt"
	"sort"

	"github.com/NethermindEth/juno/core"
	"github.com/NethermindEth/juno/core/deprecatedstate"
	"github.com/NethermindEth/juno/core/felt"
	"github.com/NethermindEth/juno/core/state"
	"github.com/NethermindEth/juno/core/trie2/triedb"
	"github.com/NethermindEth/juno/db"
	"github.com/NethermindEth/juno/db/memory"
	"verif/harness/lib"
)

type RevCase struct {
	Pre    []SBlock `json:"pre"`    // accepted blocks 0..n-1
	Revert int      `json:"revert"` // how many of them are reverted (from the top)
	Post   []SBlock `json:"post"`   // accepted afterwards, on top of the remaining prefix
}

func revertNew(disk *memory.Database, cur *felt.Felt, n uint64, b *SBlock, oldRoot, newRoot *felt.Felt) (felt.Felt, error) {
	sdb := state.NewStateDB(disk, triedb.New(disk, nil))
	hdr := &core.Header{Number: n, ProtocolVersion: b.Version}
	var root felt.Felt
	err := disk.Write(func(batch db.Batch) error {
		st, err := state.New(cur, sdb, batch)
		if err != nil {
			return err
		}
		su, _ := toUpdate(b, oldRoot)
		su.NewRoot = newRoot
		if err := st.Revert(hdr, su); err != nil {
			return err
		}
		root, err = st.Commitment(b.Version)
		return err
	})
	if err != nil {
		return felt.Zero, err
	}
	rd, err := state.NewStateReader(&root, state.NewStateDB(disk, triedb.New(disk, nil)))
	if err != nil {
		return felt.Zero, err
	}
	again, err := rd.Commitment(b.Version)
	if err != nil {
		return felt.Zero, fmt.Errorf("reopen after revert: %w", err)
	}
	if !again.Equal(&root) {
		return felt.Zero, fmt.Errorf("root after revert and reopen %s differs from the root computed by Revert %s", again.String(), root.String())
	}
	return root, nil
}

func revertOld(disk *memory.Database, n uint64, b *SBlock, oldRoot, newRoot *felt.Felt) (felt.Felt, error) {
	hdr := &core.Header{Number: n, ProtocolVersion: b.Version}
	var root felt.Felt
	err := disk.Update(func(txn db.IndexedBatch) error {
		st := deprecatedstate.New(txn)
		su, _ := toUpdate(b, oldRoot)
		su.NewRoot = newRoot
		if err := st.Revert(hdr, su); err != nil {
			return err
		}
		var err error
		root, err = st.Commitment(b.Version)
		return err
	})
	return root, err
}

type revTrace struct {
	Err   string
	Roots []string // after every pre block, after every revert, after every post block
}

func runRevert(c *RevCase, newState bool) (tr revTrace) {
	err, panicked, _ := lib.Try(func() error {
		disk := memory.New()
		var roots []felt.Felt
		var cur felt.Felt
		apply := func(n int, b *SBlock) error {
			var r felt.Felt
			var err error
			if newState {
				r, err = applyNew(disk, &cur, uint64(n), b)
			} else {
				r, err = applyOld(disk, uint64(n), b)
			}
			if err != nil {
				return fmt.Errorf("block %d: %w", n, err)
			}
			cur = r
			tr.Roots = append(tr.Roots, feltHex(&r))
			return nil
		}
		for n := range c.Pre {
			if err := apply(n, &c.Pre[n]); err != nil {
				return err
			}
			roots = append(roots, cur)
		}
		for k := 0; k < c.Revert; k++ {
			n := len(c.Pre) - 1 - k
			var old felt.Felt
			if n > 0 {
				old = roots[n-1]
			}
			var r felt.Felt
			var err error
			if newState {
				r, err = revertNew(disk, &cur, uint64(n), &c.Pre[n], &old, &roots[n])
			} else {
				r, err = revertOld(disk, uint64(n), &c.Pre[n], &old, &roots[n])
			}
			if err != nil {
				return fmt.Errorf("revert of block %d: %w", n, err)
			}
			cur = r
			tr.Roots = append(tr.Roots, feltHex(&r))
		}
		for m := range c.Post {
			if err := apply(len(c.Pre)-c.Revert+m, &c.Post[m]); err != nil {
				return err
			}
		}
		return nil
	})
	if err != nil {
		tr.Err = err.Error()
		if panicked {
			tr.Err = "panic: " + tr.Err
		}
	}
	return tr
}

// specRevTrace: the commitments of the abstract states along the history (want = protocol, alt = with the leaf of an
// emptied system contract kept: known finding 1 of the legacy backend)
func specRevTrace(c *RevCase) (want, alt []string) {
	absOf := func(blocks []SBlock) *absState {
		a := newAbs()
		for n := range blocks {
			a.apply(&blocks[n])
		}
		return a
	}
	emit := func(st *absState, ver string) {
		w, _, _ := st.commitment(ver, false)
		x, _, _ := st.commitment(ver, true)
		want = append(want, feltHex(&w))
		alt = append(alt, feltHex(&x))
	}
	for n := range c.Pre {
		emit(absOf(c.Pre[:n+1]), c.Pre[n].Version)
	}
	for k := 0; k < c.Revert; k++ {
		n := len(c.Pre) - 1 - k
		emit(absOf(c.Pre[:n]), c.Pre[n].Version)
	}
	keep := append([]SBlock{}, c.Pre[:len(c.Pre)-c.Revert]...)
	for m := range c.Post {
		keep = append(keep, c.Post[m])
		emit(absOf(keep), c.Post[m].Version)
	}
	return want, alt
}

func validRev(c *RevCase) bool {
	if c.Revert < 1 || c.Revert > len(c.Pre) {
		return false
	}
	keep := append(append([]SBlock{}, c.Pre[:len(c.Pre)-c.Revert]...), c.Post...)
	return validState(&StateCase{Blocks: c.Pre}) && validState(&StateCase{Blocks: keep})
}

func copyRev(c *RevCase) *RevCase {
	b, _ := json.Marshal(c)
	var out RevCase
	_ = json.Unmarshal(b, &out)
	return &out
}

// shrinkRev: drop post blocks, then single entries of every block, as long as the case stays valid and failing
func shrinkRev(c *RevCase, fails0 func(*RevCase) bool) *RevCase {
	fails := func(c *RevCase) bool { return validRev(c) && fails0(c) }
	cur := copyRev(c)
	if !fails(cur) {
		return c
	}
	for len(cur.Post) > 0 {
		cand := copyRev(cur)
		cand.Post = cand.Post[:len(cand.Post)-1]
		if !fails(cand) {
			break
		}
		cur = cand
	}
	try := func(mut func(*RevCase) bool) bool {
		cand := copyRev(cur)
		if !mut(cand) {
			return false
		}
		if fails(cand) {
			cur = cand
			return true
		}
		return false
	}
	for changed := true; changed; {
		changed = false
		for _, post := range []bool{false, true} {
			blocks := func(c *RevCase) []SBlock {
				if post {
					return c.Post
				}
				return c.Pre
			}
			for bi := range blocks(cur) {
				b := blocks(cur)[bi]
				for _, m := range []struct {
					keys func() []string
					del  func(*SBlock, string)
				}{
					{func() []string { return keysOf(b.Deployed) }, func(b *SBlock, k string) { delete(b.Deployed, k) }},
					{func() []string { return keysOf(b.Replaced) }, func(b *SBlock, k string) { delete(b.Replaced, k) }},
					{func() []string { return keysOf(b.Nonces) }, func(b *SBlock, k string) { delete(b.Nonces, k) }},
					{func() []string { return keysOf(b.Declared) }, func(b *SBlock, k string) { delete(b.Declared, k) }},
					{func() []string { return b.ExtraDefs }, func(b *SBlock, k string) { b.ExtraDefs = nil }},
				} {
					for _, k := range m.keys() {
						k := k
						if try(func(c *RevCase) bool { m.del(&blocks(c)[bi], k); return true }) {
							changed = true
						}
					}
				}
				for addr, st := range b.Storage {
					addr := addr
					if try(func(c *RevCase) bool { delete(blocks(c)[bi].Storage, addr); return true }) {
						changed = true
						continue
					}
					for k := range st {
						k := k
						if try(func(c *RevCase) bool {
							delete(blocks(c)[bi].Storage[addr], k)
							return len(blocks(c)[bi].Storage[addr]) > 0
						}) {
							changed = true
						}
					}
				}
			}
		}
	}
	return cur
}

func keysOf(m map[string]string) []string {
	out := make([]string, 0, len(m))
	for k := range m {
		out = append(out, k)
	}
	sort.Strings(out)
	return out
}

func genRevCase(r *lib.RNG) *RevCase {
	p := genPools(r)
	p.noMigrate = true // Revert of a CASM-hash migration reads the chain layer's class metadata (C02 / C03)
	ver := lib.Pick(r, []string{"0.13.2", "0.13.2", "0.14.0", "0.14.0", "0.13.1", "0.14.1"})
	c := &RevCase{}
	a := newAbs()
	var snaps []*absState
	nPre := r.Range(1, 5)
	for n := 0; n < nPre; n++ {
		b := genBlock(r, a, p, ver)
		// (no definitions without declaration here: Revert removes a class-trie leaf only if the definition was
		// registered by the reverted block itself — lead in notes/C01.md, revert of class registrations is C03 / C04)
		b.NoDef, b.DeclaredV0, b.ExtraDefs = nil, nil, nil
		a.apply(&b)
		c.Pre = append(c.Pre, b)
		s := newAbs()
		for _, blk := range c.Pre {
			s.apply(&blk)
		}
		snaps = append(snaps, s)
	}
	c.Revert = r.Range(1, nPre)
	base := newAbs()
	if nPre-c.Revert > 0 {
		base = snaps[nPre-c.Revert-1]
	}
	for m, nPost := 0, r.Range(1, 3); m < nPost; m++ {
		b := genBlock(r, base, p, ver)
		// (no definitions without declaration here: Revert removes a class-trie leaf only if the definition was
		// registered by the reverted block itself — lead in notes/C01.md, revert of class registrations is C03 / C04)
		b.NoDef, b.DeclaredV0, b.ExtraDefs = nil, nil, nil
		base.apply(&b)
		c.Post = append(c.Post, b)
	}
	return c
}

func checkReverts(f lib.Flags, res *lib.Result, r *lib.RNG, replay *RevCase) {
	var cases []*RevCase
	if replay != nil {
		cases = []*RevCase{replay}
	} else {
		// directed: storage emptied by the reverted block and written again; a reverted deploy deployed again with
		// another class; a reverted declaration declared again with another compiled hash
		for _, ver := range []string{"0.13.2", "0.14.0"} {
			cases = append(cases,
				&RevCase{Pre: []SBlock{
					{Version: ver, Deployed: map[string]string{"abc": "c1a55"}, Storage: map[string]map[string]string{"abc": {"1": "1", "2": "2"}}},
					{Version: ver, Storage: map[string]map[string]string{"abc": {"1": "0", "2": "0"}}, Nonces: map[string]string{"abc": "1"}}},
					Revert: 1, Post: []SBlock{{Version: ver, Nonces: map[string]string{"abc": "2"}}, {Version: ver, Storage: map[string]map[string]string{"abc": {"1": "7"}}}}},
				&RevCase{Pre: []SBlock{
					{Version: ver, Declared: map[string]string{"c1a55": "ca5a1"}},
					{Version: ver, Deployed: map[string]string{"abc": "c1a55"}, Declared: map[string]string{"c1a56": "ca5a2"}, Storage: map[string]map[string]string{"abc": {"1": "1"}, "1": {"7": "5"}}}},
					Revert: 1, Post: []SBlock{{Version: ver, Deployed: map[string]string{"abc": "c1a56"}, Declared: map[string]string{"c1a56": "ca5a3"}},
						{Version: ver, Storage: map[string]map[string]string{"abc": {"2": "2"}, "1": {"8": "1"}}}}},
				&RevCase{Pre: []SBlock{
					{Version: ver, Deployed: map[string]string{"abc": "c1a55"}, Storage: map[string]map[string]string{"abc": {"1": "1"}}},
					{Version: ver, Replaced: map[string]string{"abc": "c1a56"}, Nonces: map[string]string{"abc": "5"}},
					{Version: ver, Storage: map[string]map[string]string{"abc": {"1": "9", "3": "3"}}}},
					Revert: 3, Post: []SBlock{{Version: ver, Deployed: map[string]string{"abc": "c1a57"}}, {Version: ver, Nonces: map[string]string{"abc": "1"}}}},
			)
		}
		for i := 0; i < f.Scale(150, 3000); i++ {
			cases = append(cases, genRevCase(r.Fork(uint64(i))))
		}
	}
	for i, c := range cases {
		res.Case(fmt.Sprintf("state-revert:%d:%d:%d", i, len(c.Pre), c.Revert), true)
		res.Hit(fmt.Sprintf("revert:blocks-reverted=%d", c.Revert))
		if c.Revert == len(c.Pre) {
			res.Hit("revert:back-to-the-empty-state")
		}
		want, alt := specRevTrace(c)
		for _, newState := range []bool{true, false} {
			name := "state"
			if !newState {
				name = "deprecatedstate"
			}
			t := runRevert(c, newState)
			ns := newState
			rep := func(fails func(*RevCase) bool) any {
				return map[string]any{"kind": "revert", "state": shrinkRev(c, fails)}
			}
			if !newState && !legacyPurgeVariant && firstDiff(want, alt) >= 0 {
				// known finding 1: the legacy backend keeps the leaf of an emptied system contract in Update and purges
				// it in Revert (so a revert onto such a state does not find the stored root): judged only on histories
				// that do not contain the pattern
				res.Hit("revert:legacy-skipped(system-contract-emptied)")
				continue
			}
			if t.Err != "" {
				cc := c
				violateOnce(res, name+"-revert-history-fails", func() lib.Violation {
					return lib.Violation{Sig: name + "-revert-history-fails", What: fmt.Sprintf("valid history with %d reverted block(s): %s", cc.Revert, t.Err),
						Replay: rep(func(c *RevCase) bool { return runRevert(c, ns).Err != "" })}
				})
				continue
			}
			ref := want
			if d := firstDiff(t.Roots, ref); d >= 0 {
				cc, dd := c, d
				sig := name + "-root-after-revert-differs-from-commitment-of-state"
				violateOnce(res, sig, func() lib.Violation {
					return lib.Violation{Sig: sig, What: fmt.Sprintf("observation %d (pre blocks %d, reverted %d, then post blocks): root %s, Starknet commitment of the abstract state %s",
						dd, len(cc.Pre), cc.Revert, at(t.Roots, dd), at(ref, dd)),
						Replay: rep(func(c *RevCase) bool {
							w, _ := specRevTrace(c)
							t := runRevert(c, ns)
							return t.Err == "" && firstDiff(t.Roots, w) >= 0
						})}
				})
			}
		}
	}
}
