//go:build verif

package main

import (
	"encoding/json"
	"fmt"
	"math/big"
	"sort"
	"strings"

	"github.com/NethermindEth/juno/blockchain/networks"
	"github.com/NethermindEth/juno/core"
	"github.com/NethermindEth/juno/core/crypto"
	"github.com/NethermindEth/juno/core/felt"
	"github.com/NethermindEth/juno/core/trie2"
	"verif/harness/lib"
)

// ---------------------------------------------------------------------------------------------
// 1. the version test that selects the commitment formula: core.ParseBlockVersion + LessThan(0.14.0)
//    on the real code vs the Lean transcription (Version.pre014?), over a small space of version
//    strings enumerated exhaustively (every 1..3-part combination of the alphabet below) plus 4-part,
//    over-long and oddly dotted strings.

var versionParts = []string{"", "0", "1", "9", "13", "14", "15", "014", "00", "x", "+1", "-1", "1_0", "0x1",
	"18446744073709551615", "18446744073709551616"}

func realVersionClass(v string) string {
	out := "err"
	_, panicked, _ := lib.Try(func() error {
		ver, err := core.ParseBlockVersion(v)
		if err != nil {
			return nil
		}
		if ver.LessThan(core.Ver0_14_0) {
			out = "pre"
		} else {
			out = "post"
		}
		return nil
	})
	if panicked {
		return "panic"
	}
	return out
}

// allDigitsSmall: every dot-separated part among the first three is a plain decimal below 2^31 (the range in
// which the harness's own `pre014` oracle is meaningful)
func allDigitsSmall(v string) bool {
	for i, p := range strings.Split(v, ".") {
		if i >= 3 {
			break
		}
		if p == "" || len(p) > 9 {
			return false
		}
		for _, c := range p {
			if c < '0' || c > '9' {
				return false
			}
		}
	}
	return true
}

func checkVersions(f lib.Flags, res *lib.Result, drv *lib.Driver, r *lib.RNG) {
	t0 := timeNow()
	defer func() { res.HitN("ms:version-strings", msSince(t0)) }()
	var vs []string
	var rec func(prefix []string, depth int)
	rec = func(prefix []string, depth int) {
		if len(prefix) > 0 {
			vs = append(vs, strings.Join(prefix, "."))
		}
		if depth == 3 {
			return
		}
		for _, p := range versionParts {
			rec(append(append([]string{}, prefix...), p), depth+1)
		}
	}
	rec(nil, 0)
	// four and five parts (only the first three are looked at), length limit 31 / 32, versions of the generators
	for i := 0; i < f.Scale(600, 6000); i++ {
		n := 4 + r.Intn(2)
		var ps []string
		for j := 0; j < n; j++ {
			ps = append(ps, lib.Pick(r, versionParts))
		}
		vs = append(vs, strings.Join(ps, "."))
	}
	for _, base := range []string{"0.13.", "0.14.", "0.13.1.", "1."} {
		for _, l := range []int{29, 30, 31, 32, 33, 64} {
			if l > len(base) {
				vs = append(vs, base+strings.Repeat("0", l-len(base)))
				vs = append(vs, base+strings.Repeat("7", l-len(base)))
			}
		}
	}
	vs = append(vs, versions...)
	vs = append(vs, "0.13.14", "0.14.13", "0.013.99", "00.14.0", "0.140", "0.1.4", "14.0.0", "0.14.0.0", "0.13.9999999999")
	var lines []string
	for _, v := range vs {
		lines = append(lines, "ver v="+v)
	}
	var ans []string
	if drv != nil {
		var err error
		ans, err = drv.AskAll(lines)
		if err != nil {
			res.Fatalf("Lean driver died / answered short in family version-strings: %v", err)
			ans = nil
		}
	}
	for i, v := range vs {
		real := realVersionClass(v)
		res.Case("version/"+v, strings.Count(v, ".") >= 1)
		res.Hit("family:version-strings")
		res.Hit("version:" + real)
		if len(v) >= 31 {
			res.Hit(fmt.Sprintf("version:len=%d", min(len(v), 34)))
		}
		if ans != nil {
			res.Compared(1)
			if ans[i] != real {
				res.Mismatch(lib.Mismatch{Sig: "version-test", Input: v, Model: ans[i], Impl: real})
			}
		}
		// the oracle of the state families decides "< 0.14.0" with its own code: it must agree with the real code
		// on every well-formed version (else that oracle would be judging juno by a different rule)
		if allDigitsSmall(v) && len(v) <= 31 {
			want := "post"
			if pre014(v) {
				want = "pre"
			}
			if real != want {
				violateOnce(res, "version-comparison-differs-from-semantic-version-order", func() lib.Violation {
					return lib.Violation{Sig: "version-comparison-differs-from-semantic-version-order",
						What:   fmt.Sprintf("protocol version %q: ParseBlockVersion + LessThan(0.14.0) says %s, the version is %s 0.14.0", v, real, map[string]string{"pre": "below", "post": "not below"}[want]),
						Replay: replayBody{Kind: "version", State: []byte(fmt.Sprintf("%q", v))}}
				})
			}
		}
	}
}

// ---------------------------------------------------------------------------------------------
// 2. the transaction / event / receipt commitments through the REAL path (core.BlockHash →
//    calculateCommitment → RunOnTempTrie*) on both temporary-trie backends, for blocks of all four
//    hash-formula generations; item hashes recomputed here with the independent hash implementations.

func feltsOf(r *lib.RNG, n int) []felt.Felt {
	out := make([]felt.Felt, n)
	for i := range out {
		out[i] = hexFelt(genVal(r))
	}
	return out
}

type commBlock struct {
	Version string
	Number  uint64
	NTx     int
	Seed    uint64
}

func buildCommBlock(cb commBlock) (*core.Block, [][]felt.Felt) {
	r := lib.NewRNG(cb.Seed)
	b := simBlock(cb.Number, cb.Version)
	gsr := felt.FromUint64[felt.Felt](0x5107)
	b.GlobalStateRoot = &gsr
	var sigs [][]felt.Felt
	for i := 0; i < cb.NTx; i++ {
		h := hexFelt(randBits(r, 250).Text(16))
		if i%7 == 3 {
			h = hexFelt(lib.Pick(r, boundaryVals))
		}
		var sig []felt.Felt
		switch r.Intn(4) {
		case 0:
		case 1:
			sig = feltsOf(r, 1)
		default:
			sig = feltsOf(r, 2+r.Intn(2))
		}
		hh := h
		b.Transactions = append(b.Transactions, &core.InvokeTransaction{TransactionHash: &hh, TransactionSignature: sig,
			Version: new(core.TransactionVersion).SetUint64(1)})
		sigs = append(sigs, sig)
		fee := hexFelt(genVal(r))
		rc := &core.TransactionReceipt{TransactionHash: &hh, Fee: &fee}
		ne := r.Intn(4)
		if cb.NTx <= 3 {
			ne = r.Intn(2)
		}
		for e := 0; e < ne; e++ {
			from := hexFelt(randBits(r, 250).Text(16))
			rc.Events = append(rc.Events, &core.Event{From: &from, Keys: feltsOf(r, r.Intn(3)), Data: feltsOf(r, r.Intn(3))})
		}
		b.Receipts = append(b.Receipts, rc)
	}
	b.TransactionCount = uint64(cb.NTx)
	return b, sigs
}

func indPedersenArray(xs []felt.Felt) felt.Felt {
	var d felt.Felt
	for i := range xs {
		d = indPedersen(&d, &xs[i])
	}
	n := felt.FromUint64[felt.Felt](uint64(len(xs)))
	return indPedersen(&d, &n)
}

func ptrs(xs []felt.Felt) []*felt.Felt {
	out := make([]*felt.Felt, len(xs))
	for i := range xs {
		out[i] = &xs[i]
	}
	return out
}

// expected item hashes of the three commitment tries of a block, by formula generation
func commItems(b *core.Block, poseidon, v0134 bool) (tx, ev, rc []felt.Felt) {
	for _, t := range b.Transactions {
		sig := t.Signature()
		if poseidon {
			elems := []*felt.Felt{t.Hash()}
			if len(sig) > 0 {
				elems = append(elems, ptrs(sig)...)
			} else if !v0134 {
				elems = append(elems, &felt.Zero)
			}
			tx = append(tx, indPoseidonElems(elems...))
		} else {
			sh := indPedersenArray(sig)
			tx = append(tx, indPedersen(t.Hash(), &sh))
		}
	}
	for _, r := range b.Receipts {
		for _, e := range r.Events {
			if poseidon {
				kl := felt.FromUint64[felt.Felt](uint64(len(e.Keys)))
				dl := felt.FromUint64[felt.Felt](uint64(len(e.Data)))
				elems := []*felt.Felt{e.From, r.TransactionHash, &kl}
				elems = append(elems, ptrs(e.Keys)...)
				elems = append(elems, &dl)
				elems = append(elems, ptrs(e.Data)...)
				ev = append(ev, indPoseidonElems(elems...))
			} else {
				kh, dh := indPedersenArray(e.Keys), indPedersenArray(e.Data)
				ev = append(ev, indPedersenArray([]felt.Felt{*e.From, kh, dh}))
			}
		}
		// receipt hash: Poseidon(txHash, fee, hash of the (empty) message list, 0 (not reverted), 0, l1 gas 0, l1 data gas 0)
		zero := felt.Zero
		msgs := indPoseidonElems(&zero)
		rc = append(rc, indPoseidonElems(r.TransactionHash, r.Fee, &msgs, &zero, &zero, &zero, &zero))
	}
	return tx, ev, rc
}

func rootOfItems(items []felt.Felt, pos bool) felt.Felt {
	m := map[string]felt.Felt{}
	for i := range items {
		if !items[i].IsZero() {
			m[fmt.Sprintf("%x", i)] = items[i]
		}
	}
	hf := crypto.HashFn(indPedersen)
	if pos {
		hf = indPoseidon
	}
	return specRoot(m, 64, hf)
}

func checkBlockCommitments(f lib.Flags, res *lib.Result, drv *lib.Driver, r *lib.RNG) {
	t0 := timeNow()
	defer func() {
		res.HitN("ms:block-commitments", msSince(t0))
		if f.Out != "" {
			_ = res.Write(f.Out)
		}
	}()
	sizes := []int{0, 1, 2, 3, 4, 5, 7, 8, 9, 15, 16, 17, 31, 32, 33, 63, 64, 65, 99, 100, 101, 102, 127, 128, 129}
	if f.Tier != "quick" {
		sizes = append(sizes, 200, 255, 256, 257, 300, 511, 512, 513, 1000)
	}
	var cases []commBlock
	for _, n := range sizes {
		for _, g := range []struct {
			ver string
			num uint64
		}{{"0.13.4", 700000}, {"0.14.0", 2000000}, {"0.13.2", 650000}, {"0.12.3", 300000}, {"0.11.0", 40000}, {"0.7.0", 5}} {
			if n > 129 && g.ver != "0.13.4" && g.ver != "0.12.3" {
				continue
			}
			cases = append(cases, commBlock{g.ver, g.num, n, r.Uint64()})
		}
	}
	type outc struct {
		cb       commBlock
		a, b     *core.BlockCommitments
		err      error
		tx, e, r felt.Felt
		items    [3][]felt.Felt
		pos      bool
	}
	outs := make([]outc, len(cases))
	parallel(cases, func(i int, cb commBlock) {
		o := outc{cb: cb}
		blk, _ := buildCommBlock(cb)
		sd := &core.StateDiff{}
		ver, _ := core.ParseBlockVersion(cb.Version)
		o.pos = ver.GreaterThanEqual(core.Ver0_13_2)
		v0134 := ver.GreaterThanEqual(core.Ver0_13_4)
		o.err, _, _ = lib.Try(func() error {
			var e error
			if _, o.a, e = core.BlockHash(blk, sd, &networks.Mainnet, nil, core.TrieBackend); e != nil {
				return e
			}
			blk2, _ := buildCommBlock(cb)
			_, o.b, e = core.BlockHash(blk2, sd, &networks.Mainnet, nil, core.DeprecatedTrieBackend)
			return e
		})
		tx, ev, rc := commItems(blk, o.pos, v0134)
		o.items = [3][]felt.Felt{tx, ev, rc}
		o.tx, o.e, o.r = rootOfItems(tx, o.pos), rootOfItems(ev, o.pos), rootOfItems(rc, true)
		outs[i] = o
	})
	// the model's commitmentOps on the same item hashes
	var lines []string
	var lineOf []int
	for i := range outs {
		lineOf = append(lineOf, len(lines))
		o := &outs[i]
		for k, items := range o.items {
			if len(items) > 300 {
				items = nil
			}
			kind := "pos"
			if k < 2 && !o.pos {
				kind = "ped"
			}
			l := "comm " + kind
			for j := range items {
				l += " " + feltHex(&items[j])
			}
			lines = append(lines, l)
		}
	}
	var ans []string
	if drv != nil {
		var err error
		if ans, err = drv.AskAll(lines); err != nil {
			res.Fatalf("Lean driver died / answered short in family block-commitments: %v", err)
			ans = nil
		}
	}
	for i := range outs {
		o := &outs[i]
		cb := o.cb
		res.Case(fmt.Sprintf("blockcomm/%s/%d/%d", cb.Version, cb.Number, cb.NTx), cb.NTx >= 2)
		res.Hit("family:block-commitments")
		res.Hit("blockcomm:version=" + cb.Version)
		res.HitN("blockcomm:events", len(o.items[1]))
		if len(o.items[1]) > 100 {
			res.Hit("blockcomm:more-than-100-events(parallel hashing)")
		}
		rep := replayBody{Kind: "blockcomm", State: []byte(fmt.Sprintf(`{"Version":%q,"Number":%d,"NTx":%d,"Seed":%d}`, cb.Version, cb.Number, cb.NTx, cb.Seed))}
		if o.err != nil {
			violateOnce(res, "block-commitments-error", func() lib.Violation {
				return lib.Violation{Sig: "block-commitments-error", What: fmt.Sprintf("core.BlockHash version %s, %d transactions: %v", cb.Version, cb.NTx, o.err), Replay: rep}
			})
			continue
		}
		z := felt.Zero
		get := func(p *felt.Felt) felt.Felt {
			if p == nil {
				return z
			}
			return *p
		}
		type fld struct {
			name    string
			a, b    felt.Felt
			want    felt.Felt
			present bool
			k       int
		}
		pre07 := cb.Number < 833 && !o.pos
		flds := []fld{
			{"transaction", get(o.a.TransactionCommitment), get(o.b.TransactionCommitment), o.tx, true, 0},
			{"event", get(o.a.EventCommitment), get(o.b.EventCommitment), o.e, !pre07, 1},
			{"receipt", get(o.a.ReceiptCommitment), get(o.b.ReceiptCommitment), o.r, !pre07, 2},
		}
		for _, fd := range flds {
			if !fd.present {
				continue
			}
			if !fd.a.Equal(&fd.b) {
				sig := fd.name + "-commitment-differs-between-temp-trie-backends"
				violateOnce(res, sig, func() lib.Violation {
					return lib.Violation{Sig: sig, What: fmt.Sprintf("version %s, %d transactions: core.TrieBackend %s, core.DeprecatedTrieBackend %s", cb.Version, cb.NTx, fd.a.String(), fd.b.String()), Replay: rep}
				})
			}
			if !fd.a.Equal(&fd.want) || !fd.b.Equal(&fd.want) {
				// attribute a broken hash primitive (caught by checkPrimitives) to the primitive
				if primitivesBroken["ped"] || primitivesBroken["pos"] {
					continue
				}
				sig := fd.name + "-commitment-differs-from-commitment-of-item-map"
				violateOnce(res, sig, func() lib.Violation {
					return lib.Violation{Sig: sig, What: fmt.Sprintf("version %s, %d transactions, %d items: core.TrieBackend %s, core.DeprecatedTrieBackend %s, commitment of the index -> item-hash map %s",
						cb.Version, cb.NTx, len(o.items[fd.k]), fd.a.String(), fd.b.String(), fd.want.String()), Replay: rep}
				})
			}
			if ans != nil && len(o.items[fd.k]) <= 300 {
				res.Compared(1)
				v, err := evalTerm(ans[lineOf[i]+fd.k])
				if err != nil || !v.Equal(&fd.a) {
					res.Mismatch(lib.Mismatch{Sig: "block-" + fd.name + "-commitment", Input: cb, Model: clip(ans[lineOf[i]+fd.k]), Impl: fd.a.String()})
				}
			}
		}
	}
}

var _ = big.NewInt

// ---------------------------------------------------------------------------------------------
// 3. splitting into blocks: the same writes merged into fewer state updates (later entries win) must give
//    the same final root (theorem state_root_function_of_abstract_state: the root is a function of the abstract
//    state). Merging also produces diffs that write many class-trie leaves / contracts in ONE update.

func mergeStr(a, b map[string]string) map[string]string {
	if len(a) == 0 && len(b) == 0 {
		return nil
	}
	out := map[string]string{}
	for k, v := range a {
		out[k] = v
	}
	for k, v := range b {
		out[k] = v
	}
	return out
}

// mergeBlocks: one diff with the effect of b0 followed by b1 (both valid in that order): within a diff the
// code applies declared, migrated, deployed, replaced, nonces, storage — so "later wins" per key is enough.
func mergeBlocks(b0, b1 *SBlock) SBlock {
	m := SBlock{Version: b1.Version,
		Deployed: mergeStr(b0.Deployed, b1.Deployed), Replaced: mergeStr(b0.Replaced, b1.Replaced),
		Nonces: mergeStr(b0.Nonces, b1.Nonces), Declared: mergeStr(b0.Declared, b1.Declared),
		Migrated: mergeStr(b0.Migrated, b1.Migrated), NoDef: mergeStr(b0.NoDef, b1.NoDef)}
	seen := map[string]bool{}
	for _, x := range append(append([]string{}, b0.DeclaredV0...), b1.DeclaredV0...) {
		if !seen[x] {
			seen[x] = true
			m.DeclaredV0 = append(m.DeclaredV0, x)
		}
	}
	for _, b := range []*SBlock{b0, b1} {
		for addr, st := range b.Storage {
			if m.Storage == nil {
				m.Storage = map[string]map[string]string{}
			}
			m.Storage[addr] = mergeStr(m.Storage[addr], st)
			if m.Storage[addr] == nil {
				m.Storage[addr] = map[string]string{}
			}
		}
	}
	// a class that b0 declares WITHOUT a definition and b1 declares with one (or the other way round) keeps one entry
	for ch := range m.NoDef {
		if _, ok := m.Declared[ch]; ok {
			delete(m.NoDef, ch)
		}
	}
	if len(m.NoDef) == 0 {
		m.NoDef = nil
	}
	for _, b := range []*SBlock{b0, b1} {
		for _, ch := range b.ExtraDefs {
			if _, declared := m.Declared[ch]; !declared && !containsStr(m.ExtraDefs, ch) {
				m.ExtraDefs = append(m.ExtraDefs, ch)
			}
		}
	}
	return m
}

// mergedCase: group = number of consecutive blocks merged into one (0 = all of them)
func mergedCase(c *StateCase, group int) *StateCase {
	out := &StateCase{}
	var cur *SBlock
	n := 0
	for i := range c.Blocks {
		b := c.Blocks[i]
		b.Before = nil
		if cur == nil {
			cp := b
			cur = &cp
			n = 1
		} else {
			m := mergeBlocks(cur, &b)
			cur = &m
			n++
		}
		if group > 0 && n == group {
			out.Blocks = append(out.Blocks, *cur)
			cur = nil
		}
	}
	if cur != nil {
		out.Blocks = append(out.Blocks, *cur)
	}
	return out
}

func checkSplitMerged(f lib.Flags, res *lib.Result, drv *lib.Driver, base []*StateCase) {
	t0 := timeNow()
	type pair struct {
		split, merged *StateCase
		group         int
	}
	var pairs []pair
	var mergedCases []*StateCase
	for _, c := range base {
		if len(c.Blocks) < 2 {
			continue
		}
		split := mergedCase(c, 1) // the same history without dropped updates
		for _, g := range []int{2, 0} {
			if g == 2 && len(c.Blocks) < 3 {
				continue
			}
			m := mergedCase(c, g)
			pairs = append(pairs, pair{split, m, g})
			mergedCases = append(mergedCases, m)
		}
	}
	type outc struct{ sN, sO, mN, mO trace }
	outs := make([]outc, len(pairs))
	parallel(pairs, func(i int, p pair) {
		var o outc
		if !lib.WithDeadline(deadline(), func() {
			o.sN, o.sO, o.mN, o.mO = runNewState(p.split), runOldState(p.split), runNewState(p.merged), runOldState(p.merged)
		}) {
			o.mN.Err = "hang: the merged history did not finish within the deadline"
		}
		outs[i] = o
	})
	last := func(t trace) string {
		if len(t.Roots) == 0 {
			return ""
		}
		return t.Roots[len(t.Roots)-1]
	}
	for i, p := range pairs {
		o := outs[i]
		res.Hit("family:state-split-vs-merged")
		res.Hit(fmt.Sprintf("split-merged:group=%d", p.group))
		for _, ch := range []struct {
			name string
			s, m trace
			nw   bool
		}{{"state", o.sN, o.mN, true}, {"deprecatedstate", o.sO, o.mO, false}} {
			if ch.s.Err != "" {
				continue // judged by the ordinary state families
			}
			run := func(c *StateCase) trace {
				if ch.nw {
					return runNewState(c)
				}
				return runOldState(c)
			}
			pp := p
			rep := func() any {
				return replayBody{Kind: "splitmerged", State: mustJSON(pp.split)}
			}
			switch {
			case ch.m.Err != "":
				sig := ch.name + "-rejects-history-when-blocks-are-merged"
				violateOnce(res, sig, func() lib.Violation {
					return lib.Violation{Sig: sig, What: fmt.Sprintf("core/%s accepts the history block by block and fails on the same writes merged into %d state update(s): %s", ch.name, len(pp.merged.Blocks), ch.m.Err), Replay: rep()}
				})
			case last(ch.s) != last(ch.m):
				sig := ch.name + "-root-depends-on-splitting-into-blocks"
				_ = run
				violateOnce(res, sig, func() lib.Violation {
					return lib.Violation{Sig: sig, What: fmt.Sprintf("core/%s: final root %s after %d blocks, %s after the same writes merged into %d state update(s)", ch.name, last(ch.s), len(pp.split.Blocks), last(ch.m), len(pp.merged.Blocks)), Replay: rep()}
				})
			}
		}
	}
	res.HitN("ms:state-split-vs-merged", msSince(t0))
	// the merged histories through the whole state machinery as well (oracle, models, Finalise / Store)
	checkStateCases(f, res, drv, mergedCases, "state-merged-blocks")
}

func mustJSON(v any) []byte {
	b, _ := json.Marshal(v)
	return b
}

// ---------------------------------------------------------------------------------------------
// 4. what Update retains: core/trie2's Trie.Update(key, value *felt.Felt) stores the caller's value POINTER
//    as the leaf (core/trie copies the value into its storage immediately). A caller that reuses the felt
//    variable afterwards — before Hash / Commit — changes the leaf in place. The model transcribes that
//    (`Trie2.poke`); this family drives it: writes go through a small set of shared value cells that are
//    overwritten between the calls. Nothing is judged for trie2 (API hazard, see the lead in the notes; no
//    caller in juno reuses the variable today — the seeded `updateClassTrie` change did); for core/trie the
//    root must be the commitment of the values AT CALL TIME.

type pStep struct {
	Op   string `json:"op"` // put | hash
	K    string `json:"k,omitempty"`
	Cell int    `json:"cell,omitempty"`
	V    string `json:"v,omitempty"`
	// MutKey: the key felt is overwritten after the call as well (both tries copy the key)
	MutKey bool `json:"mutkey,omitempty"`
}

type pCase struct {
	Height int     `json:"height"`
	Hash   string  `json:"hash"`
	Steps  []pStep `json:"steps"`
}

// valueRetained probes the tree under test: does trie2 keep the caller's value pointer?
func valueRetained() bool {
	tr := trie2NewEmpty(8, "ped")
	k, v := felt.FromUint64[felt.Felt](5), felt.FromUint64[felt.Felt](1)
	if err := tr.Update(&k, &v); err != nil {
		return false
	}
	v = felt.FromUint64[felt.Felt](9)
	got, err := tr.Get(&k)
	return err == nil && got.Equal(&v)
}

func genPCase(r *lib.RNG, height int) *pCase {
	c := &pCase{Height: height, Hash: lib.Pick(r, []string{"ped", "pos"})}
	pool := genKeyPool(r, height, r.Range(2, 6))
	for i, n := 0, r.Range(2, 14); i < n; i++ {
		if r.Chance(1, 6) {
			c.Steps = append(c.Steps, pStep{Op: "hash"})
			continue
		}
		v := lib.Pick(r, []string{"1", "2", "3", "5", "7", feltPm1, "0"})
		c.Steps = append(c.Steps, pStep{Op: "put", K: lib.Pick(r, pool).Text(16), Cell: r.Intn(2), V: v, MutKey: r.Chance(1, 3)})
	}
	return c
}

// run on the real tries; cells are reused exactly as a careless caller would
func runPReal(c *pCase) (t2roots, lgroots []string, err error) {
	var e error
	e, _, _ = lib.Try(func() error {
		tr := trie2NewEmpty(uint8(c.Height), c.Hash)
		run := func(lg core.Trie) error {
			var cells2, cellsL [2]felt.Felt
			obs := func() error {
				h, err := tr.Hash()
				if err != nil {
					return err
				}
				t2roots = append(t2roots, feltHex(&h))
				h2, err := lg.Hash()
				if err != nil {
					return err
				}
				lgroots = append(lgroots, feltHex(&h2))
				return nil
			}
			for _, st := range c.Steps {
				if st.Op == "hash" {
					if err := obs(); err != nil {
						return err
					}
					continue
				}
				k2, kL := hexFelt(st.K), hexFelt(st.K)
				cells2[st.Cell] = hexFelt(st.V)
				cellsL[st.Cell] = hexFelt(st.V)
				if err := tr.Update(&k2, &cells2[st.Cell]); err != nil {
					return err
				}
				if err := lg.Update(&kL, &cellsL[st.Cell]); err != nil {
					return err
				}
				if st.MutKey {
					k2 = felt.FromUint64[felt.Felt](0)
					kL = felt.FromUint64[felt.Felt](0)
				}
			}
			return obs()
		}
		if c.Hash == "pos" {
			return core.DeprecatedTrieBackend.RunOnTempTriePoseidon(uint8(c.Height), run)
		}
		return core.DeprecatedTrieBackend.RunOnTempTriePedersen(uint8(c.Height), run)
	})
	return t2roots, lgroots, e
}

// model script with the aliasing made explicit (retained = the probed behaviour of trie2), and the abstract map
// of the values at call time (what core/trie must commit to)
func pModelLines(c *pCase, retained bool) (lines []string, obs []int, spec []string) {
	lines = append(lines, fmt.Sprintf("new 0 %d %s", c.Height, c.Hash))
	alias := map[string]int{}   // key -> cell its live leaf points to
	cur := map[string]string{}  // value the trie2 leaf currently shows
	m := map[string]felt.Felt{} // call-time semantics
	hf := indHashFnOf(c.Hash)
	for _, st := range c.Steps {
		if st.Op == "hash" {
			obs = append(obs, len(lines))
			lines = append(lines, "hash 0")
			r := specRoot(m, c.Height, hf)
			spec = append(spec, feltHex(&r))
			continue
		}
		v := hexFelt(st.V)
		val := feltHex(&v)
		// the cell is overwritten first: every live leaf that points to it changes in place
		if retained {
			keys := make([]string, 0, len(alias))
			for k, cell := range alias {
				if cell == st.Cell && k != st.K {
					keys = append(keys, k)
				}
			}
			sortStrings(keys)
			for _, k := range keys {
				if cur[k] != val {
					lines = append(lines, fmt.Sprintf("poke 0 %s %s", k, val))
					cur[k] = val
				}
			}
			if a, ok := alias[st.K]; ok && a == st.Cell && cur[st.K] != val {
				// the leaf of this very key already points to the cell
				lines = append(lines, fmt.Sprintf("poke 0 %s %s", st.K, val))
				cur[st.K] = val
			}
		}
		lines = append(lines, fmt.Sprintf("put 0 %s %s", st.K, val))
		old, present := cur[st.K]
		switch {
		case v.IsZero():
			delete(alias, st.K)
			delete(cur, st.K)
		case present && old == val:
			// insert returns "not dirty": the old leaf object stays (and keeps pointing where it pointed)
		default:
			alias[st.K] = st.Cell
			cur[st.K] = val
		}
		if v.IsZero() {
			delete(m, st.K)
		} else {
			m[st.K] = v
		}
	}
	obs = append(obs, len(lines))
	lines = append(lines, "hash 0")
	r := specRoot(m, c.Height, hf)
	spec = append(spec, feltHex(&r))
	return lines, obs, spec
}

func checkPointerReuse(f lib.Flags, res *lib.Result, drv *lib.Driver, r *lib.RNG) {
	t0 := timeNow()
	defer func() { res.HitN("ms:value-pointer-reuse", msSince(t0)) }()
	retained := valueRetained()
	if retained {
		res.Hit("probe:value-pointer:trie2-retains-the-callers-value-pointer")
	} else {
		res.Hit("probe:value-pointer:trie2-copies-the-value")
	}
	var cases []*pCase
	for i := 0; i < f.Scale(400, 6000); i++ {
		rr := r.Fork(uint64(i))
		h := lib.Pick(rr, []int{2, 3, 3, 4, 8, 64, 251})
		cases = append(cases, genPCase(rr, h))
	}
	// the seeded pattern: several keys written through ONE variable, hashed afterwards
	cases = append(cases, &pCase{Height: 251, Hash: "pos", Steps: []pStep{{Op: "put", K: "c1a51", Cell: 0, V: "5"}, {Op: "put", K: "c1a52", Cell: 0, V: "7"}, {Op: "put", K: "c1a53", Cell: 0, V: "2"}}})
	var all []string
	type pl struct {
		off  int
		obs  []int
		spec []string
	}
	pls := make([]pl, len(cases))
	for i, c := range cases {
		ls, obs, spec := pModelLines(c, retained)
		pls[i] = pl{len(all), obs, spec}
		all = append(all, ls...)
	}
	var ans []string
	if drv != nil {
		var err error
		if ans, err = drv.AskAll(all); err != nil {
			res.Fatalf("Lean driver died / answered short in family value-pointer-reuse: %v", err)
			ans = nil
		}
	}
	for i, c := range cases {
		key, _ := json.Marshal(c)
		res.Case("ptr/"+string(key), len(c.Steps) >= 2)
		res.Hit("family:value-pointer-reuse")
		t2, lg, err := runPReal(c)
		rep := replayBody{Kind: "ptr", State: key}
		if err != nil {
			violateOnce(res, "trie-error-under-value-reuse", func() lib.Violation {
				return lib.Violation{Sig: "trie-error-under-value-reuse", What: err.Error(), Replay: rep}
			})
			continue
		}
		// core/trie copies: its root is the commitment of the values at call time
		if d := firstDiff(lg, pls[i].spec); d >= 0 && !primitivesBroken["ped"] && !primitivesBroken["pos"] {
			violateOnce(res, "legacy-trie-root-depends-on-callers-variable-after-the-call", func() lib.Violation {
				return lib.Violation{Sig: "legacy-trie-root-depends-on-callers-variable-after-the-call",
					What: fmt.Sprintf("core/trie: observation %d root %s, commitment of the values passed to Put %s", d, at(lg, d), at(pls[i].spec, d)), Replay: rep}
			})
		}
		if firstDiff(t2, pls[i].spec) >= 0 {
			res.Hit("value-pointer:trie2-root-shows-the-reused-variable")
		}
		if ans != nil {
			for j, idx := range pls[i].obs {
				res.Compared(1)
				v, e := evalTerm(ans[pls[i].off+idx])
				if e != nil || feltHex(&v) != at(t2, j) {
					res.Mismatch(lib.Mismatch{Sig: "trie2-root-under-value-pointer-reuse", Input: c, Model: clip(ans[pls[i].off+idx]), Impl: at(t2, j)})
					break
				}
			}
		}
	}
}

func sortStrings(xs []string) { sort.Strings(xs) }

func trie2NewEmpty(height uint8, hash string) *trie2.Trie {
	return trie2.NewEmpty(height, hashFnOf(hash))
}
