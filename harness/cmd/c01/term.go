//go:build verif

package main

import (
	"fmt"
	"math/big"
	"sync"

	"github.com/NethermindEth/juno/core/felt"
)

// evalTerm evaluates a hash term printed by the Lean driver with the INDEPENDENT primitives of
// refhash.go (not with core/crypto):
//
//	f<hex> | P(a,b) Pedersen | S(a,b) Poseidon | T(a,b,c) PoseidonElems | A(t,<hex>) felt addition
type termParser struct {
	s   string
	pos int
}

var (
	termCacheMu sync.Mutex
	termCache   = map[string]felt.Felt{}
)

// evalTerm memoises whole answers: the models of one history usually print the same root term.
func evalTerm(s string) (felt.Felt, error) {
	termCacheMu.Lock()
	if v, ok := termCache[s]; ok {
		termCacheMu.Unlock()
		return v, nil
	}
	termCacheMu.Unlock()
	v, err := evalTermUncached(s)
	if err == nil {
		termCacheMu.Lock()
		if len(termCache) > 50000 {
			termCache = map[string]felt.Felt{}
		}
		termCache[s] = v
		termCacheMu.Unlock()
	}
	return v, err
}

func evalTermUncached(s string) (felt.Felt, error) {
	p := &termParser{s: s}
	v, err := p.term()
	if err != nil {
		return felt.Felt{}, err
	}
	if p.pos != len(s) {
		return felt.Felt{}, fmt.Errorf("trailing input at %d in term %q", p.pos, clip(s))
	}
	return v, nil
}

func clip(s string) string {
	if len(s) > 120 {
		return s[:120] + "..."
	}
	return s
}

func (p *termParser) expect(c byte) error {
	if p.pos >= len(p.s) || p.s[p.pos] != c {
		return fmt.Errorf("expected %q at %d in term %q", c, p.pos, clip(p.s))
	}
	p.pos++
	return nil
}

func (p *termParser) hexNum() (felt.Felt, error) {
	start := p.pos
	for p.pos < len(p.s) {
		c := p.s[p.pos]
		if (c >= '0' && c <= '9') || (c >= 'a' && c <= 'f') {
			p.pos++
		} else {
			break
		}
	}
	if start == p.pos {
		return felt.Felt{}, fmt.Errorf("expected hex digits at %d in term %q", start, clip(p.s))
	}
	n, ok := new(big.Int).SetString(p.s[start:p.pos], 16)
	if !ok {
		return felt.Felt{}, fmt.Errorf("bad hex")
	}
	var f felt.Felt
	f.SetBigInt(n)
	return f, nil
}

func (p *termParser) term() (felt.Felt, error) {
	if p.pos >= len(p.s) {
		return felt.Felt{}, fmt.Errorf("unexpected end of term %q", clip(p.s))
	}
	c := p.s[p.pos]
	p.pos++
	switch c {
	case 'f':
		return p.hexNum()
	case 'P', 'S':
		if err := p.expect('('); err != nil {
			return felt.Felt{}, err
		}
		a, err := p.term()
		if err != nil {
			return felt.Felt{}, err
		}
		if err := p.expect(','); err != nil {
			return felt.Felt{}, err
		}
		b, err := p.term()
		if err != nil {
			return felt.Felt{}, err
		}
		if err := p.expect(')'); err != nil {
			return felt.Felt{}, err
		}
		if c == 'P' {
			return indPedersen(&a, &b), nil
		}
		return indPoseidon(&a, &b), nil
	case 'T':
		if err := p.expect('('); err != nil {
			return felt.Felt{}, err
		}
		var xs [3]felt.Felt
		for i := 0; i < 3; i++ {
			v, err := p.term()
			if err != nil {
				return felt.Felt{}, err
			}
			xs[i] = v
			sep := byte(',')
			if i == 2 {
				sep = ')'
			}
			if err := p.expect(sep); err != nil {
				return felt.Felt{}, err
			}
		}
		return indPoseidonElems(&xs[0], &xs[1], &xs[2]), nil
	case 'A':
		if err := p.expect('('); err != nil {
			return felt.Felt{}, err
		}
		a, err := p.term()
		if err != nil {
			return felt.Felt{}, err
		}
		if err := p.expect(','); err != nil {
			return felt.Felt{}, err
		}
		n, err := p.hexNum()
		if err != nil {
			return felt.Felt{}, err
		}
		if err := p.expect(')'); err != nil {
			return felt.Felt{}, err
		}
		var r felt.Felt
		r.Add(&a, &n)
		return r, nil
	}
	return felt.Felt{}, fmt.Errorf("unexpected %q at %d in term %q", c, p.pos-1, clip(p.s))
}
