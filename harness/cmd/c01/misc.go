//go:build verif

package main

import (
	"fmt"
	"math/big"
	"sort"
	"strings"
	"sync"
	"time"

	"github.com/NethermindEth/juno/core"
	"github.com/NethermindEth/juno/core/crypto"
	"github.com/NethermindEth/juno/core/felt"
	"verif/harness/lib"
)

func deadline() time.Duration { return 120 * time.Second }

// classifyOps counts, from the abstract key sets alone, which restructuring case each write is.
func classifyOps(res *lib.Result, c *TrieCase) {
	m := map[string]*big.Int{}
	vals := map[string]string{}
	for _, op := range c.Ops {
		if op.Op != "put" {
			continue
		}
		k, _ := new(big.Int).SetString(op.K, 16)
		_, present := m[op.K]
		zero := op.V == "0"
		switch {
		case zero && !present:
			res.Hit("case:zero-write-absent-key(no-op)")
		case zero && present:
			delete(m, op.K)
			delete(vals, op.K)
			switch len(m) {
			case 0:
				res.Hit("case:delete-last-key(root removed)")
			case 1:
				res.Hit("case:delete-to-single-leaf(root replaced)")
			default:
				res.Hit("case:delete-collapse-binary")
				// is the sibling subtree a single key (edge to leaf) or a binary?
				d := maxLCP(k, m, c.Height)
				if countSharing(k, m, c.Height, d+1, true) == 1 {
					res.Hit("case:delete-sibling-is-leaf-edge")
				} else {
					res.Hit("case:delete-sibling-is-subtree")
				}
			}
		case !zero && present:
			if vals[op.K] == op.V {
				res.Hit("case:overwrite-same-value")
			} else {
				res.Hit("case:overwrite-other-value")
			}
			vals[op.K] = op.V
		default:
			if len(m) == 0 {
				res.Hit("case:insert-into-empty")
			} else {
				d := maxLCP(k, m, c.Height)
				res.Hit("case:insert-split-edge")
				switch {
				case d == 0:
					res.Hit("case:split-at-root(root replaced)")
				case d == c.Height-1:
					res.Hit("case:split-at-last-bit")
				}
			}
			m[op.K] = k
			vals[op.K] = op.V
		}
	}
}

func lcp(a, b *big.Int, height int) int {
	x := new(big.Int).Xor(a, b)
	if x.Sign() == 0 {
		return height
	}
	return height - x.BitLen()
}

func maxLCP(k *big.Int, m map[string]*big.Int, height int) int {
	best := 0
	for _, o := range m {
		if l := lcp(k, o, height); l > best {
			best = l
		}
	}
	return best
}

// countSharing counts keys of m that share the first d-1 bits with k and (flip) differ at bit d-1.
func countSharing(k *big.Int, m map[string]*big.Int, height, d int, flip bool) int {
	n := 0
	for _, o := range m {
		if lcp(k, o, height) == d-1 {
			n++
		}
	}
	return n
}

// ---- temp tries used for transaction / event / receipt commitments (height 64, keys 0..n-1) ----

func tempRoot(b core.TempTrieBackend, pos bool, vals []felt.Felt) (felt.Felt, error) {
	run := b.RunOnTempTriePedersen
	if pos {
		run = b.RunOnTempTriePoseidon
	}
	var root felt.Felt
	err := run(64, func(t core.Trie) error {
		for i := range vals {
			k := felt.FromUint64[felt.Felt](uint64(i))
			if err := t.Update(&k, &vals[i]); err != nil {
				return err
			}
		}
		var err error
		root, err = t.Hash()
		return err
	})
	return root, err
}

// tempVals: the item hashes of a temporary commitment trie with n items, a function of n alone (so that n is
// the replay): small values, boundary felts, and zeros (a zero item hash is written as a no-op) at the first,
// the last and some inner indices.
func tempVals(n int) []felt.Felt {
	bs := boundaryFelts()
	vals := make([]felt.Felt, n)
	for i := range vals {
		switch {
		case n >= 4 && (i == 2 || (i == 0 && n%3 == 0) || (i == n-1 && n%2 == 0) || (i > 4 && (i+n)%13 == 0)):
			vals[i] = felt.Zero
		case (i+n)%5 == 1:
			vals[i] = hexFelt(bs[(i*7+n)%len(bs)])
		default:
			vals[i] = felt.FromUint64[felt.Felt](uint64(1000 + 7*i))
		}
	}
	return vals
}

func checkTempTrieN(res *lib.Result, drv *lib.Driver, n int) {
	for _, pos := range []bool{false, true} {
		vals := tempVals(n)
		m := map[string]felt.Felt{}
		for i := range vals {
			m[fmt.Sprintf("%x", i)] = vals[i]
			if vals[i].IsZero() {
				res.Hit("temp-trie:zero-item")
			}
		}
		hf := crypto.HashFn(indPedersen)
		if pos {
			hf = indPoseidon
		}
		want := specRoot(m, 64, hf)
		var a, b felt.Felt
		err, _, _ := lib.Try(func() error {
			var e error
			if a, e = tempRoot(core.TrieBackend, pos, vals); e != nil {
				return e
			}
			b, e = tempRoot(core.DeprecatedTrieBackend, pos, vals)
			return e
		})
		res.Case(fmt.Sprintf("temptrie/%d/%v", n, pos), n >= 2)
		res.Hit("family:temp-trie-h64")
		rep := replayBody{Kind: "temptrie", State: []byte(fmt.Sprint(n))}
		// the model's `commitmentOps` (theorem commitment_trie_canonical) against the real temporary tries
		if drv != nil && n <= 300 && err == nil {
			kind := "ped"
			if pos {
				kind = "pos"
			}
			line := "comm " + kind
			for i := range vals {
				line += " " + feltHex(&vals[i])
			}
			ans, derr := drv.AskAll([]string{line})
			if derr != nil || len(ans) != 1 {
				res.Fatalf("Lean driver died / answered short in family temp-trie: %v", derr)
			} else {
				res.Compared(1)
				v, e := evalTerm(ans[0])
				if e != nil || !v.Equal(&a) {
					res.Mismatch(lib.Mismatch{Sig: "temp-trie-commitmentOps", Input: n, Model: clip(ans[0]), Impl: a.String()})
				}
			}
		}
		switch {
		case err != nil:
			violateOnce(res, "temp-trie-error", func() lib.Violation { return lib.Violation{Sig: "temp-trie-error", What: err.Error(), Replay: rep} })
		case (!a.Equal(&want) || !b.Equal(&want)) && func() bool {
			jf := crypto.HashFn(crypto.Pedersen)
			if pos {
				jf = crypto.Poseidon
			}
			j := specRoot(m, 64, jf)
			return a.Equal(&j) && b.Equal(&j)
		}():
			k := "ped"
			if pos {
				k = "pos"
			}
			reportPrimitiveInside(res, k, rep, a.String(), want.String())
		case !a.Equal(&want):
			violateOnce(res, "temp-trie2-root-differs-from-commitment-of-map", func() lib.Violation { return lib.Violation{Sig: "temp-trie2-root-differs-from-commitment-of-map",
				What: fmt.Sprintf("core.TrieBackend n=%d poseidon=%v: %s, expected %s", n, pos, a.String(), want.String()), Replay: rep} })
		case !b.Equal(&want):
			violateOnce(res, "temp-legacy-trie-root-differs-from-commitment-of-map", func() lib.Violation { return lib.Violation{Sig: "temp-legacy-trie-root-differs-from-commitment-of-map",
				What: fmt.Sprintf("core.DeprecatedTrieBackend n=%d poseidon=%v: %s, expected %s", n, pos, b.String(), want.String()), Replay: rep} })
		}
	}
}

func checkTempTries(f lib.Flags, res *lib.Result, drv *lib.Driver, r *lib.RNG) {
	ns := []int{0, 1, 2, 3, 4, 5, 7, 8, 9, 16, 17, 31, 33, 64, 100, 101, 102, 129, 257}
	if f.Thorough() {
		for i := 0; i < 40; i++ {
			ns = append(ns, r.Range(10, 1200))
		}
	}
	sort.Ints(ns)
	// (the driver is one sequential process: the cases run one after the other)
	for _, n := range ns {
		checkTempTrieN(res, drv, n)
	}
}

var (
	sigMu   sync.Mutex
	sigSeen = map[string]bool{}
)

// violateOnce builds (and shrinks) the replay only for the first violation of each signature.
func violateOnce(res *lib.Result, sig string, mk func() lib.Violation) {
	sigMu.Lock()
	seen := sigSeen[sig]
	sigSeen[sig] = true
	sigMu.Unlock()
	if seen {
		return
	}
	res.Violate(mk())
}

func timeNow() time.Time          { return time.Now() }
func msSince(t time.Time) int     { return int(time.Since(t).Milliseconds()) }

// ---- pins of behaviour OUTSIDE the input space of the property (leads, see notes/C01.md) ------------------
//
// These inputs are excluded by the assumptions in checks/c01.json. The probe records what the tree under
// test does with them (distribution keys `probe:*`), so that a change of that behaviour is visible; nothing
// here is judged.
func probeLeads(res *lib.Result) {
	// 1. a trie key >= 2^height: core/trie2 truncates the key (aliases key mod 2^height), core/trie errors
	for _, h := range []uint8{64, 251} {
		big1 := new(big.Int).Add(new(big.Int).Lsh(big.NewInt(1), uint(h)), big.NewInt(5))
		k := felt.NewFromBytes[felt.Felt](big1.Bytes())
		five, v := felt.FromUint64[felt.Felt](5), felt.FromUint64[felt.Felt](9)
		for _, b := range []struct {
			name string
			be   core.TempTrieBackend
		}{{"trie2", core.TrieBackend}, {"legacy", core.DeprecatedTrieBackend}} {
			what := "rejects"
			err, panicked, _ := lib.Try(func() error {
				return runTemp(b.be, h, func(t core.Trie) error {
					if err := t.Update(k, &v); err != nil {
						return err
					}
					got, err := t.Get(&five)
					if err != nil {
						return err
					}
					if got.Equal(&v) {
						what = "aliases-key-mod-2^height"
					} else {
						what = "accepts-without-alias"
					}
					return nil
				})
			})
			if panicked {
				what = "panics"
			} else if err != nil {
				what = "rejects"
			}
			res.Hit(fmt.Sprintf("probe:key-out-of-range:h%d:%s-%s", h, b.name, what))
		}
	}
	// 2. unparsable protocol version with an empty class trie and a non-empty contract trie
	for _, nw := range []bool{true, false} {
		c := &StateCase{Blocks: []SBlock{{Version: "0.x.1", Deployed: map[string]string{"abc": "c1a55"}}}}
		t := runOldState(c)
		name := "deprecatedstate"
		if nw {
			t = runNewState(c)
			name = "state"
		}
		what := "accepts"
		if strings.HasPrefix(t.Err, "panic") {
			what = "panics"
		} else if t.Err != "" {
			what = "rejects"
		}
		res.Hit("probe:unparsable-version:" + name + "-" + what)
	}
	// 3. deploy at a system address: the abstract state has a contract with a class at 0x2
	{
		c := &StateCase{Blocks: []SBlock{{Version: "0.13.2", Deployed: map[string]string{"2": "c1a55"}}}}
		want, _ := specStateTrace(c)
		for _, nw := range []bool{true, false} {
			t := runOldState(c)
			name := "deprecatedstate"
			if nw {
				t = runNewState(c)
				name = "state"
			}
			what := "root-of-abstract-state"
			if t.Err != "" {
				what = "rejects"
			} else if at(t.Roots, 0) == "0" {
				what = "root-zero-record-purged"
			} else if at(t.Roots, 0) != want[0] {
				what = "other-root"
			}
			res.Hit("probe:deploy-at-system-address:" + name + "-" + what)
		}
	}
}

func runTemp(b core.TempTrieBackend, h uint8, f func(core.Trie) error) error {
	return b.RunOnTempTriePedersen(h, f)
}
