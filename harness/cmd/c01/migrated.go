//go:build verif

package main

// Round 5: a database state that only an UPGRADE produces.
//
// A node that ran on core/deprecatedstate and is restarted with the trie2-based state goes through
// migration/state/headstate: the per-field contract layout (ContractClassHash / ContractNonce /
// ContractDeploymentHeight) is consolidated into Contract records by state.WriteContract, which leaves
// StorageRoot ZERO ("lazily backfilled"). All other families build their trie2 states natively, where a record
// with a zero root is a contract without storage. Here the Contract bucket of the trie2 database is produced by
// the REAL migrator from a REAL legacy database of the same history, and blocks are then applied to it: a block
// that touches a migrated contract only through Nonces / ReplacedClasses, through its storage, not at all, …
// After every block: root on the migrated database == independent commitment of the abstract state == root of
// the natively built trie2 database == root of the legacy backend, and the Contract bucket itself (cached
// storage roots included) is compared with the Lean model (ModelMigrate.lean).
//
// juno has no migration for the TRIES (the legacy buckets StateTrie / ContractStorage / ClassesTrie are not
// converted to ContractTrieContract / ContractTrieStorage / ClassTrie): the migrated database takes the three
// trie2 buckets from the natively built database of the same history; everything else (class definitions, the
// per-field contract buckets the migrator reads, the legacy tries it leaves alone) is the legacy database.

import (
	"context"
	"encoding/json"
	"fmt"
	"sort"
	"strings"

	"github.com/NethermindEth/juno/blockchain/networks"
	"github.com/NethermindEth/juno/core"
	"github.com/NethermindEth/juno/core/deprecatedstate"
	"github.com/NethermindEth/juno/core/felt"
	"github.com/NethermindEth/juno/core/state"
	"github.com/NethermindEth/juno/core/trie2/triedb"
	"github.com/NethermindEth/juno/db"
	"github.com/NethermindEth/juno/db/memory"
	"github.com/NethermindEth/juno/migration/state/headstate"
	"github.com/NethermindEth/juno/utils/log"
	"verif/harness/lib"
)

type MigCase struct {
	Pre  []SBlock `json:"pre"`  // blocks before the upgrade (legacy backend)
	Post []SBlock `json:"post"` // blocks after the head-state migration (trie2-based backend)
}

type migTrace struct {
	Err      string     // harness-level failure / error before the migration (history not usable)
	MigErr   string     // the migrator failed, or changed what it must not change
	MigNote  string     // the Contract bucket / the per-field buckets are not what the migrator documents (not judged by itself)
	PostErr  string     // a post-migration block failed on the migrated database
	NatErr   string     // ... on the natively built database
	LegErr   string     // ... on the legacy database
	PreRoots []string   // native roots of the pre blocks
	M, N, L  []string   // roots after every post block: migrated / native trie2 / legacy
	Recs     [][]string // Contract bucket of the migrated database: after the migration, then after every post block
	PreRecs  [][]string // Contract bucket of the native database after every pre block
}

// applyNew: one block through core/state the way statebackend does (fresh StateDB + State, one database write);
// the old root is the commitment of the current state under the block's version (this family is not about the
// old-root check); the root is read back from a fresh reader afterwards.
func applyNew(disk *memory.Database, prev *felt.Felt, n uint64, b *SBlock) (felt.Felt, error) {
	sdb := state.NewStateDB(disk, triedb.New(disk, nil))
	rd, err := state.NewStateReader(prev, sdb)
	if err != nil {
		return felt.Zero, err
	}
	old, err := rd.Commitment(b.Version)
	if err != nil {
		return felt.Zero, err
	}
	hdr := &core.Header{Number: n, ProtocolVersion: b.Version}
	var newRoot felt.Felt
	err = disk.Write(func(batch db.Batch) error {
		st, err := state.New(prev, sdb, batch)
		if err != nil {
			return err
		}
		su, classes := toUpdate(b, &old)
		if err := st.Update(hdr, su, classes, true); err != nil {
			return err
		}
		newRoot, err = st.Commitment(b.Version)
		return err
	})
	if err != nil {
		return felt.Zero, err
	}
	rd2, err := state.NewStateReader(&newRoot, state.NewStateDB(disk, triedb.New(disk, nil)))
	if err != nil {
		return felt.Zero, err
	}
	again, err := rd2.Commitment(b.Version)
	if err != nil {
		return felt.Zero, fmt.Errorf("reopen: %w", err)
	}
	if !again.Equal(&newRoot) {
		return felt.Zero, fmt.Errorf("root after reopen %s differs from the root computed by Update %s", again.String(), newRoot.String())
	}
	return newRoot, nil
}

func applyOld(disk *memory.Database, n uint64, b *SBlock) (felt.Felt, error) {
	hdr := &core.Header{Number: n, ProtocolVersion: b.Version}
	var newRoot felt.Felt
	err := disk.Update(func(txn db.IndexedBatch) error {
		st := deprecatedstate.New(txn)
		old, err := st.Commitment(b.Version)
		if err != nil {
			return err
		}
		su, classes := toUpdate(b, &old)
		if err := st.Update(hdr, su, classes, true); err != nil {
			return err
		}
		newRoot, err = st.Commitment(b.Version)
		return err
	})
	return newRoot, err
}

// contractBucket: the Contract bucket decoded independently of juno's unmarshalling: value = nonce(32)
// class(32) [storage root(32)] height(8); canonical entries `addr:class:nonce:root` sorted by address.
func contractBucket(disk *memory.Database) ([]string, error) {
	prefix := db.Contract.Key()
	it, err := disk.NewIterator(prefix, true)
	if err != nil {
		return nil, err
	}
	defer it.Close()
	type ent struct {
		addr felt.Felt
		s    string
	}
	var es []ent
	for ok := it.First(); ok; ok = it.Next() {
		k := it.Key()
		v, err := it.Value()
		if err != nil {
			return nil, err
		}
		if len(k) != 1+felt.Bytes {
			return nil, fmt.Errorf("Contract bucket: key of %d bytes", len(k))
		}
		addr := felt.FromBytes[felt.Felt](k[1:])
		var nonce, class, root felt.Felt
		switch len(v) {
		case 2*felt.Bytes + 8:
			nonce.SetBytes(v[:felt.Bytes])
			class.SetBytes(v[felt.Bytes : 2*felt.Bytes])
		case 3*felt.Bytes + 8:
			nonce.SetBytes(v[:felt.Bytes])
			class.SetBytes(v[felt.Bytes : 2*felt.Bytes])
			root.SetBytes(v[2*felt.Bytes : 3*felt.Bytes])
			if root.IsZero() {
				return nil, fmt.Errorf("Contract bucket: record of %s in the long form with a zero storage root", addr.String())
			}
		default:
			return nil, fmt.Errorf("Contract bucket: record of %d bytes", len(v))
		}
		es = append(es, ent{addr, feltHex(&addr) + ":" + feltHex(&class) + ":" + feltHex(&nonce) + ":" + feltHex(&root)})
	}
	sort.Slice(es, func(i, j int) bool { return es[i].addr.Cmp(&es[j].addr) < 0 })
	out := make([]string, len(es))
	for i := range es {
		out[i] = es[i].s
	}
	return out, nil
}

func bucketCount(disk *memory.Database, b db.Bucket) int {
	it, err := disk.NewIterator(b.Key(), true)
	if err != nil {
		return -1
	}
	defer it.Close()
	n := 0
	for ok := it.First(); ok; ok = it.Next() {
		n++
	}
	return n
}

func isTrie2Bucket(b byte) bool {
	return b == byte(db.ContractTrieContract) || b == byte(db.ContractTrieStorage) || b == byte(db.ClassTrie)
}

// buildUpgraded: the database of a legacy node after `--new-state`: everything the legacy node wrote, the trie2
// buckets of the same state, and the Contract bucket written by the real head-state migrator.
func buildUpgraded(legacy, native *memory.Database) (*memory.Database, error) {
	m := memory.New()
	for k, v := range dumpDB(legacy) {
		if isTrie2Bucket(k[0]) || k[0] == byte(db.Contract) {
			return nil, fmt.Errorf("the legacy backend wrote bucket %d", k[0])
		}
		if err := m.Put([]byte(k), []byte(v)); err != nil {
			return nil, err
		}
	}
	for k, v := range dumpDB(native) {
		if isTrie2Bucket(k[0]) {
			if err := m.Put([]byte(k), []byte(v)); err != nil {
				return nil, err
			}
		}
	}
	return m, nil
}

func runMigrated(c *MigCase) (tr migTrace) {
	err, panicked, _ := lib.Try(func() error {
		L, N := memory.New(), memory.New()
		prevN, prevL := felt.Zero, felt.Zero
		for n := range c.Pre {
			b := &c.Pre[n]
			var err error
			if prevN, err = applyNew(N, &prevN, uint64(n), b); err != nil {
				tr.Err = fmt.Sprintf("pre block %d, core/state: %v", n, err)
				return nil
			}
			if prevL, err = applyOld(L, uint64(n), b); err != nil {
				tr.Err = fmt.Sprintf("pre block %d, core/deprecatedstate: %v", n, err)
				return nil
			}
			tr.PreRoots = append(tr.PreRoots, feltHex(&prevN))
			recs, err := contractBucket(N)
			if err != nil {
				tr.Err = err.Error()
				return nil
			}
			tr.PreRecs = append(tr.PreRecs, recs)
		}
		_ = prevL
		M, err := buildUpgraded(L, N)
		if err != nil {
			tr.Err = err.Error()
			return nil
		}
		nAddr := bucketCount(M, db.ContractClassHash)
		before := dumpDB(M)
		if _, err := (headstate.Migrator{}).Migrate(context.Background(), M, &networks.Mainnet, log.NewNopZapLogger()); err != nil {
			tr.MigErr = "Migrate: " + err.Error()
			return nil
		}
		// what the migration may change: the Contract bucket (one record per legacy contract) and the three
		// per-field buckets (wiped); nothing else — in particular no trie node
		after := dumpDB(M)
		for k := range before {
			b := k[0]
			if b == byte(db.ContractClassHash) || b == byte(db.ContractNonce) || b == byte(db.ContractDeploymentHeight) {
				continue
			}
			if v, ok := after[k]; !ok || v != before[k] {
				tr.MigErr = fmt.Sprintf("the migration changed / removed key %x (bucket %d)", k, b)
				return nil
			}
		}
		for k := range after {
			if _, ok := before[k]; !ok && k[0] != byte(db.Contract) {
				tr.MigErr = fmt.Sprintf("the migration added key %x (bucket %d)", k, k[0])
				return nil
			}
		}
		if got := bucketCount(M, db.Contract); got != nAddr {
			tr.MigNote = fmt.Sprintf("%d legacy contracts, %d Contract records after the migration", nAddr, got)
		}
		for _, b := range []db.Bucket{db.ContractClassHash, db.ContractNonce, db.ContractDeploymentHeight} {
			if n := bucketCount(M, b); n != 0 && tr.MigNote == "" {
				tr.MigNote = fmt.Sprintf("bucket %v still holds %d keys after the migration", b, n)
			}
		}
		// the state root is untouched
		if len(c.Pre) > 0 {
			rd, err := state.NewStateReader(&prevN, state.NewStateDB(M, triedb.New(M, nil)))
			if err != nil {
				return err
			}
			ver := c.Pre[len(c.Pre)-1].Version
			if now, err := rd.Commitment(ver); err != nil || !now.Equal(&prevN) {
				tr.MigErr = fmt.Sprintf("after the migration the state reads root %s (err %v), the head's root is %s", now.String(), err, prevN.String())
				return nil
			}
		}
		recs, err := contractBucket(M)
		if err != nil {
			tr.MigErr = err.Error()
			return nil
		}
		tr.Recs = append(tr.Recs, recs)
		prevM := prevN
		for i := range c.Post {
			b := &c.Post[i]
			n := uint64(len(c.Pre) + i)
			if tr.PostErr == "" {
				if prevM, err = applyNew(M, &prevM, n, b); err != nil {
					tr.PostErr = fmt.Sprintf("post block %d: %v", i, err)
				} else {
					tr.M = append(tr.M, feltHex(&prevM))
					recs, err := contractBucket(M)
					if err != nil {
						tr.PostErr = err.Error()
					} else {
						tr.Recs = append(tr.Recs, recs)
					}
				}
			}
			if tr.NatErr == "" {
				if prevN, err = applyNew(N, &prevN, n, b); err != nil {
					tr.NatErr = fmt.Sprintf("post block %d: %v", i, err)
				} else {
					tr.N = append(tr.N, feltHex(&prevN))
				}
			}
			if tr.LegErr == "" {
				var r felt.Felt
				if r, err = applyOld(L, n, b); err != nil {
					tr.LegErr = fmt.Sprintf("post block %d: %v", i, err)
				} else {
					tr.L = append(tr.L, feltHex(&r))
				}
			}
		}
		return nil
	})
	if err != nil {
		tr.Err = err.Error()
		if panicked {
			tr.Err = "panic: " + tr.Err
		}
	}
	return tr
}

func (c *MigCase) whole() *StateCase {
	return &StateCase{Blocks: append(append([]SBlock{}, c.Pre...), c.Post...)}
}

// model script: mnew, one mblock per pre block, mmigrate, one mblock per post block
func migModelLines(c *MigCase, id int) (lines []string, preIdx []int, migIdx int, postIdx []int) {
	lp := 0
	if legacyPurgeVariant {
		lp = 1
	}
	lines = []string{fmt.Sprintf("mnew %d %d", id, lp)}
	for n := range c.Pre {
		preIdx = append(preIdx, len(lines))
		lines = append(lines, diffLine("mblock", id, &c.Pre[n]))
	}
	migIdx = len(lines)
	lines = append(lines, fmt.Sprintf("mmigrate %d", id))
	for n := range c.Post {
		postIdx = append(postIdx, len(lines))
		lines = append(lines, diffLine("mblock", id, &c.Post[n]))
	}
	return
}

// a model answer `<root> R:addr:class:nonce:root ...` -> root, canonical records (terms evaluated)
func parseMigAnswer(ans string, withRoot bool) (root string, recs []string, err error) {
	fs := strings.Fields(ans)
	if len(fs) == 0 {
		return "", nil, fmt.Errorf("empty answer")
	}
	if withRoot {
		v, e := evalTerm(fs[0])
		if e != nil {
			return "", nil, fmt.Errorf("root term: %v", e)
		}
		root = feltHex(&v)
	} else if fs[0] != "ok" {
		return "", nil, fmt.Errorf("answer %q", clip(ans))
	}
	for _, f := range fs[1:] {
		p := strings.SplitN(f, ":", 5)
		if len(p) != 5 || p[0] != "R" {
			return "", nil, fmt.Errorf("record %q", clip(f))
		}
		out := p[1]
		for _, t := range p[2:] {
			v, e := evalTerm(t)
			if e != nil {
				return "", nil, fmt.Errorf("record term %q: %v", clip(t), e)
			}
			out += ":" + feltHex(&v)
		}
		recs = append(recs, out)
	}
	return root, recs, nil
}

func shrinkMig(c *MigCase, fails func(*MigCase) bool) *MigCase {
	ok := func(x *MigCase) bool { return validState(x.whole()) && fails(x) }
	cp := func(x *MigCase) *MigCase {
		b, _ := json.Marshal(x)
		var out MigCase
		_ = json.Unmarshal(b, &out)
		return &out
	}
	cur := cp(c)
	if !ok(cur) {
		return c
	}
	for len(cur.Post) > 1 {
		cand := cp(cur)
		cand.Post = cand.Post[:len(cand.Post)-1]
		if !ok(cand) {
			break
		}
		cur = cand
	}
	for i := len(cur.Post) - 2; i >= 0; i-- {
		cand := cp(cur)
		cand.Post = append(cand.Post[:i], cand.Post[i+1:]...)
		if ok(cand) {
			cur = cand
		}
	}
	for i := len(cur.Pre) - 1; i >= 0 && len(cur.Pre) > 1; i-- {
		cand := cp(cur)
		cand.Pre = append(cand.Pre[:i], cand.Pre[i+1:]...)
		if ok(cand) {
			cur = cand
		}
	}
	// entries of the blocks
	for _, blocks := range []*[]SBlock{&cur.Pre, &cur.Post} {
		_ = blocks
	}
	for changed := true; changed; {
		changed = false
		for pi := 0; pi < 2; pi++ {
			get := func(x *MigCase) []SBlock {
				if pi == 0 {
					return x.Pre
				}
				return x.Post
			}
			for bi := range get(cur) {
				for addr, st := range get(cur)[bi].Storage {
					for k := range st {
						cand := cp(cur)
						bs := get(cand)
						delete(bs[bi].Storage[addr], k)
						if len(bs[bi].Storage[addr]) == 0 {
							delete(bs[bi].Storage, addr)
						}
						if ok(cand) {
							cur = cand
							changed = true
						}
					}
				}
				for _, mp := range []func(*SBlock) map[string]string{
					func(b *SBlock) map[string]string { return b.Nonces },
					func(b *SBlock) map[string]string { return b.Replaced },
					func(b *SBlock) map[string]string { return b.Declared },
					func(b *SBlock) map[string]string { return b.Migrated },
					func(b *SBlock) map[string]string { return b.Deployed },
				} {
					for k := range mp(&get(cur)[bi]) {
						cand := cp(cur)
						delete(mp(&get(cand)[bi]), k)
						if ok(cand) {
							cur = cand
							changed = true
						}
					}
				}
			}
		}
	}
	return cur
}

// ---- generators ---------------------------------------------------------------------------------------------

// directed, exhaustive over short post sequences: contract abc WITH storage, contract def WITHOUT, system contract
// 0x1 with storage, class c1a55 declared; every sequence of 1..2 post blocks over the touch alphabet
func migTouchAlphabet(ver string) []SBlock {
	st := func(addr string, kv map[string]string) map[string]map[string]string {
		return map[string]map[string]string{addr: kv}
	}
	return []SBlock{
		{Version: ver}, // empty block
		{Version: ver, Nonces: map[string]string{"abc": "1"}},                                                          // nonce only, contract with storage
		{Version: ver, Replaced: map[string]string{"abc": "c1a56"}},                                                    // class only
		{Version: ver, Nonces: map[string]string{"abc": "2"}, Replaced: map[string]string{"abc": "c1a57"}},             // both, no storage entry
		{Version: ver, Storage: st("abc", map[string]string{"3": "3"})},                                                // new slot
		{Version: ver, Storage: st("abc", map[string]string{"1": "9"})},                                                // overwrite
		{Version: ver, Storage: st("abc", map[string]string{"1": "0"})},                                                // zero one of two
		{Version: ver, Storage: st("abc", map[string]string{"1": "0", "2": "0"})},                                      // storage emptied
		{Version: ver, Storage: st("abc", map[string]string{"5": "0"}), Nonces: map[string]string{"abc": "3"}},         // no-op zero write + nonce
		{Version: ver, Nonces: map[string]string{"def": "1"}},                                                          // nonce only, contract WITHOUT storage
		{Version: ver, Storage: st("def", map[string]string{"1": "1"})},                                                // first slot of a migrated contract without storage
		{Version: ver, Storage: st("1", map[string]string{"8": "1"})},                                                  // system contract
		{Version: ver, Storage: st("1", map[string]string{"7": "0"})},                                                  // system contract emptied (purge)
		{Version: ver, Deployed: map[string]string{"777": "c1a55"}, Nonces: map[string]string{"777": "1", "abc": "4"}}, // a native deploy next to a nonce-only touch
		{Version: ver, Declared: map[string]string{"c1a58": "ca5a8"}, Nonces: map[string]string{"abc": "5"}},
		// (round 6) the class trie of the upgraded database: CASM-hash migration of a class declared BEFORE the upgrade,
		// next to a nonce-only touch; class-only touch of the contract without storage; a definition registered
		// without declaration (ExtraDefs) for a class the next block may declare
		{Version: ver, Migrated: map[string]string{"c1a55": "ca5b1"}, Nonces: map[string]string{"abc": "6"}},
		{Version: ver, Replaced: map[string]string{"def": "c1a56"}, ExtraDefs: []string{"c1a58"}},
	}
}

func migDirectedCases() []*MigCase {
	var out []*MigCase
	for _, ver := range []string{"0.13.2", "0.14.0"} {
		pre := []SBlock{
			{Version: ver, Deployed: map[string]string{"abc": "c1a55", "def": "c1a55"}, Declared: map[string]string{"c1a55": "ca5a1"},
				Storage: map[string]map[string]string{"abc": {"1": "1", "2": "2"}, "1": {"7": "5"}}},
		}
		alpha := migTouchAlphabet(ver)
		for i := range alpha {
			out = append(out, &MigCase{Pre: pre, Post: []SBlock{alpha[i]}})
			for j := range alpha {
				// (deploying 777 twice is invalid)
				if len(alpha[i].Deployed) > 0 && len(alpha[j].Deployed) > 0 {
					continue
				}
				out = append(out, &MigCase{Pre: pre, Post: []SBlock{alpha[i], alpha[j]}})
			}
		}
		// the legacy node had emptied a system contract before the upgrade (known finding: it keeps the record)
		out = append(out, &MigCase{
			Pre: []SBlock{
				{Version: ver, Deployed: map[string]string{"abc": "c1a55"}, Storage: map[string]map[string]string{"abc": {"1": "1"}, "2": {"7": "5"}}},
				{Version: ver, Storage: map[string]map[string]string{"2": {"7": "0"}}},
			},
			Post: []SBlock{
				{Version: ver, Nonces: map[string]string{"abc": "1"}},
				{Version: ver, Storage: map[string]map[string]string{"2": {"9": "1"}}},
				{Version: ver, Storage: map[string]map[string]string{"2": {"9": "0"}}, Replaced: map[string]string{"abc": "c1a56"}},
			},
		})
		// upgrade of an empty database, and of a database with classes only
		out = append(out, &MigCase{Post: []SBlock{{Version: ver, Deployed: map[string]string{"abc": "c1a55"}, Storage: map[string]map[string]string{"abc": {"1": "1"}}},
			{Version: ver, Nonces: map[string]string{"abc": "1"}}}})
		out = append(out, &MigCase{Pre: []SBlock{{Version: ver, Declared: map[string]string{"c1a55": "ca5a1"}}},
			Post: []SBlock{{Version: ver, Deployed: map[string]string{"abc": "c1a55"}}, {Version: ver, Nonces: map[string]string{"abc": "1"}}}})
	}
	// the upgrade coincides with the protocol upgrade
	out = append(out, &MigCase{
		Pre:  []SBlock{{Version: "0.13.2", Deployed: map[string]string{"abc": "c1a55"}, Storage: map[string]map[string]string{"abc": {"1": "1"}}}},
		Post: []SBlock{{Version: "0.14.0", Nonces: map[string]string{"abc": "1"}}, {Version: "0.14.1", Replaced: map[string]string{"abc": "c1a56"}}},
	})
	return out
}

// random: a random valid history cut at a random block; the post blocks are biased towards touching migrated
// contracts without a storage entry
func genMigCase(r *lib.RNG) *MigCase {
	p := genPools(r)
	p.noMigrate = r.Chance(1, 2)
	a := newAbs()
	ver, vi := pickVersionFrom(r, 0)
	nPre, nPost := r.Range(1, 4), r.Range(1, 4)
	c := &MigCase{}
	for n := 0; n < nPre; n++ {
		b := genBlock(r, a, p, ver)
		a.apply(&b)
		c.Pre = append(c.Pre, b)
	}
	if r.Chance(1, 4) {
		ver, _ = pickVersionFrom(r, vi)
	}
	for n := 0; n < nPost; n++ {
		b := genBlock(r, a, p, ver)
		if r.Chance(1, 2) {
			// strip the storage entries of some contracts that the block also touches through nonce / class
			for addr := range b.Storage {
				_, hasN := b.Nonces[addr]
				_, hasR := b.Replaced[addr]
				if (hasN || hasR) && r.Chance(2, 3) {
					delete(b.Storage, addr)
				}
			}
			// and touch an existing contract with storage through its nonce only
			var withStorage []string
			for addr, ct := range a.contracts {
				if !isSystem(addr) && len(ct.storage) > 0 {
					withStorage = append(withStorage, addr)
				}
			}
			sort.Strings(withStorage)
			if len(withStorage) > 0 {
				addr := lib.Pick(r, withStorage)
				delete(b.Storage, addr)
				if r.Bool() {
					if b.Nonces == nil {
						b.Nonces = map[string]string{}
					}
					b.Nonces[addr] = lib.Pick(r, []string{"1", "2", "ff", feltPm1})
				} else {
					if b.Replaced == nil {
						b.Replaced = map[string]string{}
					}
					b.Replaced[addr] = lib.Pick(r, p.deployClasses)
				}
			}
			if len(b.Storage) == 0 {
				b.Storage = nil
			}
		}
		a.apply(&b)
		c.Post = append(c.Post, b)
	}
	return c
}

// one contract with a large storage (parallel hashing / collection), migrated, then a nonce-only block, then a
// large storage diff on the lazily backfilled record
func genLargeMigCase(r *lib.RNG) *MigCase {
	lc := genLargeStateCase(r)
	ver := lc.Blocks[0].Version
	return &MigCase{
		Pre: lc.Blocks[:1],
		Post: []SBlock{
			{Version: ver, Nonces: map[string]string{"abc": "1"}},
			lc.Blocks[2],
			{Version: ver, Replaced: map[string]string{"abc": "c1a56"}},
			lc.Blocks[1],
		},
	}
}

// ---- evaluation -----------------------------------------------------------------------------------------------

func checkMigrated(f lib.Flags, res *lib.Result, drv *lib.Driver, cases []*MigCase, family string) {
	t0 := timeNow()
	defer func() {
		res.HitN("ms:"+family, msSince(t0))
		if f.Out != "" {
			_ = res.Write(f.Out)
		}
	}()
	outs := make([]migTrace, len(cases))
	parallel(cases, func(i int, c *MigCase) {
		if !lib.WithDeadline(deadline(), func() { outs[i] = runMigrated(c) }) {
			outs[i].PostErr = "hang: the history on the migrated database did not finish within the deadline"
		}
	})
	type midx struct {
		off, mig  int
		pre, post []int
	}
	var all []string
	idx := make([]midx, len(cases))
	if drv != nil {
		for i, c := range cases {
			ls, pre, mig, post := migModelLines(c, 0)
			idx[i] = midx{len(all), mig, pre, post}
			all = append(all, ls...)
		}
	}
	var ans []string
	if drv != nil {
		var err error
		if ans, err = drv.AskAll(all); err != nil {
			res.Fatalf("Lean driver died / answered short in family %s: %v", family, err)
			ans = nil
		}
	}
	for i, c := range cases {
		t := outs[i]
		key, _ := json.Marshal(c)
		res.Case("mig:"+string(key), len(c.Post) >= 1 && len(c.Pre) >= 1)
		res.Hit("family:" + family)
		res.Sample(4, c)
		classifyMig(res, c)
		want, alt := specStateTrace(c.whole())
		wantPost, altPost := want[len(c.Pre):], alt[len(c.Pre):]
		rep := func(fails func(*MigCase) bool) any {
			return replayBody{Kind: "migrated", State: mustJSON(shrinkMig(c, fails))}
		}
		if t.Err != "" {
			// the history itself fails before the upgrade: judged by the ordinary state families; here it means the
			// generator produced something unusable
			res.Fatalf("family %s: history not usable: %s", family, t.Err)
			continue
		}
		if t.MigErr != "" {
			violateOnce(res, "head-state-migration-fails-or-changes-the-state", func() lib.Violation {
				return lib.Violation{Sig: "head-state-migration-fails-or-changes-the-state",
					What:   "migration/state/headstate on a legacy database of a valid history: " + t.MigErr,
					Replay: rep(func(c *MigCase) bool { return runMigrated(c).MigErr != "" })}
			})
			continue
		}
		if t.PostErr != "" && t.NatErr == "" {
			violateOnce(res, "state-update-fails-on-migrated-database", func() lib.Violation {
				return lib.Violation{Sig: "state-update-fails-on-migrated-database",
					What: "core/state on a database whose Contract records were written by the head-state migration rejects a valid block that the natively built database accepts: " + t.PostErr +
						func() string {
							if t.MigNote != "" {
								return " (" + t.MigNote + ")"
							}
							return ""
						}(),
					Replay: rep(func(c *MigCase) bool {
						r := runMigrated(c)
						return r.MigErr == "" && r.PostErr != "" && r.NatErr == ""
					})}
			})
		} else if t.PostErr != "" {
			violateOnce(res, "state-update-fails-on-valid-history", func() lib.Violation {
				return lib.Violation{Sig: "state-update-fails-on-valid-history", What: "core/state (migrated and native database): " + t.PostErr,
					Replay: replayBody{Kind: "state", State: mustJSON(c.whole())}}
			})
		}
		// the property oracle: root on the migrated database == commitment of the abstract state (== native == legacy)
		if d := firstDiff(t.M, wantPost[:len(t.M)]); d >= 0 {
			if at(t.N, d) == at(t.M, d) {
				// the natively built database gives the same wrong root: not a matter of the migration
				violateOnce(res, "state-root-differs-from-commitment-of-state", func() lib.Violation {
					return lib.Violation{Sig: "state-root-differs-from-commitment-of-state",
						What:   fmt.Sprintf("core/state root after block %d is %s, the Starknet commitment of the resulting state is %s", len(c.Pre)+d, at(t.M, d), at(wantPost, d)),
						Replay: replayBody{Kind: "state", State: mustJSON(c.whole())}}
				})
			} else {
				violateOnce(res, "state-root-on-migrated-database-differs-from-commitment-of-state", func() lib.Violation {
					return lib.Violation{Sig: "state-root-on-migrated-database-differs-from-commitment-of-state",
						What: fmt.Sprintf("database upgraded by migration/state/headstate (Contract records without storage root), post-migration block %d: core/state root %s; "+
							"Starknet commitment of the resulting state %s; natively built trie2 database %s; legacy backend %s", d, at(t.M, d), at(wantPost, d), at(t.N, d), at(t.L, d)),
						Replay: rep(func(c *MigCase) bool {
							r := runMigrated(c)
							w, _ := specStateTrace(c.whole())
							w = w[len(c.Pre):]
							dd := firstDiff(r.M, w[:len(r.M)])
							return r.Err == "" && r.MigErr == "" && dd >= 0 && at(r.N, dd) != at(r.M, dd)
						})}
				})
			}
		} else if t.PostErr == "" {
			res.Hit("migrated:all-roots-equal-commitment-of-state")
		}
		// the legacy backend on the same post blocks (known finding: it keeps the leaf of an emptied system contract)
		if t.LegErr == "" {
			if firstDiff(t.L, wantPost) >= 0 && firstDiff(t.L, altPost) >= 0 && !primitiveIsCauseState(c.whole(), append(append([]string{}, want[:len(c.Pre)]...), t.L...)) {
				d := firstDiff(t.L, wantPost)
				violateOnce(res, "deprecatedstate-root-differs-from-commitment-of-state", func() lib.Violation {
					return lib.Violation{Sig: "deprecatedstate-root-differs-from-commitment-of-state",
						What:   fmt.Sprintf("core/deprecatedstate root after block %d is %s, the Starknet commitment of the resulting state is %s", len(c.Pre)+d, at(t.L, d), at(wantPost, d)),
						Replay: replayBody{Kind: "state", State: mustJSON(c.whole())}}
				})
			}
		}
		// correspondence with the model: roots, and the Contract bucket (cached storage roots included)
		if t.MigNote != "" {
			res.Mismatch(lib.Mismatch{Sig: "head-state-migration-buckets", Input: c, Model: "one Contract record per legacy contract, per-field buckets wiped", Impl: t.MigNote})
		}
		if ans == nil {
			continue
		}
		ix := idx[i]
		cmpRecs := func(what string, a string, withRoot bool, wantRoot string, impl []string) bool {
			res.Compared(1)
			root, recs, err := parseMigAnswer(a, withRoot)
			if err != nil {
				res.Mismatch(lib.Mismatch{Sig: "migrated-state-model-answer", Input: c, Model: what + ": " + err.Error()})
				return false
			}
			if withRoot && root != wantRoot {
				res.Mismatch(lib.Mismatch{Sig: "migrated-state-root", Input: c, Model: what + ": " + root, Impl: wantRoot})
				return false
			}
			if impl != nil {
				res.Compared(1)
				if d := compareSet(recs, impl); d != "" {
					res.Mismatch(lib.Mismatch{Sig: "contract-records-after-block", Input: c, Model: what + ": " + d})
					return false
				}
				res.HitN("migrated:contract-records-compared", len(impl))
			}
			return true
		}
		okc := true
		for n := range c.Pre {
			if okc = cmpRecs(fmt.Sprintf("pre block %d (native database)", n), ans[ix.off+ix.pre[n]], true, at(t.PreRoots, n), t.PreRecs[n]); !okc {
				break
			}
		}
		if okc && len(t.Recs) > 0 {
			okc = cmpRecs("after the migration", ans[ix.off+ix.mig], false, "", t.Recs[0])
		}
		for n := range c.Post {
			if !okc || n >= len(t.M) || n+1 >= len(t.Recs) {
				break
			}
			okc = cmpRecs(fmt.Sprintf("post block %d (migrated database)", n), ans[ix.off+ix.post[n]], true, t.M[n], t.Recs[n+1])
		}
	}
}

func classifyMig(res *lib.Result, c *MigCase) {
	a := newAbs()
	for n := range c.Pre {
		a.apply(&c.Pre[n])
	}
	migrated := map[string]bool{} // contracts whose record is (still) the one the migrator wrote
	for addr := range a.contracts {
		migrated[addr] = true
	}
	if len(migrated) == 0 {
		res.Hit("migrated:upgrade-of-a-database-without-contracts")
	}
	for _, sys := range []string{"1", "2"} {
		if ct, ok := a.contracts[sys]; ok && len(ct.storage) == 0 {
			// (the unrepaired legacy backend keeps the record of such a contract: the migrator then writes a Contract
			// record the trie2 database has no leaf for)
			res.Hit("migrated:system-contract-emptied-before-the-upgrade")
			for n := range c.Post {
				if _, w := c.Post[n].Storage[sys]; w {
					res.Hit("migrated:system-contract-emptied-before-the-upgrade:written-again-afterwards")
					break
				}
			}
		}
	}
	for n := range c.Post {
		b := &c.Post[n]
		touched := map[string]bool{}
		for addr := range b.Nonces {
			touched[addr] = true
		}
		for addr := range b.Replaced {
			touched[addr] = true
		}
		for addr := range b.Storage {
			touched[addr] = true
		}
		addrs := make([]string, 0, len(touched))
		for addr := range touched {
			addrs = append(addrs, addr)
		}
		sort.Strings(addrs)
		for _, addr := range addrs {
			ct := a.contracts[addr]
			if !migrated[addr] || ct == nil {
				continue
			}
			_, st := b.Storage[addr]
			_, nn := b.Nonces[addr]
			_, rp := b.Replaced[addr]
			kind := "storage"
			switch {
			case !st && nn && rp:
				kind = "nonce+class-only"
			case !st && nn:
				kind = "nonce-only"
			case !st && rp:
				kind = "class-only"
			case st && (nn || rp):
				kind = "storage+nonce/class"
			}
			if len(ct.storage) > 0 {
				res.Hit("migrated:first-touch-of-rootless-record-WITH-storage:" + kind)
			} else {
				res.Hit("migrated:first-touch-of-rootless-record-without-storage:" + kind)
			}
			delete(migrated, addr)
		}
		a.apply(b)
	}
	if len(migrated) > 0 {
		res.Hit("migrated:some-record-never-touched-after-the-upgrade")
	}
}

func runMigratedFamilies(f lib.Flags, res *lib.Result, drv *lib.Driver, r *lib.RNG) {
	checkMigrated(f, res, drv, migDirectedCases(), "state-migrated-directed")
	var cs []*MigCase
	for i := 0; i < f.Scale(140, 4000); i++ {
		cs = append(cs, genMigCase(r.Fork(uint64(i))))
	}
	checkMigrated(f, res, drv, cs, "state-migrated-random")
	cs = nil
	for i := 0; i < f.Scale(2, 20); i++ {
		cs = append(cs, genLargeMigCase(r.Fork(uint64(1_000_000+i))))
	}
	checkMigrated(f, res, drv, cs, "state-migrated-large")
	// more contracts than the migrator has ingestor goroutines (ingestorCount = 4, one batch each + 1) and than the
	// parallel thresholds of the tries (> 100): 110..160 contracts migrated at once, then blocks that touch 3..40
	// of them through nonce or storage
	cs = nil
	for i := 0; i < f.Scale(1, 10); i++ {
		mc := genManyContractsCase(r.Fork(uint64(2_000_000 + i)))
		cs = append(cs, &MigCase{Pre: mc.Blocks[:1], Post: mc.Blocks[1:]})
	}
	// ... and 1..9 contracts (straddles ingestorCount)
	for n := 1; n <= f.Scale(9, 12); n++ {
		pre := SBlock{Version: "0.13.2", Deployed: map[string]string{}, Storage: map[string]map[string]string{}}
		post := SBlock{Version: "0.13.2", Nonces: map[string]string{}}
		for j := 0; j < n; j++ {
			ad := fmt.Sprintf("a%02x", j)
			pre.Deployed[ad] = "c1a55"
			pre.Storage[ad] = map[string]string{"1": fmt.Sprintf("%x", j+1)}
			post.Nonces[ad] = "1"
		}
		cs = append(cs, &MigCase{Pre: []SBlock{pre}, Post: []SBlock{post}})
	}
	checkMigrated(f, res, drv, cs, "state-migrated-many")
}
