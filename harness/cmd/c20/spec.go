//go:build verif

package main

import (
	"fmt"
	"sort"
	"strconv"
	"strings"

	"github.com/NethermindEth/juno/core"
	"github.com/NethermindEth/juno/core/felt"
	"github.com/NethermindEth/juno/core/pending"
	"github.com/NethermindEth/juno/starknet"
	"github.com/NethermindEth/juno/sync/preconfirmed"
)

// ---------------------------------------------------------------------------------------------
// Scenario description. Everything the harness does on the real code and everything it sends to
// the Lean driver derives from these plain values, so a scenario is also the replay format.
// ---------------------------------------------------------------------------------------------

type DiffSpec struct {
	S  [][3]uint64 `json:"s,omitempty"` // storage writes: addr, slot, value (wire order)
	N  [][2]uint64 `json:"n,omitempty"` // nonces: addr, nonce
	D  [][2]uint64 `json:"d,omitempty"` // deployed: addr, class hash
	R  [][2]uint64 `json:"r,omitempty"` // replaced: addr, class hash
	C1 [][2]uint64 `json:"c1,omitempty"`
	M  [][2]uint64 `json:"m,omitempty"`
	C0 []uint64    `json:"c0,omitempty"`
}

type TxSpec struct {
	Hash   uint64   `json:"hash"`
	Tag    uint64   `json:"tag"`
	Bad    bool     `json:"bad,omitempty"`
	RHash  uint64   `json:"rhash"`
	RTag   uint64   `json:"rtag"`
	Events int      `json:"events,omitempty"`
	Diff   DiffSpec `json:"diff"`
	// Kind is the transaction type (0 invoke, 1 declare, 2 l1-handler, 3 deploy-account); Reverted the
	// receipt's execution status. Both are independent of the state diff: a reverted transaction
	// still carries one (nonce bump, fee transfer).
	Kind     int  `json:"kind,omitempty"`
	Reverted bool `json:"reverted,omitempty"`
}

type UpdateSpec struct {
	Kind  string   `json:"kind"` // B | D | N
	Ident string   `json:"ident,omitempty"`
	VerOk bool     `json:"verok,omitempty"`
	Txs   []TxSpec `json:"txs,omitempty"`
	// Malform makes the wire update ill-formed in a way starknet.PreConfirmedUpdateEnvelope.Validate
	// (called by the feeder client only) would reject: short-receipts | short-diffs | nil-receipt | nil-diff
	Malform string `json:"malform,omitempty"`
}

type OpSpec struct {
	Op      string      `json:"op"` // apply | advance | head | state | statebi | lookup
	U       *UpdateSpec `json:"u,omitempty"`
	Num     uint64      `json:"num,omitempty"`
	BaseTx  uint64      `json:"basetx,omitempty"`
	Oldest  uint64      `json:"oldest,omitempty"`
	Classes [][2]uint64 `json:"classes,omitempty"` // class hash, definition id
	Head    uint64      `json:"head,omitempty"`
	Block   uint64      `json:"block,omitempty"`
	Index   uint64      `json:"index,omitempty"`
	Hash    uint64      `json:"hash,omitempty"`
}

// BaseBlock is one finalised block of the canonical chain below the view.
type BaseBlock struct {
	Diff    DiffSpec    `json:"diff"`
	Classes [][2]uint64 `json:"classes,omitempty"` // class hash, definition id (cairo0 definitions)
}

type Scenario struct {
	Kind     string      `json:"kind"` // seq | overlay
	NewState bool        `json:"new_state"`
	Base     []BaseBlock `json:"base"` // blocks 0..len-1
	Head     uint64      `json:"head"` // initial canonical head number
	Ops      []OpSpec    `json:"ops"`
	LiveSeed uint64      `json:"live_seed,omitempty"` // kind "live": the case is regenerated from (seed, index): its head moves on a real node
	LiveIdx  int         `json:"live_idx,omitempty"`
	ProbeLo  uint64      `json:"probe_lo,omitempty"` // boundary scenarios: probe [ProbeLo, ProbeLo+15] and 0 instead of [0,14]
	Ticks    []TickSpec  `json:"ticks,omitempty"`    // kind "pscript": the answers the real Poller gets, tick by tick (pscript.go)
}

// ---- universe ---------------------------------------------------------------------------------

var (
	uniAddrs  = []uint64{100, 101, 102, 103, 104, 105}
	uniSlots  = []uint64{0, 1, 2, 7}
	uniCH     = []uint64{200, 201, 202, 203, 204}
	uniHashes = []uint64{1, 2, 3, 4, 5, 6, 7, 8, 9, 10, 11, 12}
)

const (
	verGood = "0.14.0"
	verBad  = "99.0.0"
)

func fe(n uint64) *felt.Felt { return new(felt.Felt).SetUint64(n) }

func fv(f *felt.Felt) string {
	if f == nil {
		return "nil"
	}
	return f.Text(10)
}

func joinU(xs []uint64) string {
	if len(xs) == 0 {
		return "-"
	}
	s := make([]string, len(xs))
	for i, x := range xs {
		s[i] = strconv.FormatUint(x, 10)
	}
	return strings.Join(s, ",")
}

func pairsStr(ps [][2]uint64) string {
	if len(ps) == 0 {
		return "-"
	}
	s := make([]string, len(ps))
	for i, p := range ps {
		s[i] = fmt.Sprintf("%d:%d", p[0], p[1])
	}
	return strings.Join(s, ",")
}

// ---- encoding for the Lean driver -------------------------------------------------------------

func (d DiffSpec) line() string {
	var secs []string
	if len(d.S) > 0 {
		s := make([]string, len(d.S))
		for i, t := range d.S {
			s[i] = fmt.Sprintf("%d:%d:%d", t[0], t[1], t[2])
		}
		secs = append(secs, "s="+strings.Join(s, ","))
	}
	add := func(name string, ps [][2]uint64) {
		if len(ps) > 0 {
			secs = append(secs, name+"="+pairsStr(ps))
		}
	}
	add("n", d.N)
	add("d", d.D)
	add("r", d.R)
	add("c1", d.C1)
	add("m", d.M)
	if len(d.C0) > 0 {
		secs = append(secs, "c0="+joinU(d.C0))
	}
	if len(secs) == 0 {
		return "-"
	}
	return strings.Join(secs, "+")
}

func txsLine(txs []TxSpec) string {
	if len(txs) == 0 {
		return "-"
	}
	s := make([]string, len(txs))
	for i, t := range txs {
		bad := 0
		if t.Bad {
			bad = 1
		}
		rev := 0
		if t.Reverted {
			rev = 1
		}
		s[i] = fmt.Sprintf("%d/%d/%d/%d/%d/%d/%s/%d/%d", t.Hash, t.Tag, bad, t.RHash, t.RTag, t.Events, t.Diff.line(), t.Kind, rev)
	}
	return strings.Join(s, ";")
}

func identTok(s string) string {
	if s == "" {
		return "_"
	}
	return s
}

func (o OpSpec) applyLine() string {
	u := o.U
	head := fmt.Sprintf("apply %s %d %d %d %s", u.Kind, o.Num, o.BaseTx, o.Oldest, pairsStr(o.Classes))
	switch u.Kind {
	case "B":
		v := 0
		if u.VerOk {
			v = 1
		}
		return fmt.Sprintf("%s %s %d %s", head, identTok(u.Ident), v, txsLine(u.Txs))
	case "D":
		return fmt.Sprintf("%s %s %s", head, identTok(u.Ident), txsLine(u.Txs))
	default:
		return head
	}
}

// ---- real wire objects --------------------------------------------------------------------------

type storageEntry = struct {
	Key   *felt.Felt `json:"key"`
	Value *felt.Felt `json:"value"`
}

func (d DiffSpec) wire() *starknet.StateDiff {
	sd := &starknet.StateDiff{}
	if len(d.S) > 0 {
		sd.StorageDiffs = map[string][]storageEntry{}
		for _, t := range d.S {
			a := fe(t[0]).String()
			sd.StorageDiffs[a] = append(sd.StorageDiffs[a], storageEntry{Key: fe(t[1]), Value: fe(t[2])})
		}
	}
	if len(d.N) > 0 {
		sd.Nonces = map[string]*felt.Felt{}
		for _, p := range d.N {
			sd.Nonces[fe(p[0]).String()] = fe(p[1])
		}
	}
	for _, p := range d.D {
		sd.DeployedContracts = append(sd.DeployedContracts, struct {
			Address   *felt.Felt `json:"address"`
			ClassHash *felt.Felt `json:"class_hash"`
		}{fe(p[0]), fe(p[1])})
	}
	for _, p := range d.R {
		sd.ReplacedClasses = append(sd.ReplacedClasses, struct {
			Address   *felt.Felt `json:"address"`
			ClassHash *felt.Felt `json:"class_hash"`
		}{fe(p[0]), fe(p[1])})
	}
	for _, p := range d.C1 {
		sd.DeclaredClasses = append(sd.DeclaredClasses, struct {
			ClassHash         *felt.Felt `json:"class_hash"`
			CompiledClassHash *felt.Felt `json:"compiled_class_hash"`
		}{fe(p[0]), fe(p[1])})
	}
	for _, p := range d.M {
		sd.MigratedClasses = append(sd.MigratedClasses, struct {
			ClassHash         felt.SierraClassHash `json:"class_hash"`
			CompiledClassHash felt.CasmClassHash   `json:"compiled_class_hash"`
		}{felt.SierraClassHash(*fe(p[0])), felt.CasmClassHash(*fe(p[1]))})
	}
	for _, h := range d.C0 {
		sd.OldDeclaredContracts = append(sd.OldDeclaredContracts, fe(h))
	}
	return sd
}

func wireTxs(txs []TxSpec) ([]starknet.Transaction, []*starknet.TransactionReceipt, []*starknet.StateDiff) {
	ts := make([]starknet.Transaction, len(txs))
	rs := make([]*starknet.TransactionReceipt, len(txs))
	ds := make([]*starknet.StateDiff, len(txs))
	for i, t := range txs {
		empty := []felt.Felt{}
		tx := starknet.Transaction{Hash: fe(t.Hash), Version: fe(1), CallData: &empty, Signature: &empty,
			Nonce: fe(t.Tag), SenderAddress: fe(100)}
		switch t.Kind {
		case 1:
			tx.Type, tx.ClassHash = starknet.TxnDeclare, fe(200)
		case 2:
			tx.Type, tx.Version = starknet.TxnL1Handler, fe(0)
			tx.ContractAddress, tx.EntryPointSelector = fe(100), fe(9)
		case 3:
			tx.Type = starknet.TxnDeployAccount
			tx.ContractAddress, tx.ContractAddressSalt, tx.ClassHash, tx.ConstructorCallData = fe(105), fe(1), fe(300), &empty
		default:
			tx.Type = starknet.TxnInvoke
		}
		if t.Bad {
			tx.Type = starknet.TransactionType(99)
		}
		ts[i] = tx
		evs := make([]*starknet.Event, t.Events)
		for j := range evs {
			evs[j] = &starknet.Event{From: fe(100 + uint64(j)), Keys: []felt.Felt{*fe(uint64(j))}, Data: []felt.Felt{*fe(t.Hash)}}
		}
		rs[i] = &starknet.TransactionReceipt{TransactionHash: fe(t.RHash), ActualFee: fe(t.RTag), Events: evs}
		if t.Reverted {
			rs[i].ExecutionStatus = starknet.Reverted
			rs[i].RevertError = "reverted: out of gas"
		}
		if t.Kind == 2 {
			rs[i].L1ToL2Message = &starknet.L1ToL2Message{From: "0x0abc", Nonce: fe(t.Tag), Payload: []felt.Felt{}, Selector: fe(9), To: fe(100)}
		}
		ds[i] = t.Diff.wire()
	}
	return ts, rs, ds
}

func malform(how string, rs []*starknet.TransactionReceipt, ds []*starknet.StateDiff) ([]*starknet.TransactionReceipt, []*starknet.StateDiff) {
	if len(rs) == 0 {
		return rs, ds
	}
	switch how {
	case "short-receipts":
		return rs[:len(rs)-1], ds
	case "short-diffs":
		return rs, ds[:len(ds)-1]
	case "nil-receipt":
		rs[len(rs)-1] = nil
	case "nil-diff":
		ds[len(ds)-1] = nil
	}
	return rs, ds
}

func (u *UpdateSpec) wire(num uint64) starknet.PreConfirmedUpdate {
	switch u.Kind {
	case "B":
		ts, rs, ds := wireTxs(u.Txs)
		rs, ds = malform(u.Malform, rs, ds)
		ver := verGood
		if !u.VerOk {
			ver = verBad
		}
		gp := func() *starknet.GasPrice { return &starknet.GasPrice{PriceInWei: fe(1), PriceInFri: fe(1)} }
		return starknet.PreConfirmedBlock{BlockIdentifier: u.Ident, Transactions: ts, Receipts: rs,
			TransactionStateDiffs: ds, Status: "PRE_CONFIRMED", Timestamp: 1_700_000_000 + num, Version: ver,
			SequencerAddress: fe(1), L1GasPrice: gp(), L2GasPrice: gp(), L1DataGasPrice: gp(), L1DAMode: starknet.Blob}
	case "D":
		ts, rs, ds := wireTxs(u.Txs)
		rs, ds = malform(u.Malform, rs, ds)
		return starknet.PreConfirmedDeltaUpdate{BlockIdentifier: u.Ident, Transactions: ts, Receipts: rs,
			TransactionStateDiffs: ds}
	default:
		return starknet.PreConfirmedNoChange{}
	}
}

// class definitions: a cairo0 class whose ABI carries the definition id
func classDef(id uint64) core.ClassDefinition {
	return &core.DeprecatedCairoClass{
		Abi:          []byte(fmt.Sprintf(`[{"n":%d}]`, id)),
		Externals:    []core.DeprecatedEntryPoint{{Selector: fe(5 + id), Offset: fe(1)}},
		L1Handlers:   []core.DeprecatedEntryPoint{},
		Constructors: []core.DeprecatedEntryPoint{},
		Program:      "H4sIAAAAAAAA/wEAAP//AAAAAAAAAAA=",
	}
}

func classID(c core.ClassDefinition) string {
	d, ok := c.(*core.DeprecatedCairoClass)
	if !ok || d == nil {
		return fmt.Sprintf("?%T", c)
	}
	var id uint64
	if _, err := fmt.Sscanf(string(d.Abi), `[{"n":%d}]`, &id); err != nil {
		return "?abi"
	}
	return strconv.FormatUint(id, 10)
}

func classMap(ps [][2]uint64) map[felt.Felt]core.ClassDefinition {
	if len(ps) == 0 {
		return nil
	}
	m := make(map[felt.Felt]core.ClassDefinition, len(ps))
	for _, p := range ps {
		m[*fe(p[0])] = classDef(p[1])
	}
	return m
}

// ---- canonical text of real objects (same format as the Lean driver's showEntry / showView) -----

type kv struct {
	k [2]uint64
	s string
}

func sortedJoin(xs []kv) string {
	sort.Slice(xs, func(i, j int) bool {
		if xs[i].k[0] != xs[j].k[0] {
			return xs[i].k[0] < xs[j].k[0]
		}
		return xs[i].k[1] < xs[j].k[1]
	})
	s := make([]string, len(xs))
	for i, x := range xs {
		s[i] = x.s
	}
	return strings.Join(s, ",")
}

func feltMapStr(m map[felt.Felt]*felt.Felt) string {
	xs := make([]kv, 0, len(m))
	for k, v := range m {
		xs = append(xs, kv{[2]uint64{k.Uint64(), 0}, fv(&k) + ":" + fv(v)})
	}
	return sortedJoin(xs)
}

func canonDiff(d *core.StateDiff) string {
	if d == nil {
		return "nil"
	}
	st := []kv{}
	for a, inner := range d.StorageDiffs {
		for k, v := range inner {
			st = append(st, kv{[2]uint64{a.Uint64(), k.Uint64()}, fv(&a) + ":" + fv(&k) + ":" + fv(v)})
		}
	}
	mg := make([]kv, 0, len(d.MigratedClasses))
	for k, v := range d.MigratedClasses {
		kf, vf := felt.Felt(k), felt.Felt(v)
		mg = append(mg, kv{[2]uint64{kf.Uint64(), 0}, fv(&kf) + ":" + fv(&vf)})
	}
	c0 := make([]string, len(d.DeclaredV0Classes))
	for i, h := range d.DeclaredV0Classes {
		c0[i] = fv(h)
	}
	return fmt.Sprintf("s=%s+n=%s+d=%s+r=%s+c1=%s+m=%s+c0=%s", sortedJoin(st), feltMapStr(d.Nonces),
		feltMapStr(d.DeployedContracts), feltMapStr(d.ReplacedClasses), feltMapStr(d.DeclaredV1Classes),
		sortedJoin(mg), strings.Join(c0, ","))
}

func canonClasses(m map[felt.Felt]core.ClassDefinition) string {
	xs := make([]kv, 0, len(m))
	for k, v := range m {
		xs = append(xs, kv{[2]uint64{k.Uint64(), 0}, fv(&k) + ":" + classID(v)})
	}
	return sortedJoin(xs)
}

// txTag renders the payload tag (the nonce) and the kind of an adapted transaction.
func txTag(tx core.Transaction) string {
	switch t := tx.(type) {
	case *core.InvokeTransaction:
		return fv(t.Nonce) + ".0"
	case *core.DeclareTransaction:
		return fv(t.Nonce) + ".1"
	case *core.L1HandlerTransaction:
		return fv(t.Nonce) + ".2"
	case *core.DeployAccountTransaction:
		return fv(t.Nonce) + ".3"
	}
	return fmt.Sprintf("?%T", tx)
}

func revTok(r *core.TransactionReceipt) int {
	if r.Reverted {
		return 1
	}
	return 0
}

func canonEntry(e *pending.PreConfirmed) string {
	if e == nil {
		return "nil-entry"
	}
	if e.Block == nil || e.Block.Header == nil || e.StateUpdate == nil {
		return "broken-entry"
	}
	txs := make([]string, len(e.Block.Transactions))
	for i, tx := range e.Block.Transactions {
		if tx == nil {
			txs[i] = "nil"
			continue
		}
		txs[i] = fv(tx.Hash()) + "." + txTag(tx)
	}
	rcs := make([]string, len(e.Block.Receipts))
	for i, r := range e.Block.Receipts {
		if r == nil {
			rcs[i] = "nil"
			continue
		}
		rcs[i] = fmt.Sprintf("%s.%s.%d.%d", fv(r.TransactionHash), fv(r.Fee), len(r.Events), revTok(r))
	}
	tds := make([]string, len(e.TransactionStateDiffs))
	for i, d := range e.TransactionStateDiffs {
		tds[i] = canonDiff(d)
	}
	return fmt.Sprintf("%d~%s~%d~%d~%s~%s~%s~%s~%s", e.Block.Number, identTok(e.BlockIdentifier), e.Block.TransactionCount,
		e.Block.EventCount, strings.Join(txs, ","), strings.Join(rcs, ","), canonDiff(e.StateUpdate.StateDiff),
		strings.Join(tds, ";"), canonClasses(e.NewClasses))
}

// extraEntry covers fields of an entry that the model does not carry (only used for the
// immutability hash of held snapshots).
func extraEntry(e *pending.PreConfirmed) string {
	if e == nil || e.Block == nil || e.Block.Header == nil {
		return "-"
	}
	h := e.Block.Header
	bloom := "nil"
	if h.EventsBloom != nil {
		if b, err := h.EventsBloom.MarshalBinary(); err == nil {
			bloom = fmt.Sprintf("%x", fnv64(b))
		}
	}
	return fmt.Sprintf("ts=%d ver=%s seq=%s bloom=%s", h.Timestamp, h.ProtocolVersion, fv(h.SequencerAddress), bloom)
}

func fnv64(b []byte) uint64 {
	h := uint64(14695981039346656037)
	for _, c := range b {
		h ^= uint64(c)
		h *= 1099511628211
	}
	return h
}

// canonView renders a view exactly as the driver's `snap` answer.
func canonView(v *preconfirmed.ChainReader) string {
	var nf, of []string
	for e := range v.NewestFirst() {
		nf = append(nf, canonEntry(e))
	}
	for e := range v.OldestFirst() {
		if e == nil || e.Block == nil {
			of = append(of, "nil")
			continue
		}
		of = append(of, strconv.FormatUint(e.Block.Number, 10))
	}
	return fmt.Sprintf("%d %s # %s", v.Length(), strings.Join(nf, "|"), strings.Join(of, ","))
}

// deepHash is the immutability fingerprint of a held view: the canonical text of the view (what
// the model also carries) plus, per entry, a hash over everything reachable from it.
func deepHash(v *preconfirmed.ChainReader) string { return deepHashMemo(v, nil) }

// deepHashMemo: memo (may be nil) caches the per-entry fingerprint within ONE verification pass
// (views share most of their entries); it must not outlive the pass.
func deepHashMemo(v *preconfirmed.ChainReader, memo map[*pending.PreConfirmed]string) string {
	var b strings.Builder
	fmt.Fprintf(&b, "%d", v.Length())
	for e := range v.NewestFirst() {
		if s, ok := memo[e]; ok {
			b.WriteString(s)
			continue
		}
		s := fmt.Sprintf(" | %s ; %s #%x", canonEntry(e), extraEntry(e), entryFingerprint(e))
		if memo != nil {
			memo[e] = s
		}
		b.WriteString(s)
	}
	return b.String()
}
