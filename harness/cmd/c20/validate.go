//go:build verif

package main

import (
	"fmt"

	"github.com/NethermindEth/juno/adapters/sn2core"
	"github.com/NethermindEth/juno/core/felt"
	"github.com/NethermindEth/juno/starknet"
	"verif/harness/lib"
)

// ---------------------------------------------------------------------------------------------
// Validate stage: the adapters' contract. Every DataSource of juno hands an update to the poller
// only after starknet.PreConfirmedUpdateEnvelope.Validate() accepted it. For EVERY envelope of a
// small shape space (kind × 0..3 transactions × 16 malformations of the slices and header fields)
// the real Validate and the real adapters are run and compared with the model (`validate` request:
// Model.lean RawEnvelope.validate / adapt), and:
//   * an envelope that is malformed by construction must be REFUSED (malformed-update-passes-validation);
//   * an envelope that Validate accepts must not panic the adapter (validated-update-panics-in-adapter)
//     — theorem validated_update_never_panics on the real code;
//   * what the adapters do with refused envelopes is only counted (outside-contract-…).
// ---------------------------------------------------------------------------------------------

var malformations = []string{"-", "short-receipts", "short-diffs", "long-receipts", "nil-receipt", "nil-diff", "empty-tx",
	"bad-tx", "no-ident", "bad-status", "no-version", "zero-timestamp", "no-sequencer", "no-l1gas", "no-l2gas", "no-l1datagas"}

// wireEnvelope builds the real update of a (kind, n, malformation) triple; same convention as
// Driver.lean mkRaw: slice malformations touch the LAST element and are no-ops for n = 0.
func wireEnvelope(kind string, n int, how string) starknet.PreConfirmedUpdate {
	specs := make([]TxSpec, n)
	for i := range specs {
		x := uint64(i + 1)
		specs[i] = TxSpec{Hash: x, Tag: x, RHash: x, RTag: x}
	}
	if how == "bad-tx" && n > 0 {
		specs[n-1].Bad = true
	}
	ts, rs, ds := wireTxs(specs)
	switch how {
	case "short-receipts":
		if n > 0 {
			rs = rs[:n-1]
		}
	case "short-diffs":
		if n > 0 {
			ds = ds[:n-1]
		}
	case "long-receipts":
		rs = append(rs, &starknet.TransactionReceipt{TransactionHash: fe(99), ActualFee: fe(99)})
	case "nil-receipt":
		if n > 0 {
			rs[n-1] = nil
		}
	case "nil-diff":
		if n > 0 {
			ds[n-1] = nil
		}
	case "empty-tx":
		if n > 0 {
			ts[n-1] = starknet.Transaction{}
		}
	}
	ident := "r"
	if how == "no-ident" {
		ident = ""
	}
	switch kind {
	case "N":
		return starknet.PreConfirmedNoChange{}
	case "D":
		return starknet.PreConfirmedDeltaUpdate{BlockIdentifier: ident, Transactions: ts, Receipts: rs, TransactionStateDiffs: ds}
	}
	gp := func(missing bool) *starknet.GasPrice {
		if missing {
			return nil
		}
		return &starknet.GasPrice{PriceInWei: fe(1), PriceInFri: fe(1)}
	}
	b := starknet.PreConfirmedBlock{BlockIdentifier: ident, Transactions: ts, Receipts: rs, TransactionStateDiffs: ds,
		Status: "PRE_CONFIRMED", Timestamp: 1, Version: verGood, SequencerAddress: fe(1),
		L1GasPrice: gp(how == "no-l1gas"), L2GasPrice: gp(how == "no-l2gas"), L1DataGasPrice: gp(how == "no-l1datagas"), L1DAMode: starknet.Blob}
	switch how {
	case "bad-status":
		b.Status = "ACCEPTED_ON_L2"
	case "no-version":
		b.Version = ""
	case "zero-timestamp":
		b.Timestamp = 0
	case "no-sequencer":
		b.SequencerAddress = (*felt.Felt)(nil)
	}
	return b
}

// malformedByConstruction: the triples Validate has to refuse.
func malformedByConstruction(kind string, n int, how string) bool {
	slice := map[string]bool{"short-receipts": true, "short-diffs": true, "nil-receipt": true, "nil-diff": true, "empty-tx": true}
	switch kind {
	case "N":
		return false
	case "D":
		return n == 0 || how == "no-ident" || how == "long-receipts" || (slice[how] && n > 0)
	}
	meta := map[string]bool{"no-ident": true, "bad-status": true, "no-version": true, "zero-timestamp": true,
		"no-sequencer": true, "no-l1gas": true, "no-l2gas": true, "no-l1datagas": true}
	return meta[how] || how == "long-receipts" || (slice[how] && n > 0)
}

func (h *harness) validateStage() {
	var asks []ask
	for _, kind := range []string{"B", "D", "N"} {
		for n := 0; n <= 3; n++ {
			for _, how := range malformations {
				upd := wireEnvelope(kind, n, how)
				env := starknet.PreConfirmedUpdateEnvelope{Update: upd}
				valid := env.Validate() == nil
				outcome := "ok:0"
				err, panicked, _ := lib.Try(func() error {
					switch u := upd.(type) {
					case starknet.PreConfirmedBlock:
						e, err := sn2core.AdaptPreConfirmedBlock(&u, 5)
						if err != nil {
							return err
						}
						outcome = fmt.Sprintf("ok:%d", len(e.Block.Transactions))
					case starknet.PreConfirmedDeltaUpdate:
						cur, err := sn2core.AdaptPreConfirmedBlock(ptr(wireEnvelope("B", 1, "-").(starknet.PreConfirmedBlock)), 5)
						if err != nil {
							return fmt.Errorf("harness: %w", err)
						}
						cur.BlockIdentifier = u.BlockIdentifier // the identifier check is not what is under test here
						e, err := sn2core.AdaptPreConfirmedWithDelta(&cur, &u)
						if err != nil {
							return err
						}
						outcome = fmt.Sprintf("ok:%d", len(e.Block.Transactions)-1)
					}
					return nil
				})
				switch {
				case panicked:
					outcome = "panics"
				case err != nil:
					outcome = "adapterr"
				}
				key := fmt.Sprintf("validate/%s/%d/%s", kind, n, how)
				h.res.Case(key, true)
				replay := map[string]any{"kind": "validate", "update": kind, "txs": n, "malformation": how}
				switch {
				case valid && malformedByConstruction(kind, n, how):
					h.res.Violate(lib.Violation{Sig: "malformed-update-passes-validation",
						What: fmt.Sprintf("PreConfirmedUpdateEnvelope.Validate() accepts a %s update with %d transactions and %s", kind, n, how), Replay: replay})
				case valid && panicked:
					h.res.Violate(lib.Violation{Sig: "validated-update-panics-in-adapter",
						What: fmt.Sprintf("a %s update with %d transactions (%s) passes Validate() and panics the adapter: %v", kind, n, how, err), Replay: replay})
				case panicked:
					h.res.Hit("outside-contract-update-panics-in-adapter")
				case !valid:
					h.res.Hit("outside-contract-update-harmless-in-adapter")
				default:
					h.res.Hit("validated-update-adapted")
				}
				v := "invalid"
				if valid {
					v = "valid"
				}
				asks = append(asks, ask{line: fmt.Sprintf("validate %s %d %s", kind, n, how), impl: v + " " + outcome, cmp: "exact", op: -1})
			}
		}
	}
	r := &runner{asks: asks, luModes: map[string]bool{}}
	h.compare(r, &Scenario{Kind: "validate"})
}

func ptr[T any](v T) *T { return &v }
