//go:build verif

package main

import (
	"fmt"
	"reflect"
	"strings"
	"time"
	"unsafe"

	"github.com/NethermindEth/juno/builder"
	"github.com/NethermindEth/juno/core"
	"github.com/NethermindEth/juno/core/felt"
	"github.com/NethermindEth/juno/core/pending"
	junoseq "github.com/NethermindEth/juno/sequencer"
	"github.com/NethermindEth/juno/sync"
	"github.com/NethermindEth/juno/sync/preconfirmed"
	"github.com/NethermindEth/juno/utils/log"
	"verif/harness/lib"
)

// ---------------------------------------------------------------------------------------------
// The other producers of views handed to readers.
//
// (1) sequencer.Sequencer.PreConfirmedChain() (sequencer mode; every RPC handler calls it through
// the same SyncReader interface): `NewChain(s.buildState.PreConfirmed)`. The Sequencer cannot be
// RUN here (executing transactions needs the VM), but the method itself can: a real Sequencer
// value gets a build state of the shape builder.InitPreconfirmedBlock creates (set through
// reflection: the field is unexported), the real method is called, and the harness then performs,
// on the build state, exactly the statements of builder/executor.go updatePreconfirmedBlock
// (append receipts / transaction diffs / transactions, bump the counters, Merge each diff into
// StateUpdate.StateDiff) — the step the real Sequencer takes for every executed batch, under s.mu,
// while PreConfirmedChain reads s.buildState without it. What is real: the Sequencer method,
// NewChain, the identity of the objects it returns. What is replayed by hand: the builder's 8
// lines.
//
// (2) the empty-block fallback: sync.MakeEmptyPreConfirmedForParent + preconfirmed.NewChain on real
// chains of up to 13 blocks (deterministic; the sync stage meets it under concurrency).
// ---------------------------------------------------------------------------------------------

func setUnexported(target any, field string, value any) error {
	v := reflect.ValueOf(target).Elem().FieldByName(field)
	if !v.IsValid() {
		return fmt.Errorf("no field %s", field)
	}
	reflect.NewAt(v.Type(), unsafe.Pointer(v.UnsafeAddr())).Elem().Set(reflect.ValueOf(value))
	return nil
}

// unexportedField gives an addressable, settable view of an unexported struct field.
func unexportedField(target any, field string) (reflect.Value, error) {
	v := reflect.ValueOf(target).Elem().FieldByName(field)
	if !v.IsValid() {
		return reflect.Value{}, fmt.Errorf("no field %s", field)
	}
	return reflect.NewAt(v.Type(), unsafe.Pointer(v.UnsafeAddr())).Elem(), nil
}

func (h *harness) sequencerProbe(rng *lib.RNG) {
	seqr := junoseq.New(nil, nil, fe(1), nil, time.Hour, log.NewNopZapLogger())
	receipts := []*core.TransactionReceipt{}
	empty := core.EmptyStateDiff()
	live := &pending.PreConfirmed{
		Block: &core.Block{Header: &core.Header{Number: 7, SequencerAddress: fe(1), Timestamp: 1_700_000_007,
			ProtocolVersion: verGood, EventsBloom: core.EventsBloom(receipts), L1GasPriceETH: fe(1), L1GasPriceSTRK: fe(1),
			L1DataGasPrice: &core.GasPrice{PriceInWei: fe(1), PriceInFri: fe(1)}, L2GasPrice: &core.GasPrice{PriceInWei: fe(1), PriceInFri: fe(1)}},
			Transactions: []core.Transaction{}, Receipts: receipts},
		StateUpdate:           &core.StateUpdate{OldRoot: &felt.Zero, StateDiff: &empty},
		NewClasses:            map[felt.Felt]core.ClassDefinition{},
		TransactionStateDiffs: []*core.StateDiff{},
	}
	if err := setUnexported(&seqr, "buildState", &builder.BuildState{PreConfirmed: live}); err != nil {
		h.res.Fatalf("sequencer probe: cannot install a build state: %v", err)
		return
	}
	view, err := seqr.PreConfirmedChain()
	if err != nil || view.Length() != 1 {
		h.res.Fatalf("sequencer probe: Sequencer.PreConfirmedChain(): length %d, err %v", view.Length(), err)
		return
	}
	h.res.Case("sequencer-probe", true)
	before := deepHash(&view)
	isLive := view.Head() == live
	// builder/executor.go updatePreconfirmedBlock(preconfirmed, receipts, transactions, stateDiffs), by hand
	txs := genTxs(rng, 2, &txSeq{}, func() DiffSpec { return DiffSpec{S: [][3]uint64{{100, 1, 9}}, N: [][2]uint64{{100, 4}}} })
	for _, t := range txs {
		d := t.Diff.coreDiff()
		rc := &core.TransactionReceipt{TransactionHash: fe(t.Hash), Fee: fe(t.RTag), Events: []*core.Event{}}
		live.Block.Receipts = append(live.Block.Receipts, rc)
		live.TransactionStateDiffs = append(live.TransactionStateDiffs, d)
		live.Block.Transactions = append(live.Block.Transactions, &core.InvokeTransaction{TransactionHash: fe(t.Hash), Nonce: fe(t.Tag), Version: new(core.TransactionVersion).SetUint64(1)})
		live.Block.TransactionCount++
		live.StateUpdate.StateDiff.Merge(d)
	}
	after := deepHash(&view)
	switch {
	case isLive && before != after:
		h.res.Hit("sequencer-view-is-live-build-state")
		h.res.Violate(lib.Violation{Sig: "sequencer-view-is-the-live-build-state",
			What: fmt.Sprintf("Sequencer.PreConfirmedChain() returns a view whose entry IS the builder's build state (same *pending.PreConfirmed); after the builder's next batch (updatePreconfirmedBlock) the view a reader already holds has changed: was %q now %q", clip(before), clip(after)),
			Replay: map[string]any{"kind": "sequencer-probe", "steps": []string{
				"sequencer.New(...) with buildState = &builder.BuildState{PreConfirmed: P} (P as builder.InitPreconfirmedBlock makes it: empty block 7)",
				"v := Sequencer.PreConfirmedChain()    // v.Head() == P",
				"builder.updatePreconfirmedBlock(P, receipts, txs, diffs)   // what RunTxns does for every batch, under s.mu",
				"v.Head().Block.Transactions / StateUpdate.StateDiff have changed under the reader"}}})
	case before != after:
		h.res.Violate(lib.Violation{Sig: "sequencer-view-changes-with-the-build-state", What: "the view is a different object but still changed", Replay: map[string]any{"kind": "sequencer-probe"}})
	default:
		h.res.Hit("sequencer-view-is-a-snapshot")
	}
}

// newChainProbe: preconfirmed.NewChain on every list of up to 3 entries numbered in [3,6] (contiguous,
// gaps, repeats, descending), the empty list, numbers around 2^64-1, and a nil entry: error or a view
// that yields exactly the entries given; compared with the model's newChain.
func (h *harness) newChainProbe() {
	mk := func(n uint64) *pending.PreConfirmed {
		return &pending.PreConfirmed{Block: &core.Block{Header: &core.Header{Number: n}}, StateUpdate: &core.StateUpdate{StateDiff: &core.StateDiff{}}}
	}
	var lists [][]uint64
	lists = append(lists, nil)
	vals := []uint64{3, 4, 5, 6}
	for _, a := range vals {
		lists = append(lists, []uint64{a})
		for _, b := range vals {
			lists = append(lists, []uint64{a, b})
			for _, c := range vals {
				lists = append(lists, []uint64{a, b, c})
			}
		}
	}
	top := ^uint64(0)
	lists = append(lists, []uint64{top - 1, top}, []uint64{top, 0}, []uint64{top}, []uint64{0, 1})
	for _, ns := range lists {
		es := make([]*pending.PreConfirmed, len(ns))
		for i, n := range ns {
			es[i] = mk(n)
		}
		var v preconfirmed.ChainReader
		var err error
		if e, panicked, stack := lib.Try(func() error { v, err = preconfirmed.NewChain(es...); return nil }); panicked {
			h.res.Violate(lib.Violation{Sig: "newchain-panics", What: fmt.Sprintf("NewChain(%v): %v\n%s", ns, e, clip(stack)), Replay: map[string]any{"kind": "newchain-probe", "numbers": ns}})
			continue
		}
		impl := "err"
		if err == nil {
			var of []string
			i := 0
			okEntries := v.Length() == len(es)
			for e := range v.OldestFirst() {
				if i >= len(es) || e != es[i] {
					okEntries = false
				}
				of = append(of, fmt.Sprint(e.Block.Number))
				i++
			}
			if !okEntries || i != len(es) {
				h.res.Violate(lib.Violation{Sig: "newchain-view-is-not-the-entries-given", What: fmt.Sprintf("NewChain(%v) yields %v (length %d)", ns, of, v.Length()),
					Replay: map[string]any{"kind": "newchain-probe", "numbers": ns}})
			}
			impl = fmt.Sprintf("ok %d %s", v.Length(), strings.Join(of, ","))
			h.res.Hit("newchain-accepted")
		} else {
			h.res.Hit("newchain-rejected")
		}
		h.res.Case(fmt.Sprintf("newchain/%v", ns), len(ns) > 1)
		if h.drv != nil {
			line := "newchain " + joinU(ns)
			model, derr := h.drv.Ask(line)
			if derr != nil || model == "bad-op" {
				h.res.Fatalf("newchain probe: the Lean driver failed on %q: %v %s", line, derr, model)
				return
			}
			h.res.Compared(1)
			if model != impl {
				h.res.Mismatch(lib.Mismatch{Sig: "model-differs:newchain", Input: map[string]any{"line": line}, Model: model, Impl: impl})
			}
		}
	}
	// a nil entry is an error, never a panic
	if _, err := preconfirmed.NewChain(mk(3), nil); err == nil {
		h.res.Violate(lib.Violation{Sig: "newchain-accepts-nil-entry", What: "NewChain(entry, nil) returned no error", Replay: map[string]any{"kind": "newchain-probe"}})
	} else {
		h.res.Hit("newchain-rejected-nil-entry")
	}
}

// fallbackProbe: MakeEmptyPreConfirmedForParent + NewChain on a real chain, for every head.
func (h *harness) fallbackProbe(rng *lib.RNG) {
	for _, newState := range []bool{false, true} {
		base, _ := genBase(rng, 13)
		node, err := buildBase(newState, base)
		if err != nil {
			h.res.Fatalf("fallback probe: setup failed: %v", err)
			return
		}
		// the error path of makeStateDiffForEmptyBlock: the block whose hash is wanted does not exist
		if top, err := node.bc.HeadsHeader(); err == nil {
			for _, ahead := range []uint64{core.BlockHashLag, core.BlockHashLag + 3} {
				fake := *top
				fake.Number = top.Number + ahead // the block above it is top+ahead+1: it wants the hash of block top+ahead-9
				e, err := sync.MakeEmptyPreConfirmedForParent(node.bc, &fake)
				impl := "err"
				if err == nil {
					impl = canonDiff(e.StateUpdate.StateDiff)
				}
				h.compareEmptyDiff(node, fake.Number+1, impl)
			}
		}
		// rebuild block by block is not needed: every historical header is available
		for n := uint64(0); n < uint64(node.height); n++ {
			hdr, err := node.bc.BlockHeaderByNumber(n)
			if err != nil {
				h.res.Fatalf("fallback probe: header %d: %v", n, err)
				return
			}
			e, err := sync.MakeEmptyPreConfirmedForParent(node.bc, hdr)
			if err != nil {
				h.res.Violate(lib.Violation{Sig: "fallback-block-cannot-be-built", What: fmt.Sprintf("MakeEmptyPreConfirmedForParent(head %d): %v", n, err),
					Replay: map[string]any{"kind": "fallback-probe", "head": n, "new_state": newState}})
				continue
			}
			h.compareEmptyDiff(node, n+1, canonDiff(e.StateUpdate.StateDiff))
			v, err := preconfirmed.NewChain(&e)
			h.res.Case(fmt.Sprintf("fallback/%v/%d", newState, n), true)
			var hashWrites atomicCounter
			msg := ""
			switch {
			case err != nil:
				msg = "newchain-fails"
			case validateView(&v, n+1) != "":
				msg = validateView(&v, n+1)
			default:
				msg = checkFallbackUni(node, &v, n+1, &hashWrites)
			}
			if msg != "" {
				h.res.Violate(lib.Violation{Sig: "fallback-" + firstWord(msg), What: fmt.Sprintf("empty-block fallback above head %d: %s", n, msg),
					Replay: map[string]any{"kind": "fallback-probe", "head": n, "new_state": newState, "base": base}})
			}
			h.res.HitN("fallback-blockhash-writes-checked", int(hashWrites))
			h.res.Hit("fallback-views-checked")
		}
	}
}

type atomicCounter int

// compareEmptyDiff: makeStateDiffForEmptyBlock (through MakeEmptyPreConfirmedForParent) vs the model's
// emptyBlockDiff for block num; impl is the canonical text of the real diff, or "err".
func (h *harness) compareEmptyDiff(node *node, num uint64, impl string) {
	if h.drv == nil {
		return
	}
	hashTok := "-"
	if num >= core.BlockHashLag {
		if bh, err := node.bc.BlockHeaderHashByNumber(num - core.BlockHashLag); err == nil {
			hashTok = fv(bh)
		}
	}
	line := fmt.Sprintf("emptydiff %d %s", num, hashTok)
	model, err := h.drv.Ask(line)
	if err != nil || model == "bad-op" {
		h.res.Fatalf("fallback probe: the Lean driver failed on %q: %v %s", line, err, model)
		return
	}
	h.res.Compared(1)
	h.res.Hit("fallback-empty-diff-compared:" + map[bool]string{true: "err", false: map[bool]string{true: "with-blockhash-write", false: "no-write"}[num >= core.BlockHashLag]}[impl == "err"])
	if model != impl {
		h.res.Mismatch(lib.Mismatch{Sig: "model-differs:emptydiff", Input: map[string]any{"line": line}, Model: clip(model), Impl: clip(impl)})
	}
}

func firstWord(s string) string {
	for i, c := range s {
		if c == ' ' {
			return s[:i]
		}
	}
	return s
}

// checkFallbackUni: the fallback view reads like the canonical state at num-1 (over the harness
// universe) plus exactly the block-hash write of block num-10.
func checkFallbackUni(node *node, v *preconfirmed.ChainReader, num uint64, hashWrites *atomicCounter) string {
	sr, _, err := v.PreConfirmedStateAt(num, node.bc)
	if err != nil {
		return fmt.Sprintf("state-unavailable %v", err)
	}
	base, _, err := node.bc.StateAtBlockNumber(num - 1)
	if err != nil {
		return fmt.Sprintf("base-unavailable %v", err)
	}
	if got, want := reads(sr), reads(base); got != want {
		return fmt.Sprintf("%s-differs-from-head-state view=%s base=%s", firstDiffSection(want, got), got, want)
	}
	hd := v.Head()
	if num >= core.BlockHashLag {
		want, err := node.bc.BlockHeaderHashByNumber(num - core.BlockHashLag)
		if err != nil {
			return fmt.Sprintf("blockhash-unavailable %v", err)
		}
		got, err := sr.ContractStorage(&felt.One, fe(num-core.BlockHashLag))
		if err != nil || !got.Equal(want) {
			return "blockhash-write-wrong"
		}
		*hashWrites++
	} else if len(hd.StateUpdate.StateDiff.StorageDiffs) != 0 {
		return "unexpected-storage-write"
	}
	if len(hd.Block.Transactions) != 0 || hd.Block.Number != num {
		return "not-an-empty-block-above-the-head"
	}
	return ""
}
