//go:build verif

package main

import (
	"context"
	"errors"
	"fmt"
	"runtime/debug"
	"sync"
	"sync/atomic"
	"time"

	"github.com/NethermindEth/juno/core"
	"github.com/NethermindEth/juno/core/felt"
	"github.com/NethermindEth/juno/core/pending"
	"github.com/NethermindEth/juno/feed"
	"github.com/NethermindEth/juno/starknet"
	"github.com/NethermindEth/juno/sync/preconfirmed"
	"github.com/NethermindEth/juno/utils/log"
	"verif/harness/lib"
)

// ---------------------------------------------------------------------------------------------
// Poller stage: the REAL preconfirmed.Poller (sync/preconfirmed/poller.go) is the writer. It polls
// a scripted sequencer, while the canonical head of a real Blockchain advances (Finalise) and
// reverts (RevertHead) underneath it, and readers take views exactly the way
// Synchronizer.PreConfirmedChain does: height := bc.Height(); SnapshotForBlock(height+1).
// Only schedule-independent facts are checked: every view is gap-free and starts at the height the
// reader used plus one; nothing a reader holds ever changes.
// ---------------------------------------------------------------------------------------------

// sequencer is the scripted feeder gateway: a run of pre-confirmed blocks above its notion of the
// canonical head (content: validRun — diffs well-formed on the abstract canonical state, or
// arbitrary), answered with the delta-sync protocol (no-change / appended txs / full block).
type sequencer struct {
	mu      sync.Mutex
	r       *lib.RNG
	vr      *validRun
	latest  atomic.Int64
	byNum   atomic.Int64
	classes atomic.Int64
	errPct  int // injected endpoint failures (poller error / retry paths: failed tick, backfill aborted half way)
	failed  atomic.Int64
}

func newSequencer(r *lib.RNG, arbitrary bool, errPct int) *sequencer {
	return &sequencer{r: r, errPct: errPct,
		vr: &validRun{r: r.Fork(11), blocks: map[uint64]*vblock{}, casm: !arbitrary, arbitrary: arbitrary}}
}

var errSequencer = errors.New("scripted sequencer: injected failure")

// fail draws an injected failure; the caller holds s.mu.
func (s *sequencer) fail() bool {
	if s.errPct > 0 && s.r.Chance(s.errPct, 100) {
		s.failed.Add(1)
		return true
	}
	return false
}

// realign makes lo = head+1 on the abstract canonical state st; keep = the head advanced onto the
// pre-confirmed block (the blocks above stay), otherwise the blocks above the head are new rounds.
func (s *sequencer) realign(head uint64, st *abs, keep bool) {
	s.mu.Lock()
	defer s.mu.Unlock()
	s.vr.realign(head, st, keep)
}

// evolve is one step of the sequencer's own life: append transactions to the latest block, open
// the next block, or restart a block (new round).
func (s *sequencer) evolve() {
	s.mu.Lock()
	defer s.mu.Unlock()
	v := s.vr
	switch c := s.r.Intn(10); {
	case c < 5:
		v.appendTxs(v.hi)
	case c < 8:
		if v.hi-v.lo < 4 {
			v.hi++
			v.newBlock(v.hi)
		}
	default:
		v.restart(v.lo + uint64(s.r.Intn(int(v.hi-v.lo)+1)))
	}
}

// isCurrent: every entry of the view is a round the sequencer currently serves.
func (s *sequencer) isCurrent(v *preconfirmed.ChainReader) bool {
	s.mu.Lock()
	defer s.mu.Unlock()
	for e := range v.NewestFirst() {
		if b := s.vr.blocks[e.Block.Number]; b == nil || b.ident != e.BlockIdentifier {
			return false
		}
	}
	return true
}

func (s *sequencer) respond(n uint64, ident string, txCount uint64) (starknet.PreConfirmedUpdate, error) {
	b := s.vr.blocks[n]
	if b == nil {
		return nil, fmt.Errorf("sequencer: no pre-confirmed block %d", n)
	}
	if ident == b.ident {
		switch {
		case txCount == uint64(len(b.txs)):
			return starknet.PreConfirmedNoChange{}, nil
		case txCount < uint64(len(b.txs)):
			u := UpdateSpec{Kind: "D", Ident: b.ident, Txs: append([]TxSpec{}, b.txs[txCount:]...)}
			return u.wire(n), nil
		}
	}
	u := UpdateSpec{Kind: "B", Ident: b.ident, VerOk: true, Txs: append([]TxSpec{}, b.txs...)}
	return u.wire(n), nil
}

func (s *sequencer) PreConfirmedBlockLatest(_ context.Context, ident string, txCount uint64) (starknet.PreConfirmedUpdate, uint64, error) {
	s.latest.Add(1)
	s.mu.Lock()
	defer s.mu.Unlock()
	if s.fail() {
		return nil, 0, errSequencer
	}
	u, err := s.respond(s.vr.hi, ident, txCount)
	return u, s.vr.hi, err
}

func (s *sequencer) PreConfirmedBlockByNumber(_ context.Context, n uint64, ident string, txCount uint64) (starknet.PreConfirmedUpdate, error) {
	s.byNum.Add(1)
	s.mu.Lock()
	defer s.mu.Unlock()
	if s.fail() {
		return nil, errSequencer
	}
	return s.respond(n, ident, txCount)
}

func (s *sequencer) Class(_ context.Context, h *felt.Felt) (core.ClassDefinition, error) {
	s.classes.Add(1)
	s.mu.Lock()
	failed := s.fail()
	s.mu.Unlock()
	if failed {
		return nil, errSequencer
	}
	s.mu.Lock()
	defer s.mu.Unlock()
	for _, b := range s.vr.blocks { // the definition the declaring block carries
		for _, c := range b.classes {
			if c[0] == h.Uint64() {
				return classDef(c[1]), nil
			}
		}
	}
	return classDef(3000 + h.Uint64()), nil
}

func (h *harness) pollerStage(rng *lib.RNG, rounds int) {
	for i := 0; i < rounds; i++ {
		h.pollerRound(rng.Fork(uint64(i)), i)
	}
}

func (h *harness) pollerRound(rng *lib.RNG, round int) {
	const nBase = 3
	base, states := genBase(rng, nBase)
	node, err := buildBase(rng.Bool(), base)
	if err != nil {
		h.res.Fatalf("poller stage: setup failed: %v", err)
		return
	}
	st := states[nBase-1].clone()
	storage := preconfirmed.NewChainStorage()
	var highest atomic.Pointer[core.Header]
	setHighest := func() uint64 {
		hd, err := node.bc.HeadsHeader()
		if err == nil {
			highest.Store(hd)
			return hd.Number
		}
		return 0
	}
	head := setHighest()
	sim := newSequencer(rng.Fork(7), false, 10)
	sim.realign(head, st, false)
	out := feed.New[*pending.PreConfirmed]()
	sub := out.Subscribe()
	defer sub.Unsubscribe()
	poller := preconfirmed.NewPoller(sim, storage, node.bc, out, &highest, time.Millisecond, log.NewNopZapLogger())
	ctx, cancel := context.WithCancel(context.Background())
	var wg sync.WaitGroup
	wg.Add(1)
	var mu sync.Mutex
	var found []cFinding
	violate := func(sig, what string) {
		mu.Lock()
		found = append(found, cFinding{sig, what})
		mu.Unlock()
	}
	go func() {
		defer wg.Done()
		if err, panicked, stack := lib.Try(func() error { poller.Run(ctx); return nil }); panicked {
			violate("poller-run-panics", fmt.Sprintf("preconfirmed.Poller.Run panicked: %v\n%s", err, clip(stack)))
		}
	}()

	var stop atomic.Bool
	var views, nonEmpty, maxLen, published, stateChecked, discarded atomic.Int64
	// feed consumer: what the poller publishes must be entries with a header
	wg.Add(1)
	go func() {
		defer wg.Done()
		for {
			select {
			case <-ctx.Done():
				return
			case e := <-sub.Recv():
				published.Add(1)
				if e == nil || e.Block == nil || e.Block.Header == nil {
					violate("poller-publishes-nil-entry", "the pre-confirmed feed delivered a nil entry")
				}
			}
		}
	}()
	for w := 0; w < 4; w++ {
		wg.Add(1)
		rr := rng.Fork(uint64(200 + w))
		go func() {
			defer wg.Done()
			defer func() {
				if p := recover(); p != nil {
					violate("poller-reader-panics", fmt.Sprintf("a reader using a view panicked: %v\n%s", p, clip(string(debug.Stack()))))
				}
			}()
			type held struct {
				v    preconfirmed.ChainReader
				hash string
			}
			var keep []held
			for !stop.Load() {
				// exactly Synchronizer.PreConfirmedChain: read the height, then take the aligned view
				height, err := node.bc.Height()
				if err != nil {
					continue
				}
				v := storage.SnapshotForBlock(height + 1)
				views.Add(1)
				if msg := validateView(&v, height+1); msg != "" {
					violate("poller-"+msg, fmt.Sprintf("with the real poller as writer a reader got %s for height %d", msg, height))
				}
				if v.Length() > 0 {
					nonEmpty.Add(1)
					// the poller is the writer: an entry carries definitions only of classes its own block declares
					if sig, what := entryClassOracle(&v); sig != "" {
						violate("poller-"+sig, what)
					}
					if int64(v.Length()) > maxLen.Load() {
						maxLen.Store(int64(v.Length()))
					}
					if rr.Chance(1, 4) {
						// the state oracle with the real poller as writer and the head really moving: every
						// block of the view against specReads over the canonical state at `height`; it
						// counts only if the head did not move and the view's rounds were the sequencer's
						// current ones before and after (see live.go)
						cur1 := sim.isCurrent(&v)
						var sec, what string
						var n int
						if err, panicked, stack := lib.Try(func() error {
							sec, what, n = viewStateOracle(node.bc, &v, height)
							if sec == "" {
								// class lookups at every slot: only classes a block of the view (or the base) declares
								if csig, cwhat, _ := viewClassOracle(node.bc, &v, uniCH); csig != "" {
									sec, what = csig, cwhat
								}
							}
							return nil
						}); panicked {
							violate("poller-state-read-panics", fmt.Sprintf("a state read through a view panicked: %v\n%s", err, clip(stack)))
						}
						h2, _ := node.bc.Height()
						switch {
						case h2 != height || !cur1 || !sim.isCurrent(&v):
							discarded.Add(1)
						case sec != "":
							violate("poller-overlay-"+sec, what)
						default:
							stateChecked.Add(int64(n))
						}
					}
					if rr.Chance(1, 8) {
						hsh := lib.Pick(rr, uniHashes)
						if msg := lookupOracle(&v, hsh); msg != "" {
							violate("poller-"+msg, fmt.Sprintf("lookup of hash %d in the view for height %d", hsh, height))
						}
					}
					if len(keep) < 48 {
						keep = append(keep, held{v: v, hash: deepHash(&v)})
					} else if rr.Chance(1, 10) {
						keep[rr.Intn(len(keep))] = held{v: v, hash: deepHash(&v)}
					}
				}
				if len(keep) > 0 && rr.Chance(1, 6) {
					k := &keep[rr.Intn(len(keep))]
					if now := deepHash(&k.v); now != k.hash {
						violate("poller-held-snapshot-changed", fmt.Sprintf("a held view changed: was %q now %q", clip(k.hash), clip(now)))
						k.hash = now
					}
				}
				time.Sleep(50 * time.Microsecond)
			}
			for i := range keep {
				if now := deepHash(&keep[i].v); now != keep[i].hash {
					violate("poller-held-snapshot-changed", fmt.Sprintf("a held view changed: was %q now %q", clip(keep[i].hash), clip(now)))
				}
			}
		}()
	}
	// the canonical chain and the sequencer move
	steps := h.f.Scale(60, 400)
	moves := 0
	for i := 0; i < steps; i++ {
		time.Sleep(time.Duration(2+rng.Intn(6)) * time.Millisecond)
		switch c := rng.Intn(10); {
		case c < 6:
			sim.evolve()
		case c < 9 || node.height <= 2: // a block is finalised: the head advances
			// mostly the pre-confirmed block itself becomes canonical (what was sent, folded); sometimes
			// another block does (the blocks above are then new rounds)
			n := uint64(node.height)
			same := rng.Chance(3, 4)
			var diff *core.StateDiff
			var cls [][2]uint64
			// the move of the canonical head and the sequencer's realignment are one step for the
			// readers' validity bookkeeping (isCurrent takes the same lock)
			sim.mu.Lock()
			if b := sim.vr.blocks[n]; same && b != nil {
				diff, cls = sim.vr.sent(n)
				st = b.after.clone()
			} else {
				same = false
				d := genValidDiff(rng, st, 2, &cls, map[uint64]bool{})
				diff = d.coreDiff()
			}
			if err := node.finalise(diff, classMap(cls)); err != nil {
				sim.mu.Unlock()
				h.res.Fatalf("poller stage: the canonical node rejected a generated block: %v", err)
				i = steps
				break
			}
			states = append(states, st.clone())
			sim.vr.realign(setHighest(), st, same)
			sim.mu.Unlock()
			moves++
		default: // the head reverts by one
			sim.mu.Lock()
			if err := node.bc.RevertHead(); err != nil {
				sim.mu.Unlock()
				h.res.Fatalf("poller stage: RevertHead failed: %v", err)
				i = steps
				break
			}
			node.height--
			states = states[:len(states)-1]
			st = states[len(states)-1].clone()
			if hd, err := node.bc.HeadsHeader(); err == nil {
				node.lastHash, node.lastRoot = hd.Hash, hd.GlobalStateRoot
			}
			sim.vr.realign(setHighest(), st, false)
			sim.mu.Unlock()
			moves++
		}
	}
	time.Sleep(10 * time.Millisecond)
	stop.Store(true)
	cancel()
	done := lib.WithDeadline(300*time.Second, wg.Wait)
	if !done {
		violate("poller-stage-hangs", "poller / readers did not stop within 300s")
	}
	h.res.HitN("poller-latest-polls", int(sim.latest.Load()))
	h.res.HitN("poller-bynumber-polls", int(sim.byNum.Load()))
	h.res.HitN("poller-class-fetches", int(sim.classes.Load()))
	h.res.HitN("poller-injected-endpoint-failures", int(sim.failed.Load()))
	h.res.HitN("poller-published-entries", int(published.Load()))
	h.res.HitN("poller-head-moves", moves)
	h.res.HitN("poller-reader-views", int(views.Load()))
	h.res.HitN("poller-view-blocks-checked-against-spec", int(stateChecked.Load()))
	h.res.HitN("poller-state-comparisons-discarded-moved", int(discarded.Load()))
	h.res.HitN("poller-reader-views-nonempty", int(nonEmpty.Load()))
	h.res.HitN(fmt.Sprintf("poller-max-view-len=%d", min(maxLen.Load(), 5)), 1)
	h.res.Case(fmt.Sprintf("poller/%d/%d", h.f.Seed, round), nonEmpty.Load() > 0)
	for _, f := range found {
		h.res.Violate(lib.Violation{Sig: f.sig, What: f.what,
			Replay: map[string]any{"kind": "concurrent", "stage": "poller", "seed": h.f.Seed, "round": round}})
	}
}
