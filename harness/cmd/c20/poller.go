//go:build verif

package main

import (
	"context"
	"errors"
	"fmt"
	"runtime/debug"
	"sync"
	"sync/atomic"
	"time"

	"github.com/NethermindEth/juno/core"
	"github.com/NethermindEth/juno/core/felt"
	"github.com/NethermindEth/juno/core/pending"
	"github.com/NethermindEth/juno/feed"
	"github.com/NethermindEth/juno/starknet"
	"github.com/NethermindEth/juno/sync/preconfirmed"
	"github.com/NethermindEth/juno/utils/log"
	"verif/harness/lib"
)

// ---------------------------------------------------------------------------------------------
// Poller stage: the REAL preconfirmed.Poller (sync/preconfirmed/poller.go) is the writer. It polls
// a scripted sequencer, while the canonical head of a real Blockchain advances (Finalise) and
// reverts (RevertHead) underneath it, and readers take views exactly the way
// Synchronizer.PreConfirmedChain does: height := bc.Height(); SnapshotForBlock(height+1).
// Only schedule-independent facts are checked: every view is gap-free and starts at the height the
// reader used plus one; nothing a reader holds ever changes.
// ---------------------------------------------------------------------------------------------

type simBlock struct {
	ident string
	txs   []TxSpec
}

// sequencer is the scripted feeder gateway: a run of pre-confirmed blocks above its notion of the
// canonical head, answered with the delta-sync protocol (no-change / appended txs / full block).
type sequencer struct {
	mu      sync.Mutex
	r       *lib.RNG
	blocks  map[uint64]*simBlock
	lo, hi  uint64 // pre-confirmed numbers lo..hi exist (lo = canonical head + 1)
	round   int
	seq     txSeq
	latest  atomic.Int64
	byNum   atomic.Int64
	classes atomic.Int64
	errPct  int // injected endpoint failures (poller error / retry paths: failed tick, backfill aborted half way)
	failed  atomic.Int64
}

var errSequencer = errors.New("scripted sequencer: injected failure")

// fail draws an injected failure; the caller holds s.mu.
func (s *sequencer) fail() bool {
	if s.errPct > 0 && s.r.Chance(s.errPct, 100) {
		s.failed.Add(1)
		return true
	}
	return false
}

func (s *sequencer) newBlock(num uint64) {
	s.round++
	s.blocks[num] = &simBlock{ident: fmt.Sprintf("p%d-%d", num, s.round),
		txs: genTxs(s.r, s.r.Intn(3), &s.seq, func() DiffSpec { return genAnyDiff(s.r, 2) })}
}

// realign makes lo = head+1 (the sequencer follows the canonical chain; after a revert the blocks
// above the new head are new rounds).
func (s *sequencer) realign(head uint64, reverted bool) {
	s.mu.Lock()
	defer s.mu.Unlock()
	for n := range s.blocks {
		if n <= head || reverted {
			delete(s.blocks, n)
		}
	}
	s.lo = head + 1
	if s.hi < s.lo || reverted {
		s.hi = s.lo
	}
	for n := s.lo; n <= s.hi; n++ {
		if s.blocks[n] == nil {
			s.newBlock(n)
		}
	}
}

// evolve is one step of the sequencer's own life: append transactions to the latest block, open
// the next block, or restart a block (new round).
func (s *sequencer) evolve() {
	s.mu.Lock()
	defer s.mu.Unlock()
	switch c := s.r.Intn(10); {
	case c < 5:
		b := s.blocks[s.hi]
		b.txs = append(b.txs, genTxs(s.r, 1+s.r.Intn(2), &s.seq, func() DiffSpec { return genAnyDiff(s.r, 2) })...)
	case c < 8:
		if s.hi-s.lo < 4 {
			s.hi++
			s.newBlock(s.hi)
		}
	default:
		n := s.lo + uint64(s.r.Intn(int(s.hi-s.lo)+1))
		s.newBlock(n)
		for m := n + 1; m <= s.hi; m++ { // what was built on the old round is gone
			delete(s.blocks, m)
		}
		s.hi = n
	}
}

func (s *sequencer) respond(n uint64, ident string, txCount uint64) (starknet.PreConfirmedUpdate, error) {
	b := s.blocks[n]
	if b == nil {
		return nil, fmt.Errorf("sequencer: no pre-confirmed block %d", n)
	}
	if ident == b.ident {
		switch {
		case txCount == uint64(len(b.txs)):
			return starknet.PreConfirmedNoChange{}, nil
		case txCount < uint64(len(b.txs)):
			u := UpdateSpec{Kind: "D", Ident: b.ident, Txs: append([]TxSpec{}, b.txs[txCount:]...)}
			return u.wire(n), nil
		}
	}
	u := UpdateSpec{Kind: "B", Ident: b.ident, VerOk: true, Txs: append([]TxSpec{}, b.txs...)}
	return u.wire(n), nil
}

func (s *sequencer) PreConfirmedBlockLatest(_ context.Context, ident string, txCount uint64) (starknet.PreConfirmedUpdate, uint64, error) {
	s.latest.Add(1)
	s.mu.Lock()
	defer s.mu.Unlock()
	if s.fail() {
		return nil, 0, errSequencer
	}
	u, err := s.respond(s.hi, ident, txCount)
	return u, s.hi, err
}

func (s *sequencer) PreConfirmedBlockByNumber(_ context.Context, n uint64, ident string, txCount uint64) (starknet.PreConfirmedUpdate, error) {
	s.byNum.Add(1)
	s.mu.Lock()
	defer s.mu.Unlock()
	if s.fail() {
		return nil, errSequencer
	}
	return s.respond(n, ident, txCount)
}

func (s *sequencer) Class(_ context.Context, h *felt.Felt) (core.ClassDefinition, error) {
	s.classes.Add(1)
	s.mu.Lock()
	failed := s.fail()
	s.mu.Unlock()
	if failed {
		return nil, errSequencer
	}
	return classDef(3000 + h.Uint64()), nil
}

func (h *harness) pollerStage(rng *lib.RNG, rounds int) {
	for i := 0; i < rounds; i++ {
		h.pollerRound(rng.Fork(uint64(i)), i)
	}
}

func (h *harness) pollerRound(rng *lib.RNG, round int) {
	const nBase = 3
	base, states := genBase(rng, nBase)
	node, err := buildBase(rng.Bool(), base)
	if err != nil {
		h.res.Note("poller setup: %v", err)
		return
	}
	st := states[nBase-1].clone()
	storage := preconfirmed.NewChainStorage()
	var highest atomic.Pointer[core.Header]
	setHighest := func() uint64 {
		hd, err := node.bc.HeadsHeader()
		if err == nil {
			highest.Store(hd)
			return hd.Number
		}
		return 0
	}
	head := setHighest()
	sim := &sequencer{r: rng.Fork(7), blocks: map[uint64]*simBlock{}, errPct: 10}
	sim.realign(head, false)
	out := feed.New[*pending.PreConfirmed]()
	sub := out.Subscribe()
	defer sub.Unsubscribe()
	poller := preconfirmed.NewPoller(sim, storage, node.bc, out, &highest, time.Millisecond, log.NewNopZapLogger())
	ctx, cancel := context.WithCancel(context.Background())
	var wg sync.WaitGroup
	wg.Add(1)
	var mu sync.Mutex
	var found []cFinding
	violate := func(sig, what string) {
		mu.Lock()
		found = append(found, cFinding{sig, what})
		mu.Unlock()
	}
	go func() {
		defer wg.Done()
		if err, panicked, stack := lib.Try(func() error { poller.Run(ctx); return nil }); panicked {
			violate("poller-run-panics", fmt.Sprintf("preconfirmed.Poller.Run panicked: %v\n%s", err, clip(stack)))
		}
	}()

	var stop atomic.Bool
	var views, nonEmpty, maxLen, published atomic.Int64
	// feed consumer: what the poller publishes must be entries with a header
	wg.Add(1)
	go func() {
		defer wg.Done()
		for {
			select {
			case <-ctx.Done():
				return
			case e := <-sub.Recv():
				published.Add(1)
				if e == nil || e.Block == nil || e.Block.Header == nil {
					violate("poller-publishes-nil-entry", "the pre-confirmed feed delivered a nil entry")
				}
			}
		}
	}()
	for w := 0; w < 4; w++ {
		wg.Add(1)
		rr := rng.Fork(uint64(200 + w))
		go func() {
			defer wg.Done()
			defer func() {
				if p := recover(); p != nil {
					violate("poller-reader-panics", fmt.Sprintf("a reader using a view panicked: %v\n%s", p, clip(string(debug.Stack()))))
				}
			}()
			type held struct {
				v    preconfirmed.ChainReader
				hash string
			}
			var keep []held
			for !stop.Load() {
				// exactly Synchronizer.PreConfirmedChain: read the height, then take the aligned view
				height, err := node.bc.Height()
				if err != nil {
					continue
				}
				v := storage.SnapshotForBlock(height + 1)
				views.Add(1)
				if msg := validateView(&v, height+1); msg != "" {
					violate("poller-"+msg, fmt.Sprintf("with the real poller as writer a reader got %s for height %d", msg, height))
				}
				if v.Length() > 0 {
					nonEmpty.Add(1)
					if int64(v.Length()) > maxLen.Load() {
						maxLen.Store(int64(v.Length()))
					}
					if rr.Chance(1, 6) {
						_, _, _ = lib.Try(func() error {
							sr, _, err := v.PreConfirmedStateAt(v.Head().Block.Number, node.bc)
							if err == nil {
								_ = reads(sr)
							} else if errors.Is(err, pending.ErrPreConfirmedNotFound) {
								violate("poller-view-tip-not-found", "PreConfirmedStateAt(tip) of a non-empty view: not found")
							}
							return nil
						})
					}
					if len(keep) < 48 {
						keep = append(keep, held{v: v, hash: deepHash(&v)})
					} else if rr.Chance(1, 10) {
						keep[rr.Intn(len(keep))] = held{v: v, hash: deepHash(&v)}
					}
				}
				if len(keep) > 0 && rr.Chance(1, 6) {
					k := &keep[rr.Intn(len(keep))]
					if now := deepHash(&k.v); now != k.hash {
						violate("poller-held-snapshot-changed", fmt.Sprintf("a held view changed: was %q now %q", clip(k.hash), clip(now)))
						k.hash = now
					}
				}
				time.Sleep(50 * time.Microsecond)
			}
			for i := range keep {
				if now := deepHash(&keep[i].v); now != keep[i].hash {
					violate("poller-held-snapshot-changed", fmt.Sprintf("a held view changed: was %q now %q", clip(keep[i].hash), clip(now)))
				}
			}
		}()
	}
	// the canonical chain and the sequencer move
	steps := h.f.Scale(60, 400)
	moves := 0
	for i := 0; i < steps; i++ {
		time.Sleep(time.Duration(2+rng.Intn(6)) * time.Millisecond)
		switch c := rng.Intn(10); {
		case c < 6:
			sim.evolve()
		case c < 9 || node.height <= 2: // a block is finalised: the head advances
			var cls [][2]uint64
			d := genValidDiff(rng, st, 2, &cls, map[uint64]bool{})
			if err := node.finalise(d.coreDiff(), classMap(cls)); err != nil {
				h.res.Note("poller stage: finalise: %v", err)
				i = steps
				break
			}
			states = append(states, st.clone())
			sim.realign(setHighest(), false)
			moves++
		default: // the head reverts by one
			if err := node.bc.RevertHead(); err != nil {
				h.res.Note("poller stage: revert: %v", err)
				i = steps
				break
			}
			node.height--
			states = states[:len(states)-1]
			st = states[len(states)-1].clone()
			if hd, err := node.bc.HeadsHeader(); err == nil {
				node.lastHash, node.lastRoot = hd.Hash, hd.GlobalStateRoot
			}
			sim.realign(setHighest(), true)
			moves++
		}
	}
	time.Sleep(10 * time.Millisecond)
	stop.Store(true)
	cancel()
	done := lib.WithDeadline(30*time.Second, wg.Wait)
	if !done {
		violate("poller-stage-hangs", "poller / readers did not stop within 30s")
	}
	h.res.HitN("poller-latest-polls", int(sim.latest.Load()))
	h.res.HitN("poller-bynumber-polls", int(sim.byNum.Load()))
	h.res.HitN("poller-class-fetches", int(sim.classes.Load()))
	h.res.HitN("poller-injected-endpoint-failures", int(sim.failed.Load()))
	h.res.HitN("poller-published-entries", int(published.Load()))
	h.res.HitN("poller-head-moves", moves)
	h.res.HitN("poller-reader-views", int(views.Load()))
	h.res.HitN("poller-reader-views-nonempty", int(nonEmpty.Load()))
	h.res.HitN(fmt.Sprintf("poller-max-view-len=%d", min(maxLen.Load(), 5)), 1)
	h.res.Case(fmt.Sprintf("poller/%d/%d", h.f.Seed, round), nonEmpty.Load() > 0)
	for _, f := range found {
		h.res.Violate(lib.Violation{Sig: f.sig, What: f.what,
			Replay: map[string]any{"kind": "concurrent", "stage": "poller", "seed": h.f.Seed, "round": round}})
	}
}
