//go:build verif

package main

import (
	"fmt"

	"verif/harness/lib"
)

// ---------------------------------------------------------------------------------------------
// Scripts for the scripted-poller stage: a "sequencer" that lives its own life (appends
// transactions, opens blocks — several between two ticks, so that its latest block jumps ahead of
// the stored tip —, restarts rounds) answered with the delta-sync protocol, plus adversarial
// answers (any shape for any poll: the model and the theorems assume nothing about the data
// source), failing endpoints and class fetches, and a canonical head that advances / reverts.
// Transactions declare classes often (cairo0 and sierra, repeated across blocks too).
// ---------------------------------------------------------------------------------------------

type psBlock struct {
	ident string
	txs   []TxSpec
}

type psTruth struct {
	r      *lib.RNG
	seq    txSeq
	round  int
	blocks map[uint64]*psBlock
	lo, hi uint64
}

func (t *psTruth) diff() DiffSpec {
	d := genAnyDiff(t.r, 1)
	d.C0, d.C1 = nil, nil
	if t.r.Chance(2, 5) {
		d.C0 = append(d.C0, lib.Pick(t.r, uniCH))
	}
	if t.r.Chance(1, 5) {
		d.C1 = append(d.C1, [2]uint64{lib.Pick(t.r, uniCH), 400 + uint64(t.r.Intn(3))})
	}
	return d
}

func (t *psTruth) plainDiff() DiffSpec {
	d := genAnyDiff(t.r, 1)
	d.C0, d.C1 = nil, nil
	return d
}

func (t *psTruth) newIdent(n uint64) string {
	t.round++
	return fmt.Sprintf("q%d-%d", n, t.round)
}

func (t *psTruth) newBlock(n uint64) {
	b := &psBlock{ident: t.newIdent(n)}
	b.txs = genTxs(t.r, t.r.Intn(3), &t.seq, t.diff)
	t.blocks[n] = b
}

func (t *psTruth) realign(head uint64, keep bool) {
	for n := range t.blocks {
		if n <= head || !keep {
			delete(t.blocks, n)
		}
	}
	t.lo = head + 1
	if t.hi < t.lo || !keep {
		t.hi = t.lo
	}
	for n := t.lo; n <= t.hi; n++ {
		if t.blocks[n] == nil {
			t.newBlock(n)
		}
	}
}

func (t *psTruth) evolve() {
	switch c := t.r.Intn(10); {
	case c < 4:
		b := t.blocks[t.hi]
		b.txs = append(b.txs, genTxs(t.r, 1+t.r.Intn(2), &t.seq, t.diff)...)
	case c < 8:
		if t.hi-t.lo < 4 {
			t.hi++
			t.newBlock(t.hi)
		}
	default: // a new round at some slot: what was built on the old round is gone
		n := t.lo + uint64(t.r.Intn(int(t.hi-t.lo)+1))
		for m := n; m <= t.hi; m++ {
			delete(t.blocks, m)
		}
		t.hi = n
		t.newBlock(n)
	}
}

// respond: the delta-sync protocol on the sequencer's block n.
func (t *psTruth) respond(n uint64, ident string, txc uint64) PollSpec {
	b := t.blocks[n]
	if b == nil {
		return PollSpec{N: n, Fail: true}
	}
	if ident == b.ident {
		switch {
		case txc == uint64(len(b.txs)):
			return PollSpec{N: n, U: &UpdateSpec{Kind: "N"}}
		case txc < uint64(len(b.txs)):
			return PollSpec{N: n, U: &UpdateSpec{Kind: "D", Ident: b.ident, Txs: append([]TxSpec{}, b.txs[txc:]...)}}
		}
	}
	return PollSpec{N: n, U: &UpdateSpec{Kind: "B", Ident: b.ident, VerOk: true, Txs: append([]TxSpec{}, b.txs...)}}
}

// adversarialRepoll: any answer for the by-number re-poll of the old tip (stored identifier si, sn transactions).
func (t *psTruth) adversarialRepoll(n uint64, si string, sn uint64) PollSpec {
	r := t.r
	full := func(ident string, txs []TxSpec) PollSpec {
		return PollSpec{N: n, U: &UpdateSpec{Kind: "B", Ident: ident, VerOk: true, Txs: txs}}
	}
	switch r.Intn(12) {
	case 0:
		return PollSpec{N: n, U: &UpdateSpec{Kind: "N"}}
	case 1:
		return PollSpec{N: n, U: &UpdateSpec{Kind: "D", Ident: si, Txs: genTxs(r, 1+r.Intn(2), &t.seq, t.diff)}}
	case 2:
		return PollSpec{N: n, U: &UpdateSpec{Kind: "D", Ident: "zz", Txs: genTxs(r, 1, &t.seq, t.diff)}}
	case 3: // the same round, as many transactions (other content: the sequencer is not trusted to repeat itself)
		return full(si, genTxs(r, int(sn), &t.seq, t.diff))
	case 4: // the same round, richer
		return full(si, genTxs(r, int(sn)+1+r.Intn(2), &t.seq, t.diff))
	case 5: // a new round that declares nothing
		return full(t.newIdent(n), genTxs(r, r.Intn(3), &t.seq, t.plainDiff))
	case 6, 7: // a new round with its own declarations
		return full(t.newIdent(n), genTxs(r, 1+r.Intn(2), &t.seq, t.diff))
	case 8:
		return full("0x0", genTxs(r, r.Intn(int(sn)+1), &t.seq, t.diff))
	case 9:
		return PollSpec{N: n, Fail: true}
	case 10:
		p := full(t.newIdent(n), genTxs(r, 1, &t.seq, t.diff))
		if r.Bool() {
			p.U.VerOk = false
		} else {
			p.U.Txs[0].Bad = true
		}
		return p
	}
	return t.respond(n, si, sn)
}

// nextTick draws the script of one tick given the real state.
func (t *psTruth) nextTick(st *psState, canonRNG *lib.RNG) *TickSpec {
	r := t.r
	if st.tick == 0 || t.lo != st.height+1 {
		// the canonical head moved since the last tick: mostly the blocks above it stay (the head
		// advanced onto what was pre-confirmed), sometimes they are new rounds
		t.realign(st.height, st.tick != 0 && t.lo <= st.height+1 && r.Chance(2, 3))
	}
	for i := r.Intn(4); i > 0; i-- {
		t.evolve()
	}
	tk := &TickSpec{DefSalt: uint64(r.Intn(3))}
	// ---- the latest poll
	switch {
	case r.Chance(1, 14):
		tk.Latest = PollSpec{Fail: true}
	case r.Chance(1, 16): // adversarial
		num := t.lo + uint64(r.Intn(5))
		if t.lo > 0 && r.Chance(1, 4) {
			num = t.lo - 1
		}
		switch r.Intn(4) {
		case 0:
			tk.Latest = PollSpec{N: num, U: &UpdateSpec{Kind: "N"}}
		case 1:
			tk.Latest = PollSpec{N: num, U: &UpdateSpec{Kind: "D", Ident: st.hintIdent, Txs: genTxs(r, 1, &t.seq, t.diff)}}
		case 2:
			tk.Latest = PollSpec{N: num, U: &UpdateSpec{Kind: "D", Ident: "zz", Txs: genTxs(r, 1, &t.seq, t.diff)}}
		default:
			tk.Latest = PollSpec{N: num, U: &UpdateSpec{Kind: "B", Ident: t.newIdent(num), VerOk: true, Txs: genTxs(r, r.Intn(3), &t.seq, t.diff)}}
		}
	default:
		tk.Latest = t.respond(t.hi, st.hintIdent, st.hintTx)
		tk.Latest.N = t.hi
	}
	// ---- the by-number polls a backfill would make: the old tip (with hints), then the slots up to latest-1
	from := st.height + 1
	if !st.ci.empty && st.ci.oldest == st.height+1 {
		from = st.ci.tip
	}
	if !tk.Latest.Fail && tk.Latest.U != nil && tk.Latest.U.Kind == "B" && tk.Latest.N > from {
		for n := from; n < tk.Latest.N && n < from+8; n++ {
			var p PollSpec
			switch {
			case n == from && !st.ci.empty && r.Chance(1, 3):
				p = t.adversarialRepoll(n, st.hintIdent, st.hintTx)
			case n == from:
				p = t.respond(n, st.hintIdent, st.hintTx)
			case r.Chance(1, 15):
				p = PollSpec{N: n, Fail: true}
			case r.Chance(1, 15): // a non-block answer for a fresh slot
				p = PollSpec{N: n, U: &UpdateSpec{Kind: "N"}}
			default:
				p = t.respond(n, "", 0)
			}
			p.N = n
			tk.ByNum = append(tk.ByNum, p)
		}
	}
	if r.Chance(1, 10) {
		tk.ClassFail = append(tk.ClassFail, lib.Pick(r, uniCH))
	}
	// a class fetch that fails at a particular point: a class one of the polled slots declares (often
	// the LAST slot's, so that the fetches before it succeed)
	if len(tk.ByNum) > 0 && r.Chance(1, 5) {
		for i := len(tk.ByNum) - 1; i >= 0; i-- {
			var hs []uint64
			if u := tk.ByNum[i].U; u != nil {
				for _, tx := range u.Txs {
					hs = append(hs, tx.Diff.C0...)
					for _, p := range tx.Diff.C1 {
						hs = append(hs, p[0])
					}
				}
			}
			if len(hs) > 0 && (i == len(tk.ByNum)-1 || r.Bool()) {
				tk.ClassFail = append(tk.ClassFail, lib.Pick(r, hs))
				break
			}
		}
	}
	// ---- the environment
	switch c := r.Intn(100); {
	case c < 20:
		tk.HeadOp = "advance"
		var cls [][2]uint64
		d := genValidDiff(canonRNG, st.canon.clone(), 2, &cls, map[uint64]bool{})
		tk.HeadDiff, tk.HeadClasses = &d, cls
	case c < 27 && st.height > 1:
		tk.HeadOp = "revert"
	}
	if r.Chance(1, 14) {
		tk.NotAtTip = lib.Pick(r, []string{"ahead", "nil"})
	}
	return tk
}

// pscriptCase: one generated scripted-poller scenario.
func (h *harness) pscriptCase(rng *lib.RNG, idx int) {
	nBase := 2 + rng.Intn(2)
	base, _ := genBase(rng, nBase)
	scn := &Scenario{Kind: "pscript", NewState: rng.Bool(), Base: base, Head: uint64(nBase - 1)}
	truth := &psTruth{r: rng.Fork(3), blocks: map[uint64]*psBlock{}}
	canonRNG := rng.Fork(4)
	nTicks := 8 + rng.Intn(h.f.Scale(8, 16))
	r, err := runPScript(scn, h.drv != nil, nTicks, func(st *psState) *TickSpec { return truth.nextTick(st, canonRNG) })
	if err != nil {
		h.res.Fatalf("pscript case %d: setup failed: %v", idx, err)
		return
	}
	if idx < 2 {
		h.res.Sample(8, map[string]any{"kind": "pscript", "ticks": len(scn.Ticks), "first_ticks": scn.Ticks[:min(2, len(scn.Ticks))]})
	}
	h.finishCase(r, scn, fmt.Sprintf("ps/%d/%d", h.f.Seed, idx))
}

// shrinkTicks: the ticks up to the one at which the violation showed, with leading ticks dropped while
// it still shows (a tick's answers do not depend on earlier ones in a replay).
func shrinkTicks(scn *Scenario, op int, sig string) *Scenario {
	c := *scn
	if op >= 0 && op < len(c.Ticks) {
		c.Ticks = c.Ticks[:op] // a finding at op k shows after ticks 0..k-1
	}
	still := func(s *Scenario) bool {
		r, err := runPScript(s, false, 0, nil)
		if err != nil {
			return false
		}
		for _, f := range r.findings {
			if f.sig == sig {
				return true
			}
		}
		return false
	}
	if !still(&c) {
		return scn
	}
	cur := &c
	for i := len(cur.Ticks) - 1; i >= 0; i-- {
		d := *cur
		d.Ticks = append(append([]TickSpec{}, cur.Ticks[:i]...), cur.Ticks[i+1:]...)
		if still(&d) {
			cur = &d
		}
	}
	return cur
}

// ---- the exhaustive family -------------------------------------------------------------------------

func psTx(hash uint64, d DiffSpec) TxSpec {
	return TxSpec{Hash: hash, Tag: hash, RHash: hash, RTag: 5000 + hash, Diff: d}
}

func psFull(n uint64, ident string, txs ...TxSpec) PollSpec {
	return PollSpec{N: n, U: &UpdateSpec{Kind: "B", Ident: ident, VerOk: true, Txs: txs}}
}

func psDelta(n uint64, ident string, txs ...TxSpec) PollSpec {
	return PollSpec{N: n, U: &UpdateSpec{Kind: "D", Ident: ident, Txs: txs}}
}

func psNoChange(n uint64) PollSpec { return PollSpec{N: n, U: &UpdateSpec{Kind: "N"}} }

// pscriptExhaustive enumerates, over a canonical chain of two blocks (head 1), every combination of
//
//	tick 1: the latest block 2 (round r1) declares class 200 as cairo0 / as sierra / declares nothing;
//	tick 2: the sequencer did not move (no-change / delta declaring 202 / delta / the same full block),
//	        or its latest block is 3 or 4 and the by-number re-poll of the old tip 2 answers one of:
//	        no-change, delta r1 (+202), delta r1, delta of another round, full r1 same content, full r1
//	        richer (+202), full NEW round declaring nothing / 201 / 200 again, blank placeholder, failure
//	        (x class fetch fails for nothing / 200 / 201+202; x, when latest is 4, slot 3 answered with a
//	        full block declaring 203 / a no-change / a failure / a full block whose class fetch fails);
//	tick 3: (optionally after the head advanced to 2) no-change, or the latest block jumps one ahead of
//	        whatever the stored tip is and the re-poll answers no-change / delta (+204) / full new round
//	        declaring nothing / 201 / failure.
func (h *harness) pscriptExhaustive() {
	X, Y, Z, W, V := uint64(200), uint64(201), uint64(202), uint64(203), uint64(204)
	c0 := func(hs ...uint64) DiffSpec { return DiffSpec{C0: hs, N: [][2]uint64{{100, 1}}} }
	plain := DiffSpec{N: [][2]uint64{{100, 2}}}
	base := []BaseBlock{{Diff: DiffSpec{D: [][2]uint64{{100, 300}}}}, {Diff: DiffSpec{N: [][2]uint64{{100, 1}}}}}
	r1txs := func(v int) []TxSpec {
		switch v {
		case 1:
			return []TxSpec{psTx(1, c0(X))}
		case 2:
			return []TxSpec{psTx(1, DiffSpec{C1: [][2]uint64{{X, 400}}})}
		}
		return []TxSpec{psTx(1, plain)}
	}
	type t2 struct {
		name string
		mk   func(r1 []TxSpec) TickSpec
	}
	repolls := []struct {
		name string
		mk   func(r1 []TxSpec) PollSpec
	}{
		{"N", func([]TxSpec) PollSpec { return psNoChange(2) }},
		{"D+Z", func([]TxSpec) PollSpec { return psDelta(2, "r1", psTx(2, c0(Z))) }},
		{"D", func([]TxSpec) PollSpec { return psDelta(2, "r1", psTx(2, plain)) }},
		{"Dother", func([]TxSpec) PollSpec { return psDelta(2, "rX", psTx(2, c0(Z))) }},
		{"Bsame", func(r1 []TxSpec) PollSpec { return psFull(2, "r1", r1...) }},
		{"Bricher", func(r1 []TxSpec) PollSpec { return psFull(2, "r1", append(append([]TxSpec{}, r1...), psTx(2, c0(Z)))...) }},
		{"Bnew", func([]TxSpec) PollSpec { return psFull(2, "r2", psTx(3, plain)) }},
		{"Bnew+Y", func([]TxSpec) PollSpec { return psFull(2, "r2", psTx(3, c0(Y))) }},
		{"Bnew+X", func([]TxSpec) PollSpec { return psFull(2, "r2", psTx(3, c0(X))) }},
		{"Bblank", func([]TxSpec) PollSpec { return psFull(2, "0x0") }},
		{"fail", func([]TxSpec) PollSpec { return PollSpec{N: 2, Fail: true} }},
	}
	var tick2 []t2
	tick2 = append(tick2,
		t2{"same-N", func([]TxSpec) TickSpec { return TickSpec{Latest: psNoChange(2)} }},
		t2{"same-D+Z", func([]TxSpec) TickSpec { return TickSpec{Latest: psDelta(2, "r1", psTx(2, c0(Z)))} }},
		t2{"same-D", func([]TxSpec) TickSpec { return TickSpec{Latest: psDelta(2, "r1", psTx(2, plain))} }},
		t2{"same-B", func(r1 []TxSpec) TickSpec { return TickSpec{Latest: psFull(2, "r1", r1...)} }})
	for _, rp := range repolls {
		for ci, cf := range [][]uint64{nil, {X}, {Y, Z}} {
			rp, cf := rp, cf
			tick2 = append(tick2, t2{fmt.Sprintf("jump1-%s-cf%d", rp.name, ci), func(r1 []TxSpec) TickSpec {
				return TickSpec{Latest: psFull(3, "s1", psTx(4, c0(W))), ByNum: []PollSpec{rp.mk(r1)}, ClassFail: cf}
			}})
		}
		for si, slot3 := range []PollSpec{psFull(3, "s1", psTx(4, c0(W))), psNoChange(3), {N: 3, Fail: true}, psFull(3, "s1", psTx(4, c0(W)))} {
			rp, slot3 := rp, slot3
			var cf []uint64
			if si == 3 { // the class fetch of the INTERMEDIATE slot fails (after the old tip's succeeded)
				cf = []uint64{W}
			}
			tick2 = append(tick2, t2{fmt.Sprintf("jump2-%s-s%d", rp.name, si), func(r1 []TxSpec) TickSpec {
				return TickSpec{Latest: psFull(4, "t1", psTx(5, plain)), ByNum: []PollSpec{rp.mk(r1), slot3}, ClassFail: cf}
			}})
		}
	}
	type caseSpec struct {
		v1, i2, i3 int
		adv        bool
	}
	var cases []caseSpec
	for v1 := 0; v1 < 3; v1++ {
		for i2 := range tick2 {
			for i3 := 0; i3 < 6; i3++ {
				cases = append(cases, caseSpec{v1, i2, i3, false})
				if i3 == 0 || i3 == 3 || i3 == 4 { // the head advances onto slot 2 before tick 3
					cases = append(cases, caseSpec{v1, i2, i3, true})
				}
			}
		}
	}
	h.parallel(len(cases), func(w *harness, i int) {
		c := cases[i]
		r1 := r1txs(c.v1)
		scn := &Scenario{Kind: "pscript", NewState: i%2 == 0, Base: base, Head: 1}
		first := TickSpec{Latest: psFull(2, "r1", r1...)}
		second := tick2[c.i2].mk(r1)
		if c.adv {
			second.HeadOp = "advance"
			second.HeadDiff = &DiffSpec{N: [][2]uint64{{100, 2}}}
		}
		k := 0
		r, err := runPScript(scn, w.drv != nil, 3, func(st *psState) *TickSpec {
			k++
			switch k {
			case 1:
				return &first
			case 2:
				return &second
			}
			// tick 3 is aimed at whatever the stored tip is now
			tip, ident := st.height+1, st.hintIdent
			if !st.ci.empty && st.ci.oldest == st.height+1 {
				tip = st.ci.tip
			}
			jump := func(p PollSpec) *TickSpec {
				p.N = tip
				return &TickSpec{Latest: psFull(tip+1, "u1", psTx(7, plain)), ByNum: []PollSpec{p}, DefSalt: 1}
			}
			switch c.i3 {
			case 0:
				return &TickSpec{Latest: psNoChange(tip)}
			case 1:
				return jump(psNoChange(tip))
			case 2:
				return jump(psDelta(tip, ident, psTx(8, c0(V))))
			case 3:
				return jump(psFull(tip, "n3", psTx(9, plain)))
			case 4:
				return jump(psFull(tip, "n3", psTx(9, c0(Y))))
			}
			return jump(PollSpec{Fail: true})
		})
		if err != nil {
			w.res.Fatalf("pscript exhaustive case %d: setup failed: %v", i, err)
			return
		}
		r.hits["pscript-exhaustive-cases"]++
		w.finishCase(r, scn, fmt.Sprintf("psx/%d", i))
	})
}
