//go:build verif

package main

import (
	"errors"
	"fmt"
	"strings"

	"github.com/NethermindEth/juno/blockchain"
	"github.com/NethermindEth/juno/blockchain/networks"
	"github.com/NethermindEth/juno/core"
	"github.com/NethermindEth/juno/core/felt"
	"github.com/NethermindEth/juno/core/pending"
	"github.com/NethermindEth/juno/db"
	"github.com/NethermindEth/juno/db/memory"
	_ "github.com/NethermindEth/juno/encoder/registry" // CBOR type tags, as the node does
)

// coreDiff builds a core.StateDiff directly (for canonical blocks finalised on a real node).
func (d DiffSpec) coreDiff() *core.StateDiff {
	sd := core.EmptyStateDiff()
	for _, t := range d.S {
		a := *fe(t[0])
		if sd.StorageDiffs[a] == nil {
			sd.StorageDiffs[a] = map[felt.Felt]*felt.Felt{}
		}
		sd.StorageDiffs[a][*fe(t[1])] = fe(t[2])
	}
	for _, p := range d.N {
		sd.Nonces[*fe(p[0])] = fe(p[1])
	}
	for _, p := range d.D {
		sd.DeployedContracts[*fe(p[0])] = fe(p[1])
	}
	for _, p := range d.R {
		sd.ReplacedClasses[*fe(p[0])] = fe(p[1])
	}
	for _, p := range d.C1 {
		sd.DeclaredV1Classes[*fe(p[0])] = fe(p[1])
	}
	for _, p := range d.M {
		sd.MigratedClasses[felt.SierraClassHash(*fe(p[0]))] = felt.CasmClassHash(*fe(p[1]))
	}
	for _, h := range d.C0 {
		sd.DeclaredV0Classes = append(sd.DeclaredV0Classes, fe(h))
	}
	return &sd
}

// node is a real juno Blockchain on a memory database.
type node struct {
	bc       *blockchain.Blockchain
	height   int // number of finalised blocks
	lastHash *felt.Felt
	lastRoot *felt.Felt
}

func newNode(newState bool) *node {
	net := networks.Sepolia
	return &node{bc: blockchain.New(memory.New(), &net, blockchain.WithNewState(newState))}
}

// newNodeWithListener: the same with juno's own read listener installed (blockchain.WithListener): cb runs at the
// start of every Blockchain read method, with the method's name.
func newNodeWithListener(newState bool, cb func(method string)) *node {
	net := networks.Sepolia
	return &node{bc: blockchain.New(memory.New(), &net, blockchain.WithNewState(newState),
		blockchain.WithListener(&blockchain.SelectiveListener{OnReadCb: cb}))}
}

// finalise appends one block carrying only a state diff and class definitions (no transactions
// are ever executed; the stub VM would abort).
func (n *node) finalise(diff *core.StateDiff, classes map[felt.Felt]core.ClassDefinition) error {
	parent, oldRoot := &felt.Zero, &felt.Zero
	if n.height > 0 {
		parent, oldRoot = n.lastHash, n.lastRoot
	}
	receipts := []*core.TransactionReceipt{}
	hdr := &core.Header{
		ParentHash:       parent,
		Number:           uint64(n.height),
		SequencerAddress: fe(0x5e9),
		Timestamp:        1_600_000_000 + uint64(n.height),
		ProtocolVersion:  verGood,
		EventsBloom:      core.EventsBloom(receipts),
		L1GasPriceETH:    fe(1),
		L1GasPriceSTRK:   fe(1),
		L1DAMode:         core.Blob,
		L1DataGasPrice:   &core.GasPrice{PriceInWei: fe(1), PriceInFri: fe(1)},
		L2GasPrice:       &core.GasPrice{PriceInWei: fe(1), PriceInFri: fe(1)},
		Signatures:       [][]*felt.Felt{},
	}
	block := &core.Block{Header: hdr, Transactions: []core.Transaction{}, Receipts: receipts}
	su := &core.StateUpdate{OldRoot: oldRoot, StateDiff: diff}
	if classes == nil {
		classes = map[felt.Felt]core.ClassDefinition{}
	}
	if err := n.bc.Finalise(block, su, classes, nil); err != nil {
		return fmt.Errorf("finalise block %d: %w", n.height, err)
	}
	n.height++
	n.lastHash, n.lastRoot = block.Hash, block.GlobalStateRoot
	return nil
}

func buildBase(newState bool, base []BaseBlock) (*node, error) {
	n := newNode(newState)
	for _, b := range base {
		if err := n.finalise(b.Diff.coreDiff(), classMap(b.Classes)); err != nil {
			return nil, err
		}
	}
	return n, nil
}

// ---- reads over the universe --------------------------------------------------------------------

func errTok(err error) string {
	if errors.Is(err, db.ErrKeyNotFound) {
		return "nf"
	}
	return "err"
}

func readTok(v felt.Felt, err error) string {
	if err != nil {
		return errTok(err)
	}
	return fv(&v)
}

// reads renders every read of the universe through a core.StateReader in the format of the
// driver's showReads (without the trailing bn= field).
func reads(r core.StateReader) string {
	var ch, no, st, cl, ca, c2 []string
	for _, a := range uniAddrs {
		af := fe(a)
		v, err := r.ContractClassHash(af)
		ch = append(ch, fmt.Sprintf("%d=%s", a, readTok(v, err)))
		v, err = r.ContractNonce(af)
		no = append(no, fmt.Sprintf("%d=%s", a, readTok(v, err)))
		for _, k := range uniSlots {
			v, err = r.ContractStorage(af, fe(k))
			st = append(st, fmt.Sprintf("%d:%d=%s", a, k, readTok(v, err)))
		}
	}
	for _, h := range uniCH {
		hf := fe(h)
		c, err := r.Class(hf)
		tok := ""
		switch {
		case err != nil:
			tok = errTok(err)
		case c == nil || c.Class == nil:
			tok = "nilclass"
		default:
			tok = classID(c.Class)
		}
		cl = append(cl, fmt.Sprintf("%d=%s", h, tok))
		sh := felt.SierraClassHash(*hf)
		cv, err := r.CompiledClassHash(&sh)
		cvf := felt.Felt(cv)
		ca = append(ca, fmt.Sprintf("%d=%s", h, readTok(cvf, err)))
		cv, err = r.CompiledClassHashV2(&sh)
		cvf = felt.Felt(cv)
		c2 = append(c2, fmt.Sprintf("%d=%s", h, readTok(cvf, err)))
	}
	return fmt.Sprintf("ch[%s] no[%s] st[%s] cl[%s] ca[%s] c2[%s]", strings.Join(ch, ","), strings.Join(no, ","),
		strings.Join(st, ","), strings.Join(cl, ","), strings.Join(ca, ","), strings.Join(c2, ","))
}

// baseTable renders the reads of a base reader as the driver's `base` table: entries that are
// not found are left out; any other error makes the table unusable (reported by the caller).
func baseTable(r core.StateReader) (string, error) {
	var ch, no, st, cl, ca, c2, lu, at []string
	chk := func(err error) error {
		if err != nil && !errors.Is(err, db.ErrKeyNotFound) {
			return err
		}
		return nil
	}
	for _, a := range uniAddrs {
		af := fe(a)
		if v, err := r.ContractClassHash(af); err == nil {
			ch = append(ch, fmt.Sprintf("%d:%s", a, fv(&v)))
		} else if e := chk(err); e != nil {
			return "", e
		}
		if v, err := r.ContractNonce(af); err == nil {
			no = append(no, fmt.Sprintf("%d:%s", a, fv(&v)))
		} else if e := chk(err); e != nil {
			return "", e
		}
		for _, k := range uniSlots {
			if v, err := r.ContractStorage(af, fe(k)); err == nil {
				st = append(st, fmt.Sprintf("%d:%d:%s", a, k, fv(&v)))
			} else if e := chk(err); e != nil {
				return "", e
			}
			addr := felt.Address(*af)
			if n, err := r.ContractStorageLastUpdatedBlock(&addr, fe(k)); err == nil {
				lu = append(lu, fmt.Sprintf("%d:%d:%d", a, k, n))
			} else if e := chk(err); e != nil {
				return "", e
			}
		}
	}
	for _, h := range uniCH {
		hf := fe(h)
		if c, err := r.Class(hf); err == nil {
			cl = append(cl, fmt.Sprintf("%d:%s", h, classID(c.Class)))
			at = append(at, fmt.Sprintf("%d:%d", h, c.At))
		} else if e := chk(err); e != nil {
			return "", e
		}
		sh := felt.SierraClassHash(*hf)
		if cv, err := r.CompiledClassHash(&sh); err == nil {
			f := felt.Felt(cv)
			ca = append(ca, fmt.Sprintf("%d:%s", h, fv(&f)))
		} else if e := chk(err); e != nil {
			return "", e
		}
		if cv, err := r.CompiledClassHashV2(&sh); err == nil {
			f := felt.Felt(cv)
			c2 = append(c2, fmt.Sprintf("%d:%s", h, fv(&f)))
		} else if e := chk(err); e != nil {
			return "", e
		}
	}
	var secs []string
	add := func(n string, xs []string) {
		if len(xs) > 0 {
			secs = append(secs, n+"="+strings.Join(xs, ","))
		}
	}
	add("ch", ch)
	add("no", no)
	add("st", st)
	add("cl", cl)
	add("ca", ca)
	add("c2", c2)
	add("lu", lu)
	add("at", at)
	if len(secs) == 0 {
		return "-", nil
	}
	return strings.Join(secs, "+"), nil
}

// readsLU renders ContractStorageLastUpdatedBlock over the universe.
func readsLU(r core.StateReader) string {
	var out []string
	for _, a := range uniAddrs {
		for _, k := range uniSlots {
			addr := felt.Address(*fe(a))
			n, err := r.ContractStorageLastUpdatedBlock(&addr, fe(k))
			if err != nil {
				out = append(out, fmt.Sprintf("%d:%d=%s", a, k, errTok(err)))
			} else {
				out = append(out, fmt.Sprintf("%d:%d=%d", a, k, n))
			}
		}
	}
	return "lu[" + strings.Join(out, ",") + "]"
}

// readsExtra renders the accessors of pending.State that reads() leaves out, in the format of the driver's
// showExtra: Class(h).At over the universe (0 for a class the view carries: as implemented) and the three trie
// getters (a pre-confirmed state has no tries: all three must return ErrHistoricalTrieNotSupported).
func readsExtra(r core.StateReader) string {
	var ats []string
	for _, h := range uniCH {
		c, err := r.Class(fe(h))
		switch {
		case err != nil:
			ats = append(ats, fmt.Sprintf("%d=%s", h, errTok(err)))
		case c == nil:
			ats = append(ats, fmt.Sprintf("%d=nilclass", h))
		default:
			ats = append(ats, fmt.Sprintf("%d=%d", h, c.At))
		}
	}
	tries := "unsup"
	if ps, ok := r.(*pending.State); ok {
		_, e1 := ps.ClassTrie()
		_, e2 := ps.ContractTrie()
		_, e3 := ps.ContractStorageTrie(fe(100))
		if !errors.Is(e1, pending.ErrHistoricalTrieNotSupported) || !errors.Is(e2, pending.ErrHistoricalTrieNotSupported) ||
			!errors.Is(e3, pending.ErrHistoricalTrieNotSupported) {
			tries = fmt.Sprintf("class:%v,contract:%v,storage:%v", e1, e2, e3)
		}
	} else {
		tries = fmt.Sprintf("not-a-pending-state:%T", r)
	}
	return fmt.Sprintf("x[at:%s;tries=%s]", strings.Join(ats, ","), tries)
}
