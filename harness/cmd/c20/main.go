//go:build verif

// Harness for C20: drives juno's real pre-confirmed chain storage (sync/preconfirmed), the
// adapters that build its entries and the overlay state reader (core/pending) over a real
// canonical state, next to the Lean model (c20drv), and evaluates the property's own oracle on
// the real objects (contiguity / alignment of every view, immutability of every view ever handed
// out, overlay reads vs really applied diffs, lookups vs the view's own blocks).
package main

import (
	"encoding/json"
	"flag"
	"fmt"
	"os"
	"runtime"
	"strings"
	"sync"
	"time"

	"github.com/NethermindEth/juno/sync/preconfirmed"
	"verif/harness/lib"
)

var (
	mode     = flag.String("mode", "", "internal: conc = run only the concurrent stage (child process)")
	noRace   = flag.Bool("no-race", false, "thorough tier: do not build/run the -race twin of the concurrent stage")
	concOnly = flag.Int("conc-rounds", 0, "override the number of concurrent rounds")
	only     = flag.String("only", "", "developer aid: run only the named stages (comma list of fixed,exhaustive,probes,seq,overlay,pscript-exhaustive,pscript,live,concurrent); never used by ./check")
)

func want(stage string) bool {
	if *only == "" {
		return true
	}
	for _, s := range strings.Split(*only, ",") {
		if s == stage {
			return true
		}
	}
	return false
}

func main() {
	f := lib.ParseFlags()
	res := lib.NewResult("a case is one scenario: a real canonical chain (1-4 finalised blocks with state) plus a history of " +
		"writer ops on a real ChainStorage (full block / delta / no-change updates at every slot relation, AdvanceTo, head " +
		"advance / revert) interleaved with reader ops (views for arbitrary heads, state reads, lookups); after every op every " +
		"view for b in [0,14] is validated and compared with the model and every view held so far is re-hashed. " +
		"Non-trivial = the chain reached at least 2 entries")
	var drv *lib.Driver
	if f.Driver != "" {
		d, err := lib.StartDriver(f.Driver)
		if err != nil {
			res.Fatalf("the Lean driver did not start: %v", err)
			lib.Finish(f, res)
		}
		drv = d
		defer drv.Close()
	} else if *mode == "" {
		res.Note("no --driver: property oracle only, no correspondence")
	}
	h := &harness{f: f, res: res, drv: drv, reported: map[string]bool{}, mu: &sync.Mutex{}}
	if *mode == "conc" {
		rounds := f.Scale(4, 40)
		if *concOnly > 0 {
			rounds = *concOnly
		}
		h.concurrent(lib.NewRNG(f.Seed).Fork(9_999_999), rounds)
		h.pollerStage(lib.NewRNG(f.Seed).Fork(8_888_888), f.Scale(3, 12))
		h.syncStage(lib.NewRNG(f.Seed).Fork(7_777_777), f.Scale(2, 10))
		lib.Finish(f, res)
	}
	if f.Replay != "" {
		h.replay(f.Replay)
		lib.Finish(f, res)
	}
	// the premise of the pointer-level model, checked on the source this binary was built against
	if where, err := nodeFieldAssignments(); err != nil {
		res.Fatalf("source guard: cannot parse sync/preconfirmed/chain_storage.go: %v", err)
	} else if len(where) > 0 {
		res.Mismatch(lib.Mismatch{Sig: "model-differs:node-field-assigned-after-construction",
			Input: where, Model: "Heap.lean: nodes and readers are only ever built by composite literals (allocation-only heap)",
			Impl: "chain_storage.go assigns to a field of a node / ChainReader"})
	}
	root := lib.NewRNG(f.Seed)
	t0 := time.Now()
	lap := func(name string) {
		res.Note("stage %s: %.1fs", name, time.Since(t0).Seconds())
		t0 = time.Now()
	}
	if want("fixed") {
		h.fixed()
		lap("fixed")
	}
	if want("exhaustive") {
		h.exhaustive(f.Scale(3, 4))
		lap("exhaustive")
	}
	if want("probes") {
		h.validateStage()
		h.sequencerProbe(root.Fork(6_666_666))
		h.fallbackProbe(root.Fork(5_555_555))
		h.newChainProbe()
		h.runProbe()
		h.racedReaderProbe(root.Fork(4_444_444))
		h.casRaceProbe()
		lap("probes")
	}
	if want("seq") {
		nSeq := f.Scale(260, 4500)
		h.parallel(nSeq, func(w *harness, i int) { w.seqCase(root.Fork(uint64(i)), i) })
		lap("seq")
	}
	if want("overlay") {
		nOv := f.Scale(500, 9000)
		h.parallel(nOv, func(w *harness, i int) { w.overlayCase(root.Fork(uint64(1_000_000+i)), i) })
		lap("overlay")
	}
	if want("pscript-exhaustive") {
		h.pscriptExhaustive()
		lap("pscript-exhaustive")
	}
	if want("pscript") {
		nPS := f.Scale(160, 2500)
		h.parallel(nPS, func(w *harness, i int) { w.pscriptCase(root.Fork(uint64(3_000_000+i)), i) })
		lap("pscript")
	}
	if want("live") {
		nLive := f.Scale(120, 2000)
		h.parallel(nLive, func(w *harness, i int) { w.liveCase(liveRNG(f.Seed, i), i) })
		lap("live")
	}
	if want("concurrent") {
		h.concurrentChild()
		lap("concurrent")
	}
	lib.Finish(f, res)
}

type harness struct {
	f        lib.Flags
	res      *lib.Result
	drv      *lib.Driver
	mu       *sync.Mutex
	reported map[string]bool // shared between workers, guarded by mu
}

// parallel runs n independent cases on a pool of workers; every worker talks to its own Lean
// driver process. Case i derives all its randomness from root.Fork(i), so the set of cases (and
// of violation signatures) does not depend on the scheduling.
func (h *harness) parallel(n int, fn func(w *harness, i int)) {
	workers := min(runtime.NumCPU(), 12, max(1, n/8))
	jobs := make(chan int)
	var wg sync.WaitGroup
	for w := 0; w < workers; w++ {
		wh := &harness{f: h.f, res: h.res, reported: h.reported, mu: h.mu}
		if h.drv != nil {
			if w == 0 {
				wh.drv = h.drv
			} else if d, err := lib.StartDriver(h.f.Driver); err == nil {
				wh.drv = d
				defer d.Close()
			} else {
				h.res.Fatalf("a worker's Lean driver did not start: %v", err)
				continue
			}
		}
		wg.Add(1)
		go func() {
			defer wg.Done()
			for i := range jobs {
				fn(wh, i)
			}
		}()
	}
	for i := 0; i < n; i++ {
		jobs <- i
	}
	close(jobs)
	wg.Wait()
}

// compare sends the scenario's requests to the Lean driver and diffs the answers.
func (h *harness) compare(r *runner, scn *Scenario) {
	if h.drv == nil || len(r.asks) == 0 {
		return
	}
	// a snapshot: an op abandoned as hanging may still append to r.asks from its goroutine
	asks := append([]ask(nil), r.asks...)
	lines := make([]string, len(asks))
	for i, a := range asks {
		lines[i] = a.line
	}
	var outs []string
	var err error
	if !lib.WithDeadline(600*time.Second, func() { outs, err = h.drv.AskAll(lines) }) {
		h.res.Fatalf("the Lean driver did not answer %d requests within 600s (hung)", len(lines))
		h.drv = nil // the pipe is in an unknown state: this worker stops comparing
		return
	}
	if err != nil {
		h.res.Fatalf("the Lean driver died or answered short (%d of %d answers): %v", len(outs), len(lines), err)
		return
	}
	h.res.Compared(len(outs))
	var modelPubs []string
	for i, a := range asks {
		model, impl := outs[i], a.impl
		if model == "bad-op" {
			h.res.Fatalf("the Lean driver answered bad-op to %q", clip(a.line))
			return
		}
		ok := model == impl
		if a.cmp == "apply" && strings.HasPrefix(model, "err:") {
			h.res.Hit("apply-rejected:" + strings.TrimPrefix(model, "err:"))
		}
		switch a.cmp {
		case "ptick":
			// `<status> | <calls> #pub <entries>`: status and endpoint calls are compared exactly (an
			// error the harness cannot classify only has to be an error of that stage); the feed sends
			// are collected and compared as a whole below
			head, pubs, _ := strings.Cut(model, " #pub")
			if pubs = strings.TrimSpace(pubs); pubs != "" {
				modelPubs = append(modelPubs, strings.Split(pubs, " | ")...)
			}
			ok = head == impl
			if !ok {
				ms, mc, _ := strings.Cut(head, " | ")
				is, ic, _ := strings.Cut(impl, " | ")
				ok = mc == ic && strings.HasPrefix(ms, "err") && (is == "err" || (is == "err:apply" && strings.HasPrefix(ms, "err:apply:")))
			}
		case "apply":
			// rejection classes are compared (model vs the wording of juno's error); an error whose
			// wording is unknown to the harness only has to be an error
			if strings.HasPrefix(model, "err:") && impl == "err" {
				ok = true
			}
		case "err-generic":
			if (model == "nobase" || model == "broken") && impl == "err" {
				ok = true
			}
		case "state":
			if (model == "nobase" || model == "broken") && impl == "err" {
				ok = true
			} else if mi := strings.Index(model, " lu["); mi >= 0 && !ok {
				// ContractStorageLastUpdatedBlock: the model answers "as implemented / as specified"
				// per slot; the code must be one of the two throughout (it is the first on the
				// unchanged tree; the second once the known finding is repaired)
				ii := strings.Index(impl, " lu[")
				if ii >= 0 && model[:mi] == impl[:ii] {
					asis, spec := splitLU(model[mi+1:])
					switch impl[ii+1:] {
					case asis:
						ok = true
						h.res.Hit("last-updated-as-implemented")
						if asis != spec {
							r.luModes["as-implemented"] = true
						}
					case spec:
						ok = true
						h.res.Hit("last-updated-as-specified")
						if asis != spec {
							r.luModes["as-specified"] = true
						}
					}
					if len(r.luModes) > 1 {
						h.res.Mismatch(lib.Mismatch{Sig: "model-differs:last-updated-variant-not-uniform",
							Input: map[string]any{"line": a.line, "op": a.op, "scenario": trunc(scn, a.op)},
							Model: "the code must answer ContractStorageLastUpdatedBlock either as implemented or as specified throughout", Impl: clip(impl)})
						return
					}
				}
			}
		}
		if !ok {
			sig := "model-differs:" + strings.SplitN(a.line, " ", 2)[0]
			h.res.Mismatch(lib.Mismatch{Sig: sig, Input: map[string]any{"line": a.line, "op": a.op, "scenario": trunc(scn, a.op)},
				Model: clip(model), Impl: clip(impl)})
			return // later answers of this scenario depend on this one
		}
	}
	// pscript: what the real Poller sent to the feed must be, in order, among what the model publishes
	// (the feed drops an entry when its one-slot buffer is full: a subsequence, not equality)
	j := 0
	for _, p := range r.implPubs {
		for j < len(modelPubs) && modelPubs[j] != p {
			j++
		}
		if j == len(modelPubs) {
			h.res.Mismatch(lib.Mismatch{Sig: "model-differs:feed-publication", Input: map[string]any{"scenario": scn},
				Model: fmt.Sprintf("publishes %d entries, none (left) equal to this one", len(modelPubs)), Impl: clip(p)})
			return
		}
		j++
	}
	if len(r.implPubs) > 0 {
		h.res.HitN("pscript-feed-entries-matched", len(r.implPubs))
	}
}

func trunc(scn *Scenario, op int) *Scenario {
	c := *scn
	if op >= 0 && op+1 < len(c.Ops) {
		c.Ops = c.Ops[:op+1]
	}
	return &c
}

// report turns a runner's findings into violations with a shrunk replay.
func (h *harness) report(r *runner, scn *Scenario) {
	for _, fd := range r.findings {
		h.mu.Lock()
		seen := h.reported[fd.sig]
		h.reported[fd.sig] = true
		h.mu.Unlock()
		if seen {
			continue
		}
		small := trunc(scn, fd.op)
		if scn.Kind == "pscript" {
			small = shrinkTicks(scn, fd.op, fd.sig)
		} else if scn.Kind != "live" {
			small = shrink(small, fd.sig)
		}
		h.res.Violate(lib.Violation{Sig: fd.sig, What: fd.what, Replay: small})
	}
}

// shrink greedily drops ops (and transactions) while the same violation still shows.
func shrink(scn *Scenario, sig string) *Scenario {
	still := func(s *Scenario) bool {
		r, err := runScenario(s, false)
		if err != nil {
			return false
		}
		for _, f := range r.findings {
			if f.sig == sig {
				return true
			}
		}
		return false
	}
	if !still(scn) {
		return scn // not reproducible in isolation (should not happen: everything derives from scn)
	}
	cur := scn
	for changed, rounds := true, 0; changed && rounds < 4; rounds++ {
		changed = false
		for i := len(cur.Ops) - 1; i >= 0; i-- {
			c := *cur
			c.Ops = append(append([]OpSpec{}, cur.Ops[:i]...), cur.Ops[i+1:]...)
			if still(&c) {
				cur, changed = &c, true
			}
		}
	}
	return cur
}

func (h *harness) finishCase(r *runner, scn *Scenario, key string) {
	for _, ft := range r.fatal {
		h.res.Fatalf("%s: %s", key, ft)
	}
	h.compare(r, scn)
	h.report(r, scn)
	h.res.Case(key, r.nontriv)
	for k, v := range r.hits {
		h.res.HitN(k, v)
	}
}

// seqCase: a random history on the real storage; the next op is aimed using the real chain's
// current content, and recorded, so that the scenario replays without the generator.
func (h *harness) seqCase(rng *lib.RNG, idx int) {
	nBase := 2 + rng.Intn(3)
	base, _ := genBase(rng, nBase)
	scn := &Scenario{Kind: "seq", NewState: rng.Bool(), Base: base, Head: uint64(rng.Intn(nBase))}
	r := &runner{scn: scn, hits: map[string]int{}, withDrv: h.drv != nil}
	if err := r.setup(); err != nil {
		h.res.Fatalf("seq case %d: setup failed: %v", idx, err)
		return
	}
	g := &seqGen{r: rng, maxHead: uint64(nBase - 1)}
	nOps := 12 + rng.Intn(h.f.Scale(30, 60))
	for i := 0; i < nOps; i++ {
		o := g.next(r.store, r.head)
		scn.Ops = append(scn.Ops, o)
		kind := r.step(i, o)
		r.observe(i, kind)
	}
	if idx < 3 {
		h.res.Sample(4, map[string]any{"kind": "seq", "ops": len(scn.Ops), "first_ops": scn.Ops[:min(4, len(scn.Ops))]})
	}
	h.finishCase(r, scn, fmt.Sprintf("seq/%d/%d", h.f.Seed, idx))
}

func (h *harness) overlayCase(rng *lib.RNG, idx int) {
	scn := genOverlay(rng, rng.Bool())
	r, err := runScenario(scn, h.drv != nil)
	if err != nil {
		h.res.Fatalf("overlay case %d: setup failed: %v", idx, err)
		return
	}
	if idx < 2 {
		h.res.Sample(8, map[string]any{"kind": "overlay", "base_blocks": len(scn.Base), "ops": len(scn.Ops)})
	}
	h.finishCase(r, scn, fmt.Sprintf("ov/%d/%d", h.f.Seed, idx))
}

func (h *harness) replay(path string) {
	b, err := os.ReadFile(path)
	if err != nil {
		h.res.Fatalf("replay: %v", err)
		return
	}
	var wrap struct {
		Replay json.RawMessage `json:"replay"`
	}
	raw := b
	if json.Unmarshal(b, &wrap) == nil && len(wrap.Replay) > 0 {
		raw = wrap.Replay
	}
	var scn Scenario
	if err := json.Unmarshal(raw, &scn); err != nil {
		h.res.Fatalf("replay: %v", err)
		return
	}
	if scn.Kind == "live" {
		h.res.Note("replay of a live-stage finding regenerates case (%d, %d)", scn.LiveSeed, scn.LiveIdx)
		hh := *h
		hh.f.Seed = scn.LiveSeed
		hh.liveCase(liveRNG(scn.LiveSeed, scn.LiveIdx), scn.LiveIdx)
		return
	}
	if scn.Kind == "concurrent" {
		h.res.Note("replay of a concurrent finding re-runs the concurrent stage")
		h.concurrentChild()
		return
	}
	if scn.Kind == "pscript" {
		r, err := runPScript(&scn, h.drv != nil, 0, nil)
		if err != nil {
			h.res.Fatalf("replay: setup failed: %v", err)
			return
		}
		h.finishCase(r, &scn, "replay")
		return
	}
	r, err := runScenario(&scn, h.drv != nil)
	if err != nil {
		h.res.Fatalf("replay: setup failed: %v", err)
		return
	}
	h.finishCase(r, &scn, "replay")
}

var _ = preconfirmed.NewChainStorage

// splitLU turns the driver's `lu[a:k=x/y,...]` into the two candidate answers.
func splitLU(m string) (string, string) {
	body := strings.TrimSuffix(strings.TrimPrefix(m, "lu["), "]")
	var as, sp []string
	for _, e := range strings.Split(body, ",") {
		kv := strings.SplitN(e, "=", 2)
		if len(kv) != 2 {
			return "?", "?"
		}
		xy := strings.SplitN(kv[1], "/", 2)
		if len(xy) != 2 {
			return "?", "?"
		}
		as = append(as, kv[0]+"="+xy[0])
		sp = append(sp, kv[0]+"="+xy[1])
	}
	return "lu[" + strings.Join(as, ",") + "]", "lu[" + strings.Join(sp, ",") + "]"
}

func liveRNG(seed uint64, i int) *lib.RNG { return lib.NewRNG(seed).Fork(uint64(2_000_000 + i)) }
