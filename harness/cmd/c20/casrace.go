//go:build verif

package main

import (
	"fmt"
	"runtime"
	"sort"
	"strings"
	"sync"

	"github.com/NethermindEth/juno/core/pending"
	"github.com/NethermindEth/juno/sync/preconfirmed"
	"verif/harness/lib"
)

// ---------------------------------------------------------------------------------------------
// CAS race (round 6): the publication step of ApplyUpdate — Load, compute, CompareAndSwap — with SEVERAL
// goroutines calling ApplyUpdate on one storage, the only way to reach the branch
//
//	if !s.inner.CompareAndSwap(current, newChain) { return nil, errors.New("chain changed between load and store") }
//
// Model: Cas.lean (`csched`), theorem racing_writers_content_is_history_of_swaps: whatever the schedule,
// the content is `run` of the operations whose swap succeeded, in swap order; a failed swap and an
// operation that returned before swapping leave no trace.
//
// Every goroutine repeatedly reads the tip and applies the blank-identifier empty block for tip+1.
// Depending on what the storage holds at the Load inside ApplyUpdate this is: the bootstrap / an
// extension (→ a swap, which succeeds or fails), or — the tip moved on meanwhile — a full block for a slot
// that exists, which shouldPreserveSlot keeps (blank identifier, no more transactions): a no-op that
// returns before swapping. So a successful call is exactly one swap that appended block n, nothing is ever
// replaced or dropped, and the ORDER of the successful swaps is the order of their block numbers: the
// final content is determined by the set of successful calls, which makes the comparison with the
// model independent of the schedule. This is a correspondence check (the property quantifies over ONE
// writer): a difference is reported as model != implementation.
// ---------------------------------------------------------------------------------------------

type casCall struct {
	n        uint64
	affected *pending.PreConfirmed
	err      error
}

func (h *harness) casRaceProbe() {
	const (
		writers = 8
		calls   = 30
		oldest  = uint64(11)
	)
	rounds := h.f.Scale(8, 80)
	for round := 0; round < rounds; round++ {
		store := preconfirmed.NewChainStorage()
		// the same 24 transactions in every block: adapting them widens the window between Load and
		// CompareAndSwap, and an equal count keeps a stale call a preserved slot (no-op)
		u := &UpdateSpec{Kind: "B", Ident: "0x0", VerOk: true}
		for i := uint64(1); i <= 24; i++ {
			u.Txs = append(u.Txs, TxSpec{Hash: i, Tag: 1, RHash: i, RTag: 1, Kind: 1, Diff: DiffSpec{N: [][2]uint64{{100, i}}}})
		}
		results := make([][]casCall, writers)
		var wg sync.WaitGroup
		start := make(chan struct{})
		for w := 0; w < writers; w++ {
			wg.Add(1)
			go func(w int) {
				defer wg.Done()
				<-start
				for k := 0; k < calls; k++ {
					n := oldest
					if v := store.SnapshotForBlock(oldest); v.Length() > 0 {
						n = v.Head().Block.Number + 1
					}
					var c casCall
					c.n = n
					if perr, panicked, _ := lib.Try(func() error {
						c.affected, c.err = store.ApplyUpdate(u.wire(n), n, 0, oldest, nil)
						return nil
					}); panicked {
						c.err = fmt.Errorf("PANIC: %v", perr)
					}
					results[w] = append(results[w], c)
					if k%3 == 0 {
						runtime.Gosched()
					}
				}
			}(w)
		}
		close(start)
		done := make(chan struct{})
		go func() { wg.Wait(); close(done) }()
		if !lib.WithDeadline(opDeadline, func() { <-done }) {
			h.res.Fatalf("cas race: the writer goroutines did not finish within %s", opDeadline)
			return
		}
		h.res.Case(fmt.Sprintf("casrace/%d", round), true)

		// classify the calls
		var swapped []casCall
		var problems []string
		nFailed, nNoop := 0, 0
		for w := range results {
			for _, c := range results[w] {
				switch {
				case c.err != nil && strings.Contains(c.err.Error(), "chain changed between load and store"):
					nFailed++
					if c.affected != nil {
						problems = append(problems, fmt.Sprintf("a call for block %d returned the CAS error AND an entry", c.n))
					}
				case c.err != nil:
					problems = append(problems, fmt.Sprintf("a call for block %d failed with %v (only the CAS error is possible here)", c.n, c.err))
				case c.affected == nil:
					nNoop++
				default:
					swapped = append(swapped, c)
				}
			}
		}
		h.res.HitN("cas-race-swapped", len(swapped))
		h.res.HitN("cas-race-cas-failed", nFailed)
		h.res.HitN("cas-race-returned-before-swap", nNoop)

		// the final content must be exactly the successful calls, one block each, in block order
		sort.Slice(swapped, func(i, j int) bool { return swapped[i].n < swapped[j].n })
		final := store.SnapshotForBlock(oldest)
		var entries []*pending.PreConfirmed
		for e := range final.OldestFirst() {
			entries = append(entries, e)
		}
		if len(entries) != len(swapped) {
			problems = append(problems, fmt.Sprintf("%d calls returned an entry (their swap succeeded), the storage holds %d blocks", len(swapped), len(entries)))
		}
		for i, c := range swapped {
			if c.n != oldest+uint64(i) {
				problems = append(problems, fmt.Sprintf("successful calls are for blocks %v: not one per block from %d", casNums(swapped), oldest))
				break
			}
			if i < len(entries) && entries[i] != c.affected {
				problems = append(problems, fmt.Sprintf("block %d of the storage is not the entry the successful call for block %d returned", oldest+uint64(i), c.n))
				break
			}
		}
		impl := canonView(&final)
		if len(problems) > 0 {
			h.res.Mismatch(lib.Mismatch{Sig: "model-differs:cas-race",
				Input: map[string]any{"probe": "cas-race", "round": round, "writers": writers, "calls_each": calls,
					"successful_blocks": casNums(swapped), "cas_failed": nFailed, "returned_before_swap": nNoop},
				Model: "Cas.lean: content = run of the operations whose swap succeeded, in swap order; nothing else leaves a trace",
				Impl:  clip(strings.Join(problems, "; ") + " | final: " + impl)})
			continue
		}
		// … and it is what the model computes from those operations
		if h.drv != nil {
			if a, err := h.drv.Ask("reset"); err != nil || a != "ok" {
				h.res.Fatalf("cas race: the Lean driver failed on reset: %v %s", err, a)
				return
			}
			for _, c := range swapped {
				line := OpSpec{Op: "apply", U: u, Num: c.n, Oldest: oldest}.applyLine()
				if a, err := h.drv.Ask(line); err != nil || a == "bad-op" {
					h.res.Fatalf("cas race: the Lean driver failed on %q: %v %s", line, err, a)
					return
				}
			}
			h.askProbe("cas-race", fmt.Sprintf("snap %d", oldest), impl)
		}
		// the same for AdvanceTo: all goroutines realign the chain to oldest+1 at once. Whoever swaps first
		// returns true; the others either fail their swap or find the chain aligned: false, nothing changes.
		if len(entries) >= 2 {
			var trues, falses int64
			var mu sync.Mutex
			var wg2 sync.WaitGroup
			start2 := make(chan struct{})
			for w := 0; w < writers; w++ {
				wg2.Add(1)
				go func() {
					defer wg2.Done()
					<-start2
					ok := store.AdvanceTo(oldest + 1)
					mu.Lock()
					if ok {
						trues++
					} else {
						falses++
					}
					mu.Unlock()
				}()
			}
			close(start2)
			done2 := make(chan struct{})
			go func() { wg2.Wait(); close(done2) }()
			if !lib.WithDeadline(opDeadline, func() { <-done2 }) {
				h.res.Fatalf("cas race: the AdvanceTo goroutines did not finish within %s", opDeadline)
				return
			}
			h.res.HitN("cas-race-advance-true", int(trues))
			h.res.HitN("cas-race-advance-false", int(falses))
			after := store.SnapshotForBlock(oldest + 1)
			implA := canonView(&after)
			if trues != 1 || after.Length() != len(entries)-1 {
				h.res.Mismatch(lib.Mismatch{Sig: "model-differs:cas-race-advance",
					Input: map[string]any{"probe": "cas-race-advance", "round": round, "callers": writers, "chain_before": len(entries)},
					Model: "Cas.lean: exactly one of the racing AdvanceTo(oldest+1) swaps; the chain loses its oldest block once",
					Impl:  clip(fmt.Sprintf("%d calls returned true, %d false; the chain has %d blocks afterwards: %s", trues, falses, after.Length(), implA))})
				continue
			}
			if h.drv != nil {
				if a, err := h.drv.Ask(fmt.Sprintf("advance %d", oldest+1)); err != nil || a == "bad-op" {
					h.res.Fatalf("cas race: the Lean driver failed on advance: %v %s", err, a)
					return
				}
				h.askProbe("cas-race-advance", fmt.Sprintf("snap %d", oldest+1), implA)
			}
		}
	}
}

func casNums(cs []casCall) []uint64 {
	out := make([]uint64, len(cs))
	for i, c := range cs {
		out[i] = c.n
	}
	return out
}
