//go:build verif

package main

import (
	"fmt"
	"sort"

	"github.com/NethermindEth/juno/sync/preconfirmed"
	"verif/harness/lib"
)

// abs is the generator's abstract canonical state: it only exists to draw well-formed diffs
// (deploy once, replace / nonce / storage only for deployed contracts, declare once).
type abs struct {
	class    map[uint64]uint64 // deployed contracts: addr -> class hash
	nonce    map[uint64]uint64
	declared map[uint64]bool
}

func newAbs() *abs {
	return &abs{class: map[uint64]uint64{}, nonce: map[uint64]uint64{}, declared: map[uint64]bool{}}
}

func (a *abs) clone() *abs {
	n := newAbs()
	for k, v := range a.class {
		n.class[k] = v
	}
	for k, v := range a.nonce {
		n.nonce[k] = v
	}
	for k, v := range a.declared {
		n.declared[k] = v
	}
	return n
}

func (a *abs) deployedList() []uint64 {
	out := make([]uint64, 0, len(a.class))
	for k := range a.class {
		out = append(out, k)
	}
	sort.Slice(out, func(i, j int) bool { return out[i] < out[j] })
	return out
}

var classHashes = []uint64{300, 301, 302, 303}

// genValidDiff draws a diff that is well-formed on top of st and advances st. classes receives
// the definitions of the cairo0 classes it declares. casm says whether sierra declarations
// (compiled class hashes) may be drawn.
//
// fresh collects the addresses deployed so far in the block the diff belongs to: their class is
// not replaced again within that block. (A block diff listing one address under both
// deployed_contracts and replaced_classes is not something the canonical state is specified for:
// juno's two state backends disagree on it — see notes/C20.md — so it cannot serve as reference.)
func genValidDiff(r *lib.RNG, st *abs, size int, classes *[][2]uint64, fresh map[uint64]bool) DiffSpec {
	var d DiffSpec
	if r.Chance(1, 8) {
		return d
	}
	deployedNow := fresh
	for i := r.Intn(size + 1); i > 0; i-- {
		a := lib.Pick(r, uniAddrs)
		if _, ok := st.class[a]; ok {
			continue
		}
		ch := lib.Pick(r, classHashes)
		d.D = append(d.D, [2]uint64{a, ch})
		st.class[a] = ch
		st.nonce[a] = 0
		deployedNow[a] = true
	}
	dep := st.deployedList()
	if len(dep) > 0 {
		if r.Chance(1, 3) {
			a := lib.Pick(r, dep)
			if !deployedNow[a] {
				ch := lib.Pick(r, classHashes)
				d.R = append(d.R, [2]uint64{a, ch})
				st.class[a] = ch
			}
		}
		seen := map[uint64]bool{}
		for i := r.Intn(size + 1); i > 0; i-- {
			a := lib.Pick(r, dep)
			if seen[a] {
				continue
			}
			seen[a] = true
			st.nonce[a] += uint64(1 + r.Intn(2))
			d.N = append(d.N, [2]uint64{a, st.nonce[a]})
		}
		seenS := map[[2]uint64]bool{}
		for i := r.Intn(size + 2); i > 0; i-- {
			a, k := lib.Pick(r, dep), lib.Pick(r, uniSlots)
			if seenS[[2]uint64{a, k}] {
				continue
			}
			seenS[[2]uint64{a, k}] = true
			v := uint64(0) // write zero: deletes the slot / no-op on a never written one
			if !r.Chance(1, 4) {
				v = uint64(1 + r.Intn(9))
			}
			d.S = append(d.S, [3]uint64{a, k, v})
		}
	}
	if r.Chance(1, 4) {
		h := lib.Pick(r, uniCH)
		if !st.declared[h] {
			st.declared[h] = true
			d.C0 = append(d.C0, h)
			*classes = append(*classes, [2]uint64{h, 1000 + h + uint64(r.Intn(3))*10})
		}
	}
	return d
}

// genAnyDiff draws an arbitrary diff over the universe (not necessarily well-formed): the
// chain storage and the overlay reader do not validate diffs, and the model must agree with them
// on anything.
func genAnyDiff(r *lib.RNG, size int) DiffSpec {
	var d DiffSpec
	if r.Chance(1, 5) {
		return d
	}
	for i := r.Intn(size + 2); i > 0; i-- {
		d.S = append(d.S, [3]uint64{lib.Pick(r, uniAddrs), lib.Pick(r, uniSlots), uint64(r.Intn(6))})
	}
	pair := func(keys, vals []uint64, n int) [][2]uint64 {
		var out [][2]uint64
		for i := r.Intn(n + 1); i > 0; i-- {
			out = append(out, [2]uint64{lib.Pick(r, keys), lib.Pick(r, vals)})
		}
		return out
	}
	small := []uint64{0, 1, 2, 3, 4, 5}
	d.N = pair(uniAddrs, small, size)
	// round 6: up to two (three) entries per wire list, so that one key can occur twice in ONE wire diff
	// (AdaptStateDiff assigns in wire order: the last entry wins — adapted_diff_reads_last_wire_entry;
	// the cairo-0 list keeps duplicates)
	d.D = pair(uniAddrs, classHashes, 2)
	if r.Chance(1, 3) {
		d.R = pair(uniAddrs, classHashes, 2)
	}
	if r.Chance(1, 3) {
		d.C1 = pair(uniCH, []uint64{400, 401, 402}, 2)
	}
	if r.Chance(1, 4) {
		d.M = pair(uniCH, []uint64{500, 501}, 2)
	}
	if r.Chance(1, 4) {
		d.C0 = append(d.C0, lib.Pick(r, uniCH))
		if r.Chance(1, 3) {
			d.C0 = append(d.C0, lib.Pick(r, uniCH))
		}
	}
	if r.Chance(1, 6) && len(d.D) > 0 { // the same contract deployed twice in one wire diff
		d.D = append(d.D, [2]uint64{d.D[0][0], lib.Pick(r, classHashes)})
	}
	if r.Chance(1, 6) && len(d.C1) > 0 {
		d.C1 = append(d.C1, [2]uint64{d.C1[0][0], 403})
	}
	return d
}

// genBase draws the canonical chain below the view: n well-formed blocks.
func genBase(r *lib.RNG, n int) ([]BaseBlock, []*abs) {
	st := newAbs()
	var blocks []BaseBlock
	var states []*abs
	for i := 0; i < n; i++ {
		var b BaseBlock
		b.Diff = genValidDiff(r, st, 2, &b.Classes, map[uint64]bool{})
		if i == 0 && len(b.Diff.D) == 0 {
			b.Diff.D = append(b.Diff.D, [2]uint64{100, 300})
			st.class[100] = 300
			st.nonce[100] = 0
		}
		blocks = append(blocks, b)
		states = append(states, st.clone())
	}
	return blocks, states
}

type txSeq struct{ next uint64 }

// genTxs draws n wire transactions. Hashes come from the small universe so that lookups hit,
// miss, and occasionally meet the same hash in two blocks; tags tell such twins apart.
func genTxs(r *lib.RNG, n int, seq *txSeq, diff func() DiffSpec) []TxSpec {
	out := make([]TxSpec, n)
	for i := range out {
		seq.next++
		h := lib.Pick(r, uniHashes)
		rh := h
		if r.Chance(1, 12) {
			rh = lib.Pick(r, uniHashes) // receipt carrying another hash than its transaction
		}
		out[i] = TxSpec{Hash: h, Tag: seq.next, RHash: rh, RTag: 5000 + seq.next, Events: r.Intn(3), Diff: diff(),
			Kind: r.Intn(4), Reverted: r.Chance(1, 3)}
	}
	return out
}

func genClasses(r *lib.RNG, max int) [][2]uint64 {
	var out [][2]uint64
	seen := map[uint64]bool{}
	for i := r.Intn(max + 1); i > 0; i-- {
		h := lib.Pick(r, uniCH)
		if seen[h] {
			continue
		}
		seen[h] = true
		out = append(out, [2]uint64{h, 2000 + h + uint64(r.Intn(2))*10})
	}
	return out
}

// chainInfo is what the sequence generator looks at to aim its next op.
type chainInfo struct {
	empty  bool
	oldest uint64
	tip    uint64
	ident  map[uint64]string
	ntx    map[uint64]int
	ncls   map[uint64]int
}

func inspect(s *preconfirmed.ChainStorage) chainInfo {
	ci := chainInfo{empty: true, ident: map[uint64]string{}, ntx: map[uint64]int{}, ncls: map[uint64]int{}}
	for b := uint64(0); b <= maxNum+2; b++ {
		v := s.SnapshotForBlock(b)
		if v.Length() == 0 {
			continue
		}
		ci.empty = false
		ci.oldest = b
		for e := range v.NewestFirst() {
			if e == nil || e.Block == nil || e.Block.Header == nil {
				continue
			}
			if e.Block.Number > ci.tip {
				ci.tip = e.Block.Number
			}
			ci.ident[e.Block.Number] = e.BlockIdentifier
			ci.ntx[e.Block.Number] = len(e.Block.Transactions)
			ci.ncls[e.Block.Number] = len(e.NewClasses)
		}
		break
	}
	return ci
}

type seqGen struct {
	r       *lib.RNG
	seq     txSeq
	round   int
	maxHead uint64 // heads stay within the finalised base chain
}

func (g *seqGen) newIdent() string {
	g.round++
	return fmt.Sprintf("r%d", g.round)
}

func (g *seqGen) block(ident string, ntx int) *UpdateSpec {
	return &UpdateSpec{Kind: "B", Ident: ident, VerOk: true,
		Txs: genTxs(g.r, ntx, &g.seq, func() DiffSpec { return genAnyDiff(g.r, 2) })}
}

// next draws the next op given the real storage's current content and the current head.
func (g *seqGen) next(s *preconfirmed.ChainStorage, head uint64) OpSpec {
	r := g.r
	ci := inspect(s)
	aligned := head + 1
	oldestArg := aligned
	if !ci.empty && r.Chance(9, 10) {
		oldestArg = ci.oldest // what a caller that just ran AdvanceTo passes
	}
	if r.Chance(1, 25) {
		oldestArg = uint64(r.Intn(maxNum)) // arbitrary (unaligned)
	}
	c := r.Intn(100)
	switch {
	case c < 9: // head moves
		if r.Chance(2, 3) && head < g.maxHead {
			return OpSpec{Op: "head", Head: head + uint64(1+r.Intn(int(min(g.maxHead-head, 3))))}
		}
		if head > 0 {
			return OpSpec{Op: "head", Head: head - uint64(1+r.Intn(int(min(head, 2))))}
		}
		return OpSpec{Op: "head", Head: head + 1}
	case c < 19: // the poller's realignment
		o := aligned
		if r.Chance(1, 5) {
			o = uint64(r.Intn(maxNum))
		}
		return OpSpec{Op: "advance", Oldest: o}
	case c < 27:
		b := aligned
		if r.Chance(1, 4) {
			b = uint64(r.Intn(maxNum))
		}
		blk := b
		if !ci.empty && ci.tip >= b {
			blk = b + uint64(r.Intn(int(ci.tip-b)+2))
		}
		if r.Chance(1, 10) {
			blk = uint64(r.Intn(maxNum))
		}
		if r.Chance(1, 3) {
			idx := uint64(r.Intn(4))
			if n, ok := ci.ntx[blk]; ok && r.Chance(1, 2) {
				idx = uint64(n) + uint64(r.Intn(2))
			}
			return OpSpec{Op: "statebi", Head: b, Block: blk, Index: idx}
		}
		return OpSpec{Op: "state", Head: b, Block: blk}
	case c < 34:
		b := aligned
		if r.Chance(1, 4) {
			b = uint64(r.Intn(maxNum))
		}
		return OpSpec{Op: "lookup", Head: b, Hash: lib.Pick(r, append(uniHashes, 77))}
	}
	// ---- updates ----
	if ci.empty {
		switch d := r.Intn(20); {
		case d < 15:
			return OpSpec{Op: "apply", U: g.block(g.newIdent(), r.Intn(4)), Num: aligned, Oldest: aligned, Classes: genClasses(r, 1)}
		case d < 17: // bootstrap at the wrong height
			return OpSpec{Op: "apply", U: g.block(g.newIdent(), r.Intn(3)), Num: aligned + uint64(1+r.Intn(2)), Oldest: aligned}
		case d < 18:
			return OpSpec{Op: "apply", U: &UpdateSpec{Kind: "N"}, Num: aligned, Oldest: aligned, Classes: genClasses(r, 1)}
		case d < 19:
			return OpSpec{Op: "apply", U: &UpdateSpec{Kind: "D", Ident: "r1", Txs: genTxs(r, 1, &g.seq, func() DiffSpec { return DiffSpec{} })}, Num: aligned, Oldest: aligned}
		default:
			u := g.block(g.newIdent(), 1)
			u.VerOk = false
			return OpSpec{Op: "apply", U: u, Num: aligned, Oldest: aligned}
		}
	}
	if r.Chance(1, 40) { // an ill-formed wire update at the tip or the next slot
		u := g.block(g.newIdent(), 1+r.Intn(3))
		if r.Bool() {
			u = &UpdateSpec{Kind: "D", Ident: ci.ident[ci.tip], Txs: genTxs(r, 1+r.Intn(2), &g.seq, func() DiffSpec { return genAnyDiff(r, 2) })}
		}
		u.Malform = lib.Pick(r, []string{"short-receipts", "short-diffs", "nil-receipt", "nil-diff"})
		return OpSpec{Op: "apply", U: u, Num: ci.tip + uint64(r.Intn(2)), BaseTx: uint64(ci.ntx[ci.tip]), Oldest: oldestArg}
	}
	tipIdent, tipTx := ci.ident[ci.tip], ci.ntx[ci.tip]
	inChain := func() uint64 { return ci.oldest + uint64(r.Intn(int(ci.tip-ci.oldest)+1)) }
	d := r.Intn(100)
	switch {
	case d < 26 && ci.tip < maxNum-1: // extend
		return OpSpec{Op: "apply", U: g.block(g.newIdent(), r.Intn(4)), Num: ci.tip + 1, Oldest: oldestArg, Classes: genClasses(r, 1)}
	case d < 44: // delta at the tip
		ident, base := tipIdent, uint64(tipTx)
		if r.Chance(1, 8) {
			ident = "rX"
		}
		if r.Chance(1, 8) {
			base = uint64(r.Intn(5))
		}
		num := ci.tip
		if r.Chance(1, 10) {
			num = inChain()
		}
		u := &UpdateSpec{Kind: "D", Ident: ident, Txs: genTxs(r, 1+r.Intn(2), &g.seq, func() DiffSpec { return genAnyDiff(r, 2) })}
		if r.Chance(1, 15) {
			u.Txs[0].Bad = true
		}
		return OpSpec{Op: "apply", U: u, Num: num, BaseTx: base, Oldest: oldestArg, Classes: genClasses(r, 1)}
	case d < 54: // no-change
		num := ci.tip
		if r.Chance(1, 5) {
			num = inChain()
		}
		return OpSpec{Op: "apply", U: &UpdateSpec{Kind: "N"}, Num: num, Oldest: oldestArg, Classes: genClasses(r, 2)}
	case d < 72: // full block at the tip: same round richer / not richer / new round / blank
		var u *UpdateSpec
		switch r.Intn(4) {
		case 0:
			u = g.block(tipIdent, tipTx+1+r.Intn(2))
		case 1:
			u = g.block(tipIdent, r.Intn(tipTx+1))
		case 2:
			u = g.block(g.newIdent(), r.Intn(4))
		default:
			u = g.block("0x0", r.Intn(tipTx+2))
		}
		return OpSpec{Op: "apply", U: u, Num: ci.tip, Oldest: oldestArg, Classes: genClasses(r, 2)}
	case d < 84: // full block at an inner slot (new round below the tip truncates what is above)
		num := inChain()
		var u *UpdateSpec
		switch r.Intn(3) {
		case 0:
			u = g.block(g.newIdent(), r.Intn(4))
		case 1:
			u = g.block(ci.ident[num], ci.ntx[num]+r.Intn(2))
		default:
			u = g.block("0x0", r.Intn(3))
		}
		return OpSpec{Op: "apply", U: u, Num: num, Oldest: oldestArg, Classes: genClasses(r, 1)}
	case d < 88: // gap above the tip
		return OpSpec{Op: "apply", U: g.block(g.newIdent(), 1), Num: ci.tip + 2 + uint64(r.Intn(2)), Oldest: oldestArg}
	case d < 91 && ci.oldest > 0: // below the oldest slot
		return OpSpec{Op: "apply", U: g.block(g.newIdent(), 1), Num: ci.oldest - 1, Oldest: oldestArg}
	case d < 94: // non-block at a brand-new slot
		return OpSpec{Op: "apply", U: &UpdateSpec{Kind: "N"}, Num: ci.tip + 1, Oldest: oldestArg, Classes: genClasses(r, 1)}
	case d < 97: // rejected by the adapter / version check
		u := g.block(g.newIdent(), 1+r.Intn(2))
		if r.Bool() {
			u.VerOk = false
		} else {
			u.Txs[r.Intn(len(u.Txs))].Bad = true
		}
		num := ci.tip + uint64(r.Intn(2))
		return OpSpec{Op: "apply", U: u, Num: num, Oldest: oldestArg}
	default:
		return OpSpec{Op: "apply", U: g.block(g.newIdent(), r.Intn(3)), Num: uint64(r.Intn(maxNum)), Oldest: uint64(r.Intn(maxNum))}
	}
}

// ---- overlay scenarios: well-formed diffs on top of a real canonical state ------------------------

// genOverlay draws a scenario whose pre-confirmed blocks carry diffs that are well-formed on top
// of the canonical chain, built by the same kinds of updates the poller applies (bootstrap,
// extend, deltas at the tip, a richer same-round block replacing the tip).
func genOverlay(r *lib.RNG, newState bool) *Scenario {
	nBase := 1 + r.Intn(3)
	base, states := genBase(r, nBase)
	head := uint64(nBase - 1)
	scn := &Scenario{Kind: "overlay", NewState: newState, Base: base, Head: head}
	st := states[nBase-1].clone()
	seq := &txSeq{}
	k := 1 + r.Intn(4)
	for j := 0; j < k; j++ {
		num := head + 1 + uint64(j)
		var classes [][2]uint64
		ident := fmt.Sprintf("o%d", j)
		before := st.clone()
		fresh := map[uint64]bool{}
		txs := genTxs(r, r.Intn(4), seq, func() DiffSpec { return genValidDiff(r, st, 2, &classes, fresh) })
		scn.Ops = append(scn.Ops, OpSpec{Op: "apply", U: &UpdateSpec{Kind: "B", Ident: ident, VerOk: true, Txs: txs},
			Num: num, Oldest: head + 1, Classes: classes})
		ntx := len(txs)
		switch r.Intn(5) {
		case 0, 1: // appended transactions
			var c2 [][2]uint64
			more := genTxs(r, 1+r.Intn(2), seq, func() DiffSpec { return genValidDiff(r, st, 2, &c2, fresh) })
			scn.Ops = append(scn.Ops, OpSpec{Op: "apply", U: &UpdateSpec{Kind: "D", Ident: ident, Txs: more},
				Num: num, BaseTx: uint64(ntx), Oldest: head + 1, Classes: c2})
		case 2: // the same round again, richer: replaces the slot
			st = before
			classes = nil
			fresh = map[uint64]bool{}
			txs2 := genTxs(r, ntx+1, seq, func() DiffSpec { return genValidDiff(r, st, 2, &classes, fresh) })
			scn.Ops = append(scn.Ops, OpSpec{Op: "apply", U: &UpdateSpec{Kind: "B", Ident: ident, VerOk: true, Txs: txs2},
				Num: num, Oldest: head + 1, Classes: classes})
		}
		if r.Chance(1, 3) {
			scn.Ops = append(scn.Ops, OpSpec{Op: "state", Head: head + 1, Block: head + 1 + uint64(r.Intn(j+1))})
		}
	}
	return scn
}
