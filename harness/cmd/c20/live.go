//go:build verif

package main

import (
	"errors"
	"fmt"
	"strings"
	"sync/atomic"

	"github.com/NethermindEth/juno/blockchain"
	"github.com/NethermindEth/juno/clients/feeder"
	"github.com/NethermindEth/juno/core"
	"github.com/NethermindEth/juno/core/felt"
	"github.com/NethermindEth/juno/core/pending"
	junosync "github.com/NethermindEth/juno/sync"
	"github.com/NethermindEth/juno/sync/preconfirmed"
	"github.com/NethermindEth/juno/utils/log"
	"verif/harness/lib"
)

// ---------------------------------------------------------------------------------------------
// specReads: the property's overlay clause evaluated by the harness itself. Given the reader of
// the canonical state below a view and the view's entries up to block b (oldest first), it applies
// every per-transaction diff of every entry, in order, with the protocol's meaning (deploy: class,
// nonce 0, empty storage; replace; nonce; storage write; declarations) on top of what the base
// answers, and renders every read of the universe in the format of reads(). It uses neither
// StateDiff.Merge nor the block-level diffs nor pending.State.
// ---------------------------------------------------------------------------------------------

func specReads(base core.StateReader, entries []*pending.PreConfirmed) string {
	return specReadsBefore(base, entries, -1)
}

// specReadsBefore: as specReads, but of the LAST entry only the first k per-transaction diffs are
// applied (k < 0: all) — the state immediately before transaction k of that block. The class
// definitions of the last block are all visible (PreConfirmedStateBeforeIndexAt registers them all).
func specReadsBefore(base core.StateReader, entries []*pending.PreConfirmed, k int) string {
	type acct struct {
		deployed bool
		class    string
		nonce    string
		storage  map[uint64]string
		fresh    bool // deployed by the view: unwritten slots read 0
	}
	accts := map[uint64]*acct{}
	for _, a := range uniAddrs {
		af := fe(a)
		ac := &acct{storage: map[uint64]string{}}
		if v, err := base.ContractClassHash(af); err == nil {
			ac.deployed, ac.class = true, fv(&v)
		}
		if v, err := base.ContractNonce(af); err == nil {
			ac.nonce = fv(&v)
		}
		accts[a] = ac
	}
	classes := map[uint64]string{}
	casm := map[uint64]string{}
	casm2 := map[uint64]string{}
	uni := func(f *felt.Felt) (uint64, bool) {
		x := f.Uint64()
		_, ok := accts[x]
		return x, ok && f.Cmp(fe(x)) == 0
	}
	for ei, e := range entries {
		for ti, d := range e.TransactionStateDiffs {
			if k >= 0 && ei == len(entries)-1 && ti >= k {
				break
			}
			for a, c := range d.DeployedContracts {
				if x, ok := uni(&a); ok {
					accts[x].deployed, accts[x].class, accts[x].nonce, accts[x].fresh = true, fv(c), "0", true
					accts[x].storage = map[uint64]string{}
				}
			}
			for a, c := range d.ReplacedClasses {
				if x, ok := uni(&a); ok {
					accts[x].class = fv(c)
				}
			}
			for a, n := range d.Nonces {
				if x, ok := uni(&a); ok {
					accts[x].nonce = fv(n)
				}
			}
			for a, inner := range d.StorageDiffs {
				if x, ok := uni(&a); ok {
					for k, v := range inner {
						accts[x].storage[k.Uint64()] = fv(v)
					}
				}
			}
			for h, c := range d.DeclaredV1Classes {
				casm[h.Uint64()] = fv(c)
			}
			for h, c := range d.MigratedClasses {
				hf, cf := felt.Felt(h), felt.Felt(c)
				casm2[hf.Uint64()] = fv(&cf)
			}
		}
		for h, c := range e.NewClasses {
			classes[h.Uint64()] = classID(c)
		}
	}
	var ch, no, st, cl, ca, c2 []string
	for _, a := range uniAddrs {
		ac := accts[a]
		if !ac.deployed {
			ch = append(ch, fmt.Sprintf("%d=nf", a))
			no = append(no, fmt.Sprintf("%d=nf", a))
			for _, k := range uniSlots {
				st = append(st, fmt.Sprintf("%d:%d=nf", a, k))
			}
			continue
		}
		ch = append(ch, fmt.Sprintf("%d=%s", a, ac.class))
		no = append(no, fmt.Sprintf("%d=%s", a, ac.nonce))
		for _, k := range uniSlots {
			v, written := ac.storage[k]
			switch {
			case written:
			case ac.fresh:
				v = "0"
			default:
				bv, err := base.ContractStorage(fe(a), fe(k))
				v = readTok(bv, err)
			}
			st = append(st, fmt.Sprintf("%d:%d=%s", a, k, v))
		}
	}
	for _, h := range uniCH {
		hf := fe(h)
		if id, ok := classes[h]; ok {
			cl = append(cl, fmt.Sprintf("%d=%s", h, id))
		} else if c, err := base.Class(hf); err != nil {
			cl = append(cl, fmt.Sprintf("%d=%s", h, errTok(err)))
		} else {
			cl = append(cl, fmt.Sprintf("%d=%s", h, classID(c.Class)))
		}
		sh := felt.SierraClassHash(*hf)
		if v, ok := casm[h]; ok {
			ca = append(ca, fmt.Sprintf("%d=%s", h, v))
		} else {
			cv, err := base.CompiledClassHash(&sh)
			cvf := felt.Felt(cv)
			ca = append(ca, fmt.Sprintf("%d=%s", h, readTok(cvf, err)))
		}
		if v, ok := casm2[h]; ok {
			c2 = append(c2, fmt.Sprintf("%d=%s", h, v))
		} else {
			cv, err := base.CompiledClassHashV2(&sh)
			cvf := felt.Felt(cv)
			c2 = append(c2, fmt.Sprintf("%d=%s", h, readTok(cvf, err)))
		}
	}
	return fmt.Sprintf("ch[%s] no[%s] st[%s] cl[%s] ca[%s] c2[%s]", strings.Join(ch, ","), strings.Join(no, ","),
		strings.Join(st, ","), strings.Join(cl, ","), strings.Join(ca, ","), strings.Join(c2, ","))
}

// entriesUpTo: the view's entries oldest first up to and including block b.
func entriesUpTo(v *preconfirmed.ChainReader, b uint64) []*pending.PreConfirmed {
	var out []*pending.PreConfirmed
	for e := range v.OldestFirst() {
		if e.Block.Number > b {
			break
		}
		out = append(out, e)
	}
	return out
}

// viewStateOracle compares, for every block b of the view taken for height `height`, the reads
// through PreConfirmedStateAt(b) — and through BeforeIndexAt(b, len(txs)) — with specReads over
// the canonical state at `height`. bc must not move during the call (the caller checks).
// Returns "" or (section, description).
func viewStateOracle(bc *blockchain.Blockchain, v *preconfirmed.ChainReader, height uint64) (string, string, int) {
	base, _, err := bc.StateAtBlockNumber(height)
	if err != nil {
		return "", "", 0
	}
	n := 0
	for e := range v.OldestFirst() {
		b := e.Block.Number
		want := specReads(base, entriesUpTo(v, b))
		sr, _, err := v.PreConfirmedStateAt(b, bc)
		if err != nil {
			return "state-unavailable", fmt.Sprintf("PreConfirmedStateAt(%d) on the view for head %d: %v", b, height, err), n
		}
		if got := reads(sr); got != want {
			return firstDiffSection(want, got) + "-differs-from-applied-diffs",
				fmt.Sprintf("view for head %d (blocks %d..%d), state at block %d:\n view: %s\n spec: %s", height, height+1, height+uint64(v.Length()), b, got, want), n
		}
		full, _, err := v.PreConfirmedStateBeforeIndexAt(b, uint(len(e.Block.Transactions)), bc)
		if err != nil {
			return "before-last-index-unavailable", fmt.Sprintf("PreConfirmedStateBeforeIndexAt(%d, %d): %v", b, len(e.Block.Transactions), err), n
		}
		if got := reads(full); got != want {
			return "before-last-index-" + firstDiffSection(want, got) + "-differs-from-applied-diffs",
				fmt.Sprintf("view for head %d, state before index %d of block %d:\n view: %s\n spec: %s", height, len(e.Block.Transactions), b, got, want), n
		}
		// every inner index: the state before transaction k is the older blocks plus the first k
		// transactions of this one
		for k := 0; k < len(e.Block.Transactions); k++ {
			wantK := specReadsBefore(base, entriesUpTo(v, b), k)
			part, _, err := v.PreConfirmedStateBeforeIndexAt(b, uint(k), bc)
			if err != nil {
				return "before-index-unavailable", fmt.Sprintf("PreConfirmedStateBeforeIndexAt(%d, %d): %v", b, k, err), n
			}
			if got := reads(part); got != wantK {
				return "before-index-" + firstDiffSection(wantK, got) + "-differs-from-applied-diffs",
					fmt.Sprintf("view for head %d, state before index %d (of %d) of block %d:\n view: %s\n spec: %s", height, k, len(e.Block.Transactions), b, got, wantK), n
			}
		}
		n++
	}
	return "", "", n
}

// ---------------------------------------------------------------------------------------------
// validRun: a run of pre-confirmed blocks whose per-transaction diffs are well-formed on top of
// an abstract canonical state (what a sequencer sends). Shared by the live stage and the scripted
// sequencer of the poller stage.
// ---------------------------------------------------------------------------------------------

type vblock struct {
	ident   string
	txs     []TxSpec
	classes [][2]uint64 // cairo0 definitions of the classes the block declares
	after   *abs
	fresh   map[uint64]bool
}

type validRun struct {
	arbitrary bool // draw arbitrary (not necessarily well-formed) diffs instead
	r         *lib.RNG
	canon     *abs // abstract canonical state at lo-1
	blocks    map[uint64]*vblock
	lo, hi    uint64
	round     int
	seq       txSeq
	casm      bool
}

func (s *validRun) before(n uint64) *abs {
	if n == s.lo {
		return s.canon.clone()
	}
	return s.blocks[n-1].after.clone()
}

func (s *validRun) genDiff(b *vblock) func() DiffSpec {
	return func() DiffSpec {
		if s.arbitrary {
			return genAnyDiff(s.r, 2)
		}
		d := genValidDiff(s.r, b.after, 2, &b.classes, b.fresh)
		if s.casm && s.r.Chance(1, 5) { // sierra declarations / migrations: compiled class hashes
			d.C1 = append(d.C1, [2]uint64{lib.Pick(s.r, uniCH), 400 + uint64(s.r.Intn(3))})
		}
		if s.casm && s.r.Chance(1, 8) {
			d.M = append(d.M, [2]uint64{lib.Pick(s.r, uniCH), 500 + uint64(s.r.Intn(2))})
		}
		return d
	}
}

func (s *validRun) newBlock(n uint64) {
	s.round++
	b := &vblock{ident: fmt.Sprintf("p%d-%d", n, s.round), after: s.before(n), fresh: map[uint64]bool{}}
	b.txs = genTxs(s.r, s.r.Intn(3), &s.seq, s.genDiff(b))
	s.blocks[n] = b
}

func (s *validRun) appendTxs(n uint64) []TxSpec {
	b := s.blocks[n]
	more := genTxs(s.r, 1+s.r.Intn(2), &s.seq, s.genDiff(b))
	b.txs = append(b.txs, more...)
	return more
}

// restart: a new round at slot n; what was built on the old round is gone.
func (s *validRun) restart(n uint64) {
	for m := n; m <= s.hi; m++ {
		delete(s.blocks, m)
	}
	s.hi = n
	s.newBlock(n)
}

// realign to a canonical head with abstract state st. keep: the blocks above the head stay (the
// head advanced onto what was pre-confirmed); otherwise they are new rounds.
func (s *validRun) realign(head uint64, st *abs, keep bool) {
	for n := range s.blocks {
		if n <= head || !keep {
			delete(s.blocks, n)
		}
	}
	s.canon, s.lo = st.clone(), head+1
	if s.hi < s.lo || !keep {
		s.hi = s.lo
	}
	for n := s.lo; n <= s.hi; n++ {
		if s.blocks[n] == nil {
			s.newBlock(n)
		}
	}
}

// sent: the block-level diff of block n as the canonical chain would apply it (fold of the
// transactions' diffs; compiled-class entries left out: the canonical node is given cairo0
// definitions only) and its class definitions.
func (s *validRun) sent(n uint64) (*core.StateDiff, [][2]uint64) {
	b := s.blocks[n]
	d := core.EmptyStateDiff()
	for _, t := range b.txs {
		td := t.Diff
		td.C1, td.M = nil, nil
		foldInto(&d, td.coreDiff())
	}
	return &d, b.classes
}

// ---------------------------------------------------------------------------------------------
// Live stage: a deterministic history in which the canonical head REALLY moves — blocks are
// finalised on the real node (the pre-confirmed block becomes canonical, or a different one does)
// and reverted — interleaved with updates (extend, appended transactions, new rounds at the tip
// and at inner slots), with AdvanceTo called late or not at all (stale, trimmed views), and with
// views held across all of it. After every op: every view for the current height is validated
// against specReads for each of its blocks, compared with the model, and every held view's state
// reads are re-done (they must not change while the canonical block below the view is the same).
// ---------------------------------------------------------------------------------------------

type liveHeld struct {
	v        preconfirmed.ChainReader
	oldest   uint64
	baseHash felt.Felt // hash of canonical block oldest-1 when taken
	reads    map[uint64]string
	hash     string
}

func (h *harness) liveCase(rng *lib.RNG, idx int) {
	newState := rng.Bool()
	nBase := 2 + rng.Intn(2)
	baseBlocks, states := genBase(rng, nBase)
	scn := &Scenario{Kind: "live", NewState: newState, Base: baseBlocks, Head: uint64(nBase - 1), LiveSeed: h.f.Seed, LiveIdx: idx}
	r := &runner{scn: scn, hits: map[string]int{}, withDrv: h.drv != nil}
	if err := r.setup(); err != nil {
		h.res.Fatalf("live case %d: setup failed: %v", idx, err)
		return
	}
	node := r.base
	// The reader entry point under test is the REAL Synchronizer.PreConfirmedChain: a real
	// Synchronizer over this node; the chain storage the stage writes to is the Synchronizer's own
	// (private) one, and its cached highestBlockHeader is set by the stage — behind, equal to, ahead
	// of the local head, or absent — as storeTask / revertHead / pollLatest leave it in the windows
	// where it differs from the canonical head. (Run is never called: no goroutine, no data source.)
	syn := junosync.New(node.bc, nil, log.NewNopZapLogger(), 0, false, nil)
	var cachedHdr *atomic.Pointer[core.Header]
	if f, err := unexportedField(syn, "preConfirmed"); err != nil {
		h.res.Fatalf("live case %d: cannot reach the Synchronizer's chain storage: %v", idx, err)
		return
	} else if st, ok := f.Interface().(*preconfirmed.ChainStorage); !ok || st == nil {
		h.res.Fatalf("live case %d: Synchronizer.preConfirmed is not a *ChainStorage", idx)
		return
	} else {
		r.store = st
	}
	if f, err := unexportedField(syn, "highestBlockHeader"); err != nil {
		h.res.Fatalf("live case %d: the Synchronizer has no highestBlockHeader field (%v): the cached header cannot be varied", idx, err)
	} else if p, ok := f.Addr().Interface().(*atomic.Pointer[core.Header]); ok {
		cachedHdr = p
	}
	canonStates := append([]*abs{}, states...)
	run := &validRun{r: rng.Fork(5), blocks: map[uint64]*vblock{}, casm: true}
	height := func() uint64 { return uint64(node.height - 1) }
	run.realign(height(), canonStates[height()], false)
	var held []liveHeld
	opi := 0
	emit := func(o OpSpec) {
		scn.Ops = append(scn.Ops, o)
		kind := r.step(opi, o)
		r.head = height()
		r.observe(opi, kind)
		opi++
	}
	rebase := func() { // tell the model which canonical states exist now
		for n := uint64(0); n <= height()+1; n++ {
			sr, _, err := node.bc.StateAtBlockNumber(n)
			if err != nil {
				r.ask(opi, "exact", fmt.Sprintf("unbase %d", n), "ok")
				continue
			}
			t, err := baseTable(sr)
			if err != nil {
				h.res.Fatalf("live case %d: reading the canonical state at %d: %v", idx, n, err)
				return
			}
			r.ask(opi, "exact", fmt.Sprintf("base %d %s", n, t), "ok")
		}
	}
	applied := map[uint64]int{} // txs of the block as the storage knows it
	applyBlock := func(n uint64) {
		b := run.blocks[n]
		emit(OpSpec{Op: "apply", U: &UpdateSpec{Kind: "B", Ident: b.ident, VerOk: true, Txs: append([]TxSpec{}, b.txs...)},
			Num: n, Oldest: oldestOf(r.store, height()+1), Classes: b.classes})
		applied[n] = len(b.txs)
	}
	nOps := 10 + rng.Intn(h.f.Scale(10, 25))
	for step := 0; step < nOps; step++ {
		ci := inspect(r.store)
		switch c := rng.Intn(100); {
		case c < 30: // the poller catches up: apply the next block the storage lacks (or bootstrap)
			n := run.lo
			if !ci.empty && ci.tip >= run.lo && ci.oldest <= run.lo {
				n = ci.tip + 1
			}
			if n > run.lo+4 {
				continue
			}
			for run.hi < n {
				run.hi++
				run.newBlock(run.hi)
			}
			// like the poller's backfill: complete the old tip before building on it
			if t := n - 1; !ci.empty && t == ci.tip && run.blocks[t] != nil && run.blocks[t].ident == ci.ident[t] && applied[t] < len(run.blocks[t].txs) {
				more := append([]TxSpec{}, run.blocks[t].txs[applied[t]:]...)
				emit(OpSpec{Op: "apply", U: &UpdateSpec{Kind: "D", Ident: ci.ident[t], Txs: more}, Num: t,
					BaseTx: uint64(applied[t]), Oldest: oldestOf(r.store, height()+1)})
				applied[t] = len(run.blocks[t].txs)
			}
			applyBlock(n)
		case c < 45 && !ci.empty: // appended transactions at the tip
			if b := run.blocks[ci.tip]; b != nil && b.ident == ci.ident[ci.tip] && ci.tip == run.hi && applied[ci.tip] == len(b.txs) {
				more := run.appendTxs(ci.tip)
				emit(OpSpec{Op: "apply", U: &UpdateSpec{Kind: "D", Ident: b.ident, Txs: more}, Num: ci.tip,
					BaseTx: uint64(applied[ci.tip]), Oldest: oldestOf(r.store, height()+1)})
				applied[ci.tip] += len(more)
			}
		case c < 55 && !ci.empty && ci.tip >= run.lo: // a new round at the tip or at an inner slot
			n := run.lo + uint64(rng.Intn(int(min(ci.tip, run.hi)-run.lo)+1))
			run.restart(n)
			applyBlock(n)
		case c < 70: // the head advances: the pre-confirmed block becomes canonical (or a different one)
			n := height() + 1
			same := rng.Chance(3, 4) && run.blocks[n] != nil
			var diff *core.StateDiff
			var cls [][2]uint64
			st := canonStates[height()].clone()
			if same {
				diff, cls = run.sent(n)
				st = run.blocks[n].after.clone()
			} else {
				d := genValidDiff(rng, st, 2, &cls, map[uint64]bool{})
				diff = d.coreDiff()
			}
			if err := node.finalise(diff, classMap(cls)); err != nil {
				h.res.Fatalf("live case %d: the canonical node rejected a generated block: %v", idx, err)
				return
			}
			canonStates = append(canonStates[:n], st)
			run.realign(n, st, same)
			r.hit(map[bool]string{true: "live-head-advances-onto-preconfirmed", false: "live-head-advances-onto-other-block"}[same])
			rebase()
			scn.Ops = append(scn.Ops, OpSpec{Op: "head", Head: n})
			r.head = n
			r.observe(opi, "head")
			opi++
		case c < 78 && node.height > 2: // the head reverts
			if err := node.bc.RevertHead(); err != nil {
				h.res.Fatalf("live case %d: RevertHead: %v", idx, err)
				return
			}
			node.height--
			if hd, err := node.bc.HeadsHeader(); err == nil {
				node.lastHash, node.lastRoot = hd.Hash, hd.GlobalStateRoot
			}
			canonStates = canonStates[:node.height]
			run.realign(height(), canonStates[height()], false)
			r.hit("live-head-reverts")
			rebase()
			scn.Ops = append(scn.Ops, OpSpec{Op: "head", Head: height()})
			r.head = height()
			r.observe(opi, "head")
			opi++
		case c < 90: // the poller's realignment (often late: views before it are stale / trimmed)
			emit(OpSpec{Op: "advance", Oldest: height() + 1})
		default:
			continue
		}
		// ---- the reader entry point: Synchronizer.PreConfirmedChain in the state (height, cached header, storage)
		cachedTok := "-"
		if cachedHdr != nil {
			var hdr *core.Header
			switch c := rng.Intn(6); {
			case c == 0: // never set / reset
			case c <= 2: // behind or equal (storeTask moved it, or a revert left it above... see below)
				if k := int64(height()) - int64(rng.Intn(3)); k >= 0 {
					hdr, _ = node.bc.BlockHeaderByNumber(uint64(k))
				}
			default: // ahead of the local head: not lowered by a revert, or pollLatest saw the feeder's newer block
				if top, err := node.bc.HeadsHeader(); err == nil {
					ahead := *top
					ahead.Number = height() + uint64(1+rng.Intn(3))
					hdr = &ahead
				}
			}
			cachedHdr.Store(hdr)
			if hdr != nil {
				cachedTok = fmt.Sprint(hdr.Number)
				r.hit(map[bool]string{true: "reader-cached-header-ahead-of-head", false: "reader-cached-header-at-or-behind-head"}[hdr.Number > height()])
			} else {
				r.hit("reader-cached-header-absent")
			}
		}
		r.checkReaderEntry(opi-1, syn, height(), cachedTok)
		// ---- oracles on the real objects, head not moving ----
		v := r.store.SnapshotForBlock(height() + 1)
		if v.Length() > 0 {
			if ci := inspect(r.store); ci.oldest < height()+1 {
				r.hit("live-trimmed-view-checked")
			}
			// The overlay clause presupposes that the view's blocks were built on the canonical head.
			// After the head moved onto a DIFFERENT block (or reverted), the storage keeps serving the
			// rounds it has — built on a parent that is no longer canonical — until the poller replaces
			// them; their diffs need not be well-formed on the new parent (see notes: "orphaned rounds").
			current := true
			for e := range v.NewestFirst() {
				if b := run.blocks[e.Block.Number]; b == nil || b.ident != e.BlockIdentifier {
					current = false
				}
			}
			if current {
				sec, what, n := viewStateOracle(node.bc, &v, height())
				r.hits["live-view-blocks-checked-against-spec"] += n
				if sec != "" {
					r.violate(opi-1, "live-overlay-"+sec, what)
				}
			} else {
				r.hit("live-view-holds-orphaned-rounds")
			}
			// model comparison of the same reads
			for e := range v.OldestFirst() {
				o := OpSpec{Op: "state", Head: height() + 1, Block: e.Block.Number}
				scn.Ops = append(scn.Ops, o)
				r.step(opi, o)
				r.reverify(opi, "state-read") // attribute a write made by a state read to the state read
				opi++
			}
			if bh, err := node.bc.BlockHeaderHashByNumber(height()); err == nil && len(held) < 12 {
				lh := liveHeld{v: v, oldest: height() + 1, baseHash: *bh, reads: map[uint64]string{}, hash: deepHash(&v)}
				for e := range v.OldestFirst() {
					if sr, _, err := v.PreConfirmedStateAt(e.Block.Number, node.bc); err == nil {
						lh.reads[e.Block.Number] = reads(sr)
					}
				}
				held = append(held, lh)
			}
		}
		// held views across head movement
		for i := range held {
			k := &held[i]
			if now := deepHash(&k.v); now != k.hash {
				r.violate(opi-1, "live-held-snapshot-changed", fmt.Sprintf("a view held across head movement changed: was %q now %q", clip(k.hash), clip(now)))
				k.hash = now
			}
			bh, err := node.bc.BlockHeaderHashByNumber(k.oldest - 1)
			for b, was := range k.reads {
				sr, _, serr := k.v.PreConfirmedStateAt(b, node.bc)
				switch {
				case err != nil: // the head is below the view now: the base state is gone
					if serr == nil {
						// juno may still serve it from history of a longer chain; nothing to demand
						r.hit("live-held-view-base-gone-still-served")
					} else if errors.Is(serr, pending.ErrPreConfirmedNotFound) {
						r.violate(opi-1, "live-held-view-block-not-found", fmt.Sprintf("block %d of a held view: not found", b))
					} else {
						r.hit("live-held-view-base-gone-error")
					}
				case !bh.Equal(&k.baseHash):
					r.hit("live-held-view-base-replaced-by-reorg") // re-resolved by number over another block: see notes
				case serr != nil:
					r.violate(opi-1, "live-held-view-state-unavailable", fmt.Sprintf("block %d of a held view over an unchanged canonical block %d: %v", b, k.oldest-1, serr))
				default:
					if now := reads(sr); now != was {
						r.violate(opi-1, "live-held-view-state-changed",
							fmt.Sprintf("state through a held view at block %d changed although canonical block %d is the same:\n was: %s\n now: %s", b, k.oldest-1, was, now))
					} else {
						r.hit("live-held-view-state-stable")
					}
				}
			}
		}
	}
	h.finishCase(r, scn, fmt.Sprintf("live/%d/%d", h.f.Seed, idx))
}

// oldestOf: what a well-behaved caller passes as oldestPreConf: the chain's oldest slot if there is
// a chain, else head+1.
func oldestOf(s *preconfirmed.ChainStorage, aligned uint64) uint64 {
	if ci := inspect(s); !ci.empty {
		return ci.oldest
	}
	return aligned
}

// checkReaderEntry calls the real Synchronizer.PreConfirmedChain and checks what it hands out
// against the canonical height AT THE MOMENT OF THE CALL (nothing moves during it: the stage is
// sequential): never an error, never empty, gap-free, first block = height+1 (so the base,
// oldest-1, is the canonical head); if the storage holds slot height+1 the view is that snapshot,
// otherwise it is the empty fallback block. Compared with the model's `reader` answer.
func (r *runner) checkReaderEntry(op int, syn *junosync.Synchronizer, height uint64, cachedTok string) {
	var v preconfirmed.ChainReader
	var err error
	if e, panicked, stack := lib.Try(func() error { v, err = syn.PreConfirmedChain(); return nil }); panicked {
		r.violate(op, "reader-entry-panics", fmt.Sprintf("Synchronizer.PreConfirmedChain panicked: %v\n%s", e, clip(stack)))
		return
	}
	ci := inspect(r.store)
	state := fmt.Sprintf("canonical height %d, cached highestBlockHeader %s, storage %s", height, cachedTok,
		map[bool]string{true: "empty", false: fmt.Sprintf("[%d..%d]", ci.oldest, ci.tip)}[ci.empty])
	if err != nil {
		r.violate(op, "reader-entry-fails", fmt.Sprintf("Synchronizer.PreConfirmedChain() with %s: %v", state, err))
		return
	}
	if v.Length() == 0 {
		r.violate(op, "reader-entry-view-empty", fmt.Sprintf("Synchronizer.PreConfirmedChain() with %s returned an empty view", state))
		return
	}
	if msg := validateViewShape(&v); msg != "" {
		r.violate(op, "reader-entry-"+msg, fmt.Sprintf("Synchronizer.PreConfirmedChain() with %s: %s", state, msg))
		return
	}
	var nums []uint64
	for e := range v.OldestFirst() {
		nums = append(nums, e.Block.Number)
	}
	if nums[0] != height+1 {
		r.violate(op, "reader-entry-view-not-aligned-to-canonical-head",
			fmt.Sprintf("Synchronizer.PreConfirmedChain() with %s handed out a view of blocks %d..%d: it must start at %d (its base state, block %d, is not the canonical head)",
				state, nums[0], nums[len(nums)-1], height+1, nums[0]-1))
	}
	want := r.store.SnapshotForBlock(height + 1)
	hd := v.Head()
	isFallback := v.Length() == 1 && hd.BlockIdentifier == feeder.PreConfirmedBlankIdentifier && len(hd.Block.Transactions) == 0
	impl := ""
	switch {
	case want.Length() > 0:
		impl = canonView(&v)
		if canonView(&want) != impl {
			r.violate(op, "reader-entry-view-is-not-the-aligned-snapshot",
				fmt.Sprintf("Synchronizer.PreConfirmedChain() with %s: the storage holds slot %d but the view handed out is %s", state, height+1, clip(impl)))
		}
		r.hit("reader-entry-snapshot")
	case isFallback:
		impl = fmt.Sprintf("fallback %d", hd.Block.Number)
		r.hit("reader-entry-fallback")
	default:
		impl = canonView(&v)
		r.violate(op, "reader-entry-view-instead-of-fallback",
			fmt.Sprintf("Synchronizer.PreConfirmedChain() with %s: the storage does not hold slot %d, the view handed out is %s", state, height+1, clip(impl)))
	}
	r.ask(op, "exact", fmt.Sprintf("reader %d %s", height, cachedTok), impl)
}
