//go:build verif

package main

import (
	"errors"
	"fmt"
	"strconv"
	"strings"
	"time"

	"github.com/NethermindEth/juno/adapters/sn2core"
	"github.com/NethermindEth/juno/core"
	"github.com/NethermindEth/juno/core/felt"
	"github.com/NethermindEth/juno/core/pending"
	"github.com/NethermindEth/juno/starknet"
	"github.com/NethermindEth/juno/sync/preconfirmed"
	"verif/harness/lib"
)

// opDeadline: an operation of the code under test that takes longer is reported as a hang. Generous: the
// machine may be shared with many other checks (a step normally takes microseconds).
const opDeadline = 300 * time.Second

// maxNum bounds the block numbers a scenario uses; every b in [0, maxNum] is probed after each op.
const maxNum = 14

// ask is one request for the Lean driver together with what the implementation answered.
type ask struct {
	line string
	impl string
	cmp  string // exact | apply | err-generic
	op   int
}

type heldSnap struct {
	view    preconfirmed.ChainReader
	hash    string
	takenAt int
	b       uint64
}

type finding struct {
	sig  string
	what string
	op   int // index of the op at which it was observed
}

type runner struct {
	scn      *Scenario
	base     *node
	store    *preconfirmed.ChainStorage
	head     uint64
	held     []heldSnap
	asks     []ask
	findings []finding
	hits     map[string]int
	withDrv  bool
	nontriv  bool
	alias    *aliasTracker
	fatal    []string        // failures of the harness' own machinery in this scenario
	luModes  map[string]bool // which variant of ContractStorageLastUpdatedBlock the code showed (see compare)
	probeLo  uint64          // first block number probed after every op (0 for ordinary scenarios)
	implPubs []string        // pscript: the entries the real Poller sent to the feed, in order
}

// classifyApplyError maps an ApplyUpdate error to the model's rejection class by the wording of
// juno's messages; "" when the wording is unknown (then only "an error" is compared, so that a
// re-worded message is not a false alarm, while swapped checks still are a mismatch).
func classifyApplyError(err error) string {
	switch {
	case errors.Is(err, preconfirmed.ErrBaseTxCountMismatch):
		return "basetx"
	case errors.Is(err, sn2core.ErrPreConfirmedIdentifierMismatch):
		return "ident"
	}
	m := err.Error()
	for _, c := range []struct{ sub, class string }{
		{"bootstrap rejected", "bootstrap-variant"}, {"bootstrap block", "bootstrap-height"},
		{"not aligned with expected", "unaligned"}, {"below the oldest pre-confirmed slot", "below-oldest"},
		{"gap above tip", "gap"}, {"append rejected", "append-variant"}, {"delta at non-tip", "delta-nontip"},
		{"no-change at non-tip", "nochange-nontip"}, {"unknown transaction type", "adapt"},
		{"unsupported block version", "version"},
	} {
		if strings.Contains(m, c.sub) {
			return c.class
		}
	}
	return ""
}

func (r *runner) hit(s string) { r.hits[s]++ }

func (r *runner) violate(op int, sig, what string) {
	for _, f := range r.findings {
		if f.sig == sig {
			return
		}
	}
	r.findings = append(r.findings, finding{sig: sig, what: what, op: op})
}

func (r *runner) ask(op int, cmp, line, impl string) {
	if r.withDrv {
		r.asks = append(r.asks, ask{line: line, impl: impl, cmp: cmp, op: op})
	}
}

// ---- property oracle on one view -----------------------------------------------------------------

// checkView validates a view obtained for block b (b = head+1 for a reader): gap-free, starts at b,
// Length/Head/iterators agree. Returns the entries newest-first.
func (r *runner) checkView(op int, v *preconfirmed.ChainReader, b uint64) []*pending.PreConfirmed {
	var nf, of []*pending.PreConfirmed
	for e := range v.NewestFirst() {
		nf = append(nf, e)
	}
	for e := range v.OldestFirst() {
		of = append(of, e)
	}
	if len(nf) != v.Length() || len(of) != v.Length() {
		r.violate(op, "view-length-differs-from-entries",
			fmt.Sprintf("SnapshotForBlock(%d): Length()=%d but NewestFirst yields %d and OldestFirst %d entries", b, v.Length(), len(nf), len(of)))
		return nf
	}
	if v.Length() == 0 {
		if v.Head() != nil {
			r.violate(op, "empty-view-has-head", fmt.Sprintf("SnapshotForBlock(%d): Length 0 but Head()!=nil", b))
		}
		return nf
	}
	for i, e := range nf {
		if e == nil || e.Block == nil || e.Block.Header == nil {
			r.violate(op, "view-has-nil-entry", fmt.Sprintf("SnapshotForBlock(%d): entry %d is nil", b, i))
			return nf
		}
		if of[len(of)-1-i] != e {
			r.violate(op, "oldestfirst-not-reverse-of-newestfirst", fmt.Sprintf("SnapshotForBlock(%d): iterators disagree at %d", b, i))
		}
	}
	for _, e := range nf {
		r.checkEntry(op, e)
	}
	if v.Head() != nf[0] {
		r.violate(op, "head-is-not-newest-entry", fmt.Sprintf("SnapshotForBlock(%d): Head() is not the first entry", b))
	}
	for i := 1; i < len(nf); i++ {
		if nf[i].Block.Number+1 != nf[i-1].Block.Number {
			r.violate(op, "view-not-contiguous",
				fmt.Sprintf("SnapshotForBlock(%d): block %d follows %d (newest first)", b, nf[i].Block.Number, nf[i-1].Block.Number))
			return nf
		}
	}
	if oldest := nf[len(nf)-1].Block.Number; oldest != b {
		r.violate(op, "view-not-aligned-to-head",
			fmt.Sprintf("SnapshotForBlock(%d): oldest block of the view is %d, want %d (head+1)", b, oldest, b))
	}
	return nf
}

// checkLookups validates TransactionByHash / ReceiptByHash of a view against its own entries.
func (r *runner) checkLookups(op int, v *preconfirmed.ChainReader, b uint64, nf []*pending.PreConfirmed, hash uint64) (string, string) {
	h := fe(hash)
	// the definition: a hit must be an item with that hash held by a block of the view (with the
	// number of that block, for receipts); a miss is right only if no block of the view holds one.
	// (With the same hash in two blocks of a view, which of them is found is not specified.)
	anyTx, anyRc := false, false
	txOf := func(t core.Transaction) bool {
		for _, e := range nf {
			if e == nil || e.Block == nil {
				continue
			}
			for _, x := range e.Block.Transactions {
				if x == t && x != nil && x.Hash().Equal(h) {
					return true
				}
			}
		}
		return false
	}
	rcOf := func(rc *core.TransactionReceipt, num uint64) bool {
		for _, e := range nf {
			if e == nil || e.Block == nil || e.Block.Number != num {
				continue
			}
			for _, x := range e.Block.Receipts {
				if x == rc && x != nil && x.TransactionHash.Equal(h) {
					return true
				}
			}
		}
		return false
	}
	for _, e := range nf {
		if e == nil || e.Block == nil {
			continue
		}
		for _, x := range e.Block.Transactions {
			if x != nil && x.Hash().Equal(h) {
				anyTx = true
			}
		}
		for _, x := range e.Block.Receipts {
			if x != nil && x.TransactionHash.Equal(h) {
				anyRc = true
			}
		}
	}
	txTok, rcTok := "notfound", "notfound"
	tx, err := v.TransactionByHash(h)
	switch {
	case err == nil && tx != nil:
		txTok = fv(tx.Hash()) + "." + txTag(tx)
		if !txOf(tx) {
			r.violate(op, "tx-lookup-returns-item-not-of-the-view",
				fmt.Sprintf("SnapshotForBlock(%d).TransactionByHash(%d) returned %s, which no block of the view holds under that hash (the view holds one: %v)", b, hash, txTok, anyTx))
		}
	case errors.Is(err, pending.ErrTransactionNotFound):
		if anyTx {
			r.violate(op, "tx-lookup-misses-item-of-the-view",
				fmt.Sprintf("SnapshotForBlock(%d).TransactionByHash(%d): not found, but a block of the view holds it", b, hash))
		}
	default:
		txTok = "err"
		r.violate(op, "tx-lookup-unexpected-error", fmt.Sprintf("TransactionByHash(%d): %v", hash, err))
	}
	rc, num, err := v.ReceiptByHash(h)
	switch {
	case err == nil && rc != nil:
		rcTok = fmt.Sprintf("%s.%s.%d.%d@%d", fv(rc.TransactionHash), fv(rc.Fee), len(rc.Events), revTok(rc), num)
		if !rcOf(rc, num) {
			r.violate(op, "receipt-lookup-returns-item-not-of-the-view",
				fmt.Sprintf("SnapshotForBlock(%d).ReceiptByHash(%d) returned %s: block %d of the view does not hold that receipt under that hash", b, hash, rcTok, num))
		}
	case errors.Is(err, pending.ErrTransactionReceiptNotFound):
		if anyRc {
			r.violate(op, "receipt-lookup-misses-item-of-the-view",
				fmt.Sprintf("SnapshotForBlock(%d).ReceiptByHash(%d): not found, but a block of the view holds it", b, hash))
		}
	default:
		rcTok = "err"
		r.violate(op, "receipt-lookup-unexpected-error", fmt.Sprintf("ReceiptByHash(%d): %v", hash, err))
	}
	return txTok, rcTok
}

// entryLookups: (*PreConfirmed).TransactionByHash / ReceiptByHash on every entry of a view. Oracle: a
// hit is the FIRST transaction of the entry with that hash, at the index returned; a miss means the
// entry holds none (same for receipts).
func (r *runner) entryLookups(op int, nf []*pending.PreConfirmed, hash uint64) string {
	if len(nf) == 0 {
		return "-"
	}
	h := fe(hash)
	th := felt.TransactionHash(*h)
	var out []string
	for _, e := range nf {
		if e == nil || e.Block == nil {
			out = append(out, "nil")
			continue
		}
		first := -1
		for i, x := range e.Block.Transactions {
			if x != nil && x.Hash().Equal(h) {
				first = i
				break
			}
		}
		tTok := "notfound"
		tx, idx, err := e.TransactionByHash(&th)
		switch {
		case err == nil && tx != nil:
			tTok = fmt.Sprintf("%s.%s@%d", fv(tx.Hash()), txTag(tx), idx)
			r.hit("entry-lookup-tx-found")
			if first < 0 || int(idx) != first || e.Block.Transactions[first] != tx {
				r.violate(op, "entry-tx-lookup-wrong-item-or-index",
					fmt.Sprintf("block %d: TransactionByHash(%d) returned %s; the first transaction with that hash is at index %d", e.Block.Number, hash, tTok, first))
			}
		case errors.Is(err, pending.ErrTransactionNotFound):
			if first >= 0 {
				r.violate(op, "entry-tx-lookup-misses-item", fmt.Sprintf("block %d: TransactionByHash(%d): not found, the block holds it at index %d", e.Block.Number, hash, first))
			}
		default:
			tTok = "err"
			r.violate(op, "entry-tx-lookup-unexpected-error", fmt.Sprintf("block %d: TransactionByHash(%d): %v", e.Block.Number, hash, err))
		}
		firstRc := -1
		for i, x := range e.Block.Receipts {
			if x != nil && x.TransactionHash.Equal(h) {
				firstRc = i
				break
			}
		}
		rTok := "notfound"
		rc, err := e.ReceiptByHash(&th)
		switch {
		case err == nil && rc != nil:
			rTok = fmt.Sprintf("%s.%s.%d.%d", fv(rc.TransactionHash), fv(rc.Fee), len(rc.Events), revTok(rc))
			if firstRc < 0 || e.Block.Receipts[firstRc] != rc {
				r.violate(op, "entry-receipt-lookup-wrong-item", fmt.Sprintf("block %d: ReceiptByHash(%d) returned %s", e.Block.Number, hash, rTok))
			}
		case errors.Is(err, pending.ErrTransactionReceiptNotFound):
			if firstRc >= 0 {
				r.violate(op, "entry-receipt-lookup-misses-item", fmt.Sprintf("block %d: ReceiptByHash(%d): not found, the block holds it", e.Block.Number, hash))
			}
		default:
			rTok = "err"
			r.violate(op, "entry-receipt-lookup-unexpected-error", fmt.Sprintf("block %d: ReceiptByHash(%d): %v", e.Block.Number, hash, err))
		}
		out = append(out, fmt.Sprintf("%d:%s/%s", e.Block.Number, tTok, rTok))
	}
	return strings.Join(out, " ")
}

// probes: the block numbers looked at after every op: [0, maxNum], or, for a boundary scenario,
// 0 and the 16 numbers from ProbeLo (up to 2^64-1).
func (r *runner) probes() []uint64 {
	var out []uint64
	if r.probeLo == 0 {
		for b := uint64(0); b <= maxNum; b++ {
			out = append(out, b)
		}
		return out
	}
	out = append(out, 0)
	for i := uint64(0); i < 16; i++ {
		b := r.probeLo + i
		if b < r.probeLo {
			break // wrapped
		}
		out = append(out, b)
	}
	return out
}

// observe is run after every op: probe every b, validate, compare with the model, hold the
// reader's snapshot, re-verify everything held so far.
func (r *runner) observe(op int, kind string) {
	widest := -1
	var widestB uint64
	for _, b := range r.probes() {
		v := r.store.SnapshotForBlock(b)
		r.checkView(op, &v, b)
		if v.Length() > widest && v.Length() > 0 {
			widest, widestB = v.Length(), b
		}
		if b != r.head+1 {
			var of []string
			for e := range v.OldestFirst() {
				if e != nil && e.Block != nil {
					of = append(of, strconv.FormatUint(e.Block.Number, 10))
				}
			}
			r.ask(op, "exact", fmt.Sprintf("snapn %d", b), fmt.Sprintf("%d # %s", v.Length(), strings.Join(of, ",")))
		}
	}
	// the reader's view: SnapshotForBlock(head+1), as Synchronizer.PreConfirmedChain takes it
	v := r.store.SnapshotForBlock(r.head + 1)
	r.ask(op, "exact", fmt.Sprintf("snap %d", r.head+1), canonView(&v))
	if v.Length() > 0 {
		r.hit(fmt.Sprintf("reader-view-len=%d", min(v.Length(), 5)))
		r.held = append(r.held, heldSnap{view: v, hash: deepHash(&v), takenAt: op, b: r.head + 1})
	} else {
		r.hit("reader-view-empty")
	}
	if widest > 0 && widestB != r.head+1 {
		w := r.store.SnapshotForBlock(widestB)
		r.ask(op, "exact", fmt.Sprintf("snap %d", widestB), canonView(&w))
		r.held = append(r.held, heldSnap{view: w, hash: deepHash(&w), takenAt: op, b: widestB})
	}
	if widest > 1 {
		r.nontriv = true
	}
	r.reverify(op, kind)
}

func (r *runner) reverify(op int, kind string) {
	memo := map[*pending.PreConfirmed]string{}
	for i := range r.held {
		h := &r.held[i]
		if h.takenAt == op {
			continue
		}
		if now := deepHashMemo(&h.view, memo); now != h.hash {
			r.violate(op, "held-snapshot-changed-by-"+kind,
				fmt.Sprintf("view taken after op %d for block %d changed after op %d (%s): was %q now %q", h.takenAt, h.b, op, kind, clip(h.hash), clip(now)))
			h.hash = now
		}
		r.checkView(op, &h.view, h.b)
	}
}

func clip(s string) string {
	if len(s) > 400 {
		return s[:400] + "..."
	}
	return s
}

// ---- ops -----------------------------------------------------------------------------------------

func (r *runner) doApply(i int, o OpSpec) string {
	upd := o.U.wire(o.Num)
	classes := classMap(o.Classes)
	var aff *pending.PreConfirmed
	var aerr error
	err, panicked, stack := lib.Try(func() error {
		aff, aerr = r.store.ApplyUpdate(upd, o.Num, o.BaseTx, o.Oldest, classes)
		return nil
	})
	kind := "apply-" + map[string]string{"B": "block", "D": "delta", "N": "nochange"}[o.U.Kind]
	if o.U.Malform != "" && len(o.U.Txs) > 0 {
		// An update outside the adapters' contract (PreConfirmedUpdateEnvelope.Validate, applied by
		// every DataSource of juno before an update can reach ApplyUpdate). What is CHECKED is that
		// Validate refuses it; what ApplyUpdate does with it when fed directly is only counted. The
		// model is not told of the op; a panic or an error leaves the chain alone, which the
		// snapshot comparison after this op confirms.
		env := starknet.PreConfirmedUpdateEnvelope{Update: upd}
		if env.Validate() == nil {
			r.violate(i, "malformed-update-passes-validation",
				fmt.Sprintf("PreConfirmedUpdateEnvelope.Validate() accepts an update with %s", o.U.Malform))
		}
		switch {
		case panicked:
			r.hit("outside-contract-update-panics-in-applyupdate")
		case aerr == nil:
			r.hit("outside-contract-update-accepted-by-applyupdate")
		default:
			r.hit("outside-contract-update-rejected-by-applyupdate")
		}
		return kind
	}
	if panicked {
		r.violate(i, "applyupdate-panics", fmt.Sprintf("%v\n%s", err, clip(stack)))
		r.ask(i, "exact", o.applyLine(), "panic")
		return kind
	}
	impl := ""
	switch {
	case aerr != nil:
		impl = "err"
		if c := classifyApplyError(aerr); c != "" {
			impl = "err:" + c
			r.hit("apply-rejected-by-code:" + c)
		} else {
			r.hit("apply-rejected-by-code:unclassified")
		}
		r.hit("apply-" + o.U.Kind + "-err")
	case aff == nil:
		impl = "noop"
		r.hit("apply-" + o.U.Kind + "-noop")
	default:
		impl = "changed " + canonEntry(aff)
		r.hit("apply-" + o.U.Kind + "-changed")
		// what ApplyUpdate hands to the feed must be the entry now stored at that height
		v := r.store.SnapshotForBlock(o.Num)
		found := false
		for e := range v.NewestFirst() {
			if e == aff {
				found = true
			}
		}
		if !found {
			r.violate(i, "affected-entry-not-in-chain", fmt.Sprintf("ApplyUpdate(%d) returned an entry that the chain does not hold", o.Num))
		}
		// aliasing of the real objects (what Alias.lean / Heap.lean predict): a published entry is a
		// new object and every map of its block diff is a new map
		if sig, what := r.alias.publish(aff); sig != "" {
			r.violate(i, sig, what)
		}
		// … and which object its NewClasses map is (ClassAlias.lean): the caller's, the replaced entry's, a new one
		origin := r.alias.classOrigin(aff, classes)
		r.hit("apply-classmap-" + origin)
		if origin == "caller" || origin == "fresh" {
			origin = "own" // not an object any reader holds yet; which of the two is not compared
		}
		impl += " cm=" + origin
	}
	r.ask(i, "apply", o.applyLine(), impl)
	return kind
}

func (r *runner) stateReads(sr core.StateReader, err error) string {
	switch {
	case errors.Is(err, pending.ErrPreConfirmedNotFound):
		return "notfound"
	case errors.Is(err, pending.ErrTransactionIndexOutOfBounds):
		return "oob"
	case err != nil:
		return "err"
	}
	return reads(sr)
}

func (r *runner) step(i int, o OpSpec) string {
	switch o.Op {
	case "apply":
		return r.doApply(i, o)
	case "advance":
		var ok bool
		err, panicked, stack := lib.Try(func() error { ok = r.store.AdvanceTo(o.Oldest); return nil })
		if panicked {
			r.violate(i, "advanceto-panics", fmt.Sprintf("%v\n%s", err, clip(stack)))
		}
		r.hit(fmt.Sprintf("advance-%v", ok))
		r.ask(i, "exact", fmt.Sprintf("advance %d", o.Oldest), strconv.FormatBool(ok))
		return "advance"
	case "head":
		if o.Head > r.head {
			r.hit("head-advance")
		} else if o.Head < r.head {
			r.hit("head-revert")
		}
		r.head = o.Head
		return "head"
	case "state", "statebi":
		v := r.store.SnapshotForBlock(o.Head)
		var out string
		err, panicked, stack := lib.Try(func() error {
			var sr core.StateReader
			var e error
			if o.Op == "state" {
				sr, _, e = v.PreConfirmedStateAt(o.Block, r.base.bc)
			} else {
				sr, _, e = v.PreConfirmedStateBeforeIndexAt(o.Block, uint(o.Index), r.base.bc)
			}
			out = r.stateReads(sr, e)
			if ps, ok := sr.(*pending.State); ok && e == nil {
				if w := r.alias.stateDiffShares(ps.StateDiff()); w != "" {
					r.violate(i, "state-diff-shares-a-map-with-a-published-entry", fmt.Sprintf("%s(%d): %s", o.Op, o.Block, w))
				}
				tok, owner := r.alias.stateClassOrigin(ps)
				switch tok {
				case "published":
					r.violate(i, "state-class-table-is-a-published-map", fmt.Sprintf("%s(%d): the class table of the state built over the view "+
						"is the same Go map object as %s: the readers' loop copies the next block's classes INTO it", o.Op, o.Block, owner))
				case "no-field":
					r.fatal = append(r.fatal, "pending.State has no map field newClasses (reflection)")
				}
				out += " cm=" + tok + " " + readsExtra(sr)
				r.hit("state-classmap-" + tok)
			}
			if e == nil && o.Op == "state" {
				out += " " + readsLU(sr)
				r.checkLastUpdated(i, &v, o.Head, o.Block, sr)
			}
			return nil
		})
		if panicked {
			r.violate(i, "state-read-panics", fmt.Sprintf("%s(%d,%d): %v\n%s", o.Op, o.Block, o.Index, err, clip(stack)))
			out = "panic"
		}
		tok := out
		if len(tok) > 8 {
			tok = "reads"
		}
		r.hit(o.Op + "-" + tok)
		if o.Op == "state" {
			r.ask(i, "state", fmt.Sprintf("state %d %d", o.Head, o.Block), out)
		} else {
			r.ask(i, "err-generic", fmt.Sprintf("statebi %d %d %d", o.Head, o.Block, o.Index), out)
		}
		return "state-read"
	case "lookup":
		v := r.store.SnapshotForBlock(o.Head)
		nf := r.checkView(i, &v, o.Head)
		txTok, rcTok := "panic", "panic"
		if err, panicked, stack := lib.Try(func() error {
			txTok, rcTok = r.checkLookups(i, &v, o.Head, nf, o.Hash)
			return nil
		}); panicked {
			r.violate(i, "lookup-panics", fmt.Sprintf("lookup of hash %d in the view for block %d: %v\n%s", o.Hash, o.Head, err, clip(stack)))
		}
		if txTok == "notfound" {
			r.hit("lookup-tx-notfound")
		} else {
			r.hit("lookup-tx-found")
		}
		if rcTok == "notfound" {
			r.hit("lookup-receipt-notfound")
		} else {
			r.hit("lookup-receipt-found")
		}
		r.ask(i, "exact", fmt.Sprintf("tx %d %d", o.Head, o.Hash), txTok)
		r.ask(i, "exact", fmt.Sprintf("rc %d %d", o.Head, o.Hash), rcTok)
		// the per-entry helpers the rpc handlers use on an entry of the view (the index goes to
		// PreConfirmedStateBeforeIndexAt): first transaction with that hash and its position
		etok := "-"
		if err, panicked, stack := lib.Try(func() error { etok = r.entryLookups(i, nf, o.Hash); return nil }); panicked {
			r.violate(i, "entry-lookup-panics", fmt.Sprintf("per-entry lookup of hash %d: %v\n%s", o.Hash, err, clip(stack)))
			etok = "panic"
		}
		r.ask(i, "exact", fmt.Sprintf("etx %d %d", o.Head, o.Hash), etok)
		return "lookup"
	}
	return "unknown"
}

// setup builds the real canonical chain and registers its states with the model.
func (r *runner) setup() error {
	base, err := buildBase(r.scn.NewState, r.scn.Base)
	if err != nil {
		return err
	}
	r.base = base
	r.alias = newAliasTracker()
	r.luModes = map[string]bool{}
	r.probeLo = r.scn.ProbeLo
	r.store = preconfirmed.NewChainStorage()
	r.head = r.scn.Head
	r.ask(-1, "exact", "reset", "ok")
	r.ask(-1, "exact", fmt.Sprintf("univ %s %s %s", joinU(uniAddrs), joinU(uniSlots), joinU(uniCH)), "ok")
	for n := 0; n < base.height; n++ {
		sr, _, err := base.bc.StateAtBlockNumber(uint64(n))
		if err != nil {
			return fmt.Errorf("base state at %d: %w", n, err)
		}
		t, err := baseTable(sr)
		if err != nil {
			return fmt.Errorf("base reads at %d: %w", n, err)
		}
		r.ask(-1, "exact", fmt.Sprintf("base %d %s", n, t), "ok")
	}
	return nil
}

func runScenario(scn *Scenario, withDrv bool) (*runner, error) {
	r := &runner{scn: scn, hits: map[string]int{}, withDrv: withDrv}
	if err := r.setup(); err != nil {
		return r, err
	}
	for i, o := range scn.Ops {
		var kind string
		done := lib.WithDeadline(opDeadline, func() { kind = r.step(i, o) })
		if !done {
			r.violate(i, "op-hangs", fmt.Sprintf("op %d (%s) did not return within %s", i, o.Op, opDeadline))
			return r, nil
		}
		r.observe(i, kind)
	}
	if scn.Kind == "overlay" {
		r.checkOverlay(len(scn.Ops) - 1)
	}
	return r, nil
}

// ---- overlay oracle: the view's state reads vs the canonical state after really applying the
// view's blocks on a second node ------------------------------------------------------------------

func (r *runner) checkOverlay(op int) {
	v := r.store.SnapshotForBlock(r.head + 1)
	if v.Length() == 0 || int(r.head)+1 != r.base.height {
		return
	}
	truth, err := buildBase(r.scn.NewState, r.scn.Base)
	if err != nil {
		r.fatal = append(r.fatal, fmt.Sprintf("overlay oracle: second node: %v", err))
		return
	}
	sent := sentBlocks(r.scn)
	for e := range v.OldestFirst() {
		// The canonical node applies what the sequencer SENT for this block (the scenario's
		// per-transaction diffs, folded in order by the harness itself), not what the adapters made
		// of it: the reference is independent of AdaptPreConfirmed* and StateDiff.Merge.
		sb, known := sent[e.Block.Number]
		if !known {
			r.fatal = append(r.fatal, fmt.Sprintf("overlay oracle: block %d of the view is not in the scenario", e.Block.Number))
			return
		}
		d := sb.diff
		if err := truth.finalise(d, classMap(sb.classes)); err != nil {
			// the generator promises well-formed blocks: a rejection turns the oracle off
			r.fatal = append(r.fatal, fmt.Sprintf("overlay oracle: the canonical node rejected generated block %d: %v", e.Block.Number, err))
			return
		}
		num := e.Block.Number
		want, _, err := truth.bc.StateAtBlockNumber(num)
		if err != nil {
			r.fatal = append(r.fatal, fmt.Sprintf("overlay oracle: canonical state at %d: %v", e.Block.Number, err))
			return
		}
		got, _, err := v.PreConfirmedStateAt(num, r.base.bc)
		if err != nil {
			r.violate(op, "overlay-state-unavailable-for-view-block", fmt.Sprintf("PreConfirmedStateAt(%d): %v", num, err))
			return
		}
		ws, gs := reads(want), reads(got)
		r.hit("overlay-block-compared")
		if ws != gs {
			sec := firstDiffSection(ws, gs)
			r.violate(op, "overlay-"+sec+"-differs-from-applied-diffs",
				fmt.Sprintf("state through the view at block %d differs from the canonical state after applying the view's diffs up to %d:\n view : %s\n canon: %s", num, num, gs, ws))
		}
		// state before tx index k of this block, k = len(txs), is the state at the block
		full, _, err := v.PreConfirmedStateBeforeIndexAt(num, uint(len(e.Block.Transactions)), r.base.bc)
		if err != nil {
			r.violate(op, "overlay-before-last-index-unavailable", fmt.Sprintf("PreConfirmedStateBeforeIndexAt(%d, %d): %v", num, len(e.Block.Transactions), err))
		} else {
			if fs := reads(full); fs != ws {
				r.violate(op, "overlay-before-last-index-"+firstDiffSection(ws, fs)+"-differs-from-applied-diffs",
					fmt.Sprintf("PreConfirmedStateBeforeIndexAt(%d, %d) differs from canonical state at %d:\n view : %s\n canon: %s", num, len(e.Block.Transactions), num, fs, ws))
			}
		}
	}
}

func firstDiffSection(a, b string) string {
	as, bs := strings.Split(a, "] "), strings.Split(b, "] ")
	for i := range as {
		if i >= len(bs) || as[i] != bs[i] {
			name := strings.SplitN(as[i], "[", 2)[0]
			return map[string]string{"ch": "classhash", "no": "nonce", "st": "storage", "cl": "class", "ca": "casm", "c2": "casmv2"}[name]
		}
	}
	return "read"
}

func cloneDiff(d *core.StateDiff) *core.StateDiff {
	n := core.EmptyStateDiff()
	for a, inner := range d.StorageDiffs {
		m := make(map[felt.Felt]*felt.Felt, len(inner))
		for k, v := range inner {
			m[k] = v
		}
		n.StorageDiffs[a] = m
	}
	for k, v := range d.Nonces {
		n.Nonces[k] = v
	}
	for k, v := range d.DeployedContracts {
		n.DeployedContracts[k] = v
	}
	for k, v := range d.ReplacedClasses {
		n.ReplacedClasses[k] = v
	}
	for k, v := range d.DeclaredV1Classes {
		n.DeclaredV1Classes[k] = v
	}
	for k, v := range d.MigratedClasses {
		n.MigratedClasses[k] = v
	}
	n.DeclaredV0Classes = append(n.DeclaredV0Classes, d.DeclaredV0Classes...)
	return &n
}

// checkLastUpdated is the oracle for ContractStorageLastUpdatedBlock through a view: the newest
// block of the view, up to the requested one, whose diff writes the slot; for a slot the view does
// not write: 0 if the view deploys the contract, else what the state below the view says.
func (r *runner) checkLastUpdated(op int, v *preconfirmed.ChainReader, b, block uint64, sr core.StateReader) {
	if validateView(v, b) != "" {
		return // a malformed view is reported as such, not as a wrong last-updated block
	}
	var base core.StateReader
	for _, a := range uniAddrs {
		for _, k := range uniSlots {
			af, kf := *fe(a), *fe(k)
			writer, written, deployed := uint64(0), false, false
			for e := range v.OldestFirst() {
				if e.Block.Number > block {
					break
				}
				d := e.StateUpdate.StateDiff
				if inner, ok := d.StorageDiffs[af]; ok {
					if _, ok := inner[kf]; ok {
						writer, written = e.Block.Number, true
					}
				}
				if _, ok := d.DeployedContracts[af]; ok {
					deployed = true
				}
			}
			addr := felt.Address(af)
			got, err := sr.ContractStorageLastUpdatedBlock(&addr, &kf)
			if err != nil {
				r.violate(op, "storage-last-updated-block-errors", fmt.Sprintf("ContractStorageLastUpdatedBlock(%d, %d) through the view: %v", a, k, err))
				continue
			}
			want := uint64(0)
			switch {
			case written:
				want = writer
			case deployed:
				want = 0
			default:
				if base == nil {
					var e error
					if base, _, e = r.base.bc.StateAtBlockNumber(b - 1); e != nil {
						return
					}
				}
				if want, err = base.ContractStorageLastUpdatedBlock(&addr, &kf); err != nil {
					continue
				}
			}
			if got == want {
				continue
			}
			if written && got == block {
				r.violate(op, "storage-last-updated-block-is-the-requested-block",
					fmt.Sprintf("view for block %d, state at block %d: slot %d of contract %d was last written by block %d of the view, ContractStorageLastUpdatedBlock answers %d", b, block, k, a, want, got))
			} else {
				r.violate(op, "storage-last-updated-block-wrong",
					fmt.Sprintf("view for block %d, state at block %d: slot %d of contract %d: want %d got %d", b, block, k, a, want, got))
			}
		}
	}
}

type sentBlock struct {
	diff    *core.StateDiff
	classes [][2]uint64
}

// sentBlocks replays an overlay scenario's updates at the level of what was sent: a full block
// sets the block's transactions, a delta appends to them; the block's diff is the fold, in order,
// of its transactions' diffs.
func sentBlocks(scn *Scenario) map[uint64]sentBlock {
	txs := map[uint64][]TxSpec{}
	cls := map[uint64][][2]uint64{}
	for _, o := range scn.Ops {
		if o.Op != "apply" || o.U == nil {
			continue
		}
		switch o.U.Kind {
		case "B":
			txs[o.Num] = append([]TxSpec{}, o.U.Txs...)
			cls[o.Num] = append([][2]uint64{}, o.Classes...)
		case "D":
			txs[o.Num] = append(txs[o.Num], o.U.Txs...)
			cls[o.Num] = append(cls[o.Num], o.Classes...)
		}
	}
	out := map[uint64]sentBlock{}
	for num, ts := range txs {
		d := core.EmptyStateDiff()
		for _, t := range ts {
			foldInto(&d, t.Diff.coreDiff())
		}
		out[num] = sentBlock{diff: &d, classes: cls[num]}
	}
	return out
}

// checkEntry: an entry's block-level diff must be the fold, in order, of its per-transaction diffs
// — of ALL of them, whatever the execution status of the transaction (a reverted transaction still
// bumps the nonce and pays the fee) — otherwise the state at the block (which overlays the block
// diff) is not the state after its last transaction. Header counters and bloom must describe the
// entry's own receipts.
func (r *runner) checkEntry(op int, e *pending.PreConfirmed) {
	if e.StateUpdate == nil || e.StateUpdate.StateDiff == nil {
		return
	}
	fold := core.EmptyStateDiff()
	for _, td := range e.TransactionStateDiffs {
		if td == nil {
			r.violate(op, "entry-has-nil-transaction-diff", fmt.Sprintf("block %d", e.Block.Number))
			return
		}
		foldInto(&fold, td)
	}
	if got, want := canonDiff(e.StateUpdate.StateDiff), canonDiff(&fold); got != want {
		r.violate(op, "entry-block-diff-is-not-the-fold-of-its-transaction-diffs",
			fmt.Sprintf("block %d (%s): StateUpdate.StateDiff = %s, its %d transaction diffs fold to %s", e.Block.Number, e.BlockIdentifier, got, len(e.TransactionStateDiffs), want))
	}
	n := len(e.Block.Transactions)
	events := uint64(0)
	for _, rc := range e.Block.Receipts {
		if rc != nil {
			events += uint64(len(rc.Events))
		}
	}
	bloomOK := true
	if e.Block.EventsBloom != nil {
		a, err1 := e.Block.EventsBloom.MarshalBinary()
		b, err2 := core.EventsBloom(e.Block.Receipts).MarshalBinary()
		bloomOK = err1 == nil && err2 == nil && string(a) == string(b)
	}
	if len(e.Block.Receipts) != n || len(e.TransactionStateDiffs) != n || e.Block.TransactionCount != uint64(n) ||
		e.Block.EventCount != events || !bloomOK {
		r.violate(op, "entry-header-inconsistent-with-content",
			fmt.Sprintf("block %d: %d txs, %d receipts, %d tx diffs, TransactionCount %d, EventCount %d (receipts have %d), bloom matches receipts: %v",
				e.Block.Number, n, len(e.Block.Receipts), len(e.TransactionStateDiffs), e.Block.TransactionCount, e.Block.EventCount, events, bloomOK))
	}
}

// foldInto applies src on top of dst (later wins), written out here so that the reference does not
// depend on core.StateDiff.Merge.
func foldInto(dst, src *core.StateDiff) {
	for a, inner := range src.StorageDiffs {
		if dst.StorageDiffs[a] == nil {
			dst.StorageDiffs[a] = map[felt.Felt]*felt.Felt{}
		}
		for k, v := range inner {
			dst.StorageDiffs[a][k] = v
		}
	}
	for k, v := range src.Nonces {
		dst.Nonces[k] = v
	}
	for k, v := range src.DeployedContracts {
		dst.DeployedContracts[k] = v
	}
	for k, v := range src.ReplacedClasses {
		dst.ReplacedClasses[k] = v
	}
	for k, v := range src.DeclaredV1Classes {
		dst.DeclaredV1Classes[k] = v
	}
	for k, v := range src.MigratedClasses {
		dst.MigratedClasses[k] = v
	}
	dst.DeclaredV0Classes = append(dst.DeclaredV0Classes, src.DeclaredV0Classes...)
}
