//go:build verif

package main

import (
	"context"
	"errors"
	"fmt"
	"runtime/debug"
	"strings"
	"sync"
	"sync/atomic"
	"time"

	"github.com/NethermindEth/juno/blockchain"
	"github.com/NethermindEth/juno/clients/feeder"
	"github.com/NethermindEth/juno/core"
	"github.com/NethermindEth/juno/core/felt"
	"github.com/NethermindEth/juno/starknet"
	junosync "github.com/NethermindEth/juno/sync"
	"github.com/NethermindEth/juno/sync/preconfirmed"
	"github.com/NethermindEth/juno/utils/log"
	"verif/harness/lib"
)

// ---------------------------------------------------------------------------------------------
// Sync stage: the REAL sync.Synchronizer (sync/sync.go) runs against a scripted DataSource that
// serves a growing canonical chain (blocks manufactured by juno's own Finalise on a source node)
// and a pre-confirmed run above it (delta-sync protocol, injected errors, "sequencer down"
// periods). The Synchronizer stores the blocks itself and launches its own Poller on its private
// ChainStorage; readers call Synchronizer.PreConfirmedChain() — the one entry point every RPC
// handler uses — concurrently. Checked (schedule-independent, the canonical head only advances
// in this stage):
//   * the call never fails once the chain has a head and never returns an empty view (the
//     empty-block fallback MakeEmptyPreConfirmedForParent fills in);
//   * the view is gap-free and starts at H+1 for a height H the chain had during the call;
//   * a fallback view (one blank, transaction-less block) carries exactly the block-hash write of
//     block number-10 (the real hash) and otherwise reads like the canonical state at number-1.
// ---------------------------------------------------------------------------------------------

var errSrc = errors.New("scripted source: not available")

type syncSource struct {
	mu       sync.Mutex
	bundles  []*lib.Bundle
	sim      *sequencer
	down     atomic.Bool // the sequencer's pre-confirmed endpoints fail
	r        *lib.RNG
	errPct   int
	injected atomic.Int64
}

func (s *syncSource) flaky() bool {
	s.mu.Lock()
	defer s.mu.Unlock()
	if s.r.Chance(s.errPct, 100) {
		s.injected.Add(1)
		return true
	}
	return false
}

func (s *syncSource) BlockByNumber(ctx context.Context, n uint64) (junosync.CommittedBlock, error) {
	s.mu.Lock()
	if n >= uint64(len(s.bundles)) {
		s.mu.Unlock()
		select { // like a network round trip: keeps the fetcher's retry loop from spinning
		case <-ctx.Done():
		case <-time.After(200 * time.Microsecond):
		}
		return junosync.CommittedBlock{}, errSrc
	}
	b := s.bundles[n].Clone()
	s.mu.Unlock()
	return junosync.CommittedBlock{Block: b.Block, StateUpdate: b.SU, NewClasses: b.Classes, Persisted: make(chan error, 1)}, nil
}

func (s *syncSource) BlockHeaderLatest(context.Context) (*core.Header, error) {
	s.mu.Lock()
	defer s.mu.Unlock()
	if len(s.bundles) == 0 {
		return nil, errSrc
	}
	return s.bundles[len(s.bundles)-1].Clone().Block.Header, nil
}

func (s *syncSource) PreConfirmedBlockLatest(ctx context.Context, ident string, txCount uint64) (starknet.PreConfirmedUpdate, uint64, error) {
	if s.down.Load() || s.flaky() {
		return nil, 0, errSrc
	}
	return s.sim.PreConfirmedBlockLatest(ctx, ident, txCount)
}

func (s *syncSource) PreConfirmedBlockByNumber(ctx context.Context, n uint64, ident string, txCount uint64) (starknet.PreConfirmedUpdate, error) {
	if s.down.Load() || s.flaky() {
		return nil, errSrc
	}
	return s.sim.PreConfirmedBlockByNumber(ctx, n, ident, txCount)
}

func (s *syncSource) Class(ctx context.Context, h *felt.Felt) (core.ClassDefinition, error) {
	if s.flaky() {
		return nil, errSrc
	}
	return s.sim.Class(ctx, h)
}

func (h *harness) syncStage(rng *lib.RNG, rounds int) {
	for i := 0; i < rounds; i++ {
		h.syncRound(rng.Fork(uint64(i)), i)
	}
}

func (h *harness) syncRound(rng *lib.RNG, round int) {
	newState := rng.Bool()
	opt := lib.DefaultGenOptions()
	opt.NoClasses = true
	opt.MaxTxs = 2
	gen := lib.NewChainGen(rng.Fork(1), newState, opt)
	target := 13 + rng.Intn(4) // long enough for the block-hash write of the fallback block (number >= 10)
	var chain []*lib.Bundle
	for i := 0; i < target; i++ {
		b, err := gen.Next(nil)
		if err != nil {
			h.res.Fatalf("sync stage: chain generator failed: %v", err)
			return
		}
		chain = append(chain, b)
	}
	var addrs, slots []felt.Felt
	for i := 0; i < gen.NAddrs(); i++ {
		addrs = append(addrs, gen.Addr(i))
	}
	for i := 0; i < opt.NSlots; i++ {
		slots = append(slots, gen.Slot(i))
	}
	src := &syncSource{r: rng.Fork(2), errPct: 12, sim: newSequencer(rng.Fork(3), true, 0)}
	src.bundles = append(src.bundles, chain[:2]...)
	src.sim.realign(1, newAbs(), false)
	bc, wdb := lib.NewNode(gen.Net, newState)
	s := junosync.New(bc, src, log.NewNopZapLogger(), time.Millisecond, false, wdb)
	var mu sync.Mutex
	var found []cFinding
	violate := func(sig, what string) {
		mu.Lock()
		found = append(found, cFinding{sig, what})
		mu.Unlock()
	}
	ctx, cancel := context.WithCancel(context.Background())
	runDone := make(chan struct{})
	go func() {
		defer close(runDone)
		err, panicked, stack := lib.Try(func() error { return s.Run(ctx) })
		if panicked {
			violate("sync-run-panics", fmt.Sprintf("Synchronizer.Run panicked: %v\n%s", err, clip(stack)))
		} else if ctx.Err() == nil {
			violate("sync-run-returns-early", fmt.Sprintf("Synchronizer.Run returned before cancellation: %v", err))
		}
	}()

	var stop atomic.Bool
	var calls, fallbacks, real, maxLen, hashWrites, tornReads atomic.Int64
	var wg sync.WaitGroup
	for w := 0; w < 3; w++ {
		wg.Add(1)
		go func() {
			defer wg.Done()
			defer func() {
				if p := recover(); p != nil {
					violate("sync-reader-panics", fmt.Sprintf("a reader using a view panicked: %v\n%s", p, clip(string(debug.Stack()))))
				}
			}()
			type held struct {
				v    preconfirmed.ChainReader
				hash string
			}
			var keep []held
			for !stop.Load() {
				h1, err := bc.Height()
				if err != nil {
					time.Sleep(100 * time.Microsecond)
					continue // no genesis yet
				}
				v, err := s.PreConfirmedChain()
				h2, _ := bc.Height()
				calls.Add(1)
				if err != nil {
					violate("sync-preconfirmedchain-fails", fmt.Sprintf("Synchronizer.PreConfirmedChain() with a head at %d: %v", h1, err))
					continue
				}
				if v.Length() == 0 {
					violate("sync-preconfirmedchain-empty", fmt.Sprintf("Synchronizer.PreConfirmedChain() returned an empty view (head %d)", h1))
					continue
				}
				if msg := validateViewShape(&v); msg != "" {
					violate("sync-"+msg, fmt.Sprintf("Synchronizer.PreConfirmedChain(): %s (head %d..%d)", msg, h1, h2))
					continue
				}
				var oldest uint64
				for e := range v.OldestFirst() {
					oldest = e.Block.Number
					break
				}
				if oldest < h1+1 || oldest > h2+1 {
					violate("sync-view-not-aligned-to-head", fmt.Sprintf("Synchronizer.PreConfirmedChain(): view starts at %d, the head was %d before and %d after the call", oldest, h1, h2))
				}
				if int64(v.Length()) > maxLen.Load() {
					maxLen.Store(int64(v.Length()))
				}
				hd := v.Head()
				if v.Length() == 1 && hd.BlockIdentifier == feeder.PreConfirmedBlankIdentifier && len(hd.Block.Transactions) == 0 {
					fallbacks.Add(1)
					// The comparison reads the canonical state twice (through the view and directly). On
					// the legacy backend a historical reader is not isolated from a block store that
					// commits between two of its reads (see notes/C20.md, lead for C03), so the result
					// only counts when no block was stored during the whole comparison.
					msg := checkFallback(bc, &v, hd.Block.Number, addrs, slots, &hashWrites)
					if h3, _ := bc.Height(); msg != "" && h3 == h1 {
						violate("sync-fallback-"+strings.SplitN(msg, " ", 2)[0], fmt.Sprintf("empty-block fallback for block %d (newState=%v, head %d): %s", hd.Block.Number, newState, h1, msg))
					} else if msg != "" {
						tornReads.Add(1)
					}
				} else {
					real.Add(1)
					if sig, what := entryClassOracle(&v); sig != "" {
						violate("sync-"+sig, what)
					}
					if len(keep) < 32 {
						keep = append(keep, held{v: v, hash: deepHash(&v)})
					}
				}
				time.Sleep(100 * time.Microsecond)
			}
			for i := range keep {
				if now := deepHash(&keep[i].v); now != keep[i].hash {
					violate("sync-held-snapshot-changed", fmt.Sprintf("a view obtained from Synchronizer.PreConfirmedChain() changed: was %q now %q", clip(keep[i].hash), clip(now)))
				}
			}
		}()
	}
	// script: the source chain grows, the sequencer lives, is sometimes down
	for len(src.bundles) < len(chain) {
		time.Sleep(time.Duration(3+rng.Intn(6)) * time.Millisecond)
		switch c := rng.Intn(10); {
		case c < 4:
			src.sim.evolve()
		case c < 5:
			src.down.Store(!src.down.Load())
		default:
			src.mu.Lock()
			src.bundles = append(src.bundles, chain[len(src.bundles)])
			n := uint64(len(src.bundles) - 1)
			src.mu.Unlock()
			src.sim.realign(n, newAbs(), true)
		}
	}
	src.down.Store(false)
	deadline := time.Now().Add(120 * time.Second)
	for time.Now().Before(deadline) {
		if hgt, err := bc.Height(); err == nil && hgt == uint64(len(chain)-1) {
			break
		}
		time.Sleep(time.Millisecond)
	}
	for i := 0; i < 6; i++ {
		time.Sleep(3 * time.Millisecond)
		src.sim.evolve()
	}
	stop.Store(true)
	wg.Wait()
	cancel()
	select {
	case <-runDone:
	case <-time.After(300 * time.Second):
		violate("sync-stage-hangs", "Synchronizer.Run did not return within 300s of cancellation")
	}
	synced, _ := bc.Height()
	h.res.HitN("sync-preconfirmedchain-calls", int(calls.Load()))
	h.res.HitN("sync-fallback-views", int(fallbacks.Load()))
	h.res.HitN("sync-fallback-blockhash-writes-checked", int(hashWrites.Load()))
	h.res.HitN("sync-poller-views", int(real.Load()))
	h.res.HitN("sync-fallback-comparisons-discarded-head-moved", int(tornReads.Load()))
	h.res.HitN("sync-source-errors-injected", int(src.injected.Load()))
	h.res.HitN(fmt.Sprintf("sync-max-view-len=%d", min(maxLen.Load(), 5)), 1)
	if synced != uint64(len(chain)-1) {
		h.res.Fatalf("sync stage round %d: the Synchronizer synced only to %d of %d within the deadline", round, synced, len(chain)-1)
	}
	h.res.Case(fmt.Sprintf("sync/%d/%d", h.f.Seed, round), real.Load() > 0 && fallbacks.Load() > 0)
	for _, f := range found {
		h.res.Violate(lib.Violation{Sig: f.sig, What: f.what,
			Replay: map[string]any{"kind": "concurrent", "stage": "sync", "seed": h.f.Seed, "round": round}})
	}
}

// validateViewShape: entries = Length, none nil, gap-free.
func validateViewShape(v *preconfirmed.ChainReader) string {
	n, prev := 0, uint64(0)
	for e := range v.NewestFirst() {
		if e == nil || e.Block == nil || e.Block.Header == nil || e.StateUpdate == nil || e.StateUpdate.StateDiff == nil {
			return "view-has-nil-entry"
		}
		if n > 0 && e.Block.Number+1 != prev {
			return "view-not-contiguous"
		}
		prev = e.Block.Number
		n++
	}
	if n != v.Length() {
		return "view-length-differs-from-entries"
	}
	return ""
}

// checkFallback: the synthetic empty block reads like the canonical state below it plus the
// block-hash write of block number-10 (core.BlockHashLag), which must be the real hash.
func checkFallback(bc *blockchain.Blockchain, v *preconfirmed.ChainReader, num uint64, addrs, slots []felt.Felt, hashWrites *atomic.Int64) string {
	sr, _, err := v.PreConfirmedStateAt(num, bc)
	if err != nil {
		return "state-unavailable"
	}
	base, _, err := bc.StateAtBlockNumber(num - 1)
	if err != nil {
		return ""
	}
	hd := v.Head()
	if num >= core.BlockHashLag {
		want, err := bc.BlockHeaderHashByNumber(num - core.BlockHashLag)
		if err != nil {
			return ""
		}
		got, err := sr.ContractStorage(&felt.One, fe(num-core.BlockHashLag))
		if err != nil || !got.Equal(want) {
			return "blockhash-write-wrong"
		}
		hashWrites.Add(1)
	} else if len(hd.StateUpdate.StateDiff.StorageDiffs) != 0 {
		return "unexpected-storage-write"
	}
	for i := range addrs {
		a := &addrs[i]
		g1, e1 := sr.ContractClassHash(a)
		w1, e2 := base.ContractClassHash(a)
		if readTok(g1, e1) != readTok(w1, e2) {
			return fmt.Sprintf("classhash-differs-from-head-state addr=%s view=%s base=%s", a.String(), readTok(g1, e1), readTok(w1, e2))
		}
		g1, e1 = sr.ContractNonce(a)
		w1, e2 = base.ContractNonce(a)
		if readTok(g1, e1) != readTok(w1, e2) {
			return "nonce-differs-from-head-state"
		}
		for j := range slots {
			if a.Equal(&felt.One) && num >= core.BlockHashLag && slots[j].Equal(fe(num-core.BlockHashLag)) {
				continue
			}
			g1, e1 = sr.ContractStorage(a, &slots[j])
			w1, e2 = base.ContractStorage(a, &slots[j])
			if readTok(g1, e1) != readTok(w1, e2) {
				return fmt.Sprintf("storage-differs-from-head-state addr=%s slot=%s view=%s base=%s", a.String(), slots[j].String(), readTok(g1, e1), readTok(w1, e2))
			}
		}
	}
	return ""
}
