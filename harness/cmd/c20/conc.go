//go:build verif

package main

import (
	"bytes"
	"crypto/sha1"
	"encoding/hex"
	"encoding/json"
	"fmt"
	"os"
	"os/exec"
	"runtime"
	"runtime/debug"
	"strings"
	"sync"
	"sync/atomic"
	"time"

	"github.com/NethermindEth/juno/core/pending"
	"github.com/NethermindEth/juno/sync/preconfirmed"
	"verif/harness/lib"
)

// fixed runs directed scenarios that reach the branches a random history meets rarely.
func (h *harness) fixed() {
	for i, scn := range append(fixedScenarios(), boundaryScenarios()...) {
		r, err := runScenario(scn, h.drv != nil)
		if err != nil {
			h.res.Fatalf("fixed scenario %d: setup failed: %v", i, err)
			continue
		}
		h.finishCase(r, scn, fmt.Sprintf("fixed/%d", i))
	}
}

func tx(hash, tag uint64, d DiffSpec) TxSpec {
	return TxSpec{Hash: hash, Tag: tag, RHash: hash, RTag: 5000 + tag, Events: int(tag % 3), Diff: d,
		Kind: int(tag % 4), Reverted: tag%2 == 1}
}

func blockOp(num, oldest uint64, ident string, classes [][2]uint64, txs ...TxSpec) OpSpec {
	return OpSpec{Op: "apply", U: &UpdateSpec{Kind: "B", Ident: ident, VerOk: true, Txs: txs}, Num: num, Oldest: oldest, Classes: classes}
}

// boundaryScenarios: the two ends of the uint64 block numbers.
func boundaryScenarios() []*Scenario {
	const top = ^uint64(0)
	t := func(h uint64) TxSpec { return tx(h, h, DiffSpec{S: [][3]uint64{{100, h % 3, h}}}) }
	zero := []OpSpec{ // a chain bootstrapped at block 0 (no head yet): its base would be block 2^64-1
		blockOp(0, 0, "z0", nil, t(1)),
		{Op: "state", Head: 0, Block: 0}, {Op: "statebi", Head: 0, Block: 0, Index: 1}, {Op: "statebi", Head: 0, Block: 0, Index: 5},
		{Op: "lookup", Head: 0, Hash: 1},
		blockOp(1, 0, "z1", nil, t(2)),
		{Op: "state", Head: 0, Block: 1}, {Op: "state", Head: 1, Block: 1},
		{Op: "apply", U: &UpdateSpec{Kind: "D", Ident: "z1", Txs: []TxSpec{t(3)}}, Num: 1, BaseTx: 1, Oldest: 0},
		blockOp(0, 0, "z0b", nil), // new round at the inner slot 0
		{Op: "advance", Oldest: 1}, {Op: "advance", Oldest: 0},
		blockOp(0, 0, "z0c", nil), {Op: "advance", Oldest: 0},
	}
	high := []OpSpec{ // a chain reaching the last block number: tip()+1 wraps to 0
		blockOp(top-1, top-1, "h1", nil, t(1)),
		blockOp(top, top-1, "h2", nil, t(2)),       // extend to 2^64-1
		blockOp(top, top-1, "h3", nil, t(3), t(4)), // new round for the tip: rejected as a gap (tip+1 = 0)
		{Op: "apply", U: &UpdateSpec{Kind: "D", Ident: "h2", Txs: []TxSpec{t(5)}}, Num: top, BaseTx: 1, Oldest: top - 1},
		{Op: "apply", U: &UpdateSpec{Kind: "N"}, Num: top, Oldest: top - 1, Classes: [][2]uint64{{200, 2200}}},
		blockOp(top-1, top-1, "h4", nil), // new round at the inner slot: also a gap
		blockOp(0, top-1, "h5", nil),     // block 0 == tip+1 on uint64, but below the oldest slot
		{Op: "lookup", Head: top - 1, Hash: 2}, {Op: "state", Head: top - 1, Block: top},
		{Op: "advance", Oldest: top}, {Op: "advance", Oldest: top},
		blockOp(top, top, "h6", nil, t(6)), // single-entry chain at the last number: new round still a gap
		{Op: "advance", Oldest: 0},         // "reverted below": drops
		blockOp(top, top, "h7", nil), {Op: "advance", Oldest: top - 3},
	}
	return []*Scenario{
		{Kind: "seq", Head: 0, Ops: zero},
		{Kind: "seq", Head: top - 2, Ops: high, ProbeLo: top - 15},
	}
}

func fixedScenarios() []*Scenario {
	base := []BaseBlock{
		{Diff: DiffSpec{D: [][2]uint64{{100, 300}, {101, 301}}, C0: []uint64{200}}, Classes: [][2]uint64{{200, 1200}}},
		{Diff: DiffSpec{S: [][3]uint64{{100, 1, 5}, {100, 2, 6}, {101, 1, 7}}, N: [][2]uint64{{100, 1}}}},
		{Diff: DiffSpec{S: [][3]uint64{{100, 1, 8}}, R: [][2]uint64{{101, 302}}, N: [][2]uint64{{100, 2}, {101, 1}}}},
	}
	var out []*Scenario
	for _, ns := range []bool{false, true} {
		// two blocks writing the same slot, a deploy in the first and a replace / nonce / write to zero in the
		// second, classes on both; state at each block, before each index; lookups; then head moves
		ops := []OpSpec{
			blockOp(3, 3, "a", [][2]uint64{{201, 2201}},
				tx(1, 1, DiffSpec{S: [][3]uint64{{100, 1, 9}, {100, 7, 4}}, N: [][2]uint64{{100, 3}}}),
				tx(2, 2, DiffSpec{D: [][2]uint64{{102, 303}}, C0: []uint64{201}})),
			{Op: "state", Head: 3, Block: 3},
			blockOp(4, 3, "b", [][2]uint64{{202, 2202}},
				tx(3, 3, DiffSpec{S: [][3]uint64{{100, 1, 0}, {102, 0, 3}}, R: [][2]uint64{{102, 300}}, N: [][2]uint64{{102, 1}}}),
				tx(1, 4, DiffSpec{S: [][3]uint64{{100, 2, 1}}, C0: []uint64{202}})),
			{Op: "state", Head: 3, Block: 3}, {Op: "state", Head: 3, Block: 4}, {Op: "state", Head: 3, Block: 5},
			{Op: "statebi", Head: 3, Block: 4, Index: 0}, {Op: "statebi", Head: 3, Block: 4, Index: 1},
			{Op: "statebi", Head: 3, Block: 4, Index: 2}, {Op: "statebi", Head: 3, Block: 4, Index: 3},
			{Op: "lookup", Head: 3, Hash: 1}, {Op: "lookup", Head: 3, Hash: 2}, {Op: "lookup", Head: 3, Hash: 9},
			{Op: "lookup", Head: 4, Hash: 2}, {Op: "lookup", Head: 4, Hash: 1},
			{Op: "apply", U: &UpdateSpec{Kind: "D", Ident: "b", Txs: []TxSpec{tx(5, 5, DiffSpec{S: [][3]uint64{{100, 1, 2}}})}},
				Num: 4, BaseTx: 2, Oldest: 3, Classes: [][2]uint64{{203, 2203}}},
			{Op: "state", Head: 3, Block: 4},
			{Op: "apply", U: &UpdateSpec{Kind: "N"}, Num: 4, Oldest: 3, Classes: [][2]uint64{{204, 2204}}},
			{Op: "apply", U: &UpdateSpec{Kind: "N"}, Num: 4, Oldest: 3, Classes: [][2]uint64{{204, 2204}}},
			blockOp(5, 3, "c", nil, tx(6, 6, DiffSpec{})),
			blockOp(6, 3, "d", nil),
			{Op: "head", Head: 2}, // (head stays) views for head+1 = 3
			blockOp(4, 3, "b2", nil, tx(7, 7, DiffSpec{S: [][3]uint64{{101, 1, 1}}})), // new round at an inner slot: truncates 5, 6
			{Op: "state", Head: 3, Block: 4},
			blockOp(5, 3, "c2", nil, tx(8, 8, DiffSpec{})),
			{Op: "head", Head: 1}, // revert below the chain: views for head+1 = 2 must be empty
			{Op: "advance", Oldest: 2},
			blockOp(2, 2, "e", nil, tx(9, 9, DiffSpec{S: [][3]uint64{{100, 2, 9}}})),
			{Op: "state", Head: 2, Block: 2},
			blockOp(3, 2, "f", nil), blockOp(4, 2, "g", nil), blockOp(5, 2, "h", nil),
			{Op: "head", Head: 2}, // head advanced inside the chain, storage not yet realigned
			{Op: "state", Head: 3, Block: 4},
			{Op: "advance", Oldest: 3}, // partial drop
			{Op: "advance", Oldest: 3},
			{Op: "advance", Oldest: 5}, // drop to the tip only
			{Op: "advance", Oldest: 6}, // past the tip: drop all
			{Op: "advance", Oldest: 6},
		}
		out = append(out, &Scenario{Kind: "seq", NewState: ns, Base: base, Head: 2, Ops: ops})
	}
	return out
}

// ---- concurrent stage: one writer, N readers -----------------------------------------------------

// concurrent runs the real storage with one writer goroutine applying a generated history
// (updates, AdvanceTo, head moves) and several readers that take head-aligned views at arbitrary
// times, validate them, keep them, and re-hash them later. A view is validated against the head
// value the reader used, which is what the property states. (Built with -race in the thorough
// tier when the race-enabled twin is available: see checks/c20.json.)
func (h *harness) concurrent(rng *lib.RNG, rounds int) {
	for round := 0; round < rounds; round++ {
		h.concurrentRound(rng.Fork(uint64(round)), round)
	}
}

type cFinding struct{ sig, what string }

func (h *harness) concurrentRound(rng *lib.RNG, round int) {
	nBase := 4
	base, _ := genBase(rng, nBase)
	node, err := buildBase(rng.Bool(), base)
	if err != nil {
		h.res.Fatalf("concurrent stage: setup failed: %v", err)
		return
	}
	store := preconfirmed.NewChainStorage()
	var head atomic.Uint64
	head.Store(uint64(rng.Intn(nBase)))
	var stop atomic.Bool
	var mu sync.Mutex
	var found []cFinding
	violate := func(sig, what string) {
		mu.Lock()
		found = append(found, cFinding{sig, what})
		mu.Unlock()
	}
	nOps := h.f.Scale(400, 3000)
	g := &seqGen{r: rng.Fork(1), maxHead: uint64(nBase - 1)}
	// the writer's ops are drawn up front from a twin storage driven sequentially (so that the
	// history does not depend on reader timing), then replayed on the shared storage
	twin := preconfirmed.NewChainStorage()
	th := head.Load()
	var ops []OpSpec
	for len(ops) < nOps {
		o := g.next(twin, th)
		switch o.Op {
		case "apply":
			_, _, _ = lib.Try(func() error {
				_, _ = twin.ApplyUpdate(o.U.wire(o.Num), o.Num, o.BaseTx, o.Oldest, classMap(o.Classes))
				return nil
			})
		case "advance":
			twin.AdvanceTo(o.Oldest)
		case "head":
			th = o.Head
		default:
			continue
		}
		ops = append(ops, o)
	}
	var wg sync.WaitGroup
	var views, nonEmpty, stateReads, outside atomic.Int64
	// the sequential oracle per actor: what a reader read through a view WHILE the writer and the other readers
	// were running is recomputed on the same (held, immutable) view once everything is quiescent; the canonical
	// chain below does not move in this stage, so the two must be identical
	type sample struct {
		v     preconfirmed.ChainReader
		block uint64
		at    string // reads(PreConfirmedStateAt(block)) taken concurrently
		view  string // canonView taken concurrently
	}
	var samples []sample
	readers := 6
	for w := 0; w < readers; w++ {
		wg.Add(1)
		rr := rng.Fork(uint64(100 + w))
		go func() {
			defer wg.Done()
			defer func() {
				if p := recover(); p != nil {
					violate("concurrent-reader-panics", fmt.Sprintf("a reader using a view panicked: %v\n%s", p, clip(string(debug.Stack()))))
				}
			}()
			type held struct {
				v    preconfirmed.ChainReader
				hash string
				b    uint64
			}
			var keep []held
			for !stop.Load() {
				hd := head.Load()
				v := store.SnapshotForBlock(hd + 1)
				views.Add(1)
				if msg := validateView(&v, hd+1); msg != "" {
					violate("concurrent-"+msg, fmt.Sprintf("reader saw %s for head %d", msg, hd))
				}
				if v.Length() > 0 {
					nonEmpty.Add(1)
					if rr.Chance(1, 4) {
						// the diffs of this stage are arbitrary (no overlay oracle applies); what must hold
						// for any diffs: the state at a block and the state before index len(txs) of that
						// block read the same, and nothing panics
						if err, panicked, stack := lib.Try(func() error {
							tip := v.Head()
							sr, _, e1 := v.PreConfirmedStateAt(tip.Block.Number, node.bc)
							full, _, e2 := v.PreConfirmedStateBeforeIndexAt(tip.Block.Number, uint(len(tip.Block.Transactions)), node.bc)
							if (e1 == nil) != (e2 == nil) {
								violate("concurrent-state-at-and-before-last-index-disagree", fmt.Sprintf("PreConfirmedStateAt: %v, BeforeIndexAt(len): %v", e1, e2))
							} else if e1 == nil {
								a, b := reads(sr), reads(full)
								if a != b {
									violate("concurrent-state-at-and-before-last-index-disagree", fmt.Sprintf("block %d:\n at    : %s\n before: %s", tip.Block.Number, a, b))
								}
								stateReads.Add(1)
								if rr.Chance(1, 3) {
									cv := canonView(&v)
									mu.Lock()
									if len(samples) < 400 {
										samples = append(samples, sample{v: v, block: tip.Block.Number, at: a, view: cv})
									}
									mu.Unlock()
								}
							}
							return nil
						}); panicked {
							violate("concurrent-state-read-panics", fmt.Sprintf("a state read through a view panicked: %v\n%s", err, clip(stack)))
						}
					}
					if rr.Chance(1, 3) {
						hsh := lib.Pick(rr, uniHashes)
						if msg := lookupOracle(&v, hsh); msg != "" {
							violate("concurrent-"+msg, fmt.Sprintf("lookup of hash %d in the view for head %d", hsh, hd))
						}
					}
					if len(keep) < 64 || rr.Chance(1, 8) {
						hv := held{v: v, hash: deepHash(&v), b: hd + 1}
						if len(keep) < 64 {
							keep = append(keep, hv)
						} else {
							keep[rr.Intn(len(keep))] = hv
						}
					}
				}
				if len(keep) > 0 && rr.Chance(1, 5) {
					k := &keep[rr.Intn(len(keep))]
					if now := deepHash(&k.v); now != k.hash {
						violate("concurrent-held-snapshot-changed", fmt.Sprintf("a held view for block %d changed: was %q now %q", k.b, clip(k.hash), clip(now)))
						k.hash = now
					}
				}
			}
			for i := range keep {
				if now := deepHash(&keep[i].v); now != keep[i].hash {
					violate("concurrent-held-snapshot-changed", fmt.Sprintf("a held view for block %d changed: was %q now %q", keep[i].b, clip(keep[i].hash), clip(now)))
				}
			}
		}()
	}
	done := lib.WithDeadline(600*time.Second, func() {
		for opIdx, o := range ops {
			switch o.Op {
			case "apply":
				err, panicked, _ := lib.Try(func() error {
					_, _ = store.ApplyUpdate(o.U.wire(o.Num), o.Num, o.BaseTx, o.Oldest, classMap(o.Classes))
					return nil
				})
				if panicked && o.U != nil && o.U.Malform != "" {
					outside.Add(1) // outside the adapters' contract (Validate): counted, never a violation
				} else if panicked {
					violate("concurrent-writer-panics", fmt.Sprint(err))
				}
			case "advance":
				store.AdvanceTo(o.Oldest)
			case "head":
				head.Store(o.Head)
			}
			// pacing by COUNT, not by time: the next writer op waits until the readers have taken a dozen more
			// views, so that every state of the storage is met by readers in the middle of their work (without it
			// the writer is through its history before the readers have finished a handful of non-empty views)
			if h.f.Thorough() && opIdx%4 != 0 {
				continue // thorough: 7.5 times the ops per round; every fourth op is paced
			}
			for target := views.Load() + 4; views.Load() < target; {
				runtime.Gosched()
			}
		}
		stop.Store(true)
		wg.Wait()
	})
	stop.Store(true)
	if !done {
		violate("concurrent-stage-hangs", "writer/readers did not finish within 600s")
	} else {
		for i := range samples {
			sm := &samples[i]
			if now := canonView(&sm.v); now != sm.view {
				violate("concurrent-view-read-differs-from-quiescent-read", fmt.Sprintf("a view iterated while the writer and other readers ran read %q, the same held view iterated afterwards %q", clip(sm.view), clip(now)))
				continue
			}
			if err, panicked, _ := lib.Try(func() error {
				sr, _, e := sm.v.PreConfirmedStateAt(sm.block, node.bc)
				if e != nil {
					violate("concurrent-state-read-differs-from-quiescent-read", fmt.Sprintf("PreConfirmedStateAt(%d) on a held view succeeded concurrently and fails afterwards: %v", sm.block, e))
					return nil
				}
				if now := reads(sr); now != sm.at {
					violate("concurrent-state-read-differs-from-quiescent-read", fmt.Sprintf("PreConfirmedStateAt(%d) through a held view, read while the writer and other readers ran:\n %s\nthe same read on the same view afterwards:\n %s", sm.block, sm.at, now))
				}
				return nil
			}); panicked {
				violate("concurrent-state-read-panics", fmt.Sprint(err))
			}
		}
		h.res.HitN("concurrent-reads-rechecked-at-quiescence", len(samples))
	}
	h.res.HitN("concurrent-writer-ops", len(ops))
	h.res.HitN("concurrent-reader-views", int(views.Load()))
	h.res.HitN("concurrent-reader-views-nonempty", int(nonEmpty.Load()))
	h.res.HitN("concurrent-state-reads-cross-checked", int(stateReads.Load()))
	h.res.HitN("outside-contract-update-panics-in-applyupdate", int(outside.Load()))
	h.res.Case(fmt.Sprintf("conc/%d/%d", h.f.Seed, round), true)
	for _, f := range found {
		h.res.Violate(lib.Violation{Sig: f.sig, What: f.what,
			Replay: map[string]any{"kind": "concurrent", "seed": h.f.Seed, "round": round, "writer_ops": len(ops), "readers": readers}})
	}
}

// validateView is the reader-side check: gap-free and starting exactly at b.
func validateView(v *preconfirmed.ChainReader, b uint64) string {
	var nf []*pending.PreConfirmed
	for e := range v.NewestFirst() {
		nf = append(nf, e)
	}
	if len(nf) != v.Length() {
		return "view-length-differs-from-entries"
	}
	for i, e := range nf {
		if e == nil || e.Block == nil || e.Block.Header == nil {
			return "view-has-nil-entry"
		}
		if i > 0 && e.Block.Number+1 != nf[i-1].Block.Number {
			return "view-not-contiguous"
		}
	}
	if len(nf) > 0 && nf[len(nf)-1].Block.Number != b {
		return "view-not-aligned-to-head"
	}
	return ""
}

// ---- the concurrent stage runs in a child process ------------------------------------------------
// An unsynchronised map access is a Go *fatal error* (not a panic) and a race report of a -race
// build ends the process: neither can be recovered in-process, and they must not take the results
// of the sequential stages with them.

func (h *harness) runChild(bin string, extraEnv []string, tag string) {
	out, err := os.CreateTemp("", "c20-conc-*.json")
	if err != nil {
		h.res.Fatalf("concurrent stage: cannot create the child result file: %v", err)
		return
	}
	out.Close()
	defer os.Remove(out.Name())
	args := []string{"--mode", "conc", "--seed", fmt.Sprint(h.f.Seed), "--tier", h.f.Tier, "--out", out.Name()}
	cmd := exec.Command(bin, args...)
	cmd.Env = append(os.Environ(), extraEnv...)
	var stderr bytes.Buffer
	cmd.Stderr = &stderr
	cmd.Stdout = &stderr
	runErr := cmd.Run()
	text := stderr.String()
	var child struct {
		Cases        int             `json:"cases"`
		Distribution map[string]int  `json:"distribution"`
		Violations   []lib.Violation `json:"violations"`
		Notes        []string        `json:"notes"`
		Fatal        []string        `json:"fatal"`
	}
	b, _ := os.ReadFile(out.Name())
	parsed := len(b) > 0 && json.Unmarshal(b, &child) == nil
	if parsed {
		for k, v := range child.Distribution {
			h.res.HitN(tag+k, v)
		}
		for i := 0; i < child.Cases; i++ {
			h.res.Case(fmt.Sprintf("%sconc/%d/%d", tag, h.f.Seed, i), true)
		}
		for _, v := range child.Violations {
			h.res.Violate(v)
		}
		for _, n := range child.Notes {
			h.res.Note("%s%s", tag, n)
		}
		for _, ft := range child.Fatal {
			h.res.Fatalf("%schild: %s", tag, ft)
		}
	}
	replay := map[string]any{"kind": "concurrent", "seed": h.f.Seed, "tier": h.f.Tier, "race_build": tag != ""}
	switch {
	case strings.Contains(text, "DATA RACE"):
		h.res.Violate(lib.Violation{Sig: "data-race-between-writer-and-readers",
			What: "the race detector reports unsynchronised access while one writer updates the chain and readers use views:\n" + raceExcerpt(text), Replay: replay})
	case strings.Contains(text, "concurrent map"):
		h.res.Violate(lib.Violation{Sig: "concurrent-map-access-between-writer-and-readers",
			What: "Go runtime fatal error while one writer updates the chain and readers use views:\n" + tail(text, 1500), Replay: replay})
	case runErr != nil || !parsed:
		h.res.Violate(lib.Violation{Sig: "concurrent-stage-crashes",
			What: fmt.Sprintf("child process of the concurrent stage failed (%v):\n%s", runErr, tail(text, 1500)), Replay: replay})
	}
}

func tail(s string, n int) string {
	if len(s) > n {
		return s[len(s)-n:]
	}
	return s
}

func raceExcerpt(s string) string {
	i := strings.Index(s, "WARNING: DATA RACE")
	if i < 0 {
		return tail(s, 1500)
	}
	s = s[i:]
	if len(s) > 2500 {
		s = s[:2500]
	}
	return s
}

func (h *harness) concurrentChild() {
	self, err := os.Executable()
	if err != nil {
		h.res.Fatalf("concurrent stage: cannot locate own executable: %v", err)
		return
	}
	h.runChild(self, nil, "")
	if !h.f.Thorough() || *noRace {
		return
	}
	// thorough tier: the same stage again, built with the race detector
	bin, err := buildRaceTwin()
	if err != nil {
		h.res.Fatalf("thorough tier: the -race twin of the concurrent stages could not be built: %v", err)
		return
	}
	h.runChild(bin, []string{"GORACE=halt_on_error=1 exitcode=66"}, "race:")
}

// buildRaceTwin compiles this harness with -race against the same juno tree the check uses.
func buildRaceTwin() (string, error) {
	repo := os.Getenv("VERIF_REPO")
	if repo == "" {
		repo = "/repo"
	}
	tag := ""
	args := []string{"build", "-race"}
	if repo != "/repo" {
		sum := sha1.Sum([]byte(repo))
		tag = "-" + hex.EncodeToString(sum[:])[:8]
		args = append(args, "-modfile=/verif/.build/go"+tag+".mod")
	}
	bin := "/verif/.build/vh-c20-race" + tag
	args = append(args, "-tags", "verif", "-o", bin, "./cmd/c20")
	cmd := exec.Command("go", args...)
	cmd.Dir = "/verif/harness"
	cmd.Env = os.Environ()
	if out, err := cmd.CombinedOutput(); err != nil {
		return "", fmt.Errorf("%v: %s", err, tail(string(out), 600))
	}
	return bin, nil
}

// ---- exhaustive stage ------------------------------------------------------------------------------

// exhaustAlphabet is a small alphabet of writer ops around head 0 (blocks 1..3) chosen so that
// every relation between an update and the chain occurs: bootstrap at the right / wrong height,
// extend, same round richer / not richer, new round at the tip and at an inner slot (truncation),
// blank identifier, delta and no-change at tip and non-tip, unaligned oldestPreConf, gap, and every
// AdvanceTo outcome (no-op, partial drop, drop to the tip, drop all, below the chain).
func exhaustAlphabet() []OpSpec {
	t := func(h uint64) TxSpec { return tx(h, h, DiffSpec{S: [][3]uint64{{100, h % 3, h}}}) }
	return []OpSpec{
		blockOp(1, 1, "x", nil),
		blockOp(1, 1, "x", nil, t(1)),
		blockOp(1, 1, "y", [][2]uint64{{200, 2200}}),
		blockOp(1, 1, "0x0", nil, t(2), t(3)),
		blockOp(2, 1, "x", nil, t(4)),
		blockOp(2, 1, "y", nil),
		blockOp(2, 2, "z", nil),
		blockOp(3, 1, "x", nil),
		blockOp(3, 2, "w", nil, t(5)),
		{Op: "apply", U: &UpdateSpec{Kind: "D", Ident: "x", Txs: []TxSpec{t(6)}}, Num: 1, BaseTx: 0, Oldest: 1},
		{Op: "apply", U: &UpdateSpec{Kind: "D", Ident: "x", Txs: []TxSpec{t(7)}}, Num: 2, BaseTx: 1, Oldest: 1},
		{Op: "apply", U: &UpdateSpec{Kind: "N"}, Num: 2, Oldest: 1, Classes: [][2]uint64{{201, 2201}}},
		{Op: "apply", U: &UpdateSpec{Kind: "N"}, Num: 1, Oldest: 1, Classes: [][2]uint64{{200, 2200}}},
		{Op: "advance", Oldest: 1},
		{Op: "advance", Oldest: 2},
		{Op: "advance", Oldest: 3},
		{Op: "advance", Oldest: 0},
	}
}

// exhaustive runs EVERY sequence of at most `depth` ops over the alphabet on the real storage and
// the model, with the full validation after every op.
func (h *harness) exhaustive(depth int) {
	alpha := exhaustAlphabet()
	var seqs [][]int
	var rec func(prefix []int)
	rec = func(prefix []int) {
		if len(prefix) == depth {
			seqs = append(seqs, append([]int{}, prefix...))
			return
		}
		for i := range alpha {
			rec(append(prefix, i))
		}
	}
	rec(nil) // sequences of exactly `depth` ops; every shorter sequence is a prefix of one of them
	h.parallel(len(seqs), func(w *harness, i int) {
		scn := &Scenario{Kind: "seq", Head: 0}
		for _, j := range seqs[i] {
			scn.Ops = append(scn.Ops, alpha[j])
		}
		r, err := runScenario(scn, w.drv != nil)
		if err != nil {
			w.res.Fatalf("exhaustive stage: setup failed: %v", err)
			return
		}
		w.compare(r, scn)
		w.report(r, scn)
		w.res.Case(fmt.Sprintf("exh/%v", seqs[i]), r.nontriv)
		for k, v := range r.hits {
			w.res.HitN(k, v)
		}
	})
	h.res.HitN(fmt.Sprintf("exhaustive-sequences-depth-%d", depth), len(seqs))
}

// lookupOracle: TransactionByHash / ReceiptByHash of a view against the view's own entries (a hit
// is an item of the view with that hash, a miss means the view holds none). "" if right.
func lookupOracle(v *preconfirmed.ChainReader, hash uint64) string {
	h := fe(hash)
	anyTx, anyRc := false, false
	for e := range v.NewestFirst() {
		for _, x := range e.Block.Transactions {
			if x != nil && x.Hash().Equal(h) {
				anyTx = true
			}
		}
		for _, x := range e.Block.Receipts {
			if x != nil && x.TransactionHash.Equal(h) {
				anyRc = true
			}
		}
	}
	tx, err := v.TransactionByHash(h)
	switch {
	case err == nil:
		ok := false
		for e := range v.NewestFirst() {
			for _, x := range e.Block.Transactions {
				if x == tx {
					ok = true
				}
			}
		}
		if !ok || !tx.Hash().Equal(h) {
			return "tx-lookup-returns-item-not-of-the-view"
		}
	case anyTx:
		return "tx-lookup-misses-item-of-the-view"
	}
	rc, num, err := v.ReceiptByHash(h)
	switch {
	case err == nil:
		ok := false
		for e := range v.NewestFirst() {
			if e.Block.Number != num {
				continue
			}
			for _, x := range e.Block.Receipts {
				if x == rc {
					ok = true
				}
			}
		}
		if !ok || !rc.TransactionHash.Equal(h) {
			return "receipt-lookup-returns-item-not-of-the-view"
		}
	case anyRc:
		return "receipt-lookup-misses-item-of-the-view"
	}
	return ""
}
