//go:build verif

package main

import (
	"context"
	"errors"
	"fmt"
	"sort"
	"strings"
	"sync"
	"sync/atomic"
	"time"

	"github.com/NethermindEth/juno/blockchain"
	"github.com/NethermindEth/juno/core"
	"github.com/NethermindEth/juno/core/felt"
	"github.com/NethermindEth/juno/core/pending"
	"github.com/NethermindEth/juno/feed"
	"github.com/NethermindEth/juno/starknet"
	"github.com/NethermindEth/juno/sync/preconfirmed"
	"go.uber.org/zap"
	"go.uber.org/zap/zapcore"
	"verif/harness/lib"
)

// ---------------------------------------------------------------------------------------------
// Scripted-poller stage ("pscript"): the REAL preconfirmed.Poller (Run -> tick -> backfill -> apply
// -> fetchDeclaredClasses) is the writer, driven TICK BY TICK and deterministically: its DataSource
// blocks in PreConfirmedBlockLatest until the stage hands it the answers of that tick (latest poll,
// every by-number poll, every Class call: full block / delta / no-change x same / other identifier x
// declaring / not declaring x latest ahead or not x failures), while the canonical head of a real
// Blockchain advances and reverts between ticks and the cached highest header is ahead / absent for
// a while. Since the latest poll is the first thing a tick does after its prelude (Height, AdvanceTo,
// atTip, SnapshotForBlock), the arrival of the NEXT latest poll means the tick is complete.
//
// Compared with the Lean model of the poller (Poller.lean `tick`), per tick: the hints of the latest
// poll, the sequence of endpoint calls with their arguments (by-number polls, the class hashes of
// every fetch), the error class the tick returns (captured from its logger), the entries sent to
// the feed, and the whole storage (every SnapshotForBlock(b), entry by entry incl. NewClasses).
//
// Property oracles on the real objects after every tick: everything the seq stage checks of a view
// (contiguity, alignment, re-hash of every view ever held), plus — the poller being the writer —
// the class clause: every entry carries definitions only of classes its own block declares, and
// Class(h) through PreConfirmedStateAt(b), for every class hash of the universe and every slot of
// every view, resolves from the overlay only if one of the view's blocks up to b declares h.
// ---------------------------------------------------------------------------------------------

type PollSpec struct {
	N    uint64      `json:"n,omitempty"`
	Fail bool        `json:"fail,omitempty"`
	U    *UpdateSpec `json:"u,omitempty"`
}

type TickSpec struct {
	// HeadOp (advance | revert) moves the canonical head while the poller waits in this tick's latest
	// poll, i.e. AFTER this tick's prelude: the tick itself still works with the old height (the
	// realistic race), the next tick's prelude sees the new one.
	HeadOp      string      `json:"head_op,omitempty"`
	HeadDiff    *DiffSpec   `json:"head_diff,omitempty"`
	HeadClasses [][2]uint64 `json:"head_classes,omitempty"`
	// NotAtTip (ahead | nil): after this tick the cached highest header is ahead of the head / absent
	// for a while (the poller only realigns), then restored.
	NotAtTip  string     `json:"not_at_tip,omitempty"`
	Latest    PollSpec   `json:"latest"`
	ByNum     []PollSpec `json:"bynum,omitempty"`
	ClassFail []uint64   `json:"class_fail,omitempty"`
	DefSalt   uint64     `json:"def_salt,omitempty"`
}

func (t *TickSpec) byNum(n uint64) *PollSpec {
	for i := range t.ByNum {
		if t.ByNum[i].N == n {
			return &t.ByNum[i]
		}
	}
	return nil
}

func psDef(h, salt uint64) uint64 { return 3000 + h + 10*salt }

func updWords(p *PollSpec) string {
	if p == nil || p.Fail || p.U == nil {
		return "F _ 0 -"
	}
	switch p.U.Kind {
	case "B":
		v := 0
		if p.U.VerOk {
			v = 1
		}
		return fmt.Sprintf("B %s %d %s", identTok(p.U.Ident), v, txsLine(p.U.Txs))
	case "D":
		return fmt.Sprintf("D %s 0 %s", identTok(p.U.Ident), txsLine(p.U.Txs))
	}
	return "N _ 0 -"
}

func (t *TickSpec) line(height uint64, hiTok string) string {
	defs := make([][2]uint64, len(uniCH))
	for i, h := range uniCH {
		defs[i] = [2]uint64{h, psDef(h, t.DefSalt)}
	}
	var b strings.Builder
	fmt.Fprintf(&b, "ptick %d %s %s %s %d %s", height, hiTok, joinU(t.ClassFail), pairsStr(defs), t.Latest.N, updWords(&t.Latest))
	for i := range t.ByNum {
		fmt.Fprintf(&b, " %d %s", t.ByNum[i].N, updWords(&t.ByNum[i]))
	}
	return b.String()
}

// ---- the scripted data source ---------------------------------------------------------------------

type psCall struct {
	kind   string // lt | bn | cl
	n      uint64
	ident  string
	txc    uint64
	failed bool
}

type psArrive struct {
	ident string
	txc   uint64
}

var errScript = errors.New("scripted data source: this call fails")

type scriptSource struct {
	arrive  chan psArrive
	release chan *TickSpec
	done    chan struct{}
	cur     *TickSpec // owned by the poller goroutine between a release and the next arrive
	calls   []psCall  // ditto; the stage reads it while the poller waits for the release
}

func newScriptSource() *scriptSource {
	return &scriptSource{arrive: make(chan psArrive), release: make(chan *TickSpec), done: make(chan struct{})}
}

func (s *scriptSource) PreConfirmedBlockLatest(_ context.Context, ident string, txCount uint64) (starknet.PreConfirmedUpdate, uint64, error) {
	select {
	case s.arrive <- psArrive{ident, txCount}:
	case <-s.done:
		return nil, 0, errScript
	}
	select {
	case t := <-s.release:
		s.cur = t
	case <-s.done:
		return nil, 0, errScript
	}
	p := &s.cur.Latest
	s.calls = []psCall{{kind: "lt", ident: ident, txc: txCount, failed: p.Fail || p.U == nil}}
	if p.Fail || p.U == nil {
		return nil, 0, errScript
	}
	return p.U.wire(p.N), p.N, nil
}

func (s *scriptSource) PreConfirmedBlockByNumber(_ context.Context, n uint64, ident string, txCount uint64) (starknet.PreConfirmedUpdate, error) {
	var p *PollSpec
	if s.cur != nil {
		p = s.cur.byNum(n)
	}
	failed := p == nil || p.Fail || p.U == nil
	s.calls = append(s.calls, psCall{kind: "bn", n: n, ident: ident, txc: txCount, failed: failed})
	if failed {
		return nil, errScript
	}
	return p.U.wire(n), nil
}

func (s *scriptSource) Class(_ context.Context, h *felt.Felt) (core.ClassDefinition, error) {
	x := h.Uint64()
	failed := s.cur == nil
	if s.cur != nil {
		for _, f := range s.cur.ClassFail {
			if f == x {
				failed = true
			}
		}
	}
	known := false
	for _, u := range uniCH {
		if u == x && h.Cmp(fe(x)) == 0 {
			known = true
		}
	}
	if !known {
		failed = true // the model is told definitions for the universe only
	}
	s.calls = append(s.calls, psCall{kind: "cl", n: x, failed: failed})
	if failed {
		return nil, errScript
	}
	return classDef(psDef(x, s.cur.DefSalt)), nil
}

// callsText renders the recorded endpoint calls of one tick in the model's format.
func callsText(calls []psCall) string {
	var out []string
	for i := 0; i < len(calls); i++ {
		c := calls[i]
		switch c.kind {
		case "lt":
			out = append(out, fmt.Sprintf("lt(%s,%d)", identTok(c.ident), c.txc))
		case "bn":
			out = append(out, fmt.Sprintf("bn(%d,%s,%d)", c.n, identTok(c.ident), c.txc))
			if c.failed {
				continue
			}
			// the Class calls of the fetchDeclaredClasses that follows a successful by-number poll
			var hs []uint64
			failed := false
			for i+1 < len(calls) && calls[i+1].kind == "cl" {
				i++
				hs = append(hs, calls[i].n)
				failed = failed || calls[i].failed
			}
			if failed {
				out = append(out, "fetchfail")
			} else {
				sort.Slice(hs, func(a, b int) bool { return hs[a] < hs[b] })
				s := make([]string, len(hs))
				for j, h := range hs {
					s[j] = fmt.Sprint(h)
				}
				out = append(out, "fetch("+strings.Join(s, ",")+")")
			}
		case "cl":
			out = append(out, fmt.Sprintf("stray-class-call(%d)", c.n))
		}
	}
	return strings.Join(out, " ; ")
}

// ---- the poller's logger: the error a tick returns is only visible there ----------------------------

type captureLogger struct {
	mu   sync.Mutex
	errs []error
}

func (l *captureLogger) Debug(string, ...zap.Field) {}
func (l *captureLogger) Info(string, ...zap.Field)  {}
func (l *captureLogger) Error(string, ...zap.Field) {}
func (l *captureLogger) Trace(string, ...zap.Field) {}
func (l *captureLogger) Warn(msg string, fields ...zap.Field) {
	var err error = errors.New(msg)
	for _, f := range fields {
		if f.Type == zapcore.ErrorType {
			if e, ok := f.Interface.(error); ok {
				err = e
			}
		}
	}
	l.mu.Lock()
	l.errs = append(l.errs, err)
	l.mu.Unlock()
}

func (l *captureLogger) take() []error {
	l.mu.Lock()
	defer l.mu.Unlock()
	out := l.errs
	l.errs = nil
	return out
}

func tickStatus(errs []error) string {
	if len(errs) == 0 {
		return "ok"
	}
	err := errs[len(errs)-1]
	m := err.Error()
	switch {
	case strings.Contains(m, "polling latest pre-confirmed"):
		return "err:latest"
	case strings.Contains(m, "polling pre-confirmed for number"):
		return "err:bynum"
	case strings.Contains(m, "fetching declared classes"):
		return "err:fetch"
	case strings.Contains(m, "applying pre-confirmed"):
		if c := classifyApplyError(err); c != "" {
			return "err:apply:" + c
		}
		return "err:apply"
	case strings.Contains(m, "reading chain height"):
		return "err:height"
	}
	return "err"
}

// ---- the class clause on real objects ---------------------------------------------------------------

// declaredBy: the class hashes the entry's own per-transaction diffs declare (cairo0 and sierra).
func declaredBy(e *pending.PreConfirmed) map[felt.Felt]bool {
	out := map[felt.Felt]bool{}
	for _, d := range e.TransactionStateDiffs {
		if d == nil {
			continue
		}
		for _, h := range d.DeclaredV0Classes {
			if h != nil {
				out[*h] = true
			}
		}
		for h := range d.DeclaredV1Classes {
			out[h] = true
		}
	}
	return out
}

// entryClassOracle (valid when the POLLER is the writer): every definition registered on an entry is of
// a class that entry's own block declares.
func entryClassOracle(v *preconfirmed.ChainReader) (string, string) {
	for e := range v.NewestFirst() {
		if e == nil || e.Block == nil || len(e.NewClasses) == 0 {
			continue
		}
		decl := declaredBy(e)
		for h := range e.NewClasses {
			if !decl[h] {
				return "entry-carries-class-its-block-does-not-declare",
					fmt.Sprintf("block %d (%s) carries the definition of class %s in NewClasses; its %d transactions declare %d classes, not that one",
						e.Block.Number, e.BlockIdentifier, fv(&h), len(e.TransactionStateDiffs), len(decl))
			}
		}
	}
	return "", ""
}

// viewClassOracle: for every slot b of the view and every class hash of the universe, Class(h) through
// PreConfirmedStateAt(b) may resolve only if one of the view's blocks up to b declares h or the
// canonical state below the view has it. Returns the number of lookups checked.
func viewClassOracle(bc blockchain.Reader, v *preconfirmed.ChainReader, hashes []uint64) (string, string, int) {
	if v.Length() == 0 {
		return "", "", 0
	}
	var oldest uint64
	for e := range v.OldestFirst() {
		oldest = e.Block.Number
		break
	}
	if oldest == 0 {
		return "", "", 0
	}
	base, _, err := bc.StateAtBlockNumber(oldest - 1)
	if err != nil {
		return "", "", 0
	}
	n := 0
	declared := map[felt.Felt]bool{}
	for e := range v.OldestFirst() {
		for h := range declaredBy(e) {
			declared[h] = true
		}
		sr, _, err := v.PreConfirmedStateAt(e.Block.Number, bc)
		if err != nil {
			continue
		}
		for _, x := range hashes {
			hf := fe(x)
			n++
			c, err := sr.Class(hf)
			if err != nil || declared[*hf] {
				continue
			}
			if bcls, berr := base.Class(hf); berr == nil && bcls != nil && c != nil && classID(bcls.Class) == classID(c.Class) {
				continue
			}
			return "view-resolves-class-no-block-of-the-view-declares",
				fmt.Sprintf("view of blocks %d..%d: PreConfirmedStateAt(%d).Class(%d) resolves (definition %s) although none of the view's blocks up to %d declares class %d and the canonical state at %d does not answer it so",
					oldest, oldest+uint64(v.Length())-1, e.Block.Number, x, classID(c.Class), e.Block.Number, x, oldest-1), n
		}
	}
	return "", "", n
}

// ---- the engine ---------------------------------------------------------------------------------------

type psState struct {
	tick      int
	height    uint64 // canonical height now (the prelude of the waiting tick saw it)
	ci        chainInfo
	hintIdent string
	hintTx    uint64
	canon     *abs // abstract canonical state at height (for drawing the next canonical block)
}

const psArriveDeadline = 300 * time.Second

// runPScript runs a scripted-poller scenario. next == nil replays scn.Ticks; otherwise next draws
// tick k given the real state (and the tick is recorded into scn.Ticks). nTicks bounds a generated run.
func runPScript(scn *Scenario, withDrv bool, nTicks int, next func(*psState) *TickSpec) (*runner, error) {
	r := &runner{scn: scn, hits: map[string]int{}, withDrv: withDrv}
	if err := r.setup(); err != nil {
		return r, err
	}
	if next == nil {
		nTicks = len(scn.Ticks)
	}
	node := r.base
	_, states := replayBaseStates(scn.Base)
	height := func() uint64 { return uint64(node.height - 1) }
	var highest atomic.Pointer[core.Header]
	hiTok := "-"
	setHighest := func(mode string) {
		hd, err := node.bc.HeadsHeader()
		if err != nil {
			highest.Store(nil)
			hiTok = "-"
			return
		}
		switch mode {
		case "nil":
			highest.Store(nil)
			hiTok = "-"
		case "ahead":
			a := *hd
			a.Number = hd.Number + 2
			highest.Store(&a)
			hiTok = fmt.Sprint(a.Number)
		default:
			highest.Store(hd)
			hiTok = fmt.Sprint(hd.Number)
		}
	}
	setHighest("")
	src := newScriptSource()
	logger := &captureLogger{}
	out := feed.New[*pending.PreConfirmed]()
	sub := out.Subscribe()
	var pubMu sync.Mutex
	var implPubs []string
	subDone := make(chan struct{})
	go func() {
		defer close(subDone)
		for e := range sub.Recv() {
			s := canonEntry(e)
			pubMu.Lock()
			implPubs = append(implPubs, s)
			pubMu.Unlock()
		}
	}()
	poller := preconfirmed.NewPoller(src, r.store, node.bc, out, &highest, 100*time.Microsecond, logger)
	ctx, cancel := context.WithCancel(context.Background())
	runDone := make(chan string, 1)
	go func() {
		err, panicked, stack := lib.Try(func() error { poller.Run(ctx); return nil })
		if panicked {
			runDone <- fmt.Sprintf("%v\n%s", err, clip(stack))
		} else {
			runDone <- ""
		}
	}()
	stopAll := func() {
		cancel()
		close(src.done)
		select {
		case <-runDone:
		case <-time.After(20 * time.Second):
			r.fatal = append(r.fatal, "pscript: Poller.Run did not return within 20s of cancellation")
		}
		sub.Unsubscribe()
		<-subDone
	}
	rebase := func(op int) {
		for n := uint64(0); n <= height()+1; n++ {
			sr, _, err := node.bc.StateAtBlockNumber(n)
			if err != nil {
				r.ask(op, "exact", fmt.Sprintf("unbase %d", n), "ok")
				continue
			}
			t, err := baseTable(sr)
			if err != nil {
				r.fatal = append(r.fatal, fmt.Sprintf("pscript: reading the canonical state at %d: %v", n, err))
				return
			}
			r.ask(op, "exact", fmt.Sprintf("base %d %s", n, t), "ok")
		}
	}
	pendingAsk := -1 // index in r.asks of the ptick line whose implementation answer is still open
	finalize := func() {
		status := tickStatus(logger.take())
		impl := fmt.Sprintf("%s | %s", status, callsText(src.calls))
		r.hit("pscript-tick-" + status)
		for _, c := range src.calls {
			switch {
			case c.kind == "bn":
				r.hit("pscript-bynumber-polls")
			case c.kind == "cl":
				r.hit("pscript-class-fetches")
			}
		}
		if pendingAsk >= 0 {
			r.asks[pendingAsk].impl = impl
		}
		pendingAsk = -1
	}
	preH := height() // the height the waiting tick's prelude saw
	waitArrive := func() (psArrive, string) {
		select {
		case a := <-src.arrive:
			return a, ""
		case msg := <-runDone:
			runDone <- msg
			if msg != "" {
				return psArrive{}, "panic:" + msg
			}
			return psArrive{}, "returned"
		case <-time.After(psArriveDeadline):
			return psArrive{}, "deadline"
		}
	}
	// lost: the poller goroutine is gone or stuck; k = the tick that was running
	lost := func(k int, problem string) {
		switch {
		case strings.HasPrefix(problem, "panic:"):
			if pendingAsk >= 0 {
				r.asks[pendingAsk].impl = "panic"
			}
			r.violate(k+1, "pscript-poller-run-panics", "preconfirmed.Poller.Run panicked during a tick: "+strings.TrimPrefix(problem, "panic:"))
		case problem == "returned":
			r.fatal = append(r.fatal, "pscript: Poller.Run returned before cancellation")
		default:
			r.fatal = append(r.fatal, fmt.Sprintf("pscript: the poller did not poll within %s (tick %d)", psArriveDeadline, k))
		}
	}
	arr, problem := waitArrive() // the latest poll of tick 0
	if problem != "" {
		lost(0, problem)
		stopAll()
		return r, nil
	}
	for k := 0; ; k++ {
		// INVARIANT: arr is the latest poll of tick k (its prelude ran at height preH with the cached header
		// hiTok); tick k-1 is complete and its answer recorded.
		op := k // findings at op k: after ticks 0..k-1 (and the prelude of tick k)
		r.ask(op, "exact", fmt.Sprintf("ppre %d %s", preH, hiTok), fmt.Sprintf("tip(%s,%d)", identTok(arr.ident), arr.txc))
		// the storage after tick k-1 and the prelude of tick k; the reader's view is the one for the canonical height NOW
		r.head = height()
		r.observe(op, "poller-tick")
		r.pollerOracles(op, node.bc)
		if k >= nTicks {
			break
		}
		var t *TickSpec
		if next != nil {
			t = next(&psState{tick: k, height: height(), ci: inspect(r.store), hintIdent: arr.ident, hintTx: arr.txc,
				canon: states[height()]})
			scn.Ticks = append(scn.Ticks, *t)
		} else {
			t = &scn.Ticks[k]
		}
		tickHeight, tickHi := preH, hiTok
		r.classifyTick(t, &arr, inspect(r.store))
		// ---- the canonical head moves while the poller waits in the latest poll
		switch t.HeadOp {
		case "advance":
			st := states[height()].clone()
			d := DiffSpec{}
			if t.HeadDiff != nil {
				d = *t.HeadDiff
			}
			if err := node.finalise(d.coreDiff(), classMap(t.HeadClasses)); err != nil {
				r.fatal = append(r.fatal, fmt.Sprintf("pscript: the canonical node rejected a generated block: %v", err))
				stopAll()
				return r, nil
			}
			applyAbs(st, d)
			states = append(states[:height()], st)
			r.hit("pscript-head-advances")
			rebase(op)
		case "revert":
			if node.height > 1 {
				if err := node.bc.RevertHead(); err != nil {
					r.fatal = append(r.fatal, fmt.Sprintf("pscript: RevertHead: %v", err))
					stopAll()
					return r, nil
				}
				node.height--
				if hd, err := node.bc.HeadsHeader(); err == nil {
					node.lastHash, node.lastRoot = hd.Hash, hd.GlobalStateRoot
				}
				states = states[:node.height]
				r.hit("pscript-head-reverts")
				rebase(op)
			}
		}
		setHighest(t.NotAtTip) // read by the NEXT prelude (this tick's atTip check is over)
		preH = height()
		r.ask(k, "ptick", t.line(tickHeight, tickHi), "")
		if r.withDrv {
			pendingAsk = len(r.asks) - 1
		}
		src.release <- t
		if t.NotAtTip != "" {
			// The following preludes find the cached header ahead / absent: they only realign, no latest
			// poll may arrive. (How many of them run is not observable; AdvanceTo with one argument is
			// idempotent, so the storage is what ONE such prelude leaves.)
			r.hit("pscript-not-at-tip-phase")
			time.Sleep(3 * time.Millisecond)
			notipLine, impl := fmt.Sprintf("ppre %d %s", preH, hiTok), "notip"
			unexpected := false
			select {
			case a := <-src.arrive:
				arr, unexpected = a, true
				impl = fmt.Sprintf("tip(%s,%d)", identTok(a.ident), a.txc)
			default:
			}
			setHighest("")
			if !unexpected {
				if arr, problem = waitArrive(); problem != "" {
					lost(k, problem)
					break
				}
			}
			finalize()
			r.ask(k, "exact", notipLine, impl)
			continue
		}
		if arr, problem = waitArrive(); problem != "" {
			lost(k, problem)
			break
		}
		finalize()
	}
	stopAll()
	pubMu.Lock()
	r.implPubs = implPubs
	pubMu.Unlock()
	return r, nil
}

// applyAbs advances the generator's abstract canonical state by one block diff.
func applyAbs(st *abs, d DiffSpec) {
	for _, p := range d.D {
		st.class[p[0]] = p[1]
		st.nonce[p[0]] = 0
	}
	for _, p := range d.R {
		st.class[p[0]] = p[1]
	}
	for _, p := range d.N {
		st.nonce[p[0]] = p[1]
	}
	for _, h := range d.C0 {
		st.declared[h] = true
	}
}

// replayBaseStates: the abstract canonical state after each base block.
func replayBaseStates(base []BaseBlock) ([]BaseBlock, []*abs) {
	st := newAbs()
	var states []*abs
	for _, b := range base {
		applyAbs(st, b.Diff)
		states = append(states, st.clone())
	}
	return base, states
}

// pollerOracles: the class clause on the reader's view and on the widest view, and the model comparison
// of the state reads (class lookups included) at every slot of the reader's view.
func (r *runner) pollerOracles(op int, bc *blockchain.Blockchain) {
	seen := map[uint64]bool{}
	for _, b := range append([]uint64{r.head + 1}, r.probes()...) {
		v := r.store.SnapshotForBlock(b)
		if v.Length() == 0 || seen[b] {
			continue
		}
		seen[b] = true
		if sig, what := entryClassOracle(&v); sig != "" {
			r.violate(op, "pscript-"+sig, what)
		}
		sig, what, n := viewClassOracle(bc, &v, uniCH)
		r.hits["pscript-class-lookups-checked"] += n
		if sig != "" {
			r.violate(op, "pscript-"+sig, what)
		}
	}
	v := r.store.SnapshotForBlock(r.head + 1)
	for e := range v.OldestFirst() {
		r.step(op, OpSpec{Op: "state", Head: r.head + 1, Block: e.Block.Number})
		if len(e.NewClasses) > 0 {
			r.hit("pscript-view-slot-with-classes")
		}
	}
}

// classifyTick counts the shape of the script about to be played (the input distribution).
func (r *runner) classifyTick(t *TickSpec, arr *psArrive, ci chainInfo) {
	kind := func(p *PollSpec) string {
		if p == nil || p.Fail || p.U == nil {
			return "fail"
		}
		return map[string]string{"B": "full", "D": "delta", "N": "nochange"}[p.U.Kind]
	}
	declares := func(u *UpdateSpec) bool {
		for _, tx := range u.Txs {
			if len(tx.Diff.C0) > 0 || len(tx.Diff.C1) > 0 {
				return true
			}
		}
		return false
	}
	r.hit("pscript-latest-" + kind(&t.Latest))
	if len(t.ClassFail) > 0 {
		r.hit("pscript-tick-with-failing-class-fetch")
	}
	if ci.empty {
		r.hit("pscript-tick-on-empty-storage")
		return
	}
	jumped := !t.Latest.Fail && t.Latest.U != nil && t.Latest.U.Kind == "B" && t.Latest.N > ci.tip
	if !jumped {
		return
	}
	r.hit("pscript-latest-jumped-ahead")
	p := t.byNum(ci.tip)
	k := kind(p)
	tag := "pscript-repoll-old-tip-" + k
	if k != "fail" && k != "nochange" {
		if p.U.Ident == arr.ident {
			tag += "-same-ident"
		} else {
			tag += "-other-ident"
		}
		if declares(p.U) {
			tag += "-declaring"
		}
	}
	r.hit(tag)
	// the stored tip declares a class (seen through its block diff)
	tipDeclares := false
	tv := r.store.SnapshotForBlock(ci.tip)
	if e := tv.Head(); e != nil && e.StateUpdate != nil && e.StateUpdate.StateDiff != nil {
		d := e.StateUpdate.StateDiff
		tipDeclares = len(d.DeclaredV0Classes)+len(d.DeclaredV1Classes) > 0
	}
	if tipDeclares {
		r.hit("pscript-latest-jumped-ahead-over-declaring-tip")
		if k == "full" && p.U.Ident != arr.ident && p.U.Ident != "0x0" {
			r.hit("pscript-declaring-tip-REPLACED-BY-NEW-ROUND-on-repoll")
		}
	}
}
