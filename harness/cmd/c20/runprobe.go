//go:build verif

package main

import (
	"context"
	"fmt"
	"sync/atomic"
	"time"

	"github.com/NethermindEth/juno/core"
	"github.com/NethermindEth/juno/core/felt"
	"github.com/NethermindEth/juno/core/pending"
	"github.com/NethermindEth/juno/feed"
	"github.com/NethermindEth/juno/starknet"
	junosync "github.com/NethermindEth/juno/sync"
	"github.com/NethermindEth/juno/sync/preconfirmed"
	"github.com/NethermindEth/juno/utils/log"
	"verif/harness/lib"
)

// ---------------------------------------------------------------------------------------------
// Run probe (round 5): what the pscript stage cannot reach because it starts on a chain that has a
// head — Poller.Run around the ticks and the readers' entry point WITHOUT a canonical head:
//
//   (a) before genesis (empty Blockchain): the real Poller, ticking every 100 µs, must stay silent (no
//       endpoint call, no warning, storage empty: Poller.lean `runLoop`, theorem
//       poller_run_guard_and_ticks) and Synchronizer.PreConfirmedChain must hand out NO view
//       (`preConfirmedChain none … = error`);
//   (b) genesis arrives: the poller leaves its guard loop and polls; the reader's view is block 1;
//   (c) genesis is reverted under the running poller: every tick now fails in Height() ("reading chain
//       height") BEFORE touching anything — no endpoint call, the storage keeps what it had
//       (`tick_without_height`), and the readers again get an error instead of a view;
//   (d) polling disabled (interval 0): Run returns at once.
//
// Only schedule-independent facts are judged: "no call happened" is never made false by a slow
// machine; every wait for something that MUST happen has a generous deadline and is Fatal.
// ---------------------------------------------------------------------------------------------

type countSource struct {
	latest atomic.Int64
	other  atomic.Int64
	bc     interface{ Height() (uint64, error) }
}

func (s *countSource) PreConfirmedBlockLatest(context.Context, string, uint64) (starknet.PreConfirmedUpdate, uint64, error) {
	s.latest.Add(1)
	ht, err := s.bc.Height()
	if err != nil {
		return nil, 0, errScript
	}
	u := &UpdateSpec{Kind: "B", Ident: "g1", VerOk: true}
	return u.wire(ht + 1), ht + 1, nil
}

func (s *countSource) PreConfirmedBlockByNumber(context.Context, uint64, string, uint64) (starknet.PreConfirmedUpdate, error) {
	s.other.Add(1)
	return nil, errScript
}

func (s *countSource) Class(context.Context, *felt.Felt) (core.ClassDefinition, error) {
	s.other.Add(1)
	return nil, errScript
}

func (h *harness) askProbe(what, line, impl string) {
	if h.drv == nil {
		return
	}
	model, err := h.drv.Ask(line)
	if err != nil || model == "bad-op" {
		h.res.Fatalf("run probe: the Lean driver failed on %q: %v %s", line, err, model)
		return
	}
	h.res.Compared(1)
	if model != impl {
		h.res.Mismatch(lib.Mismatch{Sig: "model-differs:" + firstWord(line), Input: map[string]any{"probe": what, "line": line},
			Model: clip(model), Impl: clip(impl)})
	}
}

func (h *harness) runProbe() {
	for _, newState := range []bool{false, true} {
		h.runProbeOne(newState)
	}
}

func (h *harness) runProbeOne(newState bool) {
	replay := map[string]any{"kind": "run-probe", "new_state": newState}
	node := newNode(newState)
	syn := junosync.New(node.bc, nil, log.NewNopZapLogger(), 0, false, nil)
	var store *preconfirmed.ChainStorage
	if f, err := unexportedField(syn, "preConfirmed"); err != nil {
		h.res.Fatalf("run probe: cannot reach the Synchronizer's chain storage: %v", err)
		return
	} else if st, ok := f.Interface().(*preconfirmed.ChainStorage); !ok || st == nil {
		h.res.Fatalf("run probe: Synchronizer.preConfirmed is not a *ChainStorage")
		return
	} else {
		store = st
	}
	readerTok := func() string {
		var v preconfirmed.ChainReader
		var cerr error
		err, panicked, _ := lib.Try(func() error { v, cerr = syn.PreConfirmedChain(); return nil })
		switch {
		case panicked:
			h.res.Violate(lib.Violation{Sig: "reader-entry-panics", What: fmt.Sprintf("PreConfirmedChain panicked on a chain without a head: %v", err), Replay: replay})
			return "panic"
		case cerr != nil:
			return "err"
		}
		return canonView(&v)
	}
	noHead := func(phase string) {
		tok := readerTok()
		if tok != "err" && tok != "panic" {
			h.res.Violate(lib.Violation{Sig: "reader-entry-view-without-canonical-head",
				What:   fmt.Sprintf("%s: the chain has no head, yet Synchronizer.PreConfirmedChain handed out a view (%s): there is no canonical head it could start one above", phase, clip(tok)),
				Replay: replay})
		}
		impl := tok
		if tok == "err" {
			impl = "err:height"
		}
		h.askProbe(phase, "pcc - - 1", impl)
		h.res.Hit("run-probe-reader-without-head")
	}
	src := &countSource{bc: node.bc}
	logger := &captureLogger{}
	var highest atomic.Pointer[core.Header]
	out := feed.New[*pending.PreConfirmed]()
	poller := preconfirmed.NewPoller(src, store, node.bc, out, &highest, 100*time.Microsecond, logger)
	ctx, cancel := context.WithCancel(context.Background())
	runDone := make(chan string, 1)
	go func() {
		err, panicked, stack := lib.Try(func() error { poller.Run(ctx); return nil })
		if panicked {
			runDone <- fmt.Sprintf("%v\n%s", err, clip(stack))
		} else {
			runDone <- ""
		}
	}()
	defer func() {
		cancel()
		select {
		case msg := <-runDone:
			if msg != "" {
				h.res.Violate(lib.Violation{Sig: "poller-run-panics", What: "preconfirmed.Poller.Run panicked: " + msg, Replay: replay})
			}
		case <-time.After(60 * time.Second):
			h.res.Fatalf("run probe: Poller.Run did not return within 60s of cancellation")
		}
	}()
	calls := func() int64 { return src.latest.Load() + src.other.Load() }
	storeEmpty := func() bool {
		for b := uint64(0); b <= 3; b++ {
			if v := store.SnapshotForBlock(b); v.Length() != 0 {
				return false
			}
		}
		return true
	}
	waitFor := func(what string, cond func() bool) bool {
		deadline := time.Now().Add(300 * time.Second)
		for !cond() {
			if time.Now().After(deadline) {
				h.res.Fatalf("run probe: %s did not happen within 300s", what)
				return false
			}
			time.Sleep(200 * time.Microsecond)
		}
		return true
	}

	// ---- (a) before genesis
	noHead("before genesis")
	time.Sleep(15 * time.Millisecond) // ~150 ticker periods
	silent := calls() == 0 && len(logger.take()) == 0 && storeEmpty()
	impl := "wwww"
	if !silent {
		impl = fmt.Sprintf("not-silent(calls=%d,empty=%v)", calls(), storeEmpty())
	}
	h.askProbe("before genesis", "runloop 0 n nnnn", impl)
	h.res.Hit("run-probe-pre-genesis-silent")

	// ---- (b) genesis arrives
	if err := node.finalise(DiffSpec{D: [][2]uint64{{100, 300}}}.coreDiff(), nil); err != nil {
		h.res.Fatalf("run probe: genesis rejected: %v", err)
		return
	}
	hd, err := node.bc.HeadsHeader()
	if err != nil {
		h.res.Fatalf("run probe: no header after genesis: %v", err)
		return
	}
	highest.Store(hd)
	if !waitFor("the second latest poll after genesis", func() bool { return src.latest.Load() >= 2 }) {
		return
	}
	v := store.SnapshotForBlock(1)
	if msg := validateView(&v, 1); msg != "" || v.Length() != 1 {
		h.res.Violate(lib.Violation{Sig: "run-probe-" + orStr(msg, "view-not-block-1"),
			What: fmt.Sprintf("after genesis and a completed tick the view for head 0 is %s", canonView(&v)), Replay: replay})
	}
	entry := v.Head()
	if tok := readerTok(); tok != canonView(&v) {
		h.res.Violate(lib.Violation{Sig: "reader-entry-view-is-not-the-aligned-snapshot",
			What: fmt.Sprintf("head 0, storage holds block 1: PreConfirmedChain returned %s", clip(tok)), Replay: replay})
	}
	h.res.Hit("run-probe-polls-after-genesis")

	// ---- (c) genesis reverted under the running poller
	if err := node.bc.RevertHead(); err != nil {
		h.res.Fatalf("run probe: RevertHead of genesis: %v", err)
		return
	}
	node.height = 0
	heightErrs := 0
	countHeightErrs := func() int {
		for _, e := range logger.take() {
			if tickStatus([]error{e}) == "err:height" {
				heightErrs++
			}
		}
		return heightErrs
	}
	if !waitFor("a tick failing in Height() after the revert of genesis", func() bool { return countHeightErrs() >= 1 }) {
		return
	}
	c1 := calls()
	if !waitFor("three more ticks failing in Height()", func() bool { return countHeightErrs() >= 4 }) {
		return
	}
	c2 := calls()
	after := store.SnapshotForBlock(1)
	impl = "untouched"
	if c2 != c1 || after.Head() != entry {
		impl = fmt.Sprintf("calls %d -> %d, stored entry replaced: %v", c1, c2, after.Head() != entry)
		h.res.Mismatch(lib.Mismatch{Sig: "model-differs:tick-without-height", Input: replay,
			Model: "Poller.lean tick: Height() fails -> (storage unchanged, no call, err:height)", Impl: impl})
	}
	h.res.Compared(1)
	noHead("genesis reverted")
	h.res.Hit("run-probe-ticks-without-height")
	h.res.HitN("run-probe-height-errors-seen", heightErrs)
	h.res.Case(fmt.Sprintf("runprobe/%v", newState), true)

	// ---- (d) polling disabled
	src0 := &countSource{bc: node.bc}
	p0 := preconfirmed.NewPoller(src0, preconfirmed.NewChainStorage(), node.bc, out, &highest, 0, logger)
	ret := lib.WithDeadline(60*time.Second, func() { p0.Run(context.Background()) })
	impl = "off"
	if !ret || src0.latest.Load()+src0.other.Load() != 0 {
		impl = fmt.Sprintf("returned=%v calls=%d", ret, src0.latest.Load()+src0.other.Load())
	}
	h.askProbe("interval 0", "runloop 1 o nn", impl)
}

func orStr(a, b string) string {
	if a != "" {
		return a
	}
	return b
}
